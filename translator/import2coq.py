"""Translator: BatchNorm fusion / folding at import  ->  coq/Gen/ImportGen.v   (C07)

Reads with `ast`, in the tree under test,
  plinio/methods/pit/graph.py      remove_bn_inplace           -> remove_bn_inplace_gen  (+ remove_bn_inplace_ok)
                                   fuse_pit_modules (+ the nested fuse_into_copy), the call in convert()
                                                               -> fuse_pit_in_place, fuse_pit_copy  (constants)
  plinio/methods/mps/graph.py      fuse_bn_inplace             -> fuse_bn_inplace_gen    (+ fuse_bn_inplace_ok)
                                   fuse_mps_modules, the call in convert()  -> fuse_mps_in_place
  plinio/graph/transformation.py   fuse_consecutive_layers     -> fuse_step_gen, fuse_consecutive_layers_gen
  plinio/methods/pit/nn/{conv1d,conv2d,linear}.py
                                   PIT*.__init__ (what it does to weight / bias / bn / fold_bn)   -> pit_*_init_gen
                                   PIT*.forward                -> pit_*_forward_gen  (+ pit_*_forward_ok)
and emits Gallina over the vocabulary of Model/Import.v (plain, dot2, mask_row, b2q).  Proofs/ImportGen.v proves the
generated functions equal to the hand-written model (fold_w / fold_b / import_layer / pit_out / step_fuse).

How the code is read (TRUSTED typing conventions)
  * tensors are read for ONE output channel: a per-channel tensor (running_mean, running_var, bn.weight, bn.bias, the
    bias, the features mask) is one rational; the weight is the rows (input channels x taps) of that channel
    (list (list Q)); the time mask is a list of booleans over the taps.  Float arithmetic is read as exact rational
    arithmetic.  Broadcasting is checked: a per-channel value multiplies the weight only when reshaped to (C,1,..,1) of
    the weight's rank, the output only as (1,C,1,..,1); anything else is refused.
  * `torch.rsqrt(e)` (or `x / torch.sqrt(e)`) is `rsqrt e` for an ARBITRARY function rsqrt : Q -> Q (a section variable:
    every theorem holds for every such function), and contributes `0 < e` to the `*_ok` definedness predicate; a
    division contributes `divisor <> 0`.  `bn(y)` for a BatchNorm module in eval mode is bn_eval (fixed text below:
    (y - mean) * rsqrt(var + eps) * weight + bias, weight / bias absent = 1 / 0) -- torch's kernel, not read.
  * `t.copy_(e)` = the parameter becomes e; `x.bias = torch.nn.Parameter(e)` = the bias becomes e; `copy.deepcopy(bn)` =
    the same numbers; `cast(T, e)` = e; `with torch.no_grad():` is transparent; `self._conv_forward(input, w, b)` and
    `F.linear(input, w, b)` are `plain w b x` (the layer's own geometry; the class must not override _conv_forward).
  * fuse_consecutive_layers: the fx graph and the `modules` dict are an abstract state S; everything the loop reads of a
    node (op, args[0], targets, users, isinstance of the modules) is an observation function of (S, node), everything
    it does (fusion_fn, replace_node_module, replace_all_uses_with + erase_node) an effect on S -- section variables,
    instantiated with the object graph of Model/Import.v in Proofs/ImportGen.v.  `fused` / `n_fused` are
    insertion-ordered association lists.  Iterating `mod.graph.nodes` while erasing the current node visits every
    node of the initial list once (torch.fx; trusted).
  * class identity: the names PITConv1d, nn.BatchNorm1d ... are the classes of those names (imports are checked).
Structural checks (fail closed): the functions must have the expected signatures; the other methods of the three layer
classes must not write weight / bias / bn / fold_bn nor define _conv_forward / __call__ / __getattr__ / __setattr__;
PIT*.export is pinned by a digest of its AST (it re-creates the BatchNorm of a fused layer; it is C01's business, a
change there must be looked at); convert() of pit/graph.py and mps/graph.py must trace model.eval(), call the fusion
where expected and put the training flags back last.
Everything outside the subset raises Reject.
"""
import ast
import hashlib
import os


class Reject(Exception):
    pass


def _d(n):
    try:
        return ast.unparse(n)[:160]
    except Exception:
        return ast.dump(n)[:160]


def _strip(stmts):
    return [s for s in stmts if not (isinstance(s, ast.Expr) and isinstance(s.value, ast.Constant) and isinstance(s.value.value, str))]


def _u(n):
    return ast.unparse(n)


def conj(xs):
    xs = [x for x in xs if x != 'true']
    if not xs:
        return 'true'
    out = xs[0]
    for x in xs[1:]:
        out = '(%s && %s)' % (out, x)
    return out


# =============================================================================== typed values
class V:
    """t: Q (per-channel rational; shape = tuple over {'C', 1} or 'WB' = reshaped against a weight of symbolic rank),
    OQ (option Q), W (weights of the channel), T (time mask), Y (output activation), B (bool), BN, OBN"""

    def __init__(self, t, term, shape=None, ok='true'):
        self.t, self.term, self.shape, self.ok = t, term, shape, ok


class Cx:
    def __init__(self, fixed, state, rank=None, xname=None, narrowed=()):
        self.fixed = fixed          # unparse string -> V (read-only attributes / names)
        self.state = state          # unparse string of the attribute -> (coq variable, type)
        self.rank = rank            # rank of the weight tensor (None: symbolic)
        self.xname = xname          # name of the input activation argument
        self.narrowed = set(narrowed)


def _lit(v):
    from fractions import Fraction
    if isinstance(v, bool) or not isinstance(v, (int, float)):
        raise Reject('constant %r' % (v,))
    f = Fraction(repr(v)) if isinstance(v, float) else Fraction(v)
    return '%d' % f.numerator if f.denominator == 1 and f >= 0 else '(%d # %d)' % (f.numerator, f.denominator)


def _is_torch(n, names):
    return isinstance(n, ast.Call) and isinstance(n.func, ast.Attribute) and isinstance(n.func.value, ast.Name) and n.func.value.id == 'torch' \
        and n.func.attr in names and not n.keywords


def _wshape(rank):
    return ('C',) + (1,) * (rank - 1)


def _oshape(rank):
    return (1, 'C') + (1,) * (rank - 2)


def _align(shape, rank):
    if len(shape) > rank:
        return None
    return (1,) * (rank - len(shape)) + tuple(shape)


def lookup(n, env, cx):
    key = _u(n)
    if key in cx.state:
        return env['@' + cx.state[key][0]]
    if key in cx.fixed:
        return cx.fixed[key]
    if isinstance(n, ast.Name) and n.id in env:
        return env[n.id]
    return None


def ex(n, env, cx):
    """expression -> V"""
    v = lookup(n, env, cx)
    if v is not None:
        return v
    if isinstance(n, ast.Constant) and n.value is not None:
        return V('Q', _lit(n.value), ())
    # cast(T, e)
    if isinstance(n, ast.Call) and isinstance(n.func, ast.Name) and n.func.id == 'cast' and len(n.args) == 2 and not n.keywords:
        return ex(n.args[1], env, cx)
    if _is_torch(n, ('zeros_like', 'ones_like')) and len(n.args) == 1:
        a = ex(n.args[0], env, cx)
        if a.t != 'Q' or a.shape != ('C',):
            raise Reject('%s of something that is not a per-channel tensor: %s' % (n.func.attr, _d(n)))
        return V('Q', '0' if n.func.attr == 'zeros_like' else '1', ('C',))
    if _is_torch(n, ('rsqrt',)) and len(n.args) == 1:
        a = ex(n.args[0], env, cx)
        if a.t != 'Q':
            raise Reject('rsqrt of ' + _d(n.args[0]))
        return V('Q', '(rsqrt %s)' % a.term, a.shape, conj([a.ok, '(qlt_bool 0 %s)' % a.term]))
    if _is_torch(n, ('mul',)) and len(n.args) == 2:
        return binop(ast.Mult(), ex(n.args[0], env, cx), ex(n.args[1], env, cx), n)
    if isinstance(n, ast.BinOp) and isinstance(n.op, ast.Div) and _is_torch(n.right, ('sqrt',)) and len(n.right.args) == 1:
        a, e = ex(n.left, env, cx), ex(n.right.args[0], env, cx)
        r = V('Q', '(rsqrt %s)' % e.term, e.shape, conj([e.ok, '(qlt_bool 0 %s)' % e.term]))
        return binop(ast.Mult(), a, r, n)
    if isinstance(n, ast.BinOp) and isinstance(n.op, (ast.Add, ast.Sub, ast.Mult, ast.Div)):
        return binop(n.op, ex(n.left, env, cx), ex(n.right, env, cx), n)
    if isinstance(n, ast.UnaryOp) and isinstance(n.op, ast.USub):
        a = ex(n.operand, env, cx)
        if a.t != 'Q':
            raise Reject('negation of ' + _d(n.operand))
        return V('Q', '(- %s)' % a.term, a.shape, a.ok)
    # None if X is None else e
    if isinstance(n, ast.IfExp):
        nn_ = is_none_test(n.test, env, cx)
        if nn_ is not None:
            x, positive = nn_
            a, b = (n.body, n.orelse) if positive else (n.orelse, n.body)       # a: value when X is None
            if not (isinstance(a, ast.Constant) and a.value is None) or x.t != 'OQ':
                raise Reject('conditional expression ' + _d(n))
            key = _u(n.test.left)
            cx2 = Cx(cx.fixed, cx.state, cx.rank, cx.xname, cx.narrowed)
            env2 = dict(env)
            # inside the other arm X is a rational
            sub = V('Q', 'v_', ('C',))
            if key in cx.state:
                env2['@' + cx.state[key][0]] = sub
            elif key in cx.fixed:
                cx2.fixed = dict(cx.fixed)
                cx2.fixed[key] = sub
            else:
                env2[key] = sub
            bv = ex(b, env2, cx2)
            if bv.t != 'Q' or bv.shape != ('C',):
                raise Reject('conditional expression: the other arm is not a per-channel tensor: ' + _d(n))
            return V('OQ', '(match %s with None => None | Some v_ => Some %s end)' % (x.term, bv.term), None, bv.ok)
        raise Reject('conditional expression ' + _d(n))
    # reshapes of a per-channel value
    if isinstance(n, ast.Call) and isinstance(n.func, ast.Attribute) and n.func.attr in ('reshape', 'view', 'unsqueeze') and not n.keywords:
        a = ex(n.func.value, env, cx)
        if a.t != 'Q' or a.shape in (None, 'WB'):
            raise Reject('reshape of ' + _d(n.func.value))
        if n.func.attr == 'unsqueeze':
            if len(n.args) != 1 or not isinstance(n.args[0], ast.Constant) or not isinstance(n.args[0].value, int) or not 0 <= n.args[0].value <= len(a.shape):
                raise Reject('unsqueeze ' + _d(n))
            k = n.args[0].value
            return V('Q', a.term, tuple(a.shape[:k]) + (1,) + tuple(a.shape[k:]), a.ok)
        args = n.args
        # .reshape([-1] + [1] * (len(W.shape) - 1)) : against a weight of any rank
        if len(args) == 1 and isinstance(args[0], ast.BinOp) and isinstance(args[0].op, ast.Add):
            l, r = args[0].left, args[0].right
            ok = isinstance(l, ast.List) and len(l.elts) == 1 and _u(l.elts[0]) == '-1' and isinstance(r, ast.BinOp) and isinstance(r.op, ast.Mult) \
                and isinstance(r.left, ast.List) and len(r.left.elts) == 1 and _u(r.left.elts[0]) == '1' \
                and isinstance(r.right, ast.BinOp) and isinstance(r.right.op, ast.Sub) and _u(r.right.right) == '1'
            if ok and a.shape == ('C',):
                rk = r.right.left
                who = None
                if isinstance(rk, ast.Call) and isinstance(rk.func, ast.Name) and rk.func.id == 'len' and len(rk.args) == 1 and isinstance(rk.args[0], ast.Attribute) and rk.args[0].attr == 'shape':
                    who = rk.args[0].value
                elif isinstance(rk, ast.Call) and isinstance(rk.func, ast.Attribute) and rk.func.attr == 'dim' and not rk.args:
                    who = rk.func.value
                elif isinstance(rk, ast.Attribute) and rk.attr == 'ndim':
                    who = rk.value
                if who is not None:
                    w = ex(who, env, cx)
                    if w.t == 'W':
                        return V('Q', a.term, 'WB', a.ok)
            raise Reject('reshape ' + _d(n))
        if len(args) == 1 and isinstance(args[0], (ast.List, ast.Tuple)):
            args = args[0].elts
        dims = []
        for x in args:
            s = _u(x)
            if s == '-1':
                dims.append('C')
            elif s == '1':
                dims.append(1)
            else:
                raise Reject('reshape ' + _d(n))
        if dims.count('C') != 1 or a.shape.count('C') != 1:
            raise Reject('reshape ' + _d(n))
        return V('Q', a.term, tuple(dims), a.ok)
    # the layer's own convolution / linear map
    if isinstance(n, ast.Call) and not n.keywords and len(n.args) == 3 and _u(n.func) in ('self._conv_forward', 'F.linear'):
        if not (isinstance(n.args[0], ast.Name) and n.args[0].id == cx.xname):
            raise Reject('the layer is not applied to its input: ' + _d(n))
        w = ex(n.args[1], env, cx)
        if isinstance(n.args[2], ast.Constant) and n.args[2].value is None:
            b = V('OQ', 'None')
        else:
            b = ex(n.args[2], env, cx)
        if w.t != 'W' or b.t != 'OQ':
            raise Reject('arguments of the convolution: ' + _d(n))
        return V('Y', '(plain %s %s x)' % (w.term, b.term), None, conj([w.ok, b.ok]))
    raise Reject('expression ' + _d(n))


def binop(op, a, b, n):
    ok = conj([a.ok, b.ok])
    sym = {ast.Add: '+', ast.Sub: '-', ast.Mult: '*', ast.Div: '/'}[type(op)]
    if a.t == 'Q' and b.t == 'Q':
        if a.shape == 'WB' or b.shape == 'WB':
            if a.shape != b.shape and not (a.shape == () or b.shape == ()):
                raise Reject('shapes do not agree: ' + _d(n))
            shape = 'WB'
        elif a.shape == () or b.shape == ():
            shape = b.shape if a.shape == () else a.shape
        elif a.shape == b.shape:
            shape = a.shape
        else:
            raise Reject('shapes do not agree: ' + _d(n))
        if isinstance(op, ast.Div):
            ok = conj([ok, '(negb (Qeq_bool %s 0))' % b.term])
        return V('Q', '(%s %s %s)' % (a.term, sym, b.term), shape, ok)
    if not isinstance(op, ast.Mult):
        raise Reject('operator %s on %s, %s: %s' % (sym, a.t, b.t, _d(n)))
    for p, q, left in ((a, b, True), (b, a, False)):
        if p.t == 'W' and q.t == 'Q':
            rank = CUR_RANK[0]
            good = q.shape == 'WB' if rank is None else (q.shape not in (None, 'WB') and _align(q.shape, rank) == _wshape(rank))
            if not good:
                raise Reject('a per-channel value multiplies the weight without the (C,1,..,1) reshape: ' + _d(n))
            body = '(e_ * %s)' % q.term if left else '(%s * e_)' % q.term
            return V('W', '(wmap (fun e_ => %s) %s)' % (body, p.term), None, ok)
        if p.t == 'W' and q.t == 'T':
            return V('W', '(map (mask_row %s) %s)' % (q.term, p.term), None, ok)
        if p.t == 'Y' and q.t == 'Q':
            rank = CUR_RANK[0]
            if rank is None or q.shape in (None, 'WB') or _align(q.shape, rank) != _oshape(rank):
                raise Reject('a per-channel value multiplies the output without the (1,C,1,..) reshape: ' + _d(n))
            return V('Y', '(%s * %s)' % ((p.term, q.term) if left else (q.term, p.term)), None, ok)
    raise Reject('product of %s and %s: %s' % (a.t, b.t, _d(n)))


CUR_RANK = [None]


def is_none_test(t, env, cx):
    """X is None / X is not None -> (V of X, True if `is None`)"""
    if isinstance(t, ast.Compare) and len(t.ops) == 1 and isinstance(t.comparators[0], ast.Constant) and t.comparators[0].value is None \
            and isinstance(t.ops[0], (ast.Is, ast.IsNot)):
        x = lookup(t.left, env, cx)
        if x is None or x.t not in ('OQ', 'OBN'):
            raise Reject('None test on %s' % _d(t.left))
        return x, isinstance(t.ops[0], ast.Is)
    return None


def cond(t, env, cx):
    """statement-level test -> bool term"""
    r = is_none_test(t, env, cx)
    if r is not None:
        return '(is_none %s)' % r[0].term if r[1] else '(negb (is_none %s))' % r[0].term
    if isinstance(t, ast.UnaryOp) and isinstance(t.op, ast.Not):
        return '(negb %s)' % cond(t.operand, env, cx)
    v = lookup(t, env, cx)
    if v is not None and v.t == 'B':
        return v.term
    raise Reject('test ' + _d(t))


# =============================================================================== procedures that update a layer object
class Proc:
    """symbolic execution of a function that updates the attributes `state` of one object; result: option record"""

    def __init__(self, cx, record):
        self.cx = cx
        self.record = record       # [(field, coq variable)]
        self.svars = [v for _, v in record]

    def tuple_(self):
        return '(%s)' % ', '.join(self.svars)

    def set_state(self, env, var, v, pad):
        env['@' + var] = V(v.t, var, ('C',) if v.t == 'Q' else None)
        return pad + 'let %s := %s in\n' % (var, v.term)

    def value_for(self, typ, n, env):
        """right-hand side of an attribute assignment / copy_"""
        if isinstance(n, ast.Constant) and n.value is None and typ in ('OQ', 'OBN'):
            return V(typ, 'None')
        if isinstance(n, ast.Call) and _u(n.func) == 'copy.deepcopy' and len(n.args) == 1 and not n.keywords:
            a = ex(n.args[0], env, self.cx)
            if a.t == 'BN' and typ == 'OBN':
                return V('OBN', '(Some %s)' % a.term)
            raise Reject('deepcopy ' + _d(n))
        if isinstance(n, ast.Call) and _u(n.func) in ('torch.nn.Parameter', 'nn.Parameter', 'torch.nn.parameter.Parameter') and len(n.args) == 1 and not n.keywords:
            n = n.args[0]
        a = ex(n, env, self.cx)
        if typ == 'OQ' and a.t == 'Q' and a.shape == ('C',):
            return V('OQ', '(Some %s)' % a.term, None, a.ok)
        if typ == 'OQ' and a.t == 'OQ' and _u(n) in self.cx.narrowed:
            return V('OQ', a.term, None, a.ok)
        if typ == a.t and typ in ('W', 'B'):
            return a
        raise Reject('cannot store %s (%s) into a %s attribute' % (_d(n), a.t, typ))

    def block(self, stmts, env, ind, toplevel):
        """-> (lets text, ok terms, env).  At top level a guard `if c: raise` opens `if c then None else`"""
        pad = '  ' * ind
        out, oks = '', []
        env = dict(env)
        cx = self.cx
        stmts = list(_strip(stmts))
        while stmts:
            s = stmts.pop(0)
            if isinstance(s, ast.With):
                if len(s.items) != 1 or _u(s.items[0].context_expr) != 'torch.no_grad()' or s.items[0].optional_vars is not None:
                    raise Reject('with statement ' + _d(s))
                stmts = list(_strip(s.body)) + stmts
                continue
            if isinstance(s, ast.Assert):
                self.check_assert(s)
                continue
            if isinstance(s, ast.Pass):
                continue
            if isinstance(s, ast.If) and len(_strip(s.body)) == 1 and isinstance(_strip(s.body)[0], ast.Raise) and not s.orelse:
                if not toplevel:
                    raise Reject('raise inside a branch: ' + _d(s))
                out += pad + 'if %s then None else\n' % cond(s.test, env, cx)
                continue
            # if x is None: x = e     (a local optional value gets a default)
            if isinstance(s, ast.If) and not s.orelse and len(_strip(s.body)) == 1 and isinstance(_strip(s.body)[0], ast.Assign):
                a = _strip(s.body)[0]
                r = is_none_test(s.test, env, cx) if isinstance(s.test, ast.Compare) else None
                if r is not None and r[1] and isinstance(s.test.left, ast.Name) and len(a.targets) == 1 and isinstance(a.targets[0], ast.Name) \
                        and a.targets[0].id == s.test.left.id and s.test.left.id in env and r[0].t == 'OQ':
                    dv = ex(a.value, env, cx)
                    if dv.t != 'Q' or dv.shape != ('C',):
                        raise Reject('default of %s is not a per-channel tensor' % s.test.left.id)
                    nm = s.test.left.id
                    out += pad + 'let %s := (match %s with Some v_ => v_ | None => %s end) in\n' % (nm, r[0].term, dv.term)
                    oks.append(dv.ok)
                    env[nm] = V('Q', nm, ('C',))
                    continue
            if isinstance(s, ast.If):
                c = cond(s.test, env, cx)
                # narrowing: inside `if X is not None:` (resp. the else of `if X is None:`) X may be copied
                r = is_none_test(s.test, env, cx) if isinstance(s.test, ast.Compare) else None
                nb, ne = set(cx.narrowed), set(cx.narrowed)
                if r is not None:
                    (ne if r[1] else nb).add(_u(s.test.left))
                saved = cx.narrowed
                cx.narrowed = nb
                ta, oa, ea = self.block(s.body, env, ind + 1, False)
                cx.narrowed = ne
                tb, ob, eb = self.block(s.orelse, env, ind + 1, False)
                cx.narrowed = saved
                for e2 in (ea, eb):
                    for var in self.svars:
                        if e2['@' + var].t != env['@' + var].t:
                            raise Reject('an attribute changes type in a branch')
                loc = {k for e2 in (ea, eb) for k in e2 if not k.startswith('@') and (k not in env or e2[k] is not env[k])}
                used = {x.id for r_ in stmts for x in ast.walk(r_) if isinstance(x, ast.Name)}
                if loc & used:
                    raise Reject('a local bound in a branch is read after the if: %s' % sorted(loc & used))
                tup = self.tuple_()
                out += pad + "let '%s := (if %s then\n%s%s  %s\n%selse\n%s%s  %s) in\n" % (tup, c, ta, pad, tup, pad, tb, pad, tup)
                oks.append('(if %s then\n%s%s  %s\n%selse\n%s%s  %s)' % (c, ta, pad, conj(oa), pad, tb, pad, conj(ob)))
                for var in self.svars:
                    t = env['@' + var].t
                    env['@' + var] = V(t, var, ('C',) if t == 'Q' else None)
                continue
            if isinstance(s, ast.AnnAssign) and s.value is not None:
                s = ast.Assign(targets=[s.target], value=s.value)
            if isinstance(s, ast.Assign) and len(s.targets) == 1:
                t = s.targets[0]
                key = _u(t)
                if key in cx.state:
                    var, typ = cx.state[key]
                    v = self.value_for(typ, s.value, env)
                    oks.append(v.ok)
                    out += self.set_state(env, var, v, pad)
                    continue
                if isinstance(t, ast.Name):
                    if t.id in cx.fixed or '@' + t.id in env:
                        raise Reject('re-binding of ' + t.id)
                    v = ex(s.value, env, cx)
                    if v.t not in ('Q', 'OQ', 'W', 'B') or v.shape == 'WB':
                        raise Reject('local %s of type %s' % (t.id, v.t))
                    oks.append(v.ok)
                    out += pad + 'let %s := %s in\n' % (t.id, v.term)
                    env[t.id] = V(v.t, t.id, v.shape)
                    continue
                if isinstance(t, ast.Attribute) and _u(t.value) == self.obj and self.other_attr_ok(t.attr, s.value):
                    continue
                raise Reject('assignment ' + _d(s))
            # X.copy_(e)
            if isinstance(s, ast.Expr) and isinstance(s.value, ast.Call) and isinstance(s.value.func, ast.Attribute) and s.value.func.attr == 'copy_' \
                    and len(s.value.args) == 1 and not s.value.keywords:
                tgt = s.value.func.value
                if isinstance(tgt, ast.Call) and isinstance(tgt.func, ast.Name) and tgt.func.id == 'cast' and len(tgt.args) == 2:
                    tgt = tgt.args[1]
                key = _u(tgt)
                if key in cx.state:
                    var, typ = cx.state[key]
                    v = self.value_for(typ, s.value.args[0], env)
                    oks.append(v.ok)
                    out += self.set_state(env, var, v, pad)
                    continue
                raise Reject('copy_ into ' + key)
            if isinstance(s, ast.Expr) and isinstance(s.value, ast.Call) and self.other_call_ok(s.value):
                continue
            if isinstance(s, ast.Raise) or isinstance(s, ast.If):
                raise Reject('statement ' + _d(s))
            raise Reject('statement ' + _d(s))
        return out, oks, env

    obj = None
    with_ok = True

    def check_assert(self, s):
        raise Reject('assert ' + _d(s))

    def other_attr_ok(self, attr, value):
        return False

    def other_call_ok(self, call):
        return False

    def define(self, name, params, fn_body, env0):
        pre = ''.join('  let %s := %s in\n' % (v, '%s %s' % (f, self.obj_term)) for f, v in self.record)
        body, oks, _ = self.block(fn_body, env0, 1, True)
        rec = '{| ' + '; '.join('%s := %s' % (f, v) for f, v in self.record) + ' |}'
        val = 'Definition %s_gen %s : option glayer :=\n%s%s  Some %s.\n' % (name, params, pre, body, rec)
        if not self.with_ok:
            return val
        okb = body.replace('then None else', 'then true else')
        okd = 'Definition %s_ok %s : bool :=\n%s%s  %s.\n' % (name, params, pre, okb, conj(oks))
        return val + okd


RECORD = [('g_w', 'weight_'), ('g_b', 'bias_'), ('g_bn', 'bn_'), ('g_fold', 'fold_bn_')]


def _state(obj):
    return {obj + '.weight': ('weight_', 'W'), obj + '.bias': ('bias_', 'OQ'), obj + '.bn': ('bn_', 'OBN'), obj + '.fold_bn': ('fold_bn_', 'B')}


def _env0():
    return {'@weight_': V('W', 'weight_'), '@bias_': V('OQ', 'bias_'), '@bn_': V('OBN', 'bn_'), '@fold_bn_': V('B', 'fold_bn_')}


def _bn_fixed(bn='bn'):
    return {bn: V('BN', bn), bn + '.running_mean': V('Q', '(m_mean %s)' % bn, ('C',)), bn + '.running_var': V('Q', '(m_var %s)' % bn, ('C',)),
            bn + '.weight': V('OQ', '(m_weight %s)' % bn), bn + '.bias': V('OQ', '(m_bias %s)' % bn), bn + '.eps': V('Q', '(m_eps %s)' % bn, ()),
            bn + '.track_running_stats': V('B', '(m_track %s)' % bn)}


def _args(fn):
    a = fn.args
    if a.vararg or a.kwarg or a.kwonlyargs or a.posonlyargs:
        raise Reject('%s: signature' % fn.name)
    return [x.arg for x in a.args]


class FoldProc(Proc):
    """remove_bn_inplace(lin, bn, fold) / fuse_bn_inplace(lin, bn)"""
    obj = 'lin'
    obj_term = 'lin'

    def __init__(self, lin_classes, bn_classes, with_fold):
        fixed = _bn_fixed('bn')
        if with_fold:
            fixed['fold'] = V('B', 'fold')
        Proc.__init__(self, Cx(fixed, _state('lin')), RECORD)
        self.lin_classes, self.bn_classes = set(lin_classes), set(bn_classes)
        self.seen = {}

    def check_assert(self, s):
        t = s.test
        parts = t.values if isinstance(t, ast.BoolOp) and isinstance(t.op, ast.Or) else [t]
        who, classes = None, set()
        for p in parts:
            if not (isinstance(p, ast.Call) and isinstance(p.func, ast.Name) and p.func.id == 'isinstance' and len(p.args) == 2 and isinstance(p.args[0], ast.Name)):
                raise Reject('assert ' + _d(s))
            if who not in (None, p.args[0].id):
                raise Reject('assert ' + _d(s))
            who = p.args[0].id
            classes.add(_u(p.args[1]))
        want = {'lin': self.lin_classes, 'bn': self.bn_classes}.get(who)
        if want is None or classes != want:
            raise Reject('assert: %s is expected to be one of %s, the code says %s' % (who, sorted(want or []), sorted(classes)))
        self.seen[who] = True


def translate_fold(fn, name, lin_classes, bn_classes, with_fold):
    want = ['lin', 'bn', 'fold'] if with_fold else ['lin', 'bn']
    if _args(fn) != want or fn.decorator_list or fn.args.defaults:
        raise Reject('%s: signature %s' % (fn.name, _args(fn)))
    p = FoldProc(lin_classes, bn_classes, with_fold)
    CUR_RANK[0] = None
    for x in ast.walk(fn):
        if isinstance(x, (ast.Return, ast.For, ast.While, ast.Try, ast.Global, ast.Nonlocal, ast.Lambda, ast.FunctionDef)) and x is not fn:
            raise Reject('%s: %s' % (fn.name, type(x).__name__))
    params = '(lin : glayer) (bn : bnmod)' + (' (fold : bool)' if with_fold else '')
    out = p.define(name, params, fn.body, _env0())
    if set(p.seen) != {'lin', 'bn'}:
        raise Reject('%s: the classes of lin and bn are not asserted' % fn.name)
    return out


# =============================================================================== PIT*.__init__
class InitProc(Proc):
    obj = 'self'
    with_ok = False
    obj_term = 'fresh'

    def __init__(self, src):
        fixed = {src + '.weight': V('W', 'src_weight'), src + '.bias': V('OQ', 'src_bias'), 'fold_bn': V('B', 'fold_bn')}
        Proc.__init__(self, Cx(fixed, _state('self')), RECORD)
        self.src = src
        self.super_seen = False

    def other_attr_ok(self, attr, value):
        # other attributes (maskers, thresholds, the features calculator ...): anything that does not read the parameters
        if attr in ('weight', 'bias', 'bn', 'fold_bn', '_parameters', '__dict__', '_modules', '_buffers'):
            return False
        for x in ast.walk(value):
            if isinstance(x, ast.Attribute) and x.attr in ('weight', 'bias', 'bn', 'fold_bn', '__dict__', '_parameters'):
                return False
        return True

    def other_call_ok(self, call):
        f = _u(call.func)
        if f.startswith('super(') and f.endswith('.__init__'):
            self.super_seen = True
            self.super_args = [_u(a) for a in call.args]
            if call.keywords:
                raise Reject('__init__: keywords in the parent constructor call')
            return True
        if f == 'self.register_buffer' and len(call.args) == 2 and isinstance(call.args[0], ast.Constant) and str(call.args[0].value) not in ('weight', 'bias', 'bn', 'fold_bn'):
            return True
        return False

    def block(self, stmts, env, ind, toplevel):
        # `is_depthwise = ...` and `_beta_norm, _gamma_norm = self._generate_norm_constants()` bind names that the parameters never see
        keep = []
        for s in _strip(stmts):
            if isinstance(s, ast.Assign) and len(s.targets) == 1 and isinstance(s.targets[0], (ast.Name, ast.Tuple)) and toplevel:
                names = [s.targets[0].id] if isinstance(s.targets[0], ast.Name) else [getattr(e, 'id', None) for e in s.targets[0].elts]
                reads = {x.attr for x in ast.walk(s.value) if isinstance(x, ast.Attribute)}
                if None not in names and not (reads & {'weight', 'bias', 'bn', 'fold_bn'}) and all(nm not in ('fold_bn', self.src, 'self') for nm in names):
                    continue
            if isinstance(s, ast.If) and toplevel and not s.orelse and len(_strip(s.body)) == 1 and isinstance(_strip(s.body)[0], ast.Raise):
                reads = {x.attr for x in ast.walk(s.test) if isinstance(x, ast.Attribute)}
                if not (reads & {'weight', 'bias', 'bn', 'fold_bn'}):
                    continue                   # groups check: raises before any parameter is touched or leaves them alone
            keep.append(s)
        return Proc.block(self, keep, env, ind, toplevel)


def translate_init(cls, gname, src, super_args):
    fn = _method(cls, '__init__')
    a = _args(fn)
    if a[:2] != ['self', src] or 'fold_bn' not in a or fn.decorator_list:
        raise Reject('%s.__init__: signature %s' % (cls.name, a))
    # the default of fold_bn must be False (user-placed layers built without the argument)
    defaults = dict(zip(a[len(a) - len(fn.args.defaults):], fn.args.defaults))
    if 'fold_bn' not in defaults or _u(defaults['fold_bn']) != 'False':
        raise Reject('%s.__init__: fold_bn does not default to False' % cls.name)
    for x in ast.walk(fn):
        if isinstance(x, (ast.Return, ast.For, ast.While, ast.Try, ast.Global, ast.Nonlocal, ast.Lambda, ast.FunctionDef)) and x is not fn:
            raise Reject('%s.__init__: %s' % (cls.name, type(x).__name__))
    p = InitProc(src)
    CUR_RANK[0] = None
    params = '(fresh : glayer) (src_weight : list (list Q)) (src_bias : option Q) (fold_bn : bool)'
    out = p.define(gname, params, fn.body, _env0())
    if not p.super_seen or p.super_args != [s.replace('SRC', src) for s in super_args]:
        raise Reject('%s.__init__: the parent constructor does not get the hyper-parameters of the layer it replaces: %s' % (cls.name, getattr(p, 'super_args', None)))
    return out


# =============================================================================== PIT*.forward
def translate_forward(cls, gname, rank, has_time):
    fn = _method(cls, 'forward')
    if _args(fn) != ['self', 'input'] or fn.decorator_list:
        raise Reject('%s.forward: signature' % cls.name)
    for x in ast.walk(fn):
        if isinstance(x, (ast.For, ast.While, ast.Try, ast.With, ast.Global, ast.Nonlocal, ast.Lambda, ast.FunctionDef, ast.Raise, ast.Assert)) and x is not fn:
            raise Reject('%s.forward: %s' % (cls.name, type(x).__name__))
    CUR_RANK[0] = rank
    fixed = {'self.weight': V('W', '(g_w self)'), 'self.bias': V('OQ', '(g_b self)'), 'self.bn': V('OBN', '(g_bn self)'), 'self.fold_bn': V('B', '(g_fold self)')}
    cx = Cx(fixed, {}, rank, 'input')
    seen = set()

    def block(stmts, env, ind):
        """-> (value text, ok text); the block must end with a return on every path"""
        pad = '  ' * ind
        lets, oks = '', []
        env = dict(env)
        stmts = list(_strip(stmts))
        while stmts:
            s = stmts.pop(0)
            if isinstance(s, ast.Assign) and len(s.targets) == 1 and isinstance(s.targets[0], ast.Name):
                nm = s.targets[0].id
                src_ = _u(s.value)
                if src_ == 'self._features_mask(discrete=True)':
                    env[nm] = V('Q', '(b2q cm)', ('C',))
                    seen.add('cm')
                    continue
                if src_ == 'self._time_mask(discrete=True)':
                    if not has_time:
                        raise Reject('%s has no time mask' % cls.name)
                    env[nm] = V('T', 'tm')
                    seen.add('tm')
                    continue
                if nm in ('input', 'self'):
                    raise Reject('re-binding of ' + nm)
                v = ex(s.value, env, cx)
                if v.t not in ('Q', 'OQ', 'W', 'Y') or v.shape == 'WB':
                    raise Reject('local %s of type %s' % (nm, v.t))
                oks.append(v.ok)
                lets += pad + 'let %s := %s in\n' % (nm, v.term)
                env[nm] = V(v.t, nm, v.shape)
                continue
            # if self.bn is not None: y = self.bn(y)
            if isinstance(s, ast.If) and not s.orelse and _u(s.test) == 'self.bn is not None' and len(_strip(s.body)) == 1:
                a = _strip(s.body)[0]
                if isinstance(a, ast.Assign) and len(a.targets) == 1 and isinstance(a.targets[0], ast.Name) and isinstance(a.value, ast.Call) \
                        and _u(a.value.func) == 'self.bn' and len(a.value.args) == 1 and not a.value.keywords and isinstance(a.value.args[0], ast.Name) \
                        and a.value.args[0].id == a.targets[0].id and a.targets[0].id in env and env[a.targets[0].id].t == 'Y':
                    nm = a.targets[0].id
                    lets += pad + 'let %s := (match (g_bn self) with Some m_ => bn_eval m_ %s | None => %s end) in\n' % (nm, env[nm].term, env[nm].term)
                    oks.append('(match (g_bn self) with Some m_ => bn_eval_ok m_ | None => true end)')
                    env[nm] = V('Y', nm)
                    continue
                raise Reject('statement ' + _d(s))
            if isinstance(s, ast.If):
                c = cond(s.test, env, cx)
                rest = stmts
                stmts = []
                orelse = list(s.orelse) if s.orelse else rest
                if s.orelse and rest:
                    raise Reject('statements after an if / else that returns on both paths')
                (va, oa), (vb, ob) = block(s.body, env, ind + 1), block(orelse, env, ind + 1)
                return (lets + pad + 'if %s then\n%s\n%selse\n%s' % (c, va, pad, vb),
                        lets + pad + conj(oks + ['(if %s then\n%s\n%selse\n%s)' % (c, oa, pad, ob)]))
            if isinstance(s, ast.Return) and s.value is not None:
                if stmts:
                    raise Reject('statements after return')
                v = ex(s.value, env, cx)
                if v.t != 'Y':
                    raise Reject('forward returns a %s: %s' % (v.t, _d(s)))
                return lets + pad + v.term, lets + pad + conj(oks + [v.ok])
            raise Reject('statement ' + _d(s))
        raise Reject('%s.forward: a path does not end with return' % cls.name)

    val, okv = block(fn.body, {}, 1)
    if 'cm' not in seen or (has_time and 'tm' not in seen):
        raise Reject('%s.forward does not read its masks' % cls.name)
    params = '(self : glayer) %s(cm : bool) (x : list (list Q))' % ('(tm : list bool) ' if has_time else '')
    return 'Definition %s_gen %s : Q :=\n%s.\nDefinition %s_ok %s : bool :=\n%s.\n' % (gname, params, val, gname, params, okv)


# =============================================================================== helpers on modules / classes
def _func(tree, name):
    fs = [n for n in tree.body if isinstance(n, ast.FunctionDef) and n.name == name]
    if len(fs) != 1:
        raise Reject('function %s: %d definitions' % (name, len(fs)))
    if fs[0].decorator_list:
        raise Reject('function %s is decorated' % name)
    return fs[0]


def _class(tree, name):
    cs = [n for n in tree.body if isinstance(n, ast.ClassDef) and n.name == name]
    if len(cs) != 1:
        raise Reject('class %s: %d definitions' % (name, len(cs)))
    return cs[0]


def _method(cls, name):
    ms = [n for n in cls.body if isinstance(n, ast.FunctionDef) and n.name == name]
    if len(ms) != 1:
        raise Reject('%s.%s: %d definitions' % (cls.name, name, len(ms)))
    return ms[0]


def digest(fn):
    f = ast.FunctionDef(name=fn.name, args=fn.args, body=_strip(fn.body) or [ast.Pass()], decorator_list=fn.decorator_list, returns=None, type_comment=None, lineno=0, col_offset=0)
    return hashlib.sha1(ast.dump(f, annotate_fields=False, include_attributes=False).encode()).hexdigest()[:16]


# =============================================================================== fuse_consecutive_layers
OBS = {
    "node.op == 'call_module'": '(node_is_call_module s node)',
    "node.op != 'call_module'": '(negb (node_is_call_module s node))',
    'isinstance(node.args[0], fx.Node)': '(arg0_is_node s node)',
    "node.args[0].op == 'call_module'": '(arg0_is_call_module s node)',
    "node.args[0].op != 'call_module'": '(negb (arg0_is_call_module s node))',
    'isinstance(modules[node.target], second)': '(target_is_second s node)',
    'isinstance(modules[node.args[0].target], first)': '(arg0_target_is_first s node)',
}
NATS = {
    'len(node.args[0].users)': '(arg0_users s node)',
    'node.args[0].target': '(arg0_target s node)',
    'node.target': '(node_target s node)',
}
FSTATE = '(s, fused, n_fused)'


class Loop:
    def __init__(self):
        self.env = {}            # local name -> ('B' | 'N', term)
        self.pending = None      # name bound to the result of fusion_fn, waiting for replace_node_module
        self.rauw = False
        self.nocont = 0

    def nat(self, n, env):
        k = _u(n)
        if k in NATS:
            return NATS[k]
        if isinstance(n, ast.Name) and env.get(n.id, ('', ''))[0] == 'N':
            return env[n.id][1]
        if isinstance(n, ast.Constant) and isinstance(n.value, int) and not isinstance(n.value, bool) and n.value >= 0:
            return '%d' % n.value
        if isinstance(n, ast.Subscript) and isinstance(n.value, ast.Name) and n.value.id in ('fused', 'n_fused'):
            return '(dget %s %s)' % (n.value.id, self.nat(n.slice, env))
        if isinstance(n, ast.Call) and isinstance(n.func, ast.Attribute) and n.func.attr == 'get' and isinstance(n.func.value, ast.Name) \
                and n.func.value.id in ('fused', 'n_fused') and len(n.args) == 2 and not n.keywords:
            return '(dget_default %s %s %s)' % (n.func.value.id, self.nat(n.args[0], env), self.nat(n.args[1], env))
        if isinstance(n, ast.BinOp) and isinstance(n.op, ast.Add):
            return '(%s + %s)' % (self.nat(n.left, env), self.nat(n.right, env))
        raise Reject('fuse_consecutive_layers: number ' + _d(n))

    def test(self, n, env):
        k = _u(n)
        if k in OBS:
            return OBS[k]
        if k in ('in_place',):
            return 'in_place'
        if isinstance(n, ast.Name) and env.get(n.id, ('', ''))[0] == 'B':
            return env[n.id][1]
        if isinstance(n, ast.UnaryOp) and isinstance(n.op, ast.Not):
            return '(negb %s)' % self.test(n.operand, env)
        if isinstance(n, ast.BoolOp):
            # lazy and / or: the right operand is an observation of the node, defined whenever the loop reaches the test
            # except arg0_is_call_module when args[0] is no node -- the instances define it as false there
            op = '&&' if isinstance(n.op, ast.And) else '||'
            out = self.test(n.values[0], env)
            for v in n.values[1:]:
                out = '(%s %s %s)' % (out, op, self.test(v, env))
            return out
        if isinstance(n, ast.Compare) and len(n.ops) == 1:
            o = n.ops[0]
            if isinstance(o, (ast.In, ast.NotIn)) and isinstance(n.comparators[0], ast.Name) and n.comparators[0].id in ('fused', 'n_fused'):
                t = '(dmem %s %s)' % (self.nat(n.left, env), n.comparators[0].id)
                return t if isinstance(o, ast.In) else '(negb %s)' % t
            a, b = self.nat(n.left, env), self.nat(n.comparators[0], env)
            if isinstance(o, ast.Gt):
                return '(Nat.ltb %s %s)' % (b, a)
            if isinstance(o, ast.Lt):
                return '(Nat.ltb %s %s)' % (a, b)
            if isinstance(o, ast.GtE):
                return '(Nat.leb %s %s)' % (b, a)
            if isinstance(o, ast.LtE):
                return '(Nat.leb %s %s)' % (a, b)
            if isinstance(o, ast.Eq):
                return '(Nat.eqb %s %s)' % (a, b)
            if isinstance(o, ast.NotEq):
                return '(negb (Nat.eqb %s %s))' % (a, b)
        raise Reject('fuse_consecutive_layers: test ' + _d(n))

    def terminates(self, stmts):
        stmts = _strip(stmts)
        if not stmts:
            return False
        l = stmts[-1]
        if isinstance(l, (ast.Continue, ast.Raise)):
            return True
        return isinstance(l, ast.If) and self.terminates(l.body) and self.terminates(l.orelse)

    FUSION = 'fusion_fn(modules[node.args[0].target], modules[node.target])'

    def block(self, stmts, k, ind, env):
        """statements with continuation k (the expression evaluated when the block falls through)"""
        pad = '  ' * ind
        stmts = _strip(stmts)
        if not stmts:
            if self.pending or self.rauw:
                raise Reject('fuse_consecutive_layers: a block ends between the two halves of an effect')
            return pad + k
        s, rest = stmts[0], stmts[1:]
        if isinstance(s, ast.Continue):
            if self.pending or self.rauw:
                raise Reject('fuse_consecutive_layers: continue between the two halves of an effect')
            if self.nocont:
                raise Reject('fuse_consecutive_layers: continue inside a branch that may also fall through')
            return pad + 'Some ' + FSTATE
        if isinstance(s, ast.Raise):
            return pad + 'None'
        if isinstance(s, ast.Pass):
            return self.block(rest, k, ind, env)
        if isinstance(s, ast.Assert):
            if self.pending and _u(s.test) == 'isinstance(%s, nn.Module)' % self.pending:
                return self.block(rest, k, ind, env)
            raise Reject('fuse_consecutive_layers: assert ' + _d(s))
        if isinstance(s, ast.Assign) and len(s.targets) == 1:
            t, v = s.targets[0], s.value
            if isinstance(t, ast.Name) and _u(v) == self.FUSION:
                if self.pending:
                    raise Reject('fuse_consecutive_layers: two fusions pending')
                self.pending = t.id
                return self.block(rest, k, ind, env)
            if isinstance(t, ast.Name) and t.id not in ('s', 'fused', 'n_fused', 'node', 'modules', 'mod', 'first', 'second', 'fusion_fn', 'in_place'):
                env = dict(env)
                try:
                    term, ty = self.test(v, env), 'B'
                except Reject:
                    term, ty = self.nat(v, env), 'N'
                env[t.id] = (ty, t.id)
                return pad + 'let %s := %s in\n' % (t.id, term) + self.block(rest, k, ind, env)
            if isinstance(t, ast.Subscript) and isinstance(t.value, ast.Name) and t.value.id in ('fused', 'n_fused'):
                d = t.value.id
                return pad + 'let %s := dset %s %s %s in\n' % (d, d, self.nat(t.slice, env), self.nat(v, env)) + self.block(rest, k, ind, env)
            raise Reject('fuse_consecutive_layers: assignment ' + _d(s))
        if isinstance(s, ast.Expr) and isinstance(s.value, ast.Call):
            c = _u(s.value)
            if c == self.FUSION:
                return pad + 'let s := fuse_in_place node s in\n' + self.block(rest, k, ind, env)
            if self.pending and c == 'replace_node_module(node.args[0], modules, %s)' % self.pending:
                self.pending = None
                return pad + 'let s := fuse_replace node s in\n' + self.block(rest, k, ind, env)
            if c == 'node.replace_all_uses_with(node.args[0])' and not self.rauw:
                self.rauw = True
                return self.block(rest, k, ind, env)
            if c == 'mod.graph.erase_node(node)' and self.rauw:
                self.rauw = False
                return pad + 'let s := erase_second node s in\n' + self.block(rest, k, ind, env)
            raise Reject('fuse_consecutive_layers: call ' + _d(s))
        if isinstance(s, ast.If):
            c = self.test(s.test, env)
            if self.pending or self.rauw:
                raise Reject('fuse_consecutive_layers: an if between the two halves of an effect')
            if not rest:
                return pad + 'if %s then\n' % c + self.block(s.body, k, ind + 1, env) + '\n' + pad + 'else\n' + self.block(s.orelse, k, ind + 1, env)
            if self.terminates(s.body):
                return pad + 'if %s then\n' % c + self.block(s.body, k, ind + 1, env) + '\n' + pad + 'else\n' + self.block(list(s.orelse) + rest, k, ind + 1, env)
            if self.terminates(s.orelse):
                return pad + 'if %s then\n' % c + self.block(list(s.body) + rest, k, ind + 1, env) + '\n' + pad + 'else\n' + self.block(s.orelse, k, ind + 1, env)
            self.nocont += 1
            try:
                inner = (pad + 'match (if %s then\n' % c + self.block(s.body, 'Some ' + FSTATE, ind + 1, env) + '\n' + pad + 'else\n' + self.block(s.orelse, 'Some ' + FSTATE, ind + 1, env) + ')\n')
            finally:
                self.nocont -= 1
            return (inner + pad + 'with None => None | Some ' + FSTATE + ' =>\n' + self.block(rest, k, ind + 1, env) + '\n' + pad + 'end')
            return (pad + 'match (if %s then\n' % c + self.block(s.body, 'Some ' + FSTATE, ind + 1, env) + '\n' + pad + 'else\n' + self.block(s.orelse, 'Some ' + FSTATE, ind + 1, env) + ')\n' +
                    pad + 'with None => None | Some ' + FSTATE + ' =>\n' + self.block(rest, k, ind + 1, env) + '\n' + pad + 'end')
        raise Reject('fuse_consecutive_layers: statement ' + _d(s))


def translate_fuse_loop(fn):
    if _args(fn) != ['mod', 'first', 'second', 'fusion_fn', 'in_place']:
        raise Reject('fuse_consecutive_layers: signature %s' % _args(fn))
    if len(fn.args.defaults) != 1 or _u(fn.args.defaults[0]) not in ('True', 'False'):
        raise Reject('fuse_consecutive_layers: defaults')
    default_in_place = _u(fn.args.defaults[0]) == 'True'
    body = _strip(fn.body)
    pro = [_u(s) for s in body[:3]]
    if sorted(pro) != sorted(['modules = dict(mod.named_modules())', 'fused = {}', 'n_fused = {}']):
        raise Reject('fuse_consecutive_layers: prologue %s' % pro)
    if len(body) != 6:
        raise Reject('fuse_consecutive_layers: %d statements' % len(body))
    loop, final, last = body[3], body[4], body[5]
    if not (isinstance(loop, ast.For) and _u(loop.target) == 'node' and _u(loop.iter) == 'mod.graph.nodes' and not loop.orelse):
        raise Reject('fuse_consecutive_layers: the loop is not `for node in mod.graph.nodes`')
    for x in ast.walk(loop):
        if isinstance(x, (ast.Break, ast.While, ast.Try, ast.With, ast.Return, ast.Lambda, ast.FunctionDef)) or (isinstance(x, ast.For) and x is not loop):
            raise Reject('fuse_consecutive_layers: %s inside the loop' % type(x).__name__)
    lp = Loop()
    step = lp.block(loop.body, 'Some ' + FSTATE, 1, {})
    if lp.pending or lp.rauw:
        raise Reject('fuse_consecutive_layers: an effect is left half done')
    for need in ('fuse_in_place node s', 'fuse_replace node s', 'erase_second node s'):
        pass
    # epilogue: every fused first layer has as many call sites left as fusions
    if not (isinstance(final, ast.For) and _u(final.target) == 'first_target' and _u(final.iter) == 'fused' and not final.orelse and len(_strip(final.body)) == 2):
        raise Reject('fuse_consecutive_layers: the final loop over `fused`')
    a, b = _strip(final.body)
    if _u(a) != "sites = [n for n in mod.graph.nodes if n.op == 'call_module' and n.target == first_target]":
        raise Reject('fuse_consecutive_layers: sites = ' + _d(a))
    if not (isinstance(b, ast.If) and not b.orelse and len(_strip(b.body)) == 1 and isinstance(_strip(b.body)[0], ast.Raise)):
        raise Reject('fuse_consecutive_layers: the final test')
    lp2 = Loop()
    NATS_ = dict(NATS)
    NATS['len(sites)'] = '(call_sites s first_target)'
    try:
        bad = lp2.test(b.test, {'first_target': ('N', 'first_target')})
    finally:
        NATS.clear()
        NATS.update(NATS_)
    if _u(last) != 'mod.delete_all_unused_submodules()':
        raise Reject('fuse_consecutive_layers: does not end with delete_all_unused_submodules()')
    out = ('Definition fuse_step_gen (in_place : bool) (st : S * dict * dict) (node : nat) : option (S * dict * dict) :=\n'
           "  let '" + FSTATE + ' := st in\n' + step + '.\n\n'
           'Definition fuse_consecutive_layers_gen (in_place : bool) (nodes : list nat) (s : S) : option S :=\n'
           '  match fold_opt (fuse_step_gen in_place) nodes (s, [], []) with\n'
           '  | None => None\n'
           '  | Some ' + FSTATE + ' =>\n'
           '      if existsb (fun first_target => %s) (dkeys fused) then None else Some s\n'
           '  end.\n' % bad)
    return out, default_in_place


# =============================================================================== wiring
def _calls_fuse(fn, first_second, fusion_name, default_in_place):
    """body = only calls fuse_consecutive_layers(mod, A, B, fusion_name[, in_place=..]) for the listed pairs -> in_place"""
    got, flags = [], set()
    for s in _strip(fn.body):
        if isinstance(s, ast.FunctionDef):
            continue
        if not (isinstance(s, ast.Expr) and isinstance(s.value, ast.Call) and _u(s.value.func) == 'fuse_consecutive_layers'):
            raise Reject('%s: statement %s' % (fn.name, _d(s)))
        c = s.value
        kw = {k.arg: k.value for k in c.keywords}
        args = [_u(a) for a in c.args]
        if len(args) == 5:
            kw['in_place'] = c.args[4]
            args = args[:4]
        if len(args) != 4 or args[0] != 'mod' or args[3] != fusion_name or set(kw) - {'in_place'}:
            raise Reject('%s: call %s' % (fn.name, _d(s)))
        ip = default_in_place
        if 'in_place' in kw:
            if _u(kw['in_place']) not in ('True', 'False'):
                raise Reject('%s: in_place is not a literal' % fn.name)
            ip = _u(kw['in_place']) == 'True'
        flags.add(ip)
        got.append((args[1], args[2]))
    if sorted(got) != sorted(first_second):
        raise Reject('%s fuses the pairs %s, expected %s' % (fn.name, got, first_second))
    if len(flags) != 1:
        raise Reject('%s: mixed in_place flags' % fn.name)
    return flags.pop()


def check_fuse_pit_modules(fn):
    """-> (in_place, copy): copy = the fusion works on a deep copy of the layer that is returned"""
    if _args(fn) != ['mod', 'fold_bn'] or fn.args.defaults:
        raise Reject('fuse_pit_modules: signature %s' % _args(fn))
    inner = [s for s in _strip(fn.body) if isinstance(s, ast.FunctionDef)]
    if len(inner) != 1 or inner[0].name != 'fuse_into_copy' or _args(inner[0]) != ['lin', 'bn'] or inner[0].decorator_list:
        raise Reject('fuse_pit_modules: the nested fusion function')
    target, copy_, returned = None, False, None
    names = {}
    for s in _strip(inner[0].body):
        if isinstance(s, ast.Assign) and len(s.targets) == 1 and isinstance(s.targets[0], ast.Name):
            nm, v = s.targets[0].id, s.value
            if isinstance(v, ast.Call) and _u(v.func) == 'copy.deepcopy' and len(v.args) in (1, 2) and _u(v.args[0]) == 'lin' and not v.keywords:
                if len(v.args) == 2 and not (isinstance(v.args[1], ast.Name) and names.get(v.args[1].id) == 'memo'):
                    raise Reject('fuse_into_copy: deepcopy memo')
                names[nm] = 'copy'
                continue
            # memo = {id(m): m for m in lin.children() if m is not getattr(lin, 'bn', None)} : the maskers stay shared
            if _u(v) == "{id(m): m for m in lin.children() if m is not getattr(lin, 'bn', None)}":
                names[nm] = 'memo'
                continue
            raise Reject('fuse_into_copy: ' + _d(s))
        if isinstance(s, ast.Expr) and isinstance(s.value, ast.Call) and _u(s.value.func) == 'remove_bn_inplace' and not s.value.keywords and len(s.value.args) == 3 \
                and [_u(a) for a in s.value.args[1:]] == ['bn', 'fold_bn'] and isinstance(s.value.args[0], ast.Name) and target is None:
            target = s.value.args[0].id
            continue
        if isinstance(s, ast.Return) and isinstance(s.value, ast.Name) and returned is None:
            returned = s.value.id
            continue
        raise Reject('fuse_into_copy: ' + _d(s))
    if target is None or returned != target:
        raise Reject('fuse_into_copy: the fused layer is not the one returned')
    if names.get(target) == 'copy':
        copy_ = True
    elif target == 'lin':
        copy_ = False
    else:
        raise Reject('fuse_into_copy: remove_bn_inplace is applied to ' + target)
    ip = _calls_fuse(fn, [('PITConv1d', 'nn.BatchNorm1d'), ('PITConv2d', 'nn.BatchNorm2d'), ('PITLinear', 'nn.BatchNorm1d')], 'fuse_into_copy', None)
    return ip, copy_


def check_convert(fn, fuse_call, where):
    """convert(): flags recorded first, trace(model.eval()), the fusion call in the import branch, flags put back last"""
    body = [_u(s) for s in _strip(fn.body)]
    need = ['found_training = [(m, m.training) for m in model.modules()]', 'graph = tracer.trace(model.eval())', 'mod = fx.GraphModule(tracer.root, graph, name)']
    pos = []
    for x in need:
        if body.count(x) != 1:
            raise Reject('%s convert(): `%s` is not there (once)' % (where, x))
        pos.append(body.index(x))
    if pos != sorted(pos):
        raise Reject('%s convert(): order of tracing statements' % where)
    if "if conversion_type != 'export':\n    for m, mode in found_training:\n        m.training = mode" != body[-2] or body[-1] != 'return (mod, nlf, ulf)':
        raise Reject('%s convert(): the training flags are not put back last' % where)
    hits = []
    for s in _strip(fn.body):
        for x in ast.walk(s):
            if isinstance(x, ast.Call) and _u(x.func) == fuse_call.split('(')[0]:
                hits.append((s, x))
    if len(hits) != 1 or _u(hits[0][1]) != fuse_call:
        raise Reject('%s convert(): the fusion call is not `%s` (once)' % (where, fuse_call))
    s = hits[0][0]
    if not (isinstance(s, ast.If) and not s.orelse and _u(s.test) in ("conversion_type in ('autoimport', 'import')", "conversion_type in ('import', 'autoimport')")
            and _u(_strip(s.body)[0]) == fuse_call):
        raise Reject('%s convert(): the fusion is not the first step of the import branch' % where)
    for x in ast.walk(fn):
        if isinstance(x, ast.Assign) and any(_u(t) in ('fold_bn', 'model') for t in x.targets):
            raise Reject('%s convert(): re-binds %s' % (where, _u(x.targets[0])))
    return body.index(_u(s))


def check_imports(tree, want, where):
    """`from X import a` / `import X as a` for the names the translation relies on"""
    have = {}
    for n in tree.body:
        if isinstance(n, ast.ImportFrom):
            for a in n.names:
                have[a.asname or a.name] = '%s%s:%s' % ('.' * n.level, n.module or '', a.name)
        elif isinstance(n, ast.Import):
            for a in n.names:
                have[a.asname or a.name] = a.name
        elif isinstance(n, (ast.Assign, ast.AnnAssign, ast.AugAssign)):
            for t in (n.targets if isinstance(n, ast.Assign) else [n.target]):
                if isinstance(t, ast.Name) and t.id in want:
                    raise Reject('%s: module-level assignment to %s' % (where, t.id))
    for k, v in want.items():
        if have.get(k) != v:
            raise Reject('%s: %s is %s, expected %s' % (where, k, have.get(k), v))
    defs = [n.name for n in tree.body if isinstance(n, (ast.FunctionDef, ast.ClassDef))]
    for k in want:
        if k in defs:
            raise Reject('%s: %s is redefined' % (where, k))


FORBIDDEN_METHODS = {'_conv_forward', '__call__', '__getattr__', '__getattribute__', '__setattr__', '__deepcopy__', '__copy__', '__reduce__', '__reduce_ex__', '__getstate__', '__setstate__', 'train', 'eval'}
PARAM_ATTRS = {'weight', 'bias', 'bn', 'fold_bn'}

# digests of PIT*.export accepted by this translator (print them with `python translator/import2coq.py --digests <repo>`)
EXPORT_DIGESTS = {
    'PITConv1d': {'facc16c0e338f34e'},
    'PITConv2d': {'9972bdd57d572e93'},
    'PITLinear': {'bdde20b0121d985e'},
}


def check_class(cls, bases):
    if [_u(b) for b in cls.bases] != bases or cls.keywords or cls.decorator_list:
        raise Reject('%s: bases %s' % (cls.name, [_u(b) for b in cls.bases]))
    for m in cls.body:
        if isinstance(m, ast.Expr) and isinstance(m.value, ast.Constant):
            continue
        if not isinstance(m, ast.FunctionDef):
            raise Reject('%s: class-level statement %s' % (cls.name, _d(m)))
        if m.name in FORBIDDEN_METHODS:
            raise Reject('%s defines %s' % (cls.name, m.name))
        if m.name in ('__init__', 'forward'):
            continue
        if m.name in PARAM_ATTRS:
            raise Reject('%s: %s is a method / property' % (cls.name, m.name))
        for x in ast.walk(m):
            tg = []
            if isinstance(x, ast.Assign):
                tg = x.targets
            elif isinstance(x, (ast.AugAssign, ast.AnnAssign)):
                tg = [x.target]
            elif isinstance(x, ast.Delete):
                tg = x.targets
            for t in tg:
                for y in ast.walk(t):
                    if isinstance(y, ast.Attribute) and y.attr in PARAM_ATTRS and _u(y.value) == 'self':
                        raise Reject('%s.%s writes self.%s' % (cls.name, m.name, y.attr))
            if isinstance(x, ast.Call) and isinstance(x.func, ast.Attribute) and x.func.attr.endswith('_') and not x.func.attr.startswith('_') \
                    and isinstance(x.func.value, ast.Attribute) and x.func.value.attr in PARAM_ATTRS and _u(x.func.value.value) == 'self':
                raise Reject('%s.%s updates self.%s in place' % (cls.name, m.name, x.func.value.attr))
            if isinstance(x, ast.Call) and _u(x.func) in ('setattr', 'delattr', 'object.__setattr__'):
                raise Reject('%s.%s uses %s' % (cls.name, m.name, _u(x.func)))
    ex_ = _method(cls, 'export')
    if digest(ex_) not in EXPORT_DIGESTS[cls.name]:
        raise Reject('%s.export changed (digest %s): it re-creates the BatchNorm of a fused layer and is not translated; look at it and add the digest' % (cls.name, digest(ex_)))


SUPER_CONV = ['SRC.in_channels', 'SRC.out_channels', 'SRC.kernel_size', 'SRC.stride', 'SRC.padding', 'SRC.dilation', 'SRC.groups', 'SRC.bias is not None', 'SRC.padding_mode']
SUPER_LIN = ['SRC.in_features', 'SRC.out_features', 'SRC.bias is not None']


HEADER = '''(* GENERATED by translator/import2coq.py from plinio/methods/pit/graph.py, plinio/methods/mps/graph.py,
   plinio/graph/transformation.py and plinio/methods/pit/nn/{conv1d,conv2d,linear}.py of the tree under test -- do not edit.
   BatchNorm fusion / folding at import: one output channel at a time, exact rational arithmetic, rsqrt an arbitrary function. *)
From Coq Require Import QArith ZArith List Bool Arith.
Import ListNotations.
Require Import Plinio.Base.Qx Plinio.Model.Masks Plinio.Model.Import.
Local Open Scope Q_scope.

(* ---- vocabulary (fixed text) *)
(* one channel of a BatchNorm module as the code reads it *)
Record bnmod := { m_mean : Q; m_var : Q; m_weight : option Q; m_bias : option Q; m_eps : Q; m_track : bool }.
(* one output channel of a layer object: weight rows (input channels x taps), bias, .bn, .fold_bn *)
Record glayer := { g_w : list (list Q); g_b : option Q; g_bn : option bnmod; g_fold : bool }.
Definition wmap (f : Q -> Q) (w : list (list Q)) : list (list Q) := map (map f) w.
Definition is_none {A} (o : option A) : bool := match o with None => true | Some _ => false end.
(* insertion-ordered dict with natural keys and values *)
Definition dict := list (nat * nat).
Fixpoint dmem (k : nat) (d : dict) : bool := match d with [] => false | (k', _) :: t => Nat.eqb k k' || dmem k t end.
Fixpoint dget_default (d : dict) (k dflt : nat) : nat := match d with [] => dflt | (k', v) :: t => if Nat.eqb k k' then v else dget_default t k dflt end.
Definition dget (d : dict) (k : nat) : nat := dget_default d k 0.
Fixpoint dset (d : dict) (k v : nat) : dict :=
  match d with [] => [(k, v)] | (k', v') :: t => if Nat.eqb k k' then (k', v) :: t else (k', v') :: dset t k v end.
Definition dkeys (d : dict) : list nat := map fst d.
Fixpoint fold_opt {A B} (f : A -> B -> option A) (l : list B) (a : A) : option A :=
  match l with [] => Some a | b :: t => match f a b with None => None | Some a' => fold_opt f t a' end end.

Section Arith.
(* torch.rsqrt: ANY function; the definedness predicates record that its argument must be positive *)
Variable rsqrt : Q -> Q.

(* a BatchNorm module applied in eval mode (torch's kernel; not read from the tree under test) *)
Definition bn_eval (m : bnmod) (y : Q) : Q :=
  (y - m_mean m) * rsqrt (m_var m + m_eps m) * (match m_weight m with Some g => g | None => 1 end) + (match m_bias m with Some b => b | None => 0 end).
Definition bn_eval_ok (m : bnmod) : bool := qlt_bool 0 (m_var m + m_eps m).

'''

MID = '''End Arith.

Section Fuse.
(* the fx graph + the `modules` dict, what the loop reads of a node and what it does to the graph *)
Variable S : Type.
Variable node_is_call_module arg0_is_node arg0_is_call_module target_is_second arg0_target_is_first : S -> nat -> bool.
Variable arg0_users arg0_target node_target : S -> nat -> nat.
Variable call_sites : S -> nat -> nat.
Variable fuse_in_place fuse_replace erase_second : nat -> S -> S.

'''

FOOTER = '''End Fuse.

(* correspondence helper (same shape as run_fold of Model/Import.v): rsqrt(var + eps) is the number r torch computed *)
Definition run_fold_gen (g be : option Q) (mu r : Q) (w : list Q) (ob : option Q) : option (list (Z * Z) * (Z * Z) * list (Z * Z) * (Z * Z)) :=
  let bn := {| m_mean := mu; m_var := 1; m_weight := g; m_bias := be; m_eps := 0; m_track := true |} in
  let lin := {| g_w := [w]; g_b := ob; g_bn := None; g_fold := false |} in
  match remove_bn_inplace_gen (fun _ => r) lin bn true, fuse_bn_inplace_gen (fun _ => r) lin bn with
  | Some a, Some b => Some (map qpair (concat (g_w a)), qpair (match g_b a with Some v => v | None => 0 end),
                            map qpair (concat (g_w b)), qpair (match g_b b with Some v => v | None => 0 end))
  | _, _ => None
  end.
'''


def _read(repo, *p):
    return open(os.path.join(repo, *p)).read()


def translate_repo(repo):
    pg = ast.parse(_read(repo, 'plinio', 'methods', 'pit', 'graph.py'))
    mg = ast.parse(_read(repo, 'plinio', 'methods', 'mps', 'graph.py'))
    tr = ast.parse(_read(repo, 'plinio', 'graph', 'transformation.py'))
    out = HEADER
    # ---- arithmetic
    check_imports(pg, {'copy': 'copy', 'torch': 'torch', 'nn': 'torch.nn', 'cast': 'typing:cast', 'PITConv1d': '.nn.conv1d:PITConv1d', 'PITConv2d': '.nn.conv2d:PITConv2d',
                       'PITLinear': '.nn.linear:PITLinear', 'fuse_consecutive_layers': 'plinio.graph.transformation:fuse_consecutive_layers', 'fx': 'torch.fx'}, 'pit/graph.py')
    check_imports(mg, {'torch': 'torch', 'nn': 'torch.nn', 'cast': 'typing:cast', 'fuse_consecutive_layers': 'plinio.graph.transformation:fuse_consecutive_layers', 'fx': 'torch.fx'}, 'mps/graph.py')
    check_imports(tr, {'nn': 'torch.nn', 'fx': 'torch.fx', 'replace_node_module': 'torch.fx.experimental.optimization:replace_node_module'}, 'graph/transformation.py')
    out += translate_fold(_func(pg, 'remove_bn_inplace'), 'remove_bn_inplace', ['PITConv1d', 'PITConv2d', 'PITLinear'], ['nn.BatchNorm1d', 'nn.BatchNorm2d'], True) + '\n'
    out += translate_fold(_func(mg, 'fuse_bn_inplace'), 'fuse_bn_inplace', ['nn.Conv2d', 'nn.Linear'], ['nn.BatchNorm1d', 'nn.BatchNorm2d'], False) + '\n'
    # ---- the three layer classes
    for fname, cname, g, src, sup, rank, has_time, bases in (
            ('conv1d.py', 'PITConv1d', 'pit_conv1d', 'conv', SUPER_CONV, 3, True, ['nn.Conv1d', 'PITModule']),
            ('conv2d.py', 'PITConv2d', 'pit_conv2d', 'conv', SUPER_CONV, 4, False, ['nn.Conv2d', 'PITModule']),
            ('linear.py', 'PITLinear', 'pit_linear', 'linear', SUPER_LIN, 2, False, ['nn.Linear', 'PITModule'])):
        t = ast.parse(_read(repo, 'plinio', 'methods', 'pit', 'nn', fname))
        want = {'torch': 'torch', 'nn': 'torch.nn', 'cast': 'typing:cast', 'PITModule': '.module:PITModule'}
        if cname == 'PITLinear':
            want['F'] = 'torch.nn.functional'
        check_imports(t, want, fname)
        for n in t.body:
            if isinstance(n, (ast.FunctionDef, ast.ClassDef)) and n.name != cname:
                raise Reject('%s defines %s' % (fname, n.name))
            if not isinstance(n, (ast.FunctionDef, ast.ClassDef, ast.Import, ast.ImportFrom)) and not (isinstance(n, ast.Expr) and isinstance(n.value, ast.Constant)):
                raise Reject('%s: module-level statement %s' % (fname, _d(n)))
        cls = _class(t, cname)
        check_class(cls, bases)
        out += translate_init(cls, g + '_init', src, sup) + '\n'
        out += translate_forward(cls, g + '_forward', rank, has_time) + '\n'
    out += MID
    # ---- the fusion pass
    for n in tr.body:
        if isinstance(n, (ast.FunctionDef, ast.ClassDef)) and n.name != 'fuse_consecutive_layers':
            raise Reject('graph/transformation.py defines ' + n.name)
    loop, dflt = translate_fuse_loop(_func(tr, 'fuse_consecutive_layers'))
    out += loop
    ip, cp = check_fuse_pit_modules(_func(pg, 'fuse_pit_modules'))
    check_convert(_func(pg, 'convert'), 'fuse_pit_modules(mod, fold_bn)', 'pit')
    if ip is None:
        ip = dflt
    fm = _func(mg, 'fuse_mps_modules')
    if _args(fm) != ['mod']:
        raise Reject('fuse_mps_modules: signature')
    mip = _calls_fuse(fm, [('nn.Conv2d', 'nn.BatchNorm2d'), ('nn.Linear', 'nn.BatchNorm1d')], 'fuse_bn_inplace', dflt)
    check_convert(_func(mg, 'convert'), 'fuse_mps_modules(mod)', 'mps')
    out += '\n' + FOOTER
    out += ('\n(* fuse_pit_modules: in_place flag handed to fuse_consecutive_layers; the fusion function works on a deep copy of the layer;\n'
            '   fuse_mps_modules: in_place flag *)\n'
            'Definition fuse_pit_in_place : bool := %s.\nDefinition fuse_pit_copy : bool := %s.\nDefinition fuse_mps_in_place : bool := %s.\n'
            % (str(ip).lower(), str(cp).lower(), str(mip).lower()))
    return out


def digests(repo):
    out = {}
    for fname, cname in (('conv1d.py', 'PITConv1d'), ('conv2d.py', 'PITConv2d'), ('linear.py', 'PITLinear')):
        t = ast.parse(_read(repo, 'plinio', 'methods', 'pit', 'nn', fname))
        out[cname] = digest(_method(_class(t, cname), 'export'))
    return out


if __name__ == '__main__':
    import sys
    if len(sys.argv) > 1 and sys.argv[1] == '--digests':
        print(digests(sys.argv[2] if len(sys.argv) > 2 else '/repo'))
    else:
        print(translate_repo(sys.argv[1] if len(sys.argv) > 1 else '/repo'))
