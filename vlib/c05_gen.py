"""C05 — second tie, by translation (DESIGN.md §13, "Second tie, by translation").

translator/mpscost2coq.py reads the source of the MPS cost composition of the tree under test (MPSConv1d / MPSConv2d /
MPSLinear .out_features_eff / .get_modified_vars / .get_cost, MPSPerChannelQtz.out_features_eff, MPSIdentity / MPSAdd
.get_cost, mps_layer_map, MPS._single_cost_fn_map / ._get_single_cost / cost_specification setter, DNAS._create_cost_fn_map /
.get_cost / .cost) and writes coq/Gen/MpsCostGen.v; coq/Proofs/MpsCostGen.v proves the generated functions equal to the
hand model (Model/MpsCost.v, Model/MpsCostNet.v with intended = false) and Props/C05.v states the C05_generated_* theorems.
This module is what vlib/c05.py needs:

    rej = c05_gen.regenerate(ctx)                       # BEFORE ctx.build(); None, or why the translator refused the source
    ...
    gex, gidx = c05_gen.gen_exprs(good, allex, owner)   # the `run_net` cases, run by the generated functions
    gvals = ctx.coq_eval_sharded('gcases', c05_gen.IMPORTS, 'Open Scope Q_scope.\n', gex, shard=150)
    mism += c05_gen.differences(ctx, good, owner, gidx, vals, gvals)
    ...
    c05_gen.report(ctx, rej, built)                     # in the final block, before `proof-broken`
"""
import os
import re
from .common import COQ, REPO, write_if_changed
from translator import mpscost2coq

GEN_V = os.path.join(COQ, 'Gen', 'MpsCostGen.v')
IMPORTS = ['Plinio.Model.MpsNet', 'Plinio.Model.MpsCost', 'Plinio.Model.MpsCostNet', 'Plinio.Gen.MpsCostGen', 'Plinio.Proofs.MpsCostGen']
TRANSLATOR = 'translator/mpscost2coq.py'
SOURCE = 'plinio/methods/mps/nn/{qtz,conv1d,conv2d,linear,identity,add,module}.py, plinio/methods/mps/{mps,graph}.py, plinio/methods/dnas_base/dnas.py, plinio/graph/inspection.py'


def regenerate(ctx=None, repo=None):
    """translate the cost composition of the tree under test into Gen/MpsCostGen.v (written only when it changed).
    -> None, or the reason why the translator refused the source (the file then fails on purpose)"""
    try:
        text, rej = mpscost2coq.translate_repo(repo or REPO), None
    except (mpscost2coq.Reject, SyntaxError, OSError, RecursionError) as e:
        rej = '%s: %s' % (type(e).__name__, e)
        text = ('(* %s REFUSED the MPS cost composition of the tree under test:\n   %s\n   no model of the current code exists; this file fails on purpose. *)\n'
                'Definition translator_rejected : True := 0.\n' % (TRANSLATOR, rej.replace('*)', '* )').replace('(*', '( *')))
    write_if_changed(GEN_V, text)
    if ctx is not None and rej:
        ctx.notes.append('generated model: the translator refused the source: ' + rej)
    return rej


def status(rej, built):
    """the `generated_model` entry of the evidence file"""
    return {'file': 'coq/Gen/MpsCostGen.v', 'translator': TRANSLATOR, 'source': SOURCE,
            'status': 'refused: ' + rej if rej else
                      'regenerated; get_cost / get_modified_vars / out_features_eff of the three layer types, _get_single_cost with the cost function maps and DNAS.get_cost equal the hand model (intended = false), every division / look-up / assert defined (C05_generated_*)' if built
                      else 'regenerated; obligations do not check'}


_RUN_NET = re.compile(r'^run_net false ')


def names_of(nodes):
    """names i = index of the node whose MODULE node i invokes (a 'reuse' node names the node it re-applies)"""
    return [nd['of'] if nd['k'] == 'reuse' else i for i, nd in enumerate(nodes)]


def gen_expr(case, e):
    """`run_net false <IR> <lays>` of the hand model -> the same case run by the generated functions; None if no counterpart
    (run_table: LUT specs enter both models as tables of the specs' own values; table_cost is not generated code)"""
    if not _RUN_NET.match(e):
        return None
    nodes = case['nodes']
    dim1 = 'true' if nodes[0].get('dim', 2) == 1 else 'false'
    names = '[' + '; '.join('%d' % n for n in names_of(nodes)) + ']%nat'
    ir, lays = _split_ir_lays(_RUN_NET.sub('', e, 1))
    # (totals, definedness, the two side conditions of C05_generated_run_is_model / _run_defined evaluated on this case)
    return ('let net := %s in let lays := %s in let names := %s in let r := run_net_gen %s net lays names in (fst r, snd r, names_okb net lays names, lays_wfb net lays)'
            % (ir, lays, names, dim1))


def _split_ir_lays(body):
    """`[<IR>] [<lays>]` -> the two bracketed Coq lists"""
    body = body.strip()
    assert body[0] == '[', body[:40]
    d = 0
    for k, ch in enumerate(body):
        d += ch == '['
        d -= ch == ']'
        if d == 0:
            return body[:k + 1], body[k + 1:].strip()
    raise ValueError('unbalanced brackets in a run_net expression')


def gen_exprs(good, allex, owner):
    """good: [(case, obs)], allex / owner as built in vlib/c05.run -> (expressions, indices into allex)"""
    out, idx = [], []
    for k, (e, (ci, tag)) in enumerate(zip(allex, owner)):
        if tag != 'net':
            continue
        g = gen_expr(good[ci][0], e)
        if g is not None:
            out.append(g)
            idx.append(k)
    return out, idx


def differences(ctx, good, owner, idx, vals, gvals, limit=3):
    """[(what, case, obs)] for every case on which the generated model differs from the hand model, is undefined, or lies
    outside the hypotheses of the transport theorems (names_okb / lays_wfb false: a harness / IR problem, reported too)"""
    out = []
    if len(idx) != len(gvals):
        return [('generated model: %d values for %d cases' % (len(gvals), len(idx)), good[0][0] if good else {}, good[0][1] if good else {})]
    n = 0
    for k, gv in zip(idx, gvals):
        (tot, ok, nok, wfb) = gv
        c, o = good[owner[k][0]]
        ctx.corr += 1
        n += 1
        what = None
        if [tuple(x) for x in tot] != [tuple(x) for x in vals[k]]:
            what = 'generated model differs from the hand-written model: generated %r, hand %r' % (tot, vals[k])
        elif nok is not True:
            what = 'generated model: the call-site names of this case are outside the hypothesis names_okb of C05_generated_run_is_model'
        elif ok is not True or wfb is not True:
            what = 'generated model: a division / look-up / assert on the way is undefined (ok = %r, lays_wfb = %r)' % (ok, wfb)
        if what and len(out) < limit:
            out.append((what, c, o))
    ctx.extra['generated_model_comparisons'] = ctx.extra.get('generated_model_comparisons', 0) + n
    return out


def report(ctx, rej, built):
    """translator-rejected wording for the final verdict; True if a violation was filed"""
    if built or ctx.violations or not rej:
        return False
    ctx.violation('translator-rejected', {'translator': TRANSLATOR, 'source': SOURCE, 'reason': rej, 'theorems': [o[0] for o in ctx.obligations if not o[1]]},
                  'the source of the MPS cost composition is outside the subset the translator accepts (%s): no generated model, the C05_generated_* theorems are not established' % rej[:300],
                  no_input=True)
    return True
