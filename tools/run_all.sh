#!/bin/bash
# usage: tools/run_all.sh [tier] [seed] [ids...]   runs the claimed checks sequentially, one summary line each
tier=${1:-quick}; seed=${2:-0}; shift 2 2>/dev/null
cd /verif
ids="$@"
[ -z "$ids" ] && ids=$(/venv/bin/python -c "import json; print(' '.join(c['property_id'] for c in json.load(open('MANIFEST.json'))['checks']))")
mkdir -p build/runall
for p in $ids; do
  s=$(date +%s)
  VERIF_SEED=$seed ./check $p --tier $tier > build/runall/$p.$tier.$seed.log 2>&1; rc=$?
  e=$(( $(date +%s) - s ))
  echo "$p rc=$rc ${e}s $(grep -c '^VIOLATION' build/runall/$p.$tier.$seed.log) violations, $(grep -c '^KNOWN-FINDING' build/runall/$p.$tier.$seed.log) known | $(tail -1 build/runall/$p.$tier.$seed.log | cut -c1-160)"
done
