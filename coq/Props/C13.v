(* C13 — Quantizers emit values that fit their declared bit-width and scale.
   Statements only (proofs: Proofs/Quant.v, model: Model/Quant.v).  Every statement quantifies over
   ALL rational inputs, all precisions p = p'+1 >= 1 (and p = 0 for weights), all clip values > 0,
   all channel lists.  Float rounding of the implementation is outside the model (DESIGN.md §4). *)
From Coq Require Import QArith Qround ZArith List.
Import ListNotations.
Require Import Plinio.Base.Qx Plinio.Base.Round Plinio.Model.Quant Plinio.Proofs.Quant Plinio.Gen.QuantGen Plinio.Proofs.QuantGen.
Open Scope Q_scope.

(* --- weights (symmetric min-max, per channel) *)
Theorem C13_wq_channel_range : forall p' xs,
  Forall (fun z => (- pow2 p' <= z <= pow2 p' - 1)%Z) (wq_channel (S p') xs).
Proof. exact wq_channel_range. Qed.

Theorem C13_wq_zero_bits : forall m x, wq_int 0 m x = 0%Z /\ wq_fq 0 m x == 0 /\ wq_scale 0 m = 0.
Proof. exact wq_zero_bits. Qed.

Theorem C13_wq_mono : forall p' m, 0 <= m -> forall x x', x <= x' -> (wq_int (S p') m x <= wq_int (S p') m x')%Z.
Proof. exact wq_mono. Qed.

(* inside the channel range the error is at most half a step (also at the clipped top level) *)
Theorem C13_wq_err : forall p' m, 0 <= m -> forall x, - m <= x <= m ->
  - (wq_scale (S p') m / 2) <= x - wq_fq (S p') m x <= wq_scale (S p') m / 2.
Proof. exact wq_err. Qed.

Theorem C13_wq_scale_pos : forall p' m, 0 <= m -> 0 < wq_scale (S p') m.
Proof. exact wq_scale_pos. Qed.

(* --- activations (PACT) *)
Theorem C13_aq_range : forall p' clip, 0 < clip -> forall x, (0 <= aq_int (S p') clip x <= pow2 (S p') - 1)%Z.
Proof. exact aq_range. Qed.

Theorem C13_aq_nonpos_zero : forall p' clip, 0 < clip -> forall x, x <= 0 -> aq_int (S p') clip x = 0%Z.
Proof. exact aq_nonpos_zero. Qed.

Theorem C13_aq_top_common : forall p' clip, 0 < clip -> forall x, clip <= x -> aq_int (S p') clip x = aq_int (S p') clip clip.
Proof. exact aq_top_common. Qed.

Theorem C13_aq_mono : forall p' clip, 0 < clip -> forall x x', x <= x' -> (aq_int (S p') clip x <= aq_int (S p') clip x')%Z.
Proof. exact aq_mono. Qed.

Theorem C13_aq_trunc : forall p' clip, 0 < clip -> forall x, 0 <= x <= clip ->
  0 <= x - aq_fq (S p') clip x /\ x - aq_fq (S p') clip x < 1 / aq_sf (S p') clip.
Proof. exact aq_trunc. Qed.

Theorem C13_aq_fq_is_int_times_scale : forall p' clip, 0 < clip -> forall x,
  aq_fq (S p') clip x == inject_Z (aq_int (S p') clip x) * aq_scale (S p') clip.
Proof. exact aq_fq_scale. Qed.

(* the scale reported by the pinned upstream commit (clip / (2^p - 1)) does not satisfy it *)
Theorem C13_upstream_scale_refuted : exists p clip x, 0 < clip /\
  ~ aq_fq p clip x == inject_Z (aq_int p clip x) * aq_scale_v0 p clip.
Proof. exact aq_scale_v0_refuted. Qed.

(* --- bias *)
Theorem C13_bq_zero_scale : forall sb b, qabs sb <= 1 # 100000000 -> bq_int sb b = 0%Z /\ bq_fq sb b == 0.
Proof. exact bq_zero_scale. Qed.

Theorem C13_bq_multiple : forall sb b, bq_fq sb b = sb * inject_Z (bq_int sb b).
Proof. reflexivity. Qed.

Theorem C13_bq_mono : forall sb b b', (1 # 100000000) < sb -> b <= b' -> (bq_int sb b <= bq_int sb b')%Z.
Proof. exact bq_mono. Qed.

Theorem C13_bq_err : forall sb b, (1 # 100000000) < qabs sb -> - (qabs sb / 2) <= b - bq_fq sb b <= qabs sb / 2.
Proof. exact bq_err. Qed.


(* ---- the model GENERATED from the source of the three quantizers of the tree under test (Gen/QuantGen.v, rewritten by
        translator/quant2coq.py on every run): one tensor element at a time, exact rational arithmetic ---- *)
(* it computes the hand-written model: integer output, fake-quantized output and reported scale ... *)
Theorem C13_generated_aq_int : forall p clip x, aq_gen p clip x false == inject_Z (aq_int p clip x).
Proof. exact aq_gen_int. Qed.
Theorem C13_generated_aq_fq : forall p clip x, aq_gen p clip x true == aq_fq p clip x.
Proof. exact aq_gen_fq. Qed.
Theorem C13_generated_aq_scale : forall p clip, aq_scale_gen p clip == aq_scale p clip.
Proof. exact aq_scale_gen_eq. Qed.
Theorem C13_generated_wq_int : forall p' m x, wq_gen (S p') (- m) m x false == inject_Z (wq_int (S p') m x).
Proof. exact wq_gen_int. Qed.
Theorem C13_generated_wq_fq : forall p' m x, wq_gen (S p') (- m) m x true == wq_fq (S p') m x.
Proof. exact wq_gen_fq. Qed.
Theorem C13_generated_wq_zero_bits : forall m x deq, wq_gen 0 (- m) m x deq == 0.
Proof. exact wq_gen_zero_bits. Qed.
Theorem C13_generated_wq_scale : forall p m, wq_scale_gen p (- m) m == wq_scale p m.
Proof. exact wq_scale_gen_eq. Qed.
Theorem C13_generated_bq_int : forall sb b, bq_gen sb b false == inject_Z (bq_int sb b).
Proof. exact bq_gen_int. Qed.
Theorem C13_generated_bq_fq : forall sb b, bq_gen sb b true == bq_fq sb b.
Proof. exact bq_gen_fq. Qed.

(* ... no division on an evaluated path has a zero divisor (positive clipping value, at least one bit; every channel
   range incl. the constant-zero channel; every scale product incl. zero) ... *)
Theorem C13_generated_aq_defined : forall p' clip x deq, 0 < clip -> aq_ok (S p') clip x deq = true.
Proof. exact aq_gen_defined. Qed.
Theorem C13_generated_aq_scale_defined : forall p' clip, aq_scale_ok (S p') clip = true.
Proof. exact aq_scale_gen_defined. Qed.
Theorem C13_generated_wq_defined : forall p' m x deq, 0 <= m -> wq_ok (S p') (- m) m x deq = true.
Proof. exact wq_gen_defined. Qed.
Theorem C13_generated_wq_scale_defined : forall p m, wq_scale_ok p (- m) m = true.
Proof. exact wq_scale_gen_defined. Qed.
Theorem C13_generated_bq_defined : forall sb b deq, bq_ok sb b deq = true.
Proof. exact bq_gen_defined. Qed.

(* ... and "fake-quantized output = integer output x reported scale" holds of the code as it is now *)
Theorem C13_generated_aq_fq_is_int_times_scale : forall p' clip x, 0 < clip ->
  aq_gen (S p') clip x true == aq_gen (S p') clip x false * aq_scale_gen (S p') clip.
Proof. exact gen_aq_fq_is_int_times_scale. Qed.
Theorem C13_generated_wq_fq_is_int_times_scale : forall p m x,
  wq_gen p (- m) m x true == wq_gen p (- m) m x false * wq_scale_gen p (- m) m.
Proof. exact gen_wq_fq_is_int_times_scale. Qed.
Theorem C13_generated_bq_fq_is_multiple : forall sb b, bq_gen sb b true == sb * bq_gen sb b false.
Proof. exact gen_bq_fq_is_multiple. Qed.

(* non-vacuity: a 3-channel example with a constant channel, an all-zero channel, a half-way rounding *)
Example C13_example :
  wq_channel 3 [1; 1; 1] = [3; 3; 3]%Z /\ wq_channel 3 [0; 0] = [0; 0]%Z /\
  wq_channel 2 [3 # 2; - (3 # 2); 1 # 2; - (1 # 2); 0] = [1; -2; 0; 0; 0]%Z /\
  map (aq_int 2 6) [-1; 0; 2; 6; 7] = [0; 0; 0; 2; 2]%Z /\ bq_int 0 5 = 0%Z /\ bq_int (1#2) (5#4) = 2%Z.
Proof. vm_compute. repeat split. Qed.

Print Assumptions C13_wq_channel_range.
Print Assumptions C13_wq_zero_bits.
Print Assumptions C13_wq_mono.
Print Assumptions C13_wq_err.
Print Assumptions C13_wq_scale_pos.
Print Assumptions C13_aq_range.
Print Assumptions C13_aq_nonpos_zero.
Print Assumptions C13_aq_top_common.
Print Assumptions C13_aq_mono.
Print Assumptions C13_aq_trunc.
Print Assumptions C13_aq_fq_is_int_times_scale.
Print Assumptions C13_upstream_scale_refuted.
Print Assumptions C13_bq_zero_scale.
Print Assumptions C13_bq_multiple.
Print Assumptions C13_bq_mono.
Print Assumptions C13_bq_err.
Print Assumptions C13_generated_aq_int.
Print Assumptions C13_generated_aq_fq.
Print Assumptions C13_generated_aq_scale.
Print Assumptions C13_generated_wq_int.
Print Assumptions C13_generated_wq_fq.
Print Assumptions C13_generated_wq_zero_bits.
Print Assumptions C13_generated_wq_scale.
Print Assumptions C13_generated_bq_int.
Print Assumptions C13_generated_bq_fq.
Print Assumptions C13_generated_aq_defined.
Print Assumptions C13_generated_aq_scale_defined.
Print Assumptions C13_generated_wq_defined.
Print Assumptions C13_generated_wq_scale_defined.
Print Assumptions C13_generated_bq_defined.
Print Assumptions C13_generated_aq_fq_is_int_times_scale.
Print Assumptions C13_generated_wq_fq_is_int_times_scale.
Print Assumptions C13_generated_bq_fq_is_multiple.
