"""C02 — second tie, by translation (DESIGN.md §13.T).

translator/mpsnet2coq.py reads the source of the searchable MPS layers / selectors and of the exported Quant layers of the tree under
test (MPSPerLayerQtz / MPSPerChannelQtz / MPSBiasQtz .forward, effective_scale; MPSConv2d / MPSConv1d / MPSLinear / MPSIdentity / MPSAdd
.forward, selected_*, summary, export; QuantConv2d / QuantConv1d / QuantLinear / QuantIdentity / QuantList constructor wiring and .forward)
and writes coq/Gen/MpsNetGen.v; coq/Proofs/MpsNetGen.v proves the generated functions equal to the hand model (mps_node / exp_node /
summary_of / export_of of Model/MpsNet.v) in eval / hard mode, and Props/C02.v states the C02_generated_* theorems.  The generated file
builds on Gen/SamplerGen.v (C10: the samplers) and the proofs on Gen/QuantGen.v (C13: the quantizers): both are regenerated here too,
through the regenerate functions of their own checks.  This module is what vlib/c02.py needs:

    rej = c02_gen.regenerate(ctx)                     # BEFORE ctx.build(); None, or why a translator refused the source
    ...
    gex = c02_gen.gen_exprs(sumex, dims)              # the `run_summary` cases, run by the generated selected_* / summary / export functions
    gvals = ctx.coq_eval_sharded('gsumm', c02_gen.IMPORTS, '', gex, shard=200)
    mism += c02_gen.differences(sumex, svals, gvals)
    ...
    c02_gen.report(ctx, rej, built)                   # in the final block, before `proof-broken`
"""
import os
import re
from .common import COQ, REPO, write_if_changed
from translator import mpsnet2coq

GEN_V = os.path.join(COQ, 'Gen', 'MpsNetGen.v')
IMPORTS = ['Plinio.Model.MpsNet', 'Plinio.Gen.MpsNetGen']
TRANSLATOR = 'translator/mpsnet2coq.py'
SOURCE = 'plinio/methods/mps/nn/{qtz,conv2d,conv1d,linear,identity,add,module}.py, plinio/methods/mps/quant/nn/{conv2d,conv1d,linear,identity,list,module}.py'


def _fail_text(which, rej):
    return ('(* %s REFUSED the source of the tree under test:\n   %s\n   no model of the current code exists; this file fails on purpose. *)\n'
            'Definition translator_rejected : True := 0.\n' % (which, rej.replace('*)', '* )').replace('(*', '( *')))


def regenerate(ctx=None, repo=None):
    """translate the MPS layers / selectors / exported layers of the tree under test into Gen/MpsNetGen.v (written only when it changed),
    after regenerating the Gen files it builds on (Gen/SamplerGen.v: vlib/c10_gen.py, Gen/QuantGen.v: vlib/c13.py).
    -> None, or the reason why a translator refused the source (the file concerned then fails on purpose)"""
    reasons = []
    if repo is None:
        from . import c10_gen, c13
        r = c10_gen.regenerate(None)
        if r:
            reasons.append('translator/sampler2coq.py (Gen/SamplerGen.v, imported): ' + r)
        r = c13.regenerate(None)
        if r:
            reasons.append('translator/quant2coq.py (Gen/QuantGen.v, imported): ' + r)
    else:       # experiments on a scratch tree: the same translators, run on that tree
        from translator import sampler2coq, quant2coq
        for mod, name in ((sampler2coq, 'SamplerGen'), (quant2coq, 'QuantGen')):
            try:
                text = mod.translate_repo(repo)
            except (mod.Reject, SyntaxError, OSError) as e:
                reasons.append('translator/%s.py (Gen/%s.v, imported): %s: %s' % (mod.__name__.split('.')[-1], name, type(e).__name__, e))
                text = _fail_text('translator/%s.py' % mod.__name__.split('.')[-1], reasons[-1])
            write_if_changed(os.path.join(COQ, 'Gen', name + '.v'), text)
    try:
        text, rej = mpsnet2coq.translate_repo(repo or REPO), None
    except (mpsnet2coq.Reject, SyntaxError, OSError, RecursionError) as e:
        rej = '%s: %s' % (type(e).__name__, e)
        text = _fail_text(TRANSLATOR, rej)
    write_if_changed(GEN_V, text)
    if rej:
        reasons.insert(0, rej)
    out = '; '.join(reasons) if reasons else None
    if ctx is not None and out:
        ctx.notes.append('generated model: a translator refused the source: ' + out)
    return out


def status(rej, built):
    """the `generated_model` entry of the evidence file"""
    return {'file': 'coq/Gen/MpsNetGen.v', 'translator': TRANSLATOR, 'source': SOURCE,
            'status': 'refused: ' + rej if rej else
                      'regenerated; layer / selector forward in eval or hard mode = mps_node / exp_node of the hand model = forward of the generated export(); summary / exported quantizers = summary_of / export_of (C02_generated_*)' if built
                      else 'regenerated; obligations do not check'}


_SUMM = re.compile(r'^run_summary ')


def gen_exprs(sumex, dims):
    """the `run_summary fixed shared net al pl` cases of the hand model -> for each case two expressions: the same case run by the generated
    selected_* / summary functions (run_summary_gen) and by the generated export functions (run_export_gen: precisions of the quantizer
    objects handed to the exported layers); dims[k] = True when case k is a Conv1d network (MPSConv1d's functions are used)"""
    out = []
    for e, d in zip(sumex, dims):
        if not _SUMM.match(e):
            raise ValueError('not a run_summary case: ' + e[:80])
        d_ = 'true' if d else 'false'
        out.append(_SUMM.sub('run_summary_gen %s ' % d_, e, 1))
        out.append(_SUMM.sub('run_export_gen %s ' % d_, e, 1))
    return out


def differences(sumex, svals, gvals, limit=3):
    """[(list of mismatch strings, case index)] for every case on which a generated function and the hand-written model differ"""
    if len(gvals) != 2 * len(svals):
        return [(['generated model: %d values for %d cases' % (len(gvals), len(svals))], 0)]
    out = []
    for k, sv in enumerate(svals):
        for what, gv in (('summary()', gvals[2 * k]), ('export()', gvals[2 * k + 1])):
            if gv != sv:
                bad = [i for i, (a, b) in enumerate(zip(sv, gv)) if a != b]
                out.append((['generated %s differs from the hand-written model at nodes %s: hand %s, generated %s' %
                             (what, bad[:5], [sv[i] for i in bad[:3]], [gv[i] for i in bad[:3]])], k))
                if len(out) >= limit:
                    return out
    return out


def report(ctx, rej, built):
    """translator-rejected wording for the final verdict; True if a violation was filed"""
    if built or ctx.violations:
        return False
    if rej:
        ctx.violation('translator-rejected', {'translator': TRANSLATOR, 'source': SOURCE, 'reason': rej, 'theorems': [o[0] for o in ctx.obligations if not o[1]]},
                      'the source of the MPS layers / selectors / exported layers is outside the subset the translators accept (%s): no generated model, the C02_generated_* theorems are not established' % rej[:300], no_input=True)
        return True
    return False
