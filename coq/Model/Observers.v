(* Model of the observer operations of a PLiNIO NAS wrapper (PIT / MPS / SuperNet)   (C18)
   Written from  plinio/methods/{pit,mps,supernet}/{pit,mps,supernet}.py  export() / summary() /
   cost / get_cost() / cost_specification setter / _get_single_cost, the three graph.py
   convert(..., 'export'), SuperNetCombiner.summary()/get_cost and DNAS._preserve_state.
   The state is abstract: tensors are represented by version counters / provenance tokens. *)
From Coq Require Import ZArith List Bool String.
Import ListNotations.
Local Open Scope Z_scope.

Inductive method := PIT | MPS | SN.
Definition method_eqb (a b : method) : bool :=
  match a, b with PIT, PIT | MPS, MPS | SN, SN => true | _, _ => false end.

(* what the code does; [fixed] is the repaired tree, [upstream] the pinned revision *)
(* what export() does about the state it disturbed: nothing (pinned upstream) | puts the sampled coefficients
   back and calls self.train(mode found on the wrapper) | puts back the flag of EVERY module (DNAS._preserve_state) *)
Inductive restore := RNo | RMode | RAll.
Record version := mkVer {
  restore_state : restore;
  fork_rng      : bool;   (* export() runs the conversion inside torch.random.fork_rng() *)
  summary_pure  : bool;   (* SuperNetCombiner.summary() does not call sample_alpha() *)
  keep_options  : bool }. (* export() leaves the sampling options alone (false: it ends with disable_sampling=False) *)
Definition fixed := mkVer RAll true true true.
Definition upstream := mkVer RNo false false true.

(* static facts of the wrapped network *)
Record config := mkCfg {
  meth      : method;
  gumbel    : bool;    (* samplers are BUILT with Gumbel-softmax (MPS can switch later, see [sopt]) *)
  has_bn    : bool;    (* some BatchNorm updates running statistics in a training forward *)
  has_drop  : bool;    (* some Dropout draws from the global RNG in a training forward *)
  has_fixed : bool;    (* some non-searchable layer is costed when full_cost is on *)
  bn_sub    : bool;    (* the BatchNorm modules belong to the sub-set S of modules whose flag is handled separately *)
  drop_sub  : bool;    (* the Dropout modules belong to S *)
  samp_sub  : bool;    (* the samplers (MPS quantizers / SuperNet combiners) belong to S *)
  full_cost : bool }.

Inductive specid := SingleA | SingleB | DictAB.
Definition specid_eqb (a b : specid) : bool :=
  match a, b with SingleA, SingleA | SingleB, SingleB | DictAB, DictAB => true | _, _ => false end.

(* provenance of the sampled coefficients theta_alpha currently stored in the samplers *)
(* sampling options of the samplers (update_softmax_options): they live outside the parameters *)
Record sopt := mkOpt {
  o_disabled : bool;     (* disable_sampling: forward keeps the stored coefficients (MPS) *)
  o_hard : bool;         (* hard_softmax *)
  o_gumbel : bool;       (* Gumbel-softmax vs softmax *)
  o_temp : Z }.          (* identifier of the temperature value *)

Inductive theta :=
| TInit                                     (* whatever construction left there *)
| TSoft (pv : Z) (h : bool) (t : Z)         (* softmax (one-hot if h) at temperature t of the parameters of version pv *)
| TEval (pv : Z) (t : Z)                    (* eval-mode (arg-max) sample of the parameters of version pv (MPS) *)
| TGumbel (pv : Z) (r : Z) (h : bool) (t : Z).   (* Gumbel sample of parameters pv drawn at RNG position r *)

(* which parameters are trainable (requires_grad): as built | train_net_and_nas | train_nas_only | train_net_only *)
Inductive tmode := TBuilt | TAll | TNas | TNet.

Record state := mkSt {
  pv : Z;                (* version of the parameters (weights and NAS parameters) *)
  bv : Z;                (* version of the BatchNorm running statistics *)
  tr_wrap : bool;        (* wrapper.training *)
  tr_seed : bool;        (* wrapper.seed.training *)
  tr_leaf : bool;        (* .training of the modules inside the seed that are not in S *)
  tr_sub : bool;         (* .training of the modules in S (user code may freeze / unfreeze them: module.eval()) *)
  th : theta;
  opt : sopt;            (* current sampling options *)
  trn : tmode;           (* requires_grad of the parameters (also of the layers shared with the user's model) *)
  rng : Z;               (* position of torch's global random stream *)
  spec : specid;         (* current cost specification *)
  polluted : bool }.     (* some plain layer's __dict__ carries the shape keys written by a cost call *)

(* the part of the state the property speaks about (everything but [polluted]) *)
Definition visible (s : state) := (pv s, bv s, (tr_wrap s, tr_seed s, tr_leaf s, tr_sub s), th s, opt s, trn s, rng s, spec s).

Inductive oop := OExport | OExportNoBn | OSummary | OCost | OGetCost (n : string)
               | OSetSpec (s : specid) | OForward | OTrainStep | OFlip
               | OSetOpt (d h g : option bool) (t : option Z)
               | OSetTrain (m : tmode)
               | OSetMode (b : bool) | OWrite | OBackward | OStep.
Definition is_observer (o : oop) : bool :=
  match o with OExport | OExportNoBn | OSummary | OCost | OGetCost _ => true | _ => false end.

(* the four cost models in use: the single specifications A and B, the entries "a" and "b" of the dictionary (which need not be
   the same models as A and B: the harness uses params / ops_no_bias / {a: params_no_bias, b: ops}) *)
Inductive metric := MA | MB | MDa | MDb.
Inductive obs :=
| ONet (pv bv : Z)                                  (* exported network: architecture and weights are functions of pv, bv *)
| OSum (pv : Z)                                     (* summary computed from the parameters *)
| OSumTheta (t : theta)                             (* SuperNet summary: reports normalized coefficients (upstream: a freshly stored sample) *)
| OCostV (m : metric) (fc : bool) (t : theta) (pv : Z)
| OOut (pv bv : Z) (t : theta) (train sub : bool) (r : Z)
| OOk
| OErr.

(* Gumbel event = 1, Dropout event = 16, construction of the exported layers = 256 *)
Definition w_gumbel := 1.
Definition w_drop := 16.
Definition w_build := 256.

(* sample_alpha() of every sampler, as called by a forward pass of the seed *)
Definition sample (c : config) (o : sopt) (train : bool) (p r : Z) : theta * Z :=
  match meth c with
  | PIT => (TInit, r)                                            (* no sampler; handled by callers *)
  | MPS => if train then (if o_gumbel o then (TGumbel p r (o_hard o) (o_temp o), r + w_gumbel) else (TSoft p (o_hard o) (o_temp o), r))
           else (TEval p (o_temp o), r)
  | SN  => if train && o_gumbel o then (TGumbel p r (o_hard o) (o_temp o), r + w_gumbel) else (TSoft p (o_hard o) (o_temp o), r)
  end.
Definition bn_flag (c : config) (s : state) := if bn_sub c then tr_sub s else tr_leaf s.
Definition drop_flag (c : config) (s : state) := if drop_sub c then tr_sub s else tr_leaf s.
Definition samp_flag (c : config) (s : state) := if samp_sub c then tr_sub s else tr_leaf s.
Definition resample (c : config) (train : bool) (s : state) : theta * Z :=
  match meth c with
  | PIT => (th s, rng s)
  | _ => if o_disabled (opt s) then (th s, rng s)             (* sample_alpha_none *)
         else sample c (opt s) train (pv s) (rng s)
  end.

Definition set_th_rng (s : state) (t : theta) (r : Z) : state :=
  mkSt (pv s) (bv s) (tr_wrap s) (tr_seed s) (tr_leaf s) (tr_sub s) t (opt s) (trn s) r (spec s) (polluted s).

(* forward of the wrapper = forward of the seed *)
Definition forward (c : config) (s : state) : state * obs :=
  let t := fst (resample c (samp_flag c s) s) in
  let r1 := snd (resample c (samp_flag c s) s) in
  let r2 := if drop_flag c s && has_drop c then r1 + w_drop else r1 in
  let b2 := if bn_flag c s && has_bn c then bv s + 1 else bv s in
  (mkSt (pv s) b2 (tr_wrap s) (tr_seed s) (tr_leaf s) (tr_sub s) t (opt s) (trn s) r2 (spec s) (polluted s),
   OOut (pv s) (bv s) t (tr_leaf s) (tr_sub s) r1).

(* convert(seed, example, 'export'): trace(seed.eval()), ShapeProp forward, new layers *)
Definition export (v : version) (c : config) (s : state) : state * obs :=
  let o := ONet (pv s) (bv s) in
  let builds := negb (method_eqb (meth c) SN) in
  let r_build := if builds && negb (fork_rng v) then w_build else 0 in
  (* a variant wraps the conversion in update_softmax_options(disable_sampling=True) ... (disable_sampling=False) *)
  let o2 := if keep_options v then opt s
            else match meth c with MPS => mkOpt false (o_hard (opt s)) (o_gumbel (opt s)) (o_temp (opt s)) | _ => opt s end in
  match restore_state v with
  | RAll => (mkSt (pv s) (bv s) (tr_wrap s) (tr_seed s) (tr_leaf s) (tr_sub s) (th s) o2 (trn s) (rng s + r_build) (spec s) (polluted s), o)
  | RMode =>                                  (* self.train(self.training): every module gets the wrapper's flag *)
    (mkSt (pv s) (bv s) (tr_wrap s) (tr_wrap s) (tr_wrap s) (tr_wrap s) (th s) o2 (trn s) (rng s + r_build) (spec s) (polluted s), o)
  | RNo =>
    let t := fst (resample c false s) in      (* eval-mode forward of shape propagation *)
    let r1 := snd (resample c false s) in
    (mkSt (pv s) (bv s) (tr_wrap s) false false false t o2 (trn s) (r1 + r_build) (spec s) (polluted s), o)
  end.

Definition summary (v : version) (c : config) (s : state) : state * obs :=
  match meth c with
  | SN => if summary_pure v then (s, OSumTheta (TSoft (pv s) (o_hard (opt s)) (o_temp (opt s))))   (* noise-free softmax / one-hot, not stored *)
          else let t := fst (resample c (samp_flag c s) s) in
               let r1 := snd (resample c (samp_flag c s) s) in (set_th_rng s t r1, OSumTheta t)
  | _ => (s, OSum (pv s))
  end.

(* _get_single_cost: searchable layers get a fresh dict, plain layers are costed through vars(layer)
   (the layer's own __dict__, updated with the shape keys) *)
Definition pollutes (c : config) : bool :=
  match meth c with SN => true | _ => full_cost c && has_fixed c end.
Definition cost_of (c : config) (s : state) (m : metric) : state * obs :=
  (mkSt (pv s) (bv s) (tr_wrap s) (tr_seed s) (tr_leaf s) (tr_sub s) (th s) (opt s) (trn s) (rng s) (spec s) (polluted s || pollutes c),
   OCostV m (full_cost c) (th s) (pv s)).

(* one search step: forward, loss + cost regularizer (cost / get_cost "a"), backward, update of every trainable parameter *)
Definition train_step (c : config) (s : state) : state * obs :=
  let s1 := fst (forward c s) in
  let o := snd (forward c s) in
  (mkSt (pv s1 + 1) (bv s1) (tr_wrap s1) (tr_seed s1) (tr_leaf s1) (tr_sub s1) (th s1) (opt s1) (trn s1) (rng s1) (spec s1) (polluted s1 || pollutes c), o).

(* the two halves of a search step, so that observers can be called between backward() and optimizer.step():
   forward + loss + backward (sampling, BatchNorm statistics and random stream as in a forward; gradients stored) ... *)
Definition backward (c : config) (s : state) : state * obs :=
  let s1 := fst (forward c s) in
  (mkSt (pv s1) (bv s1) (tr_wrap s1) (tr_seed s1) (tr_leaf s1) (tr_sub s1) (th s1) (opt s1) (trn s1) (rng s1) (spec s1) (polluted s1 || pollutes c),
   snd (forward c s)).
(* ... and the update of the parameters; also: parameter values written directly / through load_state_dict (no forward) *)
Definition write (s : state) : state * obs :=
  (mkSt (pv s + 1) (bv s) (tr_wrap s) (tr_seed s) (tr_leaf s) (tr_sub s) (th s) (opt s) (trn s) (rng s) (spec s) (polluted s), OOk).
(* wrapper.train(b) / wrapper.eval(): every module gets the flag *)
Definition set_mode (s : state) (b : bool) : state * obs :=
  (mkSt (pv s) (bv s) b b b b (th s) (opt s) (trn s) (rng s) (spec s) (polluted s), OOk).

Definition cost (c : config) (s : state) : state * obs :=
  match spec s with
  | SingleA => cost_of c s MA
  | SingleB => cost_of c s MB
  | DictAB => (s, OErr)        (* AssertionError: multiple cost metrics *)
  end.
Definition get_cost (c : config) (s : state) (n : string) : state * obs :=
  match spec s with
  | DictAB => if String.eqb n "a" then cost_of c s MDa else if String.eqb n "b" then cost_of c s MDb
              else (s, OErr)   (* KeyError *)
  | _ => (s, OErr)             (* AssertionError: not a dictionary *)
  end.

Definition set_spec (s : state) (sp : specid) : state * obs :=
  (mkSt (pv s) (bv s) (tr_wrap s) (tr_seed s) (tr_leaf s) (tr_sub s) (th s) (opt s) (trn s) (rng s) sp (polluted s), OOk).

(* user code flips the flag of the modules in S (module.eval() / module.train() on BatchNorm, Dropout, samplers) *)
Definition flip (s : state) : state * obs :=
  (mkSt (pv s) (bv s) (tr_wrap s) (tr_seed s) (tr_leaf s) (negb (tr_sub s)) (th s) (opt s) (trn s) (rng s) (spec s) (polluted s), OOk).

(* update_softmax_options(temperature, hard, gumbel, disable_sampling): options that are not given keep their value;
   SuperNet offers temperature and hard only; PIT has no samplers *)
Definition ov {A} (x : option A) (d : A) : A := match x with Some y => y | None => d end.
Definition set_opt (c : config) (s : state) (d h g : option bool) (t : option Z) : state * obs :=
  let o := opt s in
  let o' := match meth c with
            | PIT => o
            | MPS => mkOpt (ov d (o_disabled o)) (ov h (o_hard o)) (ov g (o_gumbel o)) (ov t (o_temp o))
            | SN => mkOpt (o_disabled o) (ov h (o_hard o)) (o_gumbel o) (ov t (o_temp o))
            end in
  (mkSt (pv s) (bv s) (tr_wrap s) (tr_seed s) (tr_leaf s) (tr_sub s) (th s) o' (trn s) (rng s) (spec s) (polluted s), OOk).

(* train_nas_only() / train_net_only() / train_net_and_nas(): requires_grad of every parameter *)
Definition set_train (s : state) (m : tmode) : state * obs :=
  (mkSt (pv s) (bv s) (tr_wrap s) (tr_seed s) (tr_leaf s) (tr_sub s) (th s) (opt s) m (rng s) (spec s) (polluted s), OOk).

Definition step (v : version) (c : config) (s : state) (o : oop) : state * obs :=
  match o with
  | OExport => export v c s
  | OExportNoBn => match meth c with PIT => export v c s     (* add_bn=False has no effect: following_bn_args is never set *)
                                   | _ => (s, OErr) end       (* TypeError: unexpected keyword *)
  | OSummary => summary v c s
  | OCost => cost c s
  | OGetCost n => get_cost c s n
  | OSetSpec sp => set_spec s sp
  | OForward => forward c s
  | OTrainStep => train_step c s
  | OFlip => flip s
  | OSetOpt d h g t => set_opt c s d h g t
  | OSetTrain m => set_train s m
  | OSetMode b => set_mode s b
  | OWrite => write s
  | OBackward => backward c s
  | OStep => write s
  end.

Fixpoint run (v : version) (c : config) (s : state) (ops : list oop) : state :=
  match ops with [] => s | o :: r => run v c (fst (step v c s o)) r end.

(* observations of a whole history *)
Fixpoint trace (v : version) (c : config) (s : state) (ops : list oop) : list obs :=
  match ops with [] => [] | o :: r => let '(s', ob) := step v c s o in ob :: trace v c s' r end.

(* observations of the non-observer operations only *)
Fixpoint trace_mut (v : version) (c : config) (s : state) (ops : list oop) : list obs :=
  match ops with
  | [] => []
  | o :: r => let '(s', ob) := step v c s o in
              if is_observer o then trace_mut v c s' r else ob :: trace_mut v c s' r
  end.

Definition erase (ops : list oop) : list oop := filter (fun o => negb (is_observer o)) ops.

(* [mixed]: the modules in S start with the flag opposite to the wrapper's *)
Definition init (c : config) (train mixed : bool) (sp : specid) : state :=
  mkSt 0 0 train train train (xorb train mixed) TInit (mkOpt false false (gumbel c) 1) TBuilt 0 sp false.

(* correspondence helper: observation and full abstract state after every step *)
Fixpoint run_trace_from (v : version) (c : config) (s : state) (ops : list oop) : list (obs * state) :=
  match ops with [] => [] | o :: r => let '(s', ob) := step v c s o in (ob, s') :: run_trace_from v c s' r end.
Definition run_trace (v : version) (c : config) (train mixed : bool) (sp : specid) (ops : list oop) :=
  run_trace_from v c (init c train mixed sp) ops.

(* flat encodings for the harness *)
Definition st_tuple (s : state) := (pv s, bv s, (tr_wrap s, tr_seed s, tr_leaf s, tr_sub s), th s, rng s, spec s, polluted s,
   (o_disabled (opt s), o_hard (opt s), o_gumbel (opt s), o_temp (opt s)), trn s).
Definition run_trace_t (v : version) (c : config) (train mixed : bool) (sp : specid) (ops : list oop) :=
  map (fun p => (fst p, st_tuple (snd p))) (run_trace v c train mixed sp ops).
