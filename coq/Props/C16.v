(* C16 — Built-in cost models are finite, non-negative and monotone in layer size.
   Statements only (proofs: Base/Expr.v, Proofs/CostFns.v; models: Base/Expr.v, Model/CostFns.v and the
   file Gen/CostGen.v that the check regenerates from plinio/cost/*.py on every run).

   Finite: every model value is a rational number (total functions into Q); None = the function raises.
   The nine closed-form files are covered by REFLECTION: C16_expr_mono_nonneg / C16_expr_positive hold
   for EVERY term of the embedding and ALL rational environments; Gen/CostGen.v carries, for each
   registered function <f>, the obligations  <f>_ok : okb (cf_body <f>) = true  and
   <f>_pos : posb lo_nonempty (cf_body <f>) = true  (vm_compute) and their corollaries
   <f>_mono_nonneg / <f>_positive, plus <spec>_conv{1d,2d}_dw_eq_generic (ring).  The check counts those
   as obligations of this property.  NE16 and DIANA are proved by hand below. *)
From Coq Require Import QArith Qround ZArith List.
Import ListNotations.
Require Import Plinio.Base.Qx Plinio.Base.Expr Plinio.Model.CostFns Plinio.Proofs.CostFns.
(* the generated instances belong to this property: requiring them puts Gen/CostGen.vo into the closure that
   `coqchk` re-checks in the thorough tier (nothing of it is imported: the statements below stay generic) *)
Require Plinio.Gen.CostGen.
Open Scope Q_scope.

(* Which size arguments each model's monotonicity covers (all for ALL non-negative rationals):
   - params, params_no_bias, params_bit, ops, ops_no_bias, ops_bit, gap8_latency, mpic_latency, mpic_energy
     (generated, <f>_mono_nonneg): EVERY argument the function reads, jointly and one at a time
     (C16_expr_mono_var): cin, cout, kernel_size[0], kernel_size[1], output_shape[2], output_shape[3],
     w_precision, in_precision (MPIC: as a step function on its table), bias flag, groups.
   - NE16 conv2d generic: cin, cout, output_shape[2], output_shape[3], w_precision, kernel 1x1 -> 3x3 (its only
     two kernels; needs w_precision >= 1) — C16_ne16_conv2d_generic_mono_kernel; theta, in_precision fixed.
   - NE16 conv2d depthwise: cin, cout, output_shape[2], output_shape[3], w_precision; the kernel cannot grow
     (3x3 is the only accepted one, C16_ne16_dw_kernel_is_3x3).   NE16 linear: cin, cout, w_precision.
   - DIANA conv2d (analog and digital): cin, cout, kernel_size[0], kernel_size[1], output_shape[2],
     output_shape[3]; precisions and groups select the accelerator and are fixed.  DIANA linear: cin, cout. *)

(* ---- reflection: any translated cost function, all rational (also fractional / relaxed) arguments *)
Theorem C16_expr_mono_nonneg : forall e, okb e = true ->
  forall r r', (forall i, 0 <= r i) -> (forall i, r i <= r' i) -> 0 <= eval r e /\ eval r e <= eval r' e.
Proof. exact expr_mono_nonneg. Qed.

Theorem C16_expr_positive : forall lo e, posb lo e = true ->
  forall r r', (forall i, lo i <= r i) -> (forall i, r i <= r' i) -> 0 < eval r e /\ eval r e <= eval r' e.
Proof. exact expr_pos. Qed.

(* one argument grows, all the others stay *)
Theorem C16_expr_mono_var : forall e, okb e = true ->
  forall r i v v', (forall j, 0 <= r j) -> 0 <= v -> v <= v' ->
  0 <= eval (upd r i v) e /\ eval (upd r i v) e <= eval (upd r i v') e.
Proof. exact expr_mono_var. Qed.

(* the analysis behind both: a lower bound on {r | lo <= r} that exists only on the monotone fragment *)
Theorem C16_lbq_sound : forall lo e l, lbq lo e = Some l ->
  forall r r', (forall i, lo i <= r i) -> (forall i, r i <= r' i) -> l <= eval r e /\ eval r e <= eval r' e.
Proof. exact lbq_sound. Qed.

(* look-up tables (MPIC): monotone in both precisions and non-negative whenever the table check passes *)
Theorem C16_lut_mono : forall t a a' w w', lut_okb t = true -> a <= a' -> w <= w' ->
  0 <= step2 t a w [] /\ step2 t a w [] <= step2 t a' w' [].
Proof. intros. split; [apply step2_nonneg|apply step2_mono]; assumption. Qed.

Example C16_expr_instance :   (* gap8-like: ceil(cout/4) * (5 + cin*k0) *)
  okb (EMul (EFloor (EDiv (ESub (EAdd (EVar 1) (EConst 4)) (EConst 1)) (EConst 4))) (EAdd (EConst 5) (EMul (EVar 0) (EVar 2)))) = true
  /\ posb lo_nonempty (EMul (EFloor (EDiv (ESub (EAdd (EVar 1) (EConst 4)) (EConst 1)) (EConst 4))) (EAdd (EConst 5) (EMul (EVar 0) (EVar 2)))) = true
  /\ okb (ESub (EVar 0) (EVar 1)) = false /\ okb (EDiv (EVar 0) (EVar 1)) = false.
Proof. vm_compute. repeat split; reflexivity. Qed.

(* ---- rounding helpers: exact on integers; what they compute on fractions *)
Theorem C16_floor_ste_exact : forall z n, exists c : Z,
  floor_ste (inject_Z z) (inject_Z (Zpos n)) = inject_Z c /\ ((c - 1) * Zpos n < z <= c * Zpos n)%Z.
Proof. exact floor_ste_exact. Qed.

Theorem C16_div_and_ceil_exact : forall z n, exists c : Z,
  div_and_ceil (inject_Z z) (inject_Z (Zpos n)) == inject_Z c /\ ((c - 1) * Zpos n < z <= c * Zpos n)%Z.
Proof. exact div_and_ceil_exact. Qed.

Theorem C16_floor_divide_exact : forall z n, floor_divide (inject_Z z) (inject_Z (Zpos n)) = inject_Z (z / Zpos n).
Proof. exact floor_divide_exact. Qed.

Theorem C16_modulo_exact : forall z n, modulo (inject_Z z) (inject_Z (Zpos n)) == inject_Z (z mod Zpos n).
Proof. exact modulo_exact. Qed.

Theorem C16_gate_exact : forall ch th, (th <= ch -> gate ch th = 1) /\ (ch < th -> gate ch th = 0).
Proof. exact gate_exact. Qed.

Theorem C16_floor_ste_on_fractions : forall ch n, 0 < n ->
  (floor_ste ch n - 1) * n + 1 <= ch /\ ch < floor_ste ch n * n + 1.
Proof. exact floor_ste_spec. Qed.

Example C16_floor_ste_fraction : floor_ste (17 # 4) 4 == 1.   (* not the ceiling 2: relaxed counts round down *)
Proof. exact floor_ste_fraction_example. Qed.

(* ---- NE16 *)
Theorem C16_ne16_tiling_mono : forall (I I' : Q -> Q) B, 0 < B ->
  (forall k k', 0 <= k -> k <= k' -> k' <= B -> 0 <= I k /\ I k <= I' k') ->
  forall Ko Ko', 0 <= Ko -> Ko <= Ko' -> 0 <= body_rem I B Ko /\ body_rem I B Ko <= body_rem I' B Ko'.
Proof. exact body_rem_mono. Qed.

Theorem C16_ne16_latency_mono : forall kd wb wb' H H' W W' Ko Ko' Ki Ki',
  0 <= wb -> wb <= wb' -> 0 <= H -> H <= H' -> 0 <= W -> W <= W' -> 0 <= Ko -> Ko <= Ko' -> 0 <= Ki -> Ki <= Ki' ->
  0 <= ne16_lat kd wb H W Ko Ki /\ ne16_lat kd wb H W Ko Ki <= ne16_lat kd wb' H' W' Ko' Ki'.
Proof. exact ne16_lat_mono. Qed.

Theorem C16_ne16_latency_pos : forall kd wb H W Ko Ki, 0 <= wb -> 1 <= H -> 1 <= W -> 0 < Ko -> 0 <= Ki ->
  13 <= ne16_lat kd wb H W Ko Ki.
Proof. exact ne16_lat_pos. Qed.

Theorem C16_ne16_conv2d_generic_mono : forall r r' c c', ne16_le r r' -> same_kernel r r' -> out_le r r' ->
  ne16_conv2d_generic r = Some c -> ne16_conv2d_generic r' = Some c' -> 0 <= c /\ c <= c'.
Proof. exact ne16_conv2d_generic_mono. Qed.

(* kernel growth: a 3x3 job is never cheaper than the 1x1 job of a layer that is no larger (weights >= 1 bit) *)
Theorem C16_ne16_latency_kernel_mono : forall wb wb' H H' W W' Ko Ko' Ki Ki',
  0 <= wb -> 1 <= wb' -> 0 <= H -> H <= H' -> 0 <= W -> W <= W' -> 0 <= Ko -> Ko <= Ko' -> 0 <= Ki -> Ki <= Ki' ->
  0 <= ne16_lat K1x1 wb H W Ko Ki /\ ne16_lat K1x1 wb H W Ko Ki <= ne16_lat K3x3 wb' H' W' Ko' Ki'.
Proof. exact ne16_lat_kernel. Qed.

(* the dense registered function with EVERY size argument growing at once: cin, cout, both output entries,
   weight bits, and the kernel staying or growing 1x1 -> 3x3 *)
Theorem C16_ne16_conv2d_generic_mono_kernel : forall r r' c c', ne16_le r r' -> ne16_kernel_le r r' -> out_le r r' ->
  ne16_conv2d_generic r = Some c -> ne16_conv2d_generic r' = Some c' -> 0 <= c /\ c <= c'.
Proof. exact ne16_conv2d_generic_mono_kernel. Qed.

(* accepted kernels of non-pruned layers: dense {3x3, 1x1}, depthwise {3x3} *)
Theorem C16_ne16_generic_kernel_domain : forall r c, ~ r V_wp == 0 -> ~ r V_theta == 0 ->
  ne16_conv2d_generic r = Some c -> kernel_3x3_or_1x1 r.
Proof. exact ne16_conv2d_generic_kernel_domain. Qed.

Theorem C16_ne16_dw_kernel_is_3x3 : forall r c, ~ r V_wp == 0 -> ~ r V_theta == 0 ->
  ne16_conv2d_dw r = Some c -> r V_k0 == 3 /\ r V_k1 == 3.
Proof. exact ne16_conv2d_dw_kernel_is_3x3. Qed.

Theorem C16_ne16_conv2d_dw_mono : forall r r' c c', ne16_le r r' -> same_kernel r r' -> out_le r r' ->
  ne16_conv2d_dw r = Some c -> ne16_conv2d_dw r' = Some c' -> 0 <= c /\ c <= c'.
Proof. exact ne16_conv2d_dw_mono. Qed.

Theorem C16_ne16_linear_mono : forall r r' c c', ne16_le r r' ->
  ne16_linear r = Some c -> ne16_linear r' = Some c' -> 0 <= c /\ c <= c'.
Proof. exact ne16_linear_mono. Qed.

Theorem C16_ne16_conv2d_generic_pos : forall r c, 0 < r V_wp -> 0 < r V_theta -> 0 < r V_cout -> 0 <= r V_cin ->
  1 <= r V_o2 -> 1 <= r V_o3 -> kernel_3x3_or_1x1 r -> ne16_conv2d_generic r = Some c -> 0 < c.
Proof. exact ne16_conv2d_generic_pos. Qed.

Theorem C16_ne16_conv2d_dw_pos : forall r c, 0 < r V_wp -> 0 < r V_theta -> 0 < r V_cout -> 0 <= r V_cin ->
  1 <= r V_o2 -> 1 <= r V_o3 -> kernel_3x3_or_1x1 r -> ne16_conv2d_dw r = Some c -> 0 < c.
Proof. exact ne16_conv2d_dw_pos. Qed.

Theorem C16_ne16_linear_pos : forall r c, 0 < r V_wp -> 0 < r V_theta -> 0 < r V_cout -> 0 <= r V_cin ->
  ne16_linear r = Some c -> 0 < c.
Proof. exact ne16_linear_pos. Qed.

(* rejection: exactly the non-pruned layers whose activation precision is not 8 or whose kernel shape the
   accelerator does not run (kernel_ok is the assert of the respective wrapper) *)
Theorem C16_ne16_reject : forall dw kernel_ok k0 k1 H W r,
  ne16_wrapper dw kernel_ok k0 k1 H W r = None <->
  (~ r V_wp == 0 /\ ~ r V_theta == 0 /\ (~ r V_ip == 8 \/ kernel_ok = false)).
Proof. exact ne16_wrapper_reject. Qed.

Example C16_ne16_instance :
  show (ne16_conv2d_generic (env_of [8; 16; 3; 3; 5; 7; 8; 8; 1; 1; 1])) = Some (1266, 1)%Z /\
  ne16_conv2d_generic (env_of [8; 16; 5; 5; 5; 7; 8; 8; 1; 1; 1]) = None /\
  ne16_conv2d_generic (env_of [8; 16; 3; 3; 5; 7; 8; 4; 1; 1; 1]) = None /\
  ne16_le (env_of [8; 16; 3; 3; 5; 7; 4; 8; 1; 1; 1 # 2]) (env_of [9; 33; 3; 3; 5; 7; 8; 8; 1; 1; 1 # 2]).
Proof. repeat split; vm_compute; try reflexivity; try discriminate. Qed.

Example C16_ne16_kernel_instance :   (* 1x1 -> 3x3 with a larger output: 522 cycles vs 1266 cycles *)
  ne16_kernel_le (env_of [8; 16; 1; 1; 5; 7; 8; 8; 1; 1; 1]) (env_of [8; 16; 3; 3; 6; 7; 8; 8; 1; 1; 1]) /\
  show (ne16_conv2d_generic (env_of [8; 16; 1; 1; 5; 7; 8; 8; 1; 1; 1])) = Some (522, 1)%Z /\
  show (ne16_conv2d_generic (env_of [8; 16; 3; 3; 6; 7; 8; 8; 1; 1; 1])) = Some (1266, 1)%Z.
Proof. split; [right; repeat split; vm_compute; try reflexivity; discriminate|split; vm_compute; reflexivity]. Qed.

(* ---- DIANA *)
Theorem C16_diana_unroll_antitone : forall ce ce' ci ci' kx kx' ky ky',
  0 <= ce -> ce <= ce' -> 0 <= ci -> ci <= ci' -> 0 <= kx -> kx <= kx' -> 0 <= ky -> ky <= ky' ->
  1 <= ox_unroll ce' ci' kx' ky' /\ ox_unroll ce' ci' kx' ky' <= ox_unroll ce ci kx ky.
Proof. exact ox_unroll_antitone. Qed.

Theorem C16_diana_conv2d_mono : forall r r' c c', diana_le r r' -> out_le r r' ->
  diana_conv2d_generic r = Some c -> diana_conv2d_generic r' = Some c' -> 0 <= c /\ c <= c'.
Proof. exact diana_conv2d_generic_mono. Qed.

Theorem C16_diana_linear_mono : forall r r' c c', diana_le r r' ->
  diana_linear r = Some c -> diana_linear r' = Some c' -> 0 <= c /\ c <= c'.
Proof. exact diana_linear_mono. Qed.

Theorem C16_diana_conv2d_pos : forall r c, 0 < r V_groups -> 1 <= r V_cin -> 1 <= r V_cout -> 1 <= r V_k0 -> 1 <= r V_k1 ->
  1 <= r V_o2 -> 1 <= r V_o3 -> diana_conv2d_generic r = Some c -> 0 < c.
Proof. exact diana_conv2d_generic_pos. Qed.

Theorem C16_diana_linear_pos : forall r c, 1 <= r V_cin -> 1 <= r V_cout -> diana_linear r = Some c -> 0 < c.
Proof. exact diana_linear_pos. Qed.

Theorem C16_diana_reject : forall wp ap g ci co kx ky ox oy,
  diana_dispatch wp ap ci co g kx ky ox oy = None <->
  ((wp == 2 /\ ap == 8 /\ ~ g == 1) \/ (~ (wp == 2 /\ ap == 8) /\ ~ (wp == 8 /\ ap == 8))).
Proof. exact diana_dispatch_reject. Qed.

Example C16_diana_instance :
  show (diana_conv2d_generic (env_of [8; 16; 3; 3; 5; 7; 8; 8; 1; 1; 1])) = Some (609, 1)%Z /\
  diana_conv2d_generic (env_of [8; 16; 3; 3; 5; 7; 4; 8; 1; 1; 1]) = None /\
  diana_conv2d_generic (env_of [8; 16; 3; 3; 5; 7; 2; 8; 1; 2; 1]) = None.
Proof. repeat split; vm_compute; reflexivity. Qed.

Print Assumptions C16_expr_mono_nonneg.
Print Assumptions C16_expr_positive.
Print Assumptions C16_expr_mono_var.
Print Assumptions C16_lbq_sound.
Print Assumptions C16_lut_mono.
Print Assumptions C16_floor_ste_exact.
Print Assumptions C16_div_and_ceil_exact.
Print Assumptions C16_floor_divide_exact.
Print Assumptions C16_modulo_exact.
Print Assumptions C16_gate_exact.
Print Assumptions C16_floor_ste_on_fractions.
Print Assumptions C16_ne16_tiling_mono.
Print Assumptions C16_ne16_latency_mono.
Print Assumptions C16_ne16_latency_pos.
Print Assumptions C16_ne16_conv2d_generic_mono.
Print Assumptions C16_ne16_latency_kernel_mono.
Print Assumptions C16_ne16_conv2d_generic_mono_kernel.
Print Assumptions C16_ne16_generic_kernel_domain.
Print Assumptions C16_ne16_dw_kernel_is_3x3.
Print Assumptions C16_ne16_conv2d_dw_mono.
Print Assumptions C16_ne16_linear_mono.
Print Assumptions C16_ne16_conv2d_generic_pos.
Print Assumptions C16_ne16_conv2d_dw_pos.
Print Assumptions C16_ne16_linear_pos.
Print Assumptions C16_ne16_reject.
Print Assumptions C16_diana_unroll_antitone.
Print Assumptions C16_diana_conv2d_mono.
Print Assumptions C16_diana_linear_mono.
Print Assumptions C16_diana_conv2d_pos.
Print Assumptions C16_diana_linear_pos.
Print Assumptions C16_diana_reject.
