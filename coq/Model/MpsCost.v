(* Model of the MPS cost computation (plinio/methods/mps/nn/{conv2d,linear}.py get_cost /
   get_modified_vars, mps.py _get_single_cost with the default reduction torch.sum, cost/params_bit.py,
   cost/ops_bit.py).

   A layer's cost is a (input precisions x weight precisions) matrix of cost_fn values, each entry
   weighted by the two sampled coefficients, summed.  The spec handed to cost_fn is vars(layer) with the
   feature counts overwritten by effective values; `fixed` selects the repaired MPSLinear.get_modified_vars
   (in_features/out_features) against the unchanged one (in_channels/out_channels for every type).
   Missing keys read as 0 (the implementation raises KeyError; never reached by the modelled specs). *)
From Coq Require Import List Arith Bool QArith String.
Import ListNotations.
Require Import Plinio.Base.Qx Plinio.Model.MpsNet.
Open Scope Q_scope.
Open Scope string_scope.

Definition spec := list (string * Q).
Fixpoint lookup (k : string) (s : spec) : option Q :=
  match s with
  | [] => None
  | (k', v) :: r => if String.eqb k k' then Some v else lookup k r
  end.
Definition getk (k : string) (s : spec) : Q := match lookup k s with Some v => v | None => 0 end.
Definition upd (k : string) (v : Q) (s : spec) : spec := (k, v) :: s.     (* dict assignment *)

Inductive ltype := LConv | LDw | LLin.
(* hyper-parameter names of the corresponding PyTorch layer (cost/README.md) *)
Definition in_key (t : ltype) : string := match t with LLin => "in_features" | _ => "in_channels" end.
Definition out_key (t : ltype) : string := match t with LLin => "out_features" | _ => "out_channels" end.
(* vars(layer) + shapes_dict(node): static attributes *)
Definition static_vars (t : ltype) (cin cout kh kw oh ow : Q) : spec :=
  [(in_key t, cin); (out_key t, cout); ("kh", kh); ("kw", kw); ("oh", oh); ("ow", ow)].
Definition modified_vars (fixed : bool) (t : ltype) (st : spec) (ein eout : Q) : spec :=
  if fixed then upd (in_key t) ein (upd (out_key t) eout st)
  else upd "in_channels" ein (upd "out_channels" eout st).

(* cost/params_bit.py, cost/ops_bit.py *)
Definition params_bit (t : ltype) (s : spec) : Q :=
  match t with
  | LConv => getk "kh" s * getk "kw" s * getk "in_channels" s * getk "out_channels" s * getk "w_precision" s
  | LDw => getk "kh" s * getk "kw" s * getk "out_channels" s * getk "w_precision" s
  | LLin => getk "out_features" s * getk "in_features" s * getk "w_precision" s
  end.
Definition ops_bit (t : ltype) (s : spec) : Q :=
  match t with
  | LConv => getk "kh" s * getk "kw" s * getk "in_channels" s * getk "out_channels" s * getk "w_precision" s * getk "in_precision" s * getk "oh" s * getk "ow" s
  | LDw => getk "kh" s * getk "kw" s * getk "out_channels" s * getk "w_precision" s * getk "in_precision" s * getk "oh" s * getk "ow" s
  | LLin => getk "in_features" s * getk "out_features" s * getk "w_precision" s * getk "in_precision" s
  end.
(* the probing spec of the check: returns the feature count it is shown under the type's own key *)
Definition probe_in (t : ltype) (s : spec) : Q := getk (in_key t) s.
Definition probe_out (t : ltype) (s : spec) : Q := getk (out_key t) s.

Definition qsum (l : list Q) : Q := fold_right Qplus 0 l.
Definition entry (cf : spec -> Q) (v : spec) (ip wp tw : Q) : Q :=
  cf (upd "w_theta_alpha" tw (upd "w_precision" wp (upd "in_precision" ip v))).
(* sum_ij tin_i * tw_j * m_ij *)
Definition table_cost (m : list (list Q)) (tin tw : list Q) : Q :=
  qsum (map (fun rt => qsum (map (fun et => snd rt * snd et * fst et) (combine (fst rt) tw))) (combine m tin)).
Definition cost_matrix (cf : spec -> Q) (v : spec) (pin pw tw : list Q) : list (list Q) :=
  map (fun ip => map (fun wt => entry cf v ip (fst wt) (snd wt)) (combine pw tw)) pin.
Definition layer_cost (cf : spec -> Q) (v : spec) (pin tin pw tw : list Q) : Q :=
  table_cost (cost_matrix cf v pin pw tw) tin tw.

Definition onehotQ (k n : nat) : list Q := onehot 0 1 k n.

(* per-channel weight search: theta is a (precisions x channels) matrix; the layer uses its row means,
   and the effective output features are C minus the mass of the 0-bit row (if any) *)
Definition row_means (th : list (list Q)) (C : Q) : list Q := map (fun row => qsum row / C) th.
Definition eff_out (th : list (list Q)) (zero : option nat) (C : Q) : Q :=
  match zero with Some z => C - qsum (nth z th []) | None => C end.
Definition dot (a b : list Q) : Q := qsum (map (fun ab => fst ab * snd ab) (combine a b)).

(* harness entry points *)
Definition cf_of (id : nat) (t : ltype) : spec -> Q :=
  match id with 0%nat => params_bit t | 1%nat => ops_bit t | 2%nat => probe_in t | _ => probe_out t end.
Definition run_layer (fixed : bool) (id : nat) (t : ltype) (geom : list Q) (ein eout : Q) (pin tin pw tw : list Q) : Z * Z :=
  let g := fun i => nth i geom 0 in
  qpair (layer_cost (cf_of id t) (modified_vars fixed t (static_vars t (g 0%nat) (g 1%nat) (g 2%nat) (g 3%nat) (g 4%nat) (g 5%nat)) ein eout) pin tin pw tw).
Definition run_layer_pc (fixed : bool) (id : nat) (t : ltype) (geom : list Q) (ein : Q) (pin tin pw : list Q) (th : list (list Q)) (zero : option nat) : Z * Z :=
  let C := nth 1%nat geom 0 in
  run_layer fixed id t geom ein (eff_out th zero C) pin tin pw (row_means th C).
Definition run_table (m : list (list Q)) (tin tw : list Q) : Z * Z := qpair (table_cost m tin tw).
