#!/venv/bin/python
"""asbuilt.py Cxx [Cyy ...]: append /root/scratch/out/Cxx/DESIGN_asbuilt.md to DESIGN.md §13 (replacing an earlier copy)"""
import sys, re, os
D = '/verif/DESIGN.md'
s = open(D).read()
for pid in sys.argv[1:]:
    f = '/root/scratch/out/%s/DESIGN_asbuilt.md' % pid
    if not os.path.exists(f):
        print('no as-built note for', pid); continue
    body = open(f).read().strip()
    body = re.sub(r'^#+ .*\n', '', body, count=1) if body.startswith('#') else body
    begin, end = '<!-- asbuilt:%s -->' % pid, '<!-- /asbuilt:%s -->' % pid
    block = '%s\n### §13.%s (as built)\n\n%s\n%s\n' % (begin, pid, body.strip(), end)
    if begin in s:
        s = s[:s.index(begin)] + block + s[s.index(end) + len(end) + 1:]
    else:
        s = s.rstrip('\n') + '\n\n' + block
open(D, 'w').write(s)
print('ok')
