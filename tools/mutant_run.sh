#!/bin/bash
# usage: tools/mutant_run.sh <dir with patch.diff demo.py> <Cxx> [tier]
# applies the patch in a scratch worktree of /repo HEAD (so that checks running on /repo are not disturbed),
# runs demo + check against it (VERIF_REPO), removes the worktree.  Equivalent to `git -C /repo apply` + check + checkout.
d=$1; p=$2; tier=${3:-quick}
wt=/tmp/mutrun/$$
mkdir -p /tmp/mutrun
git -C /repo worktree add -q --detach $wt HEAD || exit 2
trap 'git -C /repo worktree remove --force '$wt EXIT
echo "== clean demo"; PYTHONPATH=$wt OMP_NUM_THREADS=1 timeout 900 /venv/bin/python -W ignore $d/demo.py >/dev/null 2>&1; echo "demo exit on clean: $?"
git -C $wt apply $d/patch.diff || { echo "patch does not apply"; exit 2; }
echo "== mutated demo"; PYTHONPATH=$wt OMP_NUM_THREADS=1 timeout 900 /venv/bin/python -W ignore $d/demo.py >/dev/null 2>&1; echo "demo exit on mutant: $?"
cd /verif && VERIF_REPO=$wt ./check $p --tier $tier 2>&1 | grep -E "VIOLATION|KNOWN-FINDING|^C[0-9]+ |^   [^ ]" | cut -c1-400 | head -30
echo "check exit: ${PIPESTATUS[0]}"
