(* C05: the generated model of the MPS cost composition computes the hand-written model. *)
From Coq Require Import String List Arith Bool QArith Lia Lqa.
Import ListNotations.
Require Import Plinio.Base.Qx Plinio.Model.MpsNet Plinio.Proofs.MpsNet Plinio.Model.MpsCost Plinio.Proofs.MpsCost
               Plinio.Model.MpsCostNet Plinio.Proofs.MpsCostNet Plinio.Gen.MpsCostGen.
Open Scope Q_scope.
Open Scope string_scope.

(* ------------------------------------------------------------------ sums *)
Lemma qsum_app : forall a b, qsum (a ++ b)%list == qsum a + qsum b.
Proof. induction a; intros; simpl; [ring|]. rewrite IHa. ring. Qed.
Lemma qsum_repeat0 : forall k, qsum (repeat 0 k) == 0.
Proof. induction k; simpl; [reflexivity|]. rewrite IHk. ring. Qed.
Definition msum (m : list (list Q)) : Q := qsum (map qsum m).
Lemma msum_app : forall a b, msum (a ++ b)%list == msum a + msum b.
Proof. intros. unfold msum. rewrite map_app. apply qsum_app. Qed.
Lemma msum_zero_rows : forall m k, msum (repeat (repeat 0 m) k) == 0.
Proof. induction k; simpl; [reflexivity|]. unfold msum in *. simpl. rewrite IHk, qsum_repeat0. ring. Qed.

(* ------------------------------------------------------------------ cell stores into a zero tensor *)
Lemma set_nth_app : forall A (a : list A) y b x, set_nth (a ++ y :: b)%list (length a) x = (a ++ x :: b)%list.
Proof. induction a; intros; simpl; [reflexivity|]. rewrite IHa. reflexivity. Qed.
Lemma nth_app_here : forall A (a : list A) y b d, nth (length a) (a ++ y :: b)%list d = y.
Proof. induction a; intros; simpl; [reflexivity|]. apply IHa. Qed.
Lemma enumerate_from_length : forall A (l : list A) k, length (enumerate_from k l) = length l.
Proof. induction l; intros; simpl; [reflexivity|]. rewrite IHl. reflexivity. Qed.

(* inner loop: the cells j0, j0+1, ... of row i are written one after the other *)
Lemma fill_row : forall Y (h : nat * Y -> Q) (ys : list Y) (A B : list (list Q)) (done : list Q) k, (length ys <= k)%nat ->
  fold_left (fun cost it0 => set2 cost (length A) (fst it0) (h it0)) (enumerate_from (length done) ys) (A ++ (done ++ repeat 0 k) :: B)%list
  = (A ++ (done ++ map h (enumerate_from (length done) ys) ++ repeat 0 (k - length ys)) :: B)%list.
Proof.
  induction ys as [|y r IH]; intros A B done k Hk.
  - simpl. rewrite Nat.sub_0_r. reflexivity.
  - destruct k as [|k]; [simpl in Hk; lia|].
    cbn [enumerate_from fold_left fst map length]. unfold set2 at 2.
    rewrite nth_app_here. cbn [repeat]. rewrite set_nth_app, set_nth_app.
    replace (done ++ h (length done, y) :: repeat 0 k)%list with ((done ++ [h (length done, y)]) ++ repeat 0 k)%list
      by (rewrite <- app_assoc; reflexivity).
    replace (S (length done)) with (length (done ++ [h (length done, y)])%list) by (rewrite app_length; simpl; lia).
    rewrite IH by (simpl in Hk; lia).
    rewrite app_length. cbn [length]. replace (length done + 1)%nat with (S (length done)) by lia.
    rewrite <- app_assoc. cbn [app]. replace (S k - S (length r))%nat with (k - length r)%nat by lia. reflexivity.
Qed.

(* outer loop over the rows *)
Lemma fill_rows : forall X Y (h : nat * X -> nat * Y -> Q) (ys : list Y) m, (length ys <= m)%nat ->
  forall (xs : list X) (A : list (list Q)) n, (length xs <= n)%nat ->
  fold_left (fun cost it => fold_left (fun cost it0 => set2 cost (fst it) (fst it0) (h it it0)) (enumerate ys) cost)
            (enumerate_from (length A) xs) (A ++ repeat (repeat 0 m) n)%list
  = (A ++ map (fun it => map (h it) (enumerate ys) ++ repeat 0 (m - length ys))%list (enumerate_from (length A) xs)
       ++ repeat (repeat 0 m) (n - length xs))%list.
Proof.
  intros X Y h ys m Hm. induction xs as [|x r IH]; intros A n Hn.
  - simpl. rewrite Nat.sub_0_r. reflexivity.
  - destruct n as [|n]; [simpl in Hn; lia|].
    cbn [enumerate_from fold_left fst map length repeat].
    pose proof (fill_row Y (h (length A, x)) ys A (repeat (repeat 0 m) n) [] m Hm) as F.
    cbn [length app] in F. unfold enumerate. rewrite F.
    replace (A ++ (map (h (length A, x)) (enumerate_from 0 ys) ++ repeat 0 (m - length ys)) :: repeat (repeat 0 m) n)%list
      with ((A ++ [(map (h (length A, x)) (enumerate_from 0 ys) ++ repeat 0 (m - length ys))%list]) ++ repeat (repeat 0 m) n)%list
      by (rewrite <- app_assoc; reflexivity).
    replace (S (length A)) with (length (A ++ [(map (h (length A, x)) (enumerate_from 0 ys) ++ repeat 0 (m - length ys))%list])%list)
      by (rewrite app_length; simpl; lia).
    specialize (IH (A ++ [(map (h (length A, x)) (enumerate_from 0 ys) ++ repeat 0 (m - length ys))%list])%list n ltac:(simpl in Hn; lia)).
    unfold enumerate in IH. rewrite IH.
    rewrite app_length. cbn [length]. replace (length A + 1)%nat with (S (length A)) by lia.
    rewrite <- app_assoc. cbn [app]. replace (S n - S (length r))%nat with (n - length r)%nat by lia. reflexivity.
Qed.

Lemma loop2_sum : forall X Y (h : nat * X -> nat * Y -> Q) (xs : list X) (ys : list Y) n m, (length xs <= n)%nat -> (length ys <= m)%nat ->
  qsum (map qsum (fold_left (fun cost it => fold_left (fun cost it0 => set2 cost (fst it) (fst it0) (h it it0)) (enumerate ys) cost)
                  (enumerate xs) (zeros2 n m)))
  == qsum (map (fun it => qsum (map (h it) (enumerate ys))) (enumerate xs)).
Proof.
  intros X Y h xs ys n m Hn Hm. change (qsum (map qsum ?x)) with (msum x). unfold zeros2, enumerate at 2 3.
  pose proof (fill_rows X Y h ys m Hm xs [] n Hn) as F. cbn [length app] in F. rewrite F.
  rewrite msum_app, msum_zero_rows. unfold msum. rewrite map_map.
  rewrite (qsum_map_ext _ (fun it => qsum (map (h it) (enumerate ys) ++ repeat 0 (m - length ys))%list) (fun it => qsum (map (h it) (enumerate ys)))).
  - unfold enumerate. ring.
  - intros it. rewrite qsum_app, qsum_repeat0. ring.
Qed.

(* the loop index is not read by the summand *)
Lemma qsum_enumerate_from : forall A (f : nat * A -> Q) (g : A -> Q), (forall i x, f (i, x) == g x) ->
  forall l k, qsum (map f (enumerate_from k l)) == qsum (map g l).
Proof. intros A f g H. induction l; intros; simpl; [reflexivity|]. rewrite H, IHl. reflexivity. Qed.
Lemma qsum_enumerate : forall A (f : nat * A -> Q) (g : A -> Q), (forall i x, f (i, x) == g x) ->
  forall l, qsum (map f (enumerate l)) == qsum (map g l).
Proof. intros. apply qsum_enumerate_from. assumption. Qed.

(* ------------------------------------------------------------------ the hand model's layer cost as a double sum *)
Lemma combine_map_self : forall (F : Q * Q -> Q) pw tw,
  combine (map F (combine pw tw)) tw = map (fun wt => (F wt, snd wt)) (combine pw tw).
Proof. induction pw; intros; simpl; [reflexivity|]. destruct tw; simpl; [reflexivity|]. rewrite IHpw. reflexivity. Qed.
Lemma combine_map_l : forall A B C (f : A -> B) (l : list A) (r : list C), combine (map f l) r = map (fun xt => (f (fst xt), snd xt)) (combine l r).
Proof. induction l; intros; simpl; [reflexivity|]. destruct r; simpl; [reflexivity|]. rewrite IHl. reflexivity. Qed.

Lemma layer_cost_flat : forall cf v pin tin pw tw,
  layer_cost cf v pin tin pw tw
  == qsum (map (fun x => qsum (map (fun y => snd x * snd y * entry cf v (fst x) (fst y) (snd y)) (combine pw tw))) (combine pin tin)).
Proof.
  intros. unfold layer_cost, table_cost, cost_matrix.
  rewrite combine_map_l, map_map. apply qsum_map_ext. intros x. cbn [fst snd].
  rewrite combine_map_self, map_map. apply qsum_map_ext. intros y. cbn [fst snd]. reflexivity.
Qed.

(* ------------------------------------------------------------------ cost functions as functions of what the dictionary returns *)
Definition same_on (P : string -> Prop) (s s' : spec) : Prop := forall k, P k -> lookup k s = lookup k s'.
Definition reads (cf : spec -> Q) (P : string -> Prop) : Prop := forall s s', same_on P s s' -> cf s == cf s'.
Definition anykey : string -> Prop := fun _ => True.
Lemma lookup_app : forall k a b, lookup k (a ++ b)%list = match lookup k a with Some v => Some v | None => lookup k b end.
Proof. induction a as [|[k' v] a IH]; intros; simpl; [reflexivity|]. destruct (String.eqb k k'); [reflexivity|apply IH]. Qed.

Ltac spec_tac :=
  let k := fresh "k" in let Hk := fresh "Hk" in
  intros k Hk; unfold upd, dict_update; cbn [lookup];
  repeat (rewrite ?lookup_app; cbn [lookup]);
  repeat match goal with
         | |- context [String.eqb k ?s] => destruct (String.eqb_spec k s); [subst k; cbn [lookup String.eqb Ascii.eqb Bool.eqb]; try reflexivity|]
         end; try reflexivity.

(* ------------------------------------------------------------------ layer level *)
Definition tw_of_w (w : wqtz) : list Q :=
  match w with WPerLayer _ th => th | WPerChannel _ th _ => row_means (m_rows th) (m_cols th) end.
Definition eout_of_w (w : wqtz) (static : Q) : Q :=
  match w with WPerLayer _ _ => static | WPerChannel _ th z => eff_out (m_rows th) z (m_cols th) end.
Definition eout_of (t : ltype) (self : glayer) : Q := eout_of_w (gl_w self) (getk (out_key t) (gl_vars self)).
(* the dictionary every entry of the matrix starts from: get_modified_vars(), the output shape, the two formats *)
Definition base_spec (t : ltype) (self : glayer) (out_shape : spec) : spec :=
  upd "w_format" fmt_int (upd "in_format" fmt_int (dict_update (modified_vars true t (gl_vars self) (gl_ein self) (eout_of t self)) out_shape)).
(* definedness: a per-channel coefficient matrix has columns, and its 0-bit row exists *)
Definition wq_wf (w : wqtz) : Prop :=
  match w with
  | WPerLayer _ _ => True
  | WPerChannel _ th z => ~ m_cols th == 0 /\ match z with Some k => (k < length (m_rows th))%nat | None => True end
  end.

Theorem pcq_out_features_eff_gen_eq : forall th C z, pcq_out_features_eff_gen (mkMat th C) z = eff_out th z C.
Proof. intros. destruct z; reflexivity. Qed.

Ltac cf_step cf H :=
  first
  [ ring
  | match goal with
    | |- ?L == ?R =>
        match L with context [cf ?S1] =>
          match R with context [cf ?S2] =>
            let E := fresh "E" in
            assert (E : cf S1 == cf S2) by (apply H; spec_tac); rewrite E; ring
          end
        end
    end ].

Ltac gen_red :=
  cbv beta iota zeta delta
    [conv1d_get_cost_gen conv2d_get_cost_gen linear_get_cost_gen add_get_cost_gen identity_get_cost_gen
     conv1d_get_modified_vars_gen conv2d_get_modified_vars_gen linear_get_modified_vars_gen
     conv1d_out_features_eff_gen conv2d_out_features_eff_gen linear_out_features_eff_gen identity_out_features_eff_gen
     pcq_out_features_eff_gen mat_size_dim1 mat_row
     conv1d_get_cost_ok conv2d_get_cost_ok linear_get_cost_ok add_get_cost_ok identity_get_cost_ok
     conv1d_get_modified_vars_ok conv2d_get_modified_vars_ok linear_get_modified_vars_ok
     conv1d_out_features_eff_ok conv2d_out_features_eff_ok linear_out_features_eff_ok identity_out_features_eff_ok
     pcq_out_features_eff_ok mat_mean_ok mat_row_ok
     gl_w gl_in gl_vars gl_ein iq_precision iq_theta_alpha wq_precision m_rows m_cols
     eout_of eout_of_w tw_of_w base_spec modified_vars in_key out_key eff_out vmap2].

Ltac destruct_layer self :=
  let vars := fresh "vars" in let ein := fresh "ein" in let pin := fresh "pin" in let tin := fresh "tin" in
  let pw := fresh "pw" in let th := fresh "th" in let C := fresh "C" in let z := fresh "z" in
  destruct self as [vars ein [pin tin] [pw th|pw [th C] z]].

(* out_features_eff: the static count, or C minus the mass of the 0-bit row *)
Ltac eff_tac := let self := fresh "self" in intros self; destruct_layer self; gen_red; try reflexivity; match goal with z : option nat |- _ => destruct z; reflexivity end.
Theorem conv1d_out_features_eff_gen_eq : forall self, conv1d_out_features_eff_gen self = eout_of LConv self.
Proof. eff_tac. Qed.
Theorem conv2d_out_features_eff_gen_eq : forall self, conv2d_out_features_eff_gen self = eout_of LConv self.
Proof. eff_tac. Qed.
Theorem linear_out_features_eff_gen_eq : forall self, linear_out_features_eff_gen self = eout_of LLin self.
Proof. eff_tac. Qed.
Theorem identity_out_features_eff_gen_eq : forall self, identity_out_features_eff_gen self = gl_ein self.
Proof. intros. reflexivity. Qed.

(* get_modified_vars: the dictionary of the hand model, key by key *)
Ltac modvars_tac :=
  let self := fresh "self" in intros self; destruct_layer self; gen_red; try match goal with z : option nat |- _ => destruct z end; spec_tac.
Theorem conv1d_get_modified_vars_gen_eq : forall self,
  same_on anykey (conv1d_get_modified_vars_gen self) (modified_vars true LConv (gl_vars self) (gl_ein self) (eout_of LConv self)).
Proof. modvars_tac. Qed.
Theorem conv2d_get_modified_vars_gen_eq : forall self,
  same_on anykey (conv2d_get_modified_vars_gen self) (modified_vars true LConv (gl_vars self) (gl_ein self) (eout_of LConv self)).
Proof. modvars_tac. Qed.
Theorem linear_get_modified_vars_gen_eq : forall self,
  same_on anykey (linear_get_modified_vars_gen self) (modified_vars true LLin (gl_vars self) (gl_ein self) (eout_of LLin self)).
Proof. modvars_tac. Qed.

(* get_cost, reduced by torch.sum: the hand model's layer cost, for every cost function of the dictionary *)
Ltac get_cost_tac :=
  let self := fresh "self" in let cf := fresh "cf" in let sh := fresh "out_shape" in let H := fresh "H" in
  intros self cf sh H; destruct_layer self; gen_red; try match goal with z : option nat |- _ => destruct z end;
  cbn [tsum];
  (rewrite loop2_sum by (rewrite combine_length; lia));
  rewrite layer_cost_flat;
  (apply qsum_enumerate; intros ? ?; cbn [fst snd]);
  (apply qsum_enumerate; intros ? ?; cbn [fst snd]);
  unfold entry; cf_step cf H.
Theorem conv1d_get_cost_gen_eq : forall self cf out_shape, reads cf anykey ->
  tsum (conv1d_get_cost_gen self cf out_shape)
  == layer_cost cf (base_spec LConv self out_shape) (iq_precision (gl_in self)) (iq_theta_alpha (gl_in self)) (wq_precision (gl_w self)) (tw_of_w (gl_w self)).
Proof. get_cost_tac. Qed.
Theorem conv2d_get_cost_gen_eq : forall self cf out_shape, reads cf anykey ->
  tsum (conv2d_get_cost_gen self cf out_shape)
  == layer_cost cf (base_spec LConv self out_shape) (iq_precision (gl_in self)) (iq_theta_alpha (gl_in self)) (wq_precision (gl_w self)) (tw_of_w (gl_w self)).
Proof. get_cost_tac. Qed.
Theorem linear_get_cost_gen_eq : forall self cf out_shape, reads cf anykey ->
  tsum (linear_get_cost_gen self cf out_shape)
  == layer_cost cf (base_spec LLin self out_shape) (iq_precision (gl_in self)) (iq_theta_alpha (gl_in self)) (wq_precision (gl_w self)) (tw_of_w (gl_w self)).
Proof. get_cost_tac. Qed.

Theorem identity_get_cost_gen_eq : forall self cf out_shape, tsum (identity_get_cost_gen self cf out_shape) == 0.
Proof. intros. gen_red. reflexivity. Qed.
(* MPSAdd: sum_i in_theta_i * cost_fn(..); a cost function that is 0 everywhere (the one a CostSpec gives for nn.Module) costs 0 *)
Theorem add_get_cost_gen_zero : forall self cf out_shape, (forall s, cf s == 0) -> tsum (add_get_cost_gen self cf out_shape) == 0.
Proof. intros self cf sh H. gen_red. cbn [tsum]. apply qsum_map_zero. intros x. rewrite H. ring. Qed.

(* every division / row selection on the way is defined *)
Lemma negb_qeq_bool : forall x, ~ x == 0 -> negb (Qeq_bool x 0) = true.
Proof. intros x H. destruct (Qeq_bool x 0) eqn:E; [apply Qeq_bool_eq in E; contradiction|reflexivity]. Qed.
Ltac ok_tac :=
  let self := fresh "self" in let H := fresh "H" in
  intros self; intros; destruct_layer self; gen_red; try reflexivity;
  match goal with H : wq_wf _ |- _ => cbn [wq_wf gl_w m_cols m_rows] in H; destruct H as [? ?] end;
  rewrite ?negb_qeq_bool by assumption; try reflexivity;
  match goal with z : option nat |- _ => destruct z; [|reflexivity] end; cbn [andb]; apply Nat.ltb_lt; assumption.
Theorem conv1d_get_cost_ok_true : forall self cf out_shape, wq_wf (gl_w self) -> conv1d_get_cost_ok self cf out_shape = true.
Proof. ok_tac. Qed.
Theorem conv2d_get_cost_ok_true : forall self cf out_shape, wq_wf (gl_w self) -> conv2d_get_cost_ok self cf out_shape = true.
Proof. ok_tac. Qed.
Theorem linear_get_cost_ok_true : forall self cf out_shape, wq_wf (gl_w self) -> linear_get_cost_ok self cf out_shape = true.
Proof. ok_tac. Qed.
Theorem add_get_cost_ok_true : forall self cf out_shape, add_get_cost_ok self cf out_shape = true.
Proof. intros. reflexivity. Qed.

(* ------------------------------------------------------------------ network level *)
Definition cost_keys : list string :=
  ["in_channels"; "out_channels"; "in_features"; "out_features"; "kh"; "kw"; "oh"; "ow"; "w_precision"; "in_precision"; "w_theta_alpha"].
Definition costkey (k : string) : Prop := In k cost_keys.
Lemma reads_mono : forall cf (P P' : string -> Prop), (forall k, P' k -> P k) -> reads cf P' -> reads cf P.
Proof. intros cf P P' HP H s s' Hs. apply H. intros k Hk. apply Hs, HP, Hk. Qed.
Lemma same_on_upd : forall P k v s s', same_on P s s' -> same_on P (upd k v s) (upd k v s').
Proof. intros P k v s s' H k' Hk. unfold upd. cbn [lookup]. destruct (String.eqb k' k); [reflexivity|apply H, Hk]. Qed.
Lemma layer_cost_same : forall cf P v v' pin tin pw tw, reads cf P -> same_on P v v' ->
  layer_cost cf v pin tin pw tw == layer_cost cf v' pin tin pw tw.
Proof.
  intros. rewrite !layer_cost_flat. apply qsum_map_ext. intros x. apply qsum_map_ext. intros y. unfold entry.
  rewrite (H (upd "w_theta_alpha" (snd y) (upd "w_precision" (fst y) (upd "in_precision" (fst x) v)))
             (upd "w_theta_alpha" (snd y) (upd "w_precision" (fst y) (upd "in_precision" (fst x) v')))) by (repeat apply same_on_upd; assumption).
  reflexivity.
Qed.
(* the cost functions of the hand model read the dictionary through its keys *)
Lemma getk_same : forall (P : string -> Prop) k s s', same_on P s s' -> P k -> getk k s = getk k s'.
Proof. intros. unfold getk. rewrite (H k H0). reflexivity. Qed.
Ltac ck := unfold costkey, cost_keys; cbn [In]; tauto.
Lemma cf_of_reads : forall id t, reads (cf_of id t) costkey.
Proof.
  intros id t s s' H. unfold cf_of.
  destruct id as [|[|[|id]]]; destruct t; unfold params_bit, ops_bit, probe_in, probe_out, in_key, out_key;
    repeat match goal with |- context [getk ?k s] => rewrite (getk_same costkey k s s' H) by ck end; reflexivity.
Qed.

(* accumulation loops *)
Lemma fold_left_acc : forall A (g : Q -> A -> Q) l c0, (forall c x, g c x == c + g 0 x) -> fold_left g l c0 == c0 + qsum (map (g 0) l).
Proof.
  intros A g l. induction l as [|x r IH]; intros c0 H; simpl; [ring|].
  rewrite IH by assumption. rewrite (H c0 x). ring.
Qed.
Lemma qsum_filter : forall A (f : A -> Q) p l, qsum (map f (filter p l)) == qsum (map (fun x => if p x then f x else 0) l).
Proof. induction l; simpl; [reflexivity|]. destruct (p a); simpl; rewrite IHl; ring. Qed.
Lemma qsum_map_ext_in : forall A (f g : A -> Q) l, (forall x, In x l -> f x == g x) -> qsum (map f l) == qsum (map g l).
Proof. induction l; intros; simpl; [reflexivity|]. rewrite (H a) by (left; reflexivity). rewrite IHl by (intros; apply H; right; assumption). reflexivity. Qed.

(* dictionary built by a loop of assignments whose value is determined by the key *)
Lemma fnmap_build : forall A (key : A -> nat) (val : A -> spec -> Q) (V : nat -> spec -> Q) l m0 k,
  (forall x, In x l -> val x = V (key x)) ->
  fnmap_get (fold_left (fun m x => fnmap_set m (key x) (val x)) l m0) k
  = if existsb (fun x => Nat.eqb (key x) k) l then V k else fnmap_get m0 k.
Proof.
  intros A key val V l. induction l as [|x r IH]; intros m0 k H; [reflexivity|].
  cbn [fold_left existsb]. rewrite IH by (intros; apply H; right; assumption).
  destruct (existsb (fun x0 => Nat.eqb (key x0) k) r); [rewrite orb_true_r; reflexivity|]. rewrite orb_false_r.
  unfold fnmap_get, fnmap_set. cbn [find fst snd]. destruct (Nat.eqb_spec (key x) k) as [E|E]; [|reflexivity].
  rewrite (H x) by (left; reflexivity). rewrite E. reflexivity.
Qed.
Lemma fnmap_has_build : forall A (key : A -> nat) (val : A -> spec -> Q) l m0 k,
  fnmap_has (fold_left (fun m x => fnmap_set m (key x) (val x)) l m0) k = existsb (fun x => Nat.eqb (key x) k) l || fnmap_has m0 k.
Proof.
  intros A key val l. induction l as [|x r IH]; intros m0 k; [reflexivity|].
  cbn [fold_left existsb]. rewrite IH. unfold fnmap_has, fnmap_set. cbn [existsb fst].
  destruct (Nat.eqb (key x) k), (existsb (fun x0 => Nat.eqb (key x0) k) r); reflexivity.
Qed.

(* which cost function the map holds under the name of node j *)
Definition cfsel (cf : ltype -> spec -> Q) (nd : node) : spec -> Q :=
  match ltype_of nd with Some t => cf t | None => fun _ => 0 end.
Definition fn_sel (net : list node) (lays : list lay) (j : nat) : option ltype :=
  match nth_error net j with Some nd => if l_reuse (lay_at lays j) then None else ltype_of nd | None => None end.
Definition ltype_code (o : option ltype) : nat := match o with None => 0 | Some LConv => 1 | Some LDw => 2 | Some LLin => 3 end.
(* names: a first call site is named by its own index; every node names a first call site of its own type *)
Definition names_okb (net : list node) (lays : list lay) (names : list nat) : bool :=
  forallb (fun i => match nth_error net i with
                    | Some nd => (if l_reuse (lay_at lays i) then true else Nat.eqb (nth i names i) i)
                                 && (Nat.ltb (nth i names i) (length net) && negb (l_reuse (lay_at lays (nth i names i))))
                                 && Nat.eqb (ltype_code (fn_sel net lays (nth i names i))) (ltype_code (ltype_of nd))
                    | None => true
                    end) (seq 0 (length net)).
(* a full 1 -> 1 convolution is a depthwise convolution for the patterns (conv_dw_constraint): the IR writes it NDw *)
Definition no_unit_conv (net : list node) : Prop := forall i s ci co, nth_error net i = Some (NConv s ci co) -> ~ (ci = 1 /\ co = 1)%nat.

Lemma ltype_code_inj : forall a b, ltype_code a = ltype_code b -> a = b.
Proof. intros [[]|] [[]|]; simpl; intros; try discriminate; reflexivity. Qed.
Lemma names_ok_at : forall net lays names i nd, names_okb net lays names = true -> nth_error net i = Some nd ->
  (l_reuse (lay_at lays i) = false -> nth i names i = i) /\ fn_sel net lays (nth i names i) = ltype_of nd.
Proof.
  intros net lays names i nd H E. unfold names_okb in H. rewrite forallb_forall in H.
  assert (Hi : (i < length net)%nat) by (apply nth_error_Some; congruence).
  specialize (H i ltac:(apply in_seq; lia)). rewrite E in H. apply andb_true_iff in H. destruct H as [H1 H2].
  apply andb_true_iff in H1. destruct H1 as [H1 _]. split.
  - intros R. rewrite R in H1. apply Nat.eqb_eq. exact H1.
  - apply ltype_code_inj. apply Nat.eqb_eq. exact H2.
Qed.
Lemma names_first_site : forall net lays names i nd, names_okb net lays names = true -> nth_error net i = Some nd ->
  (nth i names i < length net)%nat /\ l_reuse (lay_at lays (nth i names i)) = false.
Proof.
  intros net lays names i nd H E. unfold names_okb in H. rewrite forallb_forall in H.
  assert (Hi : (i < length net)%nat) by (apply nth_error_Some; congruence).
  specialize (H i ltac:(apply in_seq; lia)). rewrite E in H. apply andb_true_iff in H. destruct H as [H1 _].
  apply andb_true_iff in H1. destruct H1 as [_ H1]. apply andb_true_iff in H1. destruct H1 as [A B].
  apply Nat.ltb_lt in A. apply negb_true_iff in B. split; assumption.
Qed.

Lemma qeq_bool_nat1 : forall n, Qeq_bool (inject_Z (Z.of_nat n)) 1 = Nat.eqb n 1.
Proof.
  intros n. destruct (Nat.eqb_spec n 1) as [E|E].
  - subst. reflexivity.
  - destruct (Qeq_bool (inject_Z (Z.of_nat n)) 1) eqn:Q; [|reflexivity]. apply Qeq_bool_eq in Q. unfold Qeq in Q. simpl in Q. lia.
Qed.
Lemma qeq_bool_refl : forall x, Qeq_bool x x = true.
Proof. intros. apply Qeq_eq_bool. reflexivity. Qed.

(* the entry the loop of _single_cost_fn_map writes for node k *)
Definition leaf_fn (c : gcostspec) (lf : gleaf) : spec -> Q :=
  let layer := snd lf in
  cs_get c (if is_mps_module layer then match rev_lookup mps_layer_map_gen (fst layer) with Some t => t | None => PModule end else nn_type_of layer)
         (gl_vars (snd layer)).
Lemma leaf_fn_node : forall dim1 net lays names shared cf k nd, no_unit_conv net -> nth_error net k = Some nd ->
  leaf_fn (cs_of dim1 shared cf) (gleaf_of dim1 net lays names k) = cfsel cf nd.
Proof.
  intros dim1 net lays names shared cf k nd NU E. unfold leaf_fn, gleaf_of. rewrite E. cbn [snd fst].
  destruct nd; destruct dim1; cbn [gclass_of is_mps_module fst snd rev_lookup mps_layer_map_gen gclass_eqb nn_type_of cs_of cs_get glayer_of ltype_of gl_vars cfsel in_key out_key];
    try reflexivity; unfold dw_constraint, getk; cbn [lookup String.eqb Ascii.eqb Bool.eqb];
    rewrite ?qeq_bool_refl; try reflexivity;
    rewrite !qeq_bool_nat1; cbn [chan_out]; specialize (NU k src cin cout E);
    destruct (Nat.eqb_spec cin 1), (Nat.eqb_spec cout 1); cbn [andb]; try reflexivity; exfalso; apply NU; split; assumption.
Qed.

Lemma existsb_map_key : forall A B (f : A -> B) (p : B -> bool) l, existsb p (map f l) = existsb (fun x => p (f x)) l.
Proof. induction l; simpl; [reflexivity|]. rewrite IHl. reflexivity. Qed.
Definition uidx (net : list node) (lays : list lay) : list nat := filter (fun i => negb (l_reuse (lay_at lays i))) (seq 0 (length net)).
Lemma in_uidx : forall net lays i, In i (uidx net lays) <-> (i < length net)%nat /\ l_reuse (lay_at lays i) = false.
Proof. intros. unfold uidx. rewrite filter_In, in_seq, negb_true_iff. split; intros [A B]; split; try assumption; lia. Qed.
Lemma leaf_key : forall dim1 net lays names i, names_okb net lays names = true -> In i (uidx net lays) ->
  fst (fst (gleaf_of dim1 net lays names i)) = i.
Proof.
  intros dim1 net lays names i H Hi. apply in_uidx in Hi. destruct Hi as [Hn Hr].
  destruct (nth_error net i) as [nd|] eqn:E; [|apply nth_error_None in E; lia].
  unfold gleaf_of. rewrite E. cbn [fst]. apply (names_ok_at net lays names i nd H E). exact Hr.
Qed.

(* MPS._single_cost_fn_map on the objects of a network: under the name j, the cost function of the first call site j *)
Lemma single_map_get : forall dim1 net lays names shared cf j, names_okb net lays names = true -> no_unit_conv net ->
  fnmap_get (mps_single_cost_fn_map_gen (gmps_of dim1 net lays names) (cs_of dim1 shared cf)) j
  = match fn_sel net lays j with Some t => cf t | None => fun _ => 0 end.
Proof.
  intros dim1 net lays names shared cf j H NU. unfold mps_single_cost_fn_map_gen. cbv zeta. cbn [mp_unique gmps_of].
  fold (uidx net lays).
  match goal with |- fnmap_get (fold_left _ ?l ?m0) _ = _ =>
    change (fnmap_get (fold_left (fun m x => fnmap_set m (fst (fst x)) (leaf_fn (cs_of dim1 shared cf) x)) l m0) j
            = match fn_sel net lays j with Some t => cf t | None => fun _ => 0 end) end.
  rewrite (fnmap_build gleaf (fun x => fst (fst x)) (leaf_fn (cs_of dim1 shared cf))
             (fun k => leaf_fn (cs_of dim1 shared cf) (gleaf_of dim1 net lays names k))).
  2:{ intros x Hx. apply in_map_iff in Hx. destruct Hx as [i [Ei Hi]]. subst x. rewrite (leaf_key dim1 net lays names i H Hi). reflexivity. }
  rewrite existsb_map_key.
  destruct (existsb (fun i => Nat.eqb (fst (fst (gleaf_of dim1 net lays names i))) j) (uidx net lays)) eqn:X.
  - apply existsb_exists in X. destruct X as [i [Hi Ek]]. apply Nat.eqb_eq in Ek. rewrite (leaf_key dim1 net lays names i H Hi) in Ek. subst i.
    apply in_uidx in Hi. destruct Hi as [Hn Hr].
    destruct (nth_error net j) as [nd|] eqn:E; [|apply nth_error_None in E; lia].
    rewrite (leaf_fn_node dim1 net lays names shared cf j nd NU E). unfold fn_sel, cfsel. rewrite E, Hr. reflexivity.
  - unfold fnmap_get. cbn [find]. unfold fn_sel.
    destruct (nth_error net j) as [nd|] eqn:E; [|reflexivity].
    destruct (l_reuse (lay_at lays j)) eqn:R; [reflexivity|]. exfalso.
    assert (Hj : In j (uidx net lays)) by (apply in_uidx; split; [apply nth_error_Some; congruence|exact R]).
    assert (existsb (fun i => Nat.eqb (fst (fst (gleaf_of dim1 net lays names i))) j) (uidx net lays) = true).
    { apply existsb_exists. exists j. split; [exact Hj|]. rewrite (leaf_key dim1 net lays names j H Hj). apply Nat.eqb_refl. }
    congruence.
Qed.

Lemma reads_any : forall cf, reads cf costkey -> reads cf anykey.
Proof. intros cf H. apply (reads_mono cf anykey costkey); [intros; exact I|exact H]. Qed.

Ltac costkey_tac :=
  let k := fresh "k" in let Hk := fresh "Hk" in
  intros k Hk; unfold costkey, cost_keys in Hk; cbn [In] in Hk;
  repeat match goal with H : _ \/ _ |- _ => destruct H as [H|H] end; try contradiction; subst k; reflexivity.

(* one searchable layer of the network: the generated get_cost of its object, reduced by torch.sum, is the hand model's node cost *)
Lemma node_layer_cost : forall dim1 net lays i nd t s cf', nth_error net i = Some nd -> ltype_of nd = Some t -> first_src nd = Some s ->
  reads cf' costkey ->
  tsum (layer_get_cost_gen (gclass_of dim1 nd, glayer_of net lays i nd) cf' (shapes_of lays i))
  == let l := lay_at lays i in
     let C := inject_Z (Z.of_nat (chan_out nd)) in
     let cin := match nd with NConv _ ci _ | NLin _ ci _ => inject_Z (Z.of_nat ci) | _ => C end in
     layer_cost cf' (modified_vars true t (static_vars t cin C (nth 0 (l_geom l) 0) (nth 1 (l_geom l) 0) (nth 2 (l_geom l) 0) (nth 3 (l_geom l) 0))
                                 (ein_of net lays false s) (own_out net lays i))
                (l_pin l) (l_tin l) (l_pw l) (tw_of l C).
Proof.
  intros dim1 net lays i nd t s cf' E T S R. pose proof (reads_any cf' R) as RA. cbv zeta.
  assert (OW : own_out net lays i = own_out_l (lay_at lays i) (inject_Z (Z.of_nat (chan_out nd)))) by (unfold own_out; rewrite E; reflexivity).
  rewrite OW. unfold own_out_l, tw_of.
  destruct nd; try discriminate; simpl in T, S; inversion T; inversion S; subst; clear T S;
    destruct dim1; cbn [gclass_of layer_get_cost_gen fst snd];
    rewrite ?conv1d_get_cost_gen_eq, ?conv2d_get_cost_gen_eq, ?linear_get_cost_gen_eq by exact RA;
    unfold glayer_of; cbn [gl_in gl_w iq_precision iq_theta_alpha ltype_of first_src];
    destruct (l_pc (lay_at lays i)); cbn [wq_precision tw_of_w m_rows m_cols];
    (apply (layer_cost_same cf' costkey); [exact R|]);
    unfold base_spec, eout_of, eout_of_w, modified_vars, static_vars, shapes_of, dict_update, upd, in_key, out_key, getk;
    cbn [gl_vars gl_ein gl_w m_rows m_cols app lookup String.eqb Ascii.eqb Bool.eqb chan_out]; costkey_tac.
Qed.

Ltac leaf_tac dim1 net lays names shared cf i H NU R Hi :=
  let nd := fresh "nd" in let E := fresh "E" in let T := fresh "T" in let t := fresh "t" in
  destruct (nth_error net i) as [nd|] eqn:E; [|apply nth_error_None in E; lia];
  unfold gleaf_of, node_cost; rewrite E; cbn [fst snd shapes_dict];
  rewrite (single_map_get dim1 net lays names shared cf (nth i names i) H NU);
  rewrite (proj2 (names_ok_at net lays names i nd H E));
  destruct (ltype_of nd) as [t|] eqn:T;
  [ destruct (first_src nd) as [s|] eqn:S; [|destruct nd; discriminate];
    assert (M : is_mps_module (gclass_of dim1 nd, glayer_of net lays i nd) = true) by (destruct nd, dim1; try discriminate; reflexivity);
    rewrite M; cbn [mp_reduce gmps_of];
    rewrite (node_layer_cost dim1 net lays i nd t s (cf t) E T S (R t)); cbv zeta; ring
  | destruct nd; try discriminate; destruct dim1; cbn [gclass_of is_mps_module fst snd mp_full_cost mp_reduce gmps_of layer_get_cost_gen first_src];
    rewrite ?identity_get_cost_gen_eq, ?add_get_cost_gen_zero by (intros; reflexivity); ring ].

(* MPS._get_single_cost on the objects of a network = the hand model's network cost (the code as it is: intended = false) *)
Theorem gen_net_cost_eq : forall dim1 net lays names shared cf,
  names_okb net lays names = true -> no_unit_conv net -> (forall t, reads (cf t) costkey) ->
  mps_get_single_cost_gen (gmps_of dim1 net lays names) (cs_of dim1 shared cf)
                          (mps_single_cost_fn_map_gen (gmps_of dim1 net lays names) (cs_of dim1 shared cf))
  == mps_net_cost_sh net lays shared cf false.
Proof.
  intros dim1 net lays names shared cf H NU R. unfold mps_get_single_cost_gen. cbv zeta. cbn [cs_shared cs_of].
  rewrite fold_left_acc by (intros c x; cbv beta; destruct (is_mps_module (snd x)); [ring|destruct (mp_full_cost _); ring]).
  rewrite Qplus_0_l. unfold mps_net_cost_sh.
  destruct shared; cbn [mp_unique mp_leaf gmps_of andb]; rewrite map_map.
  - rewrite qsum_filter. apply qsum_map_ext_in. intros i Hi. apply in_seq in Hi. cbv beta.
    destruct (l_reuse (lay_at lays i)); cbn [negb]; [reflexivity|].
    leaf_tac dim1 net lays names true cf i H NU R Hi.
  - apply qsum_map_ext_in. intros i Hi. apply in_seq in Hi. cbv beta.
    leaf_tac dim1 net lays names false cf i H NU R Hi.
Qed.

(* ------------------------------------------------------------------ the plumbing: cost_specification setter, DNAS.get_cost / cost *)
Lemma dict_build : forall A B (f : A -> B) (dflt : B) (l : list (string * A)) d0 k, NoDup (map fst l) ->
  dict_get dflt (fold_left (fun d it => dict_set d (fst it) (f (snd it))) l d0) k
  = match find (fun e => String.eqb (fst e) k) l with Some e => f (snd e) | None => dict_get dflt d0 k end.
Proof.
  intros A B f dflt l. induction l as [|[kx vx] r IH]; intros d0 k ND; [reflexivity|].
  inversion ND as [|? ? Hn ND']; subst. cbn [fold_left find fst snd]. rewrite IH by exact ND'.
  destruct (String.eqb_spec kx k) as [E|E].
  - subst. destruct (find (fun e => String.eqb (fst e) k) r) as [e|] eqn:F.
    + apply find_some in F. destruct F as [Fi Fe]. apply String.eqb_eq in Fe. exfalso. apply Hn. rewrite <- Fe. apply in_map. exact Fi.
    + unfold dict_get, dict_set. cbn [find fst snd]. rewrite String.eqb_refl. reflexivity.
  - destruct (find (fun e => String.eqb (fst e) k) r); [reflexivity|].
    unfold dict_get, dict_set. cbn [find fst]. destruct (String.eqb_spec kx k); [contradiction|reflexivity].
Qed.
Lemma dict_has_build : forall A B (f : A -> B) (l : list (string * A)) d0 k,
  dict_has (fold_left (fun d it => dict_set d (fst it) (f (snd it))) l d0) k = dict_has l k || dict_has d0 k.
Proof.
  intros A B f l. induction l as [|[kx vx] r IH]; intros d0 k; [reflexivity|].
  cbn [fold_left fst snd]. rewrite IH. unfold dict_has, dict_set. cbn [existsb fst].
  destruct (String.eqb kx k), (existsb (fun e => String.eqb (fst e) k) r); reflexivity.
Qed.
Lemma dict_get_find : forall A (dflt : A) d k, dict_get dflt d k = match find (fun e => String.eqb (fst e) k) d with Some e => snd e | None => dflt end.
Proof. reflexivity. Qed.

(* after `model.cost_specification = {name: spec, ...}`, get_cost(name) evaluates what the name is bound to NOW *)
Theorem gen_get_cost_after_set : forall self specs name, NoDup (map fst specs) -> dict_has specs name = true ->
  let self' := mps_set_cost_specification_gen self (CDict specs) in
  let c := dict_get default_cs specs name in
  dnas_get_cost_gen self' (Some name) = mps_get_single_cost_gen self c (mps_single_cost_fn_map_gen self c) /\
  dnas_get_cost_ok self' (Some name) = mps_get_single_cost_ok self c (mps_single_cost_fn_map_gen self c).
Proof.
  intros self specs name ND Hh. cbv zeta.
  assert (FM : mp_cost_fn_map (mps_set_cost_specification_gen self (CDict specs))
               = FDict (fold_left (fun d it => dict_set d (fst it) (mps_single_cost_fn_map_gen self (snd it))) specs [])) by reflexivity.
  assert (SP : mp_cost_specification (mps_set_cost_specification_gen self (CDict specs)) = CDict specs) by reflexivity.
  assert (G : fnmaps_get (mp_cost_fn_map (mps_set_cost_specification_gen self (CDict specs))) name
              = mps_single_cost_fn_map_gen self (dict_get default_cs specs name)).
  { rewrite FM. cbn [fnmaps_get]. rewrite dict_build by exact ND.
    unfold dict_has in Hh. destruct (find (fun e => String.eqb (fst e) name) specs) as [e|] eqn:F; [unfold dict_get; rewrite F; reflexivity|].
    exfalso. apply existsb_exists in Hh. destruct Hh as [e [Ei Ee]]. pose proof (find_none _ _ F e Ei) as N. cbv beta in N. congruence. }
  split.
  - unfold dnas_get_cost_gen. cbv zeta. rewrite G, SP. reflexivity.
  - unfold dnas_get_cost_ok. cbv zeta. rewrite G, SP. cbn [specs_is_dict specs_is_single specs_as_dict negb andb].
    rewrite Hh. rewrite FM. cbn [fnmaps_has]. rewrite dict_has_build, Hh. reflexivity.
Qed.
Theorem gen_get_cost_single : forall self c,
  let self' := mps_set_cost_specification_gen self (CSingle c) in
  dnas_cost_gen self' = mps_get_single_cost_gen self c (mps_single_cost_fn_map_gen self c) /\
  dnas_cost_ok self' = mps_get_single_cost_ok self c (mps_single_cost_fn_map_gen self c).
Proof. intros. split; reflexivity. Qed.

(* ------------------------------------------------------------------ the correspondence helper run_net_gen = run_net *)
Lemma qpair_eq : forall a b, a == b -> qpair a = qpair b.
Proof. intros a b H. unfold qpair. rewrite (Qred_complete a b H). reflexivity. Qed.
Lemma run_specs_nodup : forall dim1, NoDup (map fst (run_specs dim1)).
Proof. cbn. repeat constructor; cbn; intuition discriminate. Qed.

Theorem run_net_gen_eq : forall dim1 net lays names, names_okb net lays names = true -> no_unit_conv net ->
  fst (run_net_gen dim1 net lays names) = run_net false net lays.
Proof.
  intros dim1 net lays names H NU. unfold run_net_gen, run_net. cbn [fst map].
  repeat match goal with |- (_ :: _) = (_ :: _) => f_equal end;
    match goal with |- qpair (dnas_get_cost_gen _ (Some ?k)) = _ =>
      rewrite (proj1 (gen_get_cost_after_set (gmps_of dim1 net lays names) (run_specs dim1) k (run_specs_nodup dim1) eq_refl)) end;
    apply qpair_eq.
  - apply (gen_net_cost_eq dim1 net lays names true (cf_of 0) H NU (cf_of_reads 0)).
  - apply (gen_net_cost_eq dim1 net lays names false (cf_of 1) H NU (cf_of_reads 1)).
  - apply (gen_net_cost_eq dim1 net lays names false (cf_of 2) H NU (cf_of_reads 2)).
  - apply (gen_net_cost_eq dim1 net lays names false (cf_of 3) H NU (cf_of_reads 3)).
Qed.

(* definedness on the domain of the property: per-channel matrices have columns (channels > 0) and their 0-bit row exists *)
Definition lays_wfb (net : list node) (lays : list lay) : bool :=
  forallb (fun i => match nth_error net i with
                    | Some nd => if l_pc (lay_at lays i)
                                 then Nat.ltb 0 (chan_out nd) && match l_zero (lay_at lays i) with Some z => Nat.ltb z (length (l_th (lay_at lays i))) | None => true end
                                 else true
                    | None => true
                    end) (seq 0 (length net)).
Lemma glayer_wf : forall net lays i nd, lays_wfb net lays = true -> nth_error net i = Some nd -> wq_wf (gl_w (glayer_of net lays i nd)).
Proof.
  intros net lays i nd H E. unfold lays_wfb in H. rewrite forallb_forall in H.
  assert (Hi : (i < length net)%nat) by (apply nth_error_Some; congruence).
  specialize (H i ltac:(apply in_seq; lia)). rewrite E in H. unfold glayer_of. cbn [gl_w].
  destruct (l_pc (lay_at lays i)); [|exact I]. apply andb_true_iff in H. destruct H as [A B]. cbn [wq_wf m_cols m_rows]. split.
  - apply chan_nonzero. apply Nat.ltb_lt in A. lia.
  - destruct (l_zero (lay_at lays i)); [apply Nat.ltb_lt; exact B|exact I].
Qed.
Lemma leaf_in : forall dim1 net lays names (shared : bool) lf,
  In lf (if shared then mp_unique (gmps_of dim1 net lays names) else mp_leaf (gmps_of dim1 net lays names)) ->
  exists i, (i < length net)%nat /\ lf = gleaf_of dim1 net lays names i.
Proof.
  intros dim1 net lays names shared lf H. destruct shared; cbn [mp_unique mp_leaf gmps_of] in H; apply in_map_iff in H; destruct H as [i [E Hi]]; exists i; split; auto.
  - apply filter_In in Hi. destruct Hi as [Hi _]. apply in_seq in Hi. lia.
  - apply in_seq in Hi. lia.
Qed.
Lemma single_map_has : forall dim1 net lays names c i nd, names_okb net lays names = true -> nth_error net i = Some nd ->
  fnmap_has (mps_single_cost_fn_map_gen (gmps_of dim1 net lays names) c) (nth i names i) = true.
Proof.
  intros dim1 net lays names c i nd H E. unfold mps_single_cost_fn_map_gen. cbv zeta. cbn [mp_unique gmps_of]. fold (uidx net lays).
  match goal with |- fnmap_has (fold_left _ ?l ?m0) ?k = _ =>
    change (fnmap_has (fold_left (fun m x => fnmap_set m (fst (fst x)) (leaf_fn c x)) l m0) k = true) end.
  rewrite fnmap_has_build, existsb_map_key. apply orb_true_iff. left. apply existsb_exists.
  destruct (names_first_site net lays names i nd H E) as [A B].
  assert (Hj : In (nth i names i) (uidx net lays)) by (apply in_uidx; split; assumption).
  exists (nth i names i). split; [exact Hj|]. rewrite (leaf_key dim1 net lays names _ H Hj). apply Nat.eqb_refl.
Qed.

Theorem single_cost_ok_true : forall dim1 net lays names shared cf, names_okb net lays names = true -> lays_wfb net lays = true ->
  mps_get_single_cost_ok (gmps_of dim1 net lays names) (cs_of dim1 shared cf) (mps_single_cost_fn_map_gen (gmps_of dim1 net lays names) (cs_of dim1 shared cf)) = true.
Proof.
  intros dim1 net lays names shared cf H W. unfold mps_get_single_cost_ok. cbn [cs_shared cs_of].
  repeat (apply andb_true_intro; split);
    (apply forallb_forall; intros lf Hlf; apply leaf_in in Hlf; destruct Hlf as [i [Hi Elf]]; subst lf; cbv zeta;
     destruct (nth_error net i) as [nd|] eqn:E; [|apply nth_error_None in E; lia];
     unfold gleaf_of; rewrite E; cbn [fst snd];
     destruct (is_mps_module (gclass_of dim1 nd, glayer_of net lays i nd)) eqn:M; try reflexivity;
     try (apply (single_map_has dim1 net lays names _ i nd H E));
     try (pose proof (glayer_wf net lays i nd W E) as G;
          destruct nd, dim1; try discriminate; cbn [gclass_of layer_get_cost_ok fst snd];
          auto using conv1d_get_cost_ok_true, conv2d_get_cost_ok_true, linear_get_cost_ok_true, add_get_cost_ok_true)).
Qed.

Theorem run_net_gen_ok : forall dim1 net lays names, names_okb net lays names = true -> lays_wfb net lays = true ->
  snd (run_net_gen dim1 net lays names) = true.
Proof.
  intros dim1 net lays names H W. unfold run_net_gen. cbn [snd forallb].
  repeat match goal with |- context [dnas_get_cost_ok _ (Some ?k)] =>
    rewrite (proj2 (gen_get_cost_after_set (gmps_of dim1 net lays names) (run_specs dim1) k (run_specs_nodup dim1) eq_refl)) end.
  cbv zeta.
  change (dict_get default_cs (run_specs dim1) "pb") with (cs_of dim1 true (cf_of 0)).
  change (dict_get default_cs (run_specs dim1) "ob") with (cs_of dim1 false (cf_of 1)).
  change (dict_get default_cs (run_specs dim1) "probe_in") with (cs_of dim1 false (cf_of 2)).
  change (dict_get default_cs (run_specs dim1) "probe_out") with (cs_of dim1 false (cf_of 3)).
  rewrite (single_cost_ok_true dim1 net lays names true (cf_of 0) H W).
  rewrite !(single_cost_ok_true dim1 net lays names false _ H W). reflexivity.
Qed.

(* ------------------------------------------------------------------ the sentences of C05 on the generated functions *)
(* a layer object described by the quantities of Model/MpsCost.v static_vars, and its output shape *)
Definition obj_of (t : ltype) (cin cout kh kw ein : Q) (pin tin : list Q) (w : wqtz) : glayer :=
  mkGL [(in_key t, cin); (out_key t, cout); ("kh", kh); ("kw", kw)] ein (mkInQ pin tin) w.
Definition shape_of (oh ow : Q) : spec := [("oh", oh); ("ow", ow)].
Definition gen_get_cost (dim1 : bool) (t : ltype) : glayer -> (spec -> Q) -> spec -> gtensor :=
  match t with LLin => linear_get_cost_gen | _ => if dim1 then conv1d_get_cost_gen else conv2d_get_cost_gen end.

Lemma gen_layer_static : forall dim1 t cin cout kh kw oh ow ein pin tin w cf, reads cf costkey ->
  tsum (gen_get_cost dim1 t (obj_of t cin cout kh kw ein pin tin w) cf (shape_of oh ow))
  == layer_cost cf (modified_vars true t (static_vars t cin cout kh kw oh ow) ein (eout_of_w w cout)) pin tin (wq_precision w) (tw_of_w w).
Proof.
  intros dim1 t cin cout kh kw oh ow ein pin tin w cf R. pose proof (reads_any cf R) as RA.
  destruct t, dim1; cbn [gen_get_cost];
    rewrite ?conv1d_get_cost_gen_eq, ?conv2d_get_cost_gen_eq, ?linear_get_cost_gen_eq by exact RA;
    cbn [obj_of gl_in gl_w iq_precision iq_theta_alpha];
    (apply (layer_cost_same cf costkey); [exact R|]);
    unfold base_spec, eout_of, modified_vars, static_vars, shape_of, obj_of, dict_update, upd, in_key, out_key, getk;
    cbn [gl_vars gl_ein gl_w app lookup String.eqb Ascii.eqb Bool.eqb]; costkey_tac.
Qed.

Lemma params_bit_reads : forall t, reads (params_bit t) costkey.
Proof. exact (cf_of_reads 0). Qed.
Lemma ops_bit_reads : forall t, reads (ops_bit t) costkey.
Proof. exact (cf_of_reads 1). Qed.

(* eval / hard mode, per-layer search: one-hot coefficient vectors *)
Theorem gen_cost_onehot : forall dim1 t vars ein pin pw ki kw cf out_shape, reads cf anykey -> (ki < length pin)%nat -> (kw < length pw)%nat ->
  let self := mkGL vars ein (mkInQ pin (onehotQ ki (length pin))) (WPerLayer pw (onehotQ kw (length pw))) in
  tsum (gen_get_cost dim1 t self cf out_shape)
  == entry cf (base_spec (match t with LLin => LLin | _ => LConv end) self out_shape) (nth ki pin 0) (nth kw pw 0) 1.
Proof.
  intros dim1 t vars ein pin pw ki kw cf sh R Hi Hw. cbv zeta.
  destruct t, dim1; cbn [gen_get_cost];
    rewrite ?conv1d_get_cost_gen_eq, ?conv2d_get_cost_gen_eq, ?linear_get_cost_gen_eq by exact R;
    cbn [gl_in gl_w iq_precision iq_theta_alpha wq_precision tw_of_w]; apply mps_cost_onehot; assumption.
Qed.
Theorem gen_params_bit_exact : forall dim1 t cin cout kh kw oh ow ein pin pw ki kw', (ki < length pin)%nat -> (kw' < length pw)%nat ->
  tsum (gen_get_cost dim1 t (obj_of t cin cout kh kw ein pin (onehotQ ki (length pin)) (WPerLayer pw (onehotQ kw' (length pw)))) (params_bit t) (shape_of oh ow))
  == weights_of t kh kw ein cout * nth kw' pw 0.
Proof. intros. rewrite gen_layer_static by apply params_bit_reads. cbn [eout_of_w wq_precision tw_of_w]. apply params_bit_exact; assumption. Qed.
Theorem gen_ops_bit_exact : forall dim1 t cin cout kh kw oh ow ein pin pw ki kw', (ki < length pin)%nat -> (kw' < length pw)%nat ->
  tsum (gen_get_cost dim1 t (obj_of t cin cout kh kw ein pin (onehotQ ki (length pin)) (WPerLayer pw (onehotQ kw' (length pw)))) (ops_bit t) (shape_of oh ow))
  == macs_of t kh kw oh ow ein cout * nth kw' pw 0 * nth ki pin 0.
Proof. intros. rewrite gen_layer_static by apply ops_bit_reads. cbn [eout_of_w wq_precision tw_of_w]. apply ops_bit_exact; assumption. Qed.

(* per-channel search, eval / hard mode: th = the (precisions x channels) matrix, C its number of columns.
   Without a 0-bit row: exact.  With one (row z): the exact cost scaled by (C - mass of row z) / C  -- the open finding *)
Theorem gen_perchannel_exact_nozero : forall dim1 cin cout kh kw oh ow ein C pin pw th ki, (ki < length pin)%nat -> ~ C == 0 ->
  tsum (gen_get_cost dim1 LConv (obj_of LConv cin cout kh kw ein pin (onehotQ ki (length pin)) (WPerChannel pw (mkMat th C) None)) (params_bit LConv) (shape_of oh ow))
  == kh * kw * ein * dot (map qsum th) pw.
Proof.
  intros. rewrite gen_layer_static by apply params_bit_reads. cbn [eout_of_w wq_precision tw_of_w m_rows m_cols eff_out].
  unfold row_means. rewrite <- (map_map qsum (fun n => n / C)). apply perchannel_exact_nozero; assumption.
Qed.
Theorem gen_perchannel_zero_scaled : forall dim1 cin cout kh kw oh ow ein C z pin pw th ki, (ki < length pin)%nat -> ~ C == 0 ->
  tsum (gen_get_cost dim1 LConv (obj_of LConv cin cout kh kw ein pin (onehotQ ki (length pin)) (WPerChannel pw (mkMat th C) (Some z))) (params_bit LConv) (shape_of oh ow))
  == (C - qsum (nth z th [])) / C * (kh * kw * ein * dot (map qsum th) pw).
Proof.
  intros. rewrite gen_layer_static by apply params_bit_reads. cbn [eout_of_w wq_precision tw_of_w m_rows m_cols eff_out].
  unfold row_means. rewrite <- (map_map qsum (fun n => n / C)). apply perchannel_zero_scaled; assumption.
Qed.
(* 8 channels, precisions (0, 2, 8): 4 pruned, 1 at 2 bits, 3 at 8 bits; 3x3 kernel, 3 input features: the code returns half the exact cost *)
Theorem gen_perchannel_zero_refuted : exists dim1 cin cout kh kw ein C z pin pw th ki,
  (ki < length pin)%nat /\ nth z pw 1 == 0 /\ Forall (fun col => qsum col == 1) [map (fun r => nth 0 r 0) th; map (fun r => nth 7 r 0) th] /\
  ~ tsum (gen_get_cost dim1 LConv (obj_of LConv cin cout kh kw ein pin (onehotQ ki (length pin)) (WPerChannel pw (mkMat th C) (Some z))) (params_bit LConv) (shape_of 1 1))
    == kh * kw * ein * dot (map qsum th) pw.
Proof.
  exists false, 3, 8, 3, 3, 3, 8, 0%nat, [8], [0; 2; 8], [[1;1;1;1;0;0;0;0]; [0;0;0;0;1;0;0;0]; [0;0;0;0;0;1;1;1]], 0%nat.
  repeat split; try (vm_compute; reflexivity); try (simpl; lia).
  - repeat constructor; vm_compute; reflexivity.
  - vm_compute. discriminate.
Qed.

(* network level *)
Theorem gen_net_cost_params_exact : forall dim1 net lays names ki kw, names_okb net lays names = true -> no_unit_conv net -> onehot_layers net lays ki kw ->
  mps_get_single_cost_gen (gmps_of dim1 net lays names) (cs_of dim1 false params_bit) (mps_single_cost_fn_map_gen (gmps_of dim1 net lays names) (cs_of dim1 false params_bit))
  == qsum (map (node_bits (fun t kh kw' _ _ ein eout => weights_of t kh kw' ein eout) net lays false ki kw false) (seq 0 (length net))).
Proof. intros. rewrite gen_net_cost_eq by (try assumption; apply params_bit_reads). rewrite net_cost_per_invocation. apply net_cost_params_exact. assumption. Qed.
Theorem gen_net_cost_ops_exact : forall dim1 net lays names ki kw, names_okb net lays names = true -> no_unit_conv net -> onehot_layers net lays ki kw ->
  mps_get_single_cost_gen (gmps_of dim1 net lays names) (cs_of dim1 false ops_bit) (mps_single_cost_fn_map_gen (gmps_of dim1 net lays names) (cs_of dim1 false ops_bit))
  == qsum (map (node_bits (fun t kh kw' oh ow ein eout => macs_of t kh kw' oh ow ein eout) net lays false ki kw true) (seq 0 (length net))).
Proof. intros. rewrite gen_net_cost_eq by (try assumption; apply ops_bit_reads). rewrite net_cost_per_invocation. apply net_cost_ops_exact. assumption. Qed.
Theorem gen_net_cost_params_exact_perchannel : forall dim1 net lays names ki, names_okb net lays names = true -> no_unit_conv net -> perchannel_layers net lays ki ->
  mps_get_single_cost_gen (gmps_of dim1 net lays names) (cs_of dim1 false params_bit) (mps_single_cost_fn_map_gen (gmps_of dim1 net lays names) (cs_of dim1 false params_bit))
  == qsum (map (node_pc net lays false ki false) (seq 0 (length net))).
Proof. intros. rewrite gen_net_cost_eq by (try assumption; apply params_bit_reads). rewrite net_cost_per_invocation. apply net_cost_params_exact_perchannel. assumption. Qed.
Theorem gen_net_cost_ops_exact_perchannel : forall dim1 net lays names ki, names_okb net lays names = true -> no_unit_conv net -> perchannel_layers net lays ki ->
  mps_get_single_cost_gen (gmps_of dim1 net lays names) (cs_of dim1 false ops_bit) (mps_single_cost_fn_map_gen (gmps_of dim1 net lays names) (cs_of dim1 false ops_bit))
  == qsum (map (node_pc net lays false ki true) (seq 0 (length net))).
Proof. intros. rewrite gen_net_cost_eq by (try assumption; apply ops_bit_reads). rewrite net_cost_per_invocation. apply net_cost_ops_exact_perchannel. assumption. Qed.
(* a shared spec (params_bit) counts a module invoked twice once: the first call site *)
Theorem gen_net_cost_shared_no_reuse : forall dim1 net lays names cf shared, names_okb net lays names = true -> no_unit_conv net -> (forall t, reads (cf t) costkey) ->
  (forall i, l_reuse (lay_at lays i) = false) ->
  mps_get_single_cost_gen (gmps_of dim1 net lays names) (cs_of dim1 shared cf) (mps_single_cost_fn_map_gen (gmps_of dim1 net lays names) (cs_of dim1 shared cf))
  == mps_net_cost net lays cf false.
Proof. intros. rewrite gen_net_cost_eq by assumption. apply net_cost_shared_no_reuse. assumption. Qed.

(* the two open depthwise findings: pruning channels of a depthwise layer (own selector / network-input group) leaves what the
   generated cost shows its consumers (total of the probing spec probe_in) unchanged; the intended mask propagation lowers it *)
Theorem gen_net_pruning_behind_depthwise_refuted : exists net lays lays' names dw c s,
  wf net = true /\ names_okb net lays names = true /\ names_okb net lays' names = true /\ nth_error net dw = Some (NDw s c) /\
  own_out net lays' dw < own_out net lays dw /\
  nth 2 (fst (run_net_gen false net lays' names)) (0, 0)%Z = nth 2 (fst (run_net_gen false net lays names)) (0, 0)%Z /\
  nth 2 (run_net true net lays') (0, 0)%Z <> nth 2 (run_net true net lays) (0, 0)%Z.
Proof.
  exists [NIn 3; NConv 0 3 4; NDw 1 4; NConv 2 4 2; NFlat 3 16; NLin 4 32 2],
         [no_lay; pc_lay [[0;0;0;0];[1;1;1;1]]; pc_lay [[0;0;0;0];[1;1;1;1]]; pc_lay [[0;0];[1;1]]; no_lay; pc_lay [[0;0];[1;1]]],
         [no_lay; pc_lay [[0;0;0;0];[1;1;1;1]]; pc_lay [[1;0;0;0];[0;1;1;1]]; pc_lay [[0;0];[1;1]]; no_lay; pc_lay [[0;0];[1;1]]],
         [0; 1; 2; 3; 4; 5]%nat, 2%nat, 4%nat, 1%nat.
  repeat split; try (vm_compute; reflexivity). vm_compute. discriminate.
Qed.
Theorem gen_net_pruning_input_group_refuted : exists net lays lays' names dw c s,
  wf net = true /\ names_okb net lays names = true /\ names_okb net lays' names = true /\ nth_error net dw = Some (NDw s c) /\ nth_error net s = Some (NIn c) /\
  own_out net lays' dw < own_out net lays dw /\
  nth 2 (fst (run_net_gen false net lays' names)) (0, 0)%Z = nth 2 (fst (run_net_gen false net lays names)) (0, 0)%Z /\
  nth 2 (run_net true net lays') (0, 0)%Z <> nth 2 (run_net true net lays) (0, 0)%Z.
Proof.
  exists [NIn 3; NDw 0 3; NConv 1 3 2; NFlat 2 16; NLin 3 32 2],
         [no_lay; pc_lay [[0;0;0];[1;1;1]]; pc_lay [[0;0];[1;1]]; no_lay; pc_lay [[0;0];[1;1]]],
         [no_lay; pc_lay [[0;1;0];[1;0;1]]; pc_lay [[0;0];[1;1]]; no_lay; pc_lay [[0;0];[1;1]]],
         [0; 1; 2; 3; 4]%nat, 1%nat, 3%nat, 0%nat.
  repeat split; try (vm_compute; reflexivity). vm_compute. discriminate.
Qed.

Theorem gen_spec_keys_by_type : forall self,
  (lookup "in_channels" (conv1d_get_modified_vars_gen self) = Some (gl_ein self) /\ lookup "out_channels" (conv1d_get_modified_vars_gen self) = Some (eout_of LConv self)) /\
  (lookup "in_channels" (conv2d_get_modified_vars_gen self) = Some (gl_ein self) /\ lookup "out_channels" (conv2d_get_modified_vars_gen self) = Some (eout_of LConv self)) /\
  (lookup "in_features" (linear_get_modified_vars_gen self) = Some (gl_ein self) /\ lookup "out_features" (linear_get_modified_vars_gen self) = Some (eout_of LLin self)).
Proof.
  intros self. repeat split;
    rewrite ?(conv1d_get_modified_vars_gen_eq self _ I), ?(conv2d_get_modified_vars_gen_eq self _ I), ?(linear_get_modified_vars_gen_eq self _ I); reflexivity.
Qed.
