"""Translator: plinio/cost/cost_spec.py  ->  coq/Gen/CostSpecGen.v   (C15)

Reads the source of CostSpec.__setitem__ and CostSpec.__getitem__ of the tree under test with `ast` and emits two
Gallina definitions, `setitem_gen` and `getitem_gen`, over the vocabulary of Model/CostSpec.v (insertion-ordered dict,
`res` for raise, `fold_res` for a loop that stops at the first raise).  Proofs/CostSpecGen.v proves that they are
extensionally the hand-written model (`setitem`, `getitem`), so the theorems of Props/C15.v are re-checked against what
the code says NOW: a change of the loop (another guard, another update, another order of the tests) changes the
generated text and the equalities stop checking unless the new code computes the same function.

Fail closed: every construct that is not listed below raises Reject (reported by the check as a broken obligation).

Python subset
  statements   x = e | a, b = e1, e2 | if t: ... [elif/else] | raise E(...) | for c, f in self.data[key[0]]: ...
               | if key[0] in self.data: <for ...> | return best_match | docstrings / comments
               (__setitem__) if key[0] not in self.data: self.data[key[0]] = [] | self.data[key[0]].append((key[1], cost_fn))
  tests        x is None | x is not None | constr(key[1]) | not t | t and t | t or t
  values       best_match <- self.default | cost_fn ; best_constr <- None | constr
Typing (fixed): best_match : option F (None = the default function), best_constr : option nat, constr : option nat,
cost_fn : F.  `return best_match` is `ret best_match` (Found f / Default), `raise` is Conflict.
"""
import ast
import os


class Reject(Exception):
    pass


STATE = ('best_match', 'best_constr')


def _d(n):
    return ast.dump(n)


def _is_key(n, i):
    return isinstance(n, ast.Subscript) and isinstance(n.value, ast.Name) and n.value.id == 'key' and \
        isinstance(n.slice, ast.Constant) and n.slice.value == i


def _is_self_data(n):
    return isinstance(n, ast.Attribute) and n.attr == 'data' and isinstance(n.value, ast.Name) and n.value.id == 'self'


def _is_data_at_key(n):
    return isinstance(n, ast.Subscript) and _is_self_data(n.value) and _is_key(n.slice, 0)


def test(n):
    if isinstance(n, ast.Compare) and len(n.ops) == 1 and isinstance(n.comparators[0], ast.Constant) and n.comparators[0].value is None \
            and isinstance(n.left, ast.Name) and n.left.id in ('constr', 'best_constr', 'best_match'):
        if isinstance(n.ops[0], ast.Is):
            return '(is_none %s)' % n.left.id
        if isinstance(n.ops[0], ast.IsNot):
            return '(negb (is_none %s))' % n.left.id
    if isinstance(n, ast.Call) and isinstance(n.func, ast.Name) and n.func.id == 'constr' and len(n.args) == 1 and not n.keywords and _is_key(n.args[0], 1):
        return '(sat_opt sat constr)'
    if isinstance(n, ast.UnaryOp) and isinstance(n.op, ast.Not):
        return '(negb %s)' % test(n.operand)
    if isinstance(n, ast.BoolOp):
        op = 'andb' if isinstance(n.op, ast.And) else 'orb'
        out = test(n.values[0])
        for v in n.values[1:]:
            # Python's and/or are lazy; the operands translated here have no effect and cannot fail, except constr(...)
            # on None, which sat_opt defines as false exactly where the lazy evaluation would not reach it
            out = '(%s %s %s)' % (op, out, test(v))
        return out
    raise Reject('test not in the subset: ' + _d(n)[:200])


def value(target, n):
    if target == 'best_match':
        if isinstance(n, ast.Name) and n.id == 'cost_fn':
            return '(Some cost_fn)'
        if isinstance(n, ast.Attribute) and n.attr == 'default' and isinstance(n.value, ast.Name) and n.value.id == 'self':
            return '(@None F)'
        if isinstance(n, ast.Name) and n.id == 'best_match':
            return 'best_match'
    if target == 'best_constr':
        if isinstance(n, ast.Name) and n.id in ('constr', 'best_constr'):
            return n.id
        if isinstance(n, ast.Constant) and n.value is None:
            return '(@None nat)'
    raise Reject('value not in the subset for %s: %s' % (target, _d(n)[:200]))


OKK = '(Ok (best_match, best_constr))'


def block(stmts, k, ind):
    """translate a statement list with continuation expression k (what follows when the block falls through)"""
    pad = '  ' * ind
    if not stmts:
        return pad + k
    s, rest = stmts[0], stmts[1:]
    if isinstance(s, ast.Expr) and isinstance(s.value, ast.Constant) and isinstance(s.value.value, str):
        return block(rest, k, ind)                                    # docstring
    if isinstance(s, ast.Pass):
        return block(rest, k, ind)
    if isinstance(s, ast.Raise):
        return pad + 'Raise'
    if isinstance(s, ast.Assign) and len(s.targets) == 1:
        t = s.targets[0]
        if isinstance(t, ast.Name) and t.id in STATE:
            return pad + 'let %s := %s in\n' % (t.id, value(t.id, s.value)) + block(rest, k, ind)
        if isinstance(t, ast.Tuple) and isinstance(s.value, ast.Tuple) and len(t.elts) == len(s.value.elts) and \
                all(isinstance(e, ast.Name) and e.id in STATE for e in t.elts):
            names = [e.id for e in t.elts]
            used = {x.id for v in s.value.elts for x in ast.walk(v) if isinstance(x, ast.Name)}
            if used & set(names):
                raise Reject('simultaneous assignment reads one of its targets')
            out = ''
            for nm, v in zip(names, s.value.elts):
                out += pad + 'let %s := %s in\n' % (nm, value(nm, v))
            return out + block(rest, k, ind)
        raise Reject('assignment not in the subset: ' + _d(s)[:200])
    if isinstance(s, ast.If):
        c = test(s.test)
        if not rest:
            return (pad + 'if %s then\n' % c + block(s.body, k, ind + 1) + '\n' + pad + 'else\n' + block(s.orelse, k, ind + 1))
        inner = (pad + 'match (if %s then\n' % c + block(s.body, OKK, ind + 1) + '\n' + pad + 'else\n' + block(s.orelse, OKK, ind + 1) + ')\n' +
                 pad + 'with Raise => Raise | Ok (best_match, best_constr) =>\n' + block(rest, k, ind + 1) + '\n' + pad + 'end')
        return inner
    raise Reject('statement not in the subset: ' + _d(s)[:200])


def _strip(stmts):
    return [s for s in stmts if not (isinstance(s, ast.Expr) and isinstance(s.value, ast.Constant) and isinstance(s.value.value, str))]


def translate_getitem(fn):
    body = _strip(fn.body)
    args = [a.arg for a in fn.args.args]
    if args != ['self', 'key']:
        raise Reject('__getitem__ signature: %s' % args)
    init = []
    i = 0
    while i < len(body) and isinstance(body[i], ast.Assign):
        init.append(body[i])
        i += 1
    if i >= len(body):
        raise Reject('__getitem__: no loop')
    loop_holder = body[i]
    after = body[i + 1:]
    guarded = False
    if isinstance(loop_holder, ast.If):
        t = loop_holder.test
        if not (isinstance(t, ast.Compare) and len(t.ops) == 1 and isinstance(t.ops[0], ast.In) and _is_key(t.left, 0) and _is_self_data(t.comparators[0])) \
                or loop_holder.orelse or len(_strip(loop_holder.body)) != 1:
            raise Reject('__getitem__: the guard of the loop is not `if key[0] in self.data:`')
        guarded = True
        loop = _strip(loop_holder.body)[0]
    else:
        loop = loop_holder
    if not (isinstance(loop, ast.For) and not loop.orelse and _is_data_at_key(loop.iter) and isinstance(loop.target, ast.Tuple) and
            [getattr(e, 'id', None) for e in loop.target.elts] == ['constr', 'cost_fn']):
        raise Reject('__getitem__: the loop is not `for constr, cost_fn in self.data[key[0]]:`')
    if len(after) != 1 or not (isinstance(after[0], ast.Return) and isinstance(after[0].value, ast.Name) and after[0].value.id == 'best_match'):
        raise Reject('__getitem__: does not end with `return best_match`')
    seen = set()
    init_txt = ''
    for a in init:
        if not (len(a.targets) == 1 and isinstance(a.targets[0], ast.Name) and a.targets[0].id in STATE):
            raise Reject('__getitem__: initialisation not in the subset: ' + _d(a)[:200])
        nm = a.targets[0].id
        seen.add(nm)
        init_txt += '  let %s := %s in\n' % (nm, value(nm, a.value))
    if seen != set(STATE):
        raise Reject('__getitem__: best_match / best_constr are not both initialised before the loop')
    for x in ast.walk(loop):
        if isinstance(x, (ast.Break, ast.Continue, ast.While, ast.Try, ast.With, ast.Return)):
            raise Reject('__getitem__: %s inside the loop' % type(x).__name__)
    step = block(loop.body, OKK, 1)
    run = 'fold_res (getitem_step sat) (dict_get F d ty) (best_match, best_constr)'
    if guarded:
        run = 'if dict_mem F ty d then %s else Ok (best_match, best_constr)' % run
    return ('Definition getitem_step (sat : nat -> bool) (st : option F * option nat) (it : entry F) : res (option F * option nat) :=\n'
            '  let \'(best_match, best_constr) := st in\n  let \'(constr, cost_fn) := it in\n' + step + '.\n\n'
            'Definition getitem_gen (d : spec F) (ty : nat) (sat : nat -> bool) : outcome F :=\n' + init_txt +
            '  match (%s) with\n  | Ok (best_match, best_constr) => ret F best_match\n  | Raise => Conflict\n  end.\n' % run)


def translate_setitem(fn):
    body = _strip(fn.body)
    args = [a.arg for a in fn.args.args]
    if args != ['self', 'key', 'cost_fn']:
        raise Reject('__setitem__ signature: %s' % args)
    out = ''
    for s in body:
        if isinstance(s, ast.If) and not s.orelse and isinstance(s.test, ast.Compare) and len(s.test.ops) == 1 and _is_key(s.test.left, 0) \
                and _is_self_data(s.test.comparators[0]) and isinstance(s.test.ops[0], (ast.In, ast.NotIn)):
            c = 'dict_mem F ty d' if isinstance(s.test.ops[0], ast.In) else 'negb (dict_mem F ty d)'
            inner = _strip(s.body)
            if len(inner) == 1 and isinstance(inner[0], ast.Assign) and len(inner[0].targets) == 1 and _is_data_at_key(inner[0].targets[0]) \
                    and isinstance(inner[0].value, ast.List) and not inner[0].value.elts:
                out += '  let d := if %s then dict_set F d ty [] else d in\n' % c
                continue
            raise Reject('__setitem__: conditional statement not in the subset: ' + _d(s)[:200])
        if isinstance(s, ast.Expr) and isinstance(s.value, ast.Call) and isinstance(s.value.func, ast.Attribute) and s.value.func.attr == 'append' \
                and _is_data_at_key(s.value.func.value) and len(s.value.args) == 1 and isinstance(s.value.args[0], ast.Tuple) \
                and len(s.value.args[0].elts) == 2 and _is_key(s.value.args[0].elts[0], 1) and isinstance(s.value.args[0].elts[1], ast.Name) \
                and s.value.args[0].elts[1].id == 'cost_fn':
            out += '  let d := dict_set F d ty (dict_get F d ty ++ [e]) in\n'
            continue
        if isinstance(s, ast.Assign) and len(s.targets) == 1 and _is_data_at_key(s.targets[0]) and isinstance(s.value, ast.List) and len(s.value.elts) == 1 \
                and isinstance(s.value.elts[0], ast.Tuple) and len(s.value.elts[0].elts) == 2 and _is_key(s.value.elts[0].elts[0], 1) \
                and isinstance(s.value.elts[0].elts[1], ast.Name) and s.value.elts[0].elts[1].id == 'cost_fn':
            out += '  let d := dict_set F d ty [e] in\n'
            continue
        raise Reject('__setitem__: statement not in the subset: ' + _d(s)[:200])
    return 'Definition setitem_gen (d : spec F) (ty : nat) (e : entry F) : spec F :=\n' + out + '  d.\n'


def _self_attr(n, name):
    return isinstance(n, ast.Attribute) and n.attr == name and isinstance(n.value, ast.Name) and n.value.id == 'self'


def check_init(fn):
    """the generated model takes self.data to be the plain insertion-ordered dict of UserDict and self.default one of the
    two module-level functions: __init__ may only call the parent constructor, store `shared` and choose `default`"""
    if fn is None:
        raise Reject('__init__ not found')
    for s in _strip(fn.body):
        if isinstance(s, ast.Expr) and isinstance(s.value, ast.Call) and isinstance(s.value.func, ast.Attribute) and s.value.func.attr == '__init__' \
                and isinstance(s.value.func.value, ast.Call) and getattr(s.value.func.value.func, 'id', None) == 'super' and not s.value.args and not s.value.keywords:
            continue
        if isinstance(s, ast.Assign) and len(s.targets) == 1 and _self_attr(s.targets[0], 'shared') and isinstance(s.value, ast.Name) and s.value.id == 'shared':
            continue
        if isinstance(s, ast.If):
            def ok_branch(b):
                for x in b:
                    if isinstance(x, ast.Assign) and len(x.targets) == 1 and _self_attr(x.targets[0], 'default') and isinstance(x.value, ast.Name) \
                            and x.value.id in ('cost_spec_zero_fn', 'cost_spec_fail_fn'):
                        continue
                    if isinstance(x, ast.Raise):
                        continue
                    if isinstance(x, ast.If) and ok_test(x.test) and ok_branch(x.body) and ok_branch(x.orelse):
                        continue
                    return False
                return True

            def ok_test(t):
                return isinstance(t, ast.Compare) and isinstance(t.left, ast.Name) and t.left.id == 'default_behavior' and len(t.ops) == 1 \
                    and isinstance(t.ops[0], ast.Eq) and isinstance(t.comparators[0], ast.Constant)
            if ok_test(s.test) and ok_branch(s.body) and ok_branch(s.orelse):
                continue
        raise Reject('__init__: statement not in the subset (self.data must stay the dict of UserDict): ' + _d(s)[:200])


def check_module(tree):
    """UserDict is collections.UserDict and nothing at module level rebinds it or patches CostSpec"""
    imported = False
    for n in tree.body:
        if isinstance(n, ast.ImportFrom) and n.module == 'collections' and any(a.name == 'UserDict' and a.asname is None for a in n.names):
            imported = True
        elif isinstance(n, (ast.Import, ast.ImportFrom)):
            if any((a.asname or a.name) == 'UserDict' for a in n.names):
                raise Reject('UserDict is imported from elsewhere')
        elif isinstance(n, ast.ClassDef):
            if n.name != 'CostSpec':
                raise Reject('the module defines another class (%s)' % n.name)
        elif isinstance(n, ast.FunctionDef):
            if n.name not in ('cost_spec_zero_fn', 'cost_spec_fail_fn'):
                raise Reject('the module defines another function (%s)' % n.name)
            # the two defaults the model calls Default: a zero cost for every layer, an error for every layer
            body = [ast.unparse(x) for x in _strip(n.body)]
            want = {'cost_spec_zero_fn': ['return torch.tensor(0.0)'], 'cost_spec_fail_fn': ["raise KeyError(f'Cannot find cost model for pattern {x}')"]}[n.name]
            if body != want or len(n.args.args) != 1:
                raise Reject('%s is not `%s`' % (n.name, want[0]))
        elif isinstance(n, ast.Assign):
            if not (len(n.targets) == 1 and isinstance(n.targets[0], ast.Name) and n.targets[0].id == 'CostFn'):
                raise Reject('module-level assignment: ' + _d(n)[:120])
        elif isinstance(n, ast.Expr) and isinstance(n.value, ast.Constant):
            continue
        else:
            raise Reject('module-level statement: ' + _d(n)[:120])
    if not imported:
        raise Reject('UserDict is not imported from collections')


def translate_source(src):
    tree = ast.parse(src)
    cls = [n for n in tree.body if isinstance(n, ast.ClassDef) and n.name == 'CostSpec']
    if len(cls) != 1:
        raise Reject('class CostSpec not found')
    bases = [getattr(b, 'id', None) for b in cls[0].bases]
    if bases != ['UserDict']:
        raise Reject('CostSpec is not a UserDict: %s' % bases)
    fns = {n.name: n for n in cls[0].body if isinstance(n, ast.FunctionDef)}
    extra = set(fns) - {'__init__', '__setitem__', '__getitem__'}
    if extra:
        raise Reject('CostSpec defines methods the translator does not know: %s' % sorted(extra))
    check_init(fns.get('__init__'))
    check_module(tree)
    for nm in ('__setitem__', '__getitem__'):
        if nm not in fns:
            raise Reject('%s not found' % nm)
        if fns[nm].decorator_list:
            raise Reject('%s is decorated' % nm)
    return translate_setitem(fns['__setitem__']), translate_getitem(fns['__getitem__'])


HEADER = '''(* GENERATED by translator/costspec2coq.py from plinio/cost/cost_spec.py of the tree under test -- do not edit.
   CostSpec.__setitem__ and CostSpec.__getitem__, statement by statement. *)
From Coq Require Import List Bool Arith.
Import ListNotations.
Require Import Plinio.Model.CostSpec.

Section Gen.
Variable F : Type.

'''


def emit(src):
    s, g = translate_source(src)
    return HEADER + s + '\n' + g + FOOTER


FOOTER = '''
(* a sequence of registrations on an empty specification *)
Definition register_all_gen (regs : list (nat * entry F)) : spec F :=
  fold_left (fun s r => setitem_gen s (fst r) (snd r)) regs [].
End Gen.

(* correspondence helper: outcome of a lookup as a number (tag of the function found, -1 default, -2 conflict) *)
Definition run_lookup_gen (regs : list (nat * (option nat * BinNums.Z))) (ty : nat) (sat : list nat) : BinNums.Z :=
  code (getitem_gen BinNums.Z (register_all_gen BinNums.Z regs) ty (sat_of sat)).
'''


def translate_repo(repo):
    return emit(open(os.path.join(repo, 'plinio', 'cost', 'cost_spec.py')).read())


if __name__ == '__main__':
    import sys
    print(translate_repo(sys.argv[1] if len(sys.argv) > 1 else '/repo'))
