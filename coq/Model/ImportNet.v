(* Network-level model of importing a network into PIT (C07), on the concrete layer networks of Model/PitNet.v.
   A network is a list of cnode (input / L1 = Conv1d with its causal pad / L2 = Conv2d with its zero padding / L0 = Linear / channel-wise
   zero-preserving op / flatten / add / concat).  For the ORIGINAL network a layer node CLayer src l m is read as the plain
   layer with weights w, bias b, followed by its BatchNorm bn = (a, sh) (eval mode: y*a_c + sh_c, ARBITRARY per-channel
   coefficients; a_c = gamma_c * rsqrt(var_c+eps), sh_c = beta_c - mean_c * a_c); the fields fold / masks / K' / sp of the
   node are the conversion's business: `fold` = PIT(fold_bn=...) for that layer, the rest is overwritten by the import.
   No proofs here. *)
From Coq Require Import ZArith List Arith Bool.
Import ListNotations.
Require Import Plinio.Model.Masks Plinio.Model.Conv Plinio.Model.PitNet.

Section ImportNet.
Variable R : Type.
Variables (r0 r1 : R) (radd rmul : R -> R -> R).

(* ---- the original network: plain layer, then BatchNorm *)
Definition clayer_plain (l : clayer R) (xs : list (SR R)) : list (SR R) :=
  match l with
  | L1 _ _ dw w b bn cin K d s _ _ _ =>
      map (fun co => of1 R (fun t => bn_at r0 radd rmul bn co
             (conv1d_at r0 radd rmul dw w b cin K (Z.of_nat d) (Z.of_nat s)
                (fun ci => padl ((K - 1) * d) (clip R r0 (as1 R (nth ci xs (zeroR R r0))))) co t))) (seq 0 (length w))
  | L2 _ _ dw w b bn cin kh kw d s ph pw hin win =>
      map (fun co => of2 R (fun h v => bn_at r0 radd rmul bn co
             (conv2d_at r0 radd rmul dw w b cin kh kw (Z.of_nat d) (Z.of_nat s) (Z.of_nat ph) (Z.of_nat pw)
                (fun ci => clip2 R r0 hin win (as2 R (nth ci xs (zeroR R r0)))) co h v))) (seq 0 (length w))
  | L0 _ _ w b bn cin =>
      map (fun co => of0 R (bn_at r0 radd rmul bn co
             (linear_at r0 radd rmul w b cin (fun ci => as0 R (nth ci xs (zeroR R r0))) co))) (seq 0 (length w))
  end.
Definition cplain_node (x : list (SR R)) (acc : list (list (SR R))) (nd : cnode R) : list (SR R) :=
  match nd with
  | CInput _ _ => x
  | CLayer _ src l _ => clayer_plain l (nth src acc [])
  | CChan _ src f => map f (nth src acc [])
  | CExpand _ src mult f => flat_map (expand1 (SR R) mult f) (nth src acc [])
  | CAdd _ a b => zipadd (SR R) (addR R radd) (nth a acc []) (nth b acc [])
  | CCat _ srcs => flat_map (fun s => nth s acc []) srcs
  end.
Fixpoint cplain_acc (x : list (SR R)) (acc : list (list (SR R))) (net : list (cnode R)) : list (list (SR R)) :=
  match net with [] => acc | nd :: rest => cplain_acc x (acc ++ [cplain_node x acc nd]) rest end.
Definition ceval_plain (net : list (cnode R)) (x : list (SR R)) := cplain_acc x [] net.      (* the ORIGINAL network, eval mode *)

(* ---- remove_bn_inplace(fold=True) in the (a, sh) coordinates: w * a_co ; b * a_co + sh_co (a missing bias counts as 0) *)
Definition bval (b : option (list R)) (co : nat) : R := match b with Some bl => nth co bl r0 | None => r0 end.
Definition fold_bias (a sh : list R) (b : option (list R)) (cout : nat) : option (list R) :=
  Some (map (fun co => radd (rmul (bval b co) (nth co a r0)) (nth co sh r0)) (seq 0 cout)).
Definition fold_w3 (a : list R) (w : w3 R) : w3 R :=
  map (fun p => map (map (fun v => rmul v (nth (fst p) a r0))) (snd p)) (combine (seq 0 (length w)) w).
Definition fold_w4 (a : list R) (w : w4 R) : w4 R :=
  map (fun p => map (map (map (fun v => rmul v (nth (fst p) a r0)))) (snd p)) (combine (seq 0 (length w)) w).
Definition fold_w2 (a : list R) (w : list (list R)) : list (list R) :=
  map (fun p => map (fun v => rmul v (nth (fst p) a r0)) (snd p)) (combine (seq 0 (length w)) w).

(* ---- what the import makes of a layer: initial masks (all open; a frozen time masker is the same thing), kernel size and
   dilation of an immediate export = the original ones (K' = K, factor 1); with fold the BatchNorm is folded into weight and
   bias (and stays attached, unused); without BatchNorm nothing is folded *)
Definition import_clayer (l : clayer R) : clayer R :=
  match l with
  | L1 _ fold dw w b bn cin K d s _ _ _ =>
      match fold, bn with
      | true, Some (a, sh) => L1 R true dw (fold_w3 a w) (fold_bias a sh b (length w)) bn cin K d s (all_true K) K 1
      | _, _ => L1 R fold dw w b bn cin K d s (all_true K) K 1
      end
  | L2 _ fold dw w b bn cin kh kw d s ph pw hin win =>
      match fold, bn with
      | true, Some (a, sh) => L2 R true dw (fold_w4 a w) (fold_bias a sh b (length w)) bn cin kh kw d s ph pw hin win
      | _, _ => l
      end
  | L0 _ fold w b bn cin =>
      match fold, bn with
      | true, Some (a, sh) => L0 R true (fold_w2 a w) (fold_bias a sh b (length w)) bn cin
      | _, _ => l
      end
  end.
Definition import_node (nd : cnode R) : cnode R :=
  match nd with
  | CLayer _ src l _ => CLayer R src (import_clayer l) (all_true (cout_of R l))
  | _ => nd
  end.
Definition import_net (net : list (cnode R)) : list (cnode R) := map import_node net.

(* sizes of a layer: (output channels, kernel taps, dilation) and of the layer an immediate export creates *)
Definition layer_sizes (l : clayer R) : nat * nat * nat :=
  match l with
  | L1 _ _ _ w _ _ _ K d _ _ _ _ => (length w, K, d)
  | L2 _ _ _ w _ _ _ kh kw d _ _ _ _ _ => (length w, kh * kw, d)
  | L0 _ _ w _ _ _ => (length w, 1, 1)
  end.
Definition exported_sizes (l : clayer R) (m : list bool) : nat * nat * nat :=
  match l with
  | L1 _ _ _ _ _ _ _ _ d _ _ K' sp => (count_true m, K', sp * d)
  | L2 _ _ _ _ _ _ _ kh kw d _ _ _ _ _ => (count_true m, kh * kw, d)
  | L0 _ _ _ _ _ _ => (count_true m, 1, 1)
  end.
End ImportNet.
