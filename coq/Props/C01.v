(* C01 — PIT export computes the same function as the searched (masked) network.
   Statements only (proofs: Proofs/Conv.v, Proofs/PitNet.v; models: Model/Conv.v, Model/Masks.v, Model/PitNet.v).
   Carrier: ANY type R with 0, 1, +, * satisfying `laws` (0+x=x, 0*x=0, x*0=0, 1*x=x, x*1=x; instances: Z, Qc);
   weights, biases, BatchNorm coefficients (arbitrary per-channel scale/shift) and inputs are arbitrary elements of R;
   channel counts, kernel size K, initial dilation, stride, time index are arbitrary; beta/gamma are arbitrary rationals.
   `true` as first argument of time_mask / kernel_size_opt / dilation_opt = comb anchored at the last tap (repaired code);
   maskbias = true is the repaired fold_bn forward (bias masked), false the pinned upstream commit. *)
From Coq Require Import QArith ZArith List Bool Arith Lia.
Import ListNotations.
Require Import Plinio.Model.Masks Plinio.Model.Conv Plinio.Model.PitNet Plinio.Proofs.Conv Plinio.Proofs.PitNet.
Require Import Plinio.Base.Tensor Plinio.Gen.MasksGen Plinio.Gen.ExportGen Plinio.Proofs.ExportGen.      (* second tie, by translation: C01_generated_* below *)
Local Open Scope nat_scope.

(* the masked tap sum is the sum over the kept taps *)
Theorem C01_masked_sum_filter : forall R r0 r1 radd rmul, @laws R r0 r1 radd rmul -> forall (m : list bool) (w X : nat -> R) K, length m = K ->
  rsum r0 radd (map (fun j => rmul (rmul (bit r0 r1 (nth j m false)) (w j)) (X j)) (seq 0 K)) = rsum r0 radd (map (fun j => rmul (w j) (X j)) (kept m)).
Proof. exact L_masked_sum_filter. Qed.

(* time axis: masked K-tap kernel with causal pad (K-1)*d == kernel of the kept taps, K' taps, dilation sp*d, pad (K'-1)*sp*d *)
Theorem C01_taps_export_eq : forall R r0 r1 radd rmul, @laws R r0 r1 radd rmul -> forall (tm : list bool) (wk : list R) (K K' sp d : nat) (x : Z -> R) (u : Z),
  length tm = K -> length wk = K -> kept_lags K tm = export_lags K' sp ->
  taps r0 radd rmul (map (fun p => rmul (bit r0 r1 (fst p)) (snd p)) (combine tm wk)) K (Z.of_nat d) (padl ((K - 1) * d) x) u
  = taps r0 radd rmul (select tm wk) K' (Z.of_nat (sp * d)) (padl ((K' - 1) * (sp * d)) x) u.
Proof. exact L_taps_export_eq. Qed.

(* PITConv1d (full convolution), every K >= 1, every real beta/gamma, fold_bn off and on: on every alive output channel and
   at every time step the masked layer (causal pad (K-1)*d0) equals the exported layer (sliced weights/bias/BN,
   kernel_size_opt taps, dilation_opt, pad (k'-1)*d'), provided the input vanishes on dead input channels. *)
Theorem C01_conv1d_export_eq : forall R r0 r1 radd rmul, @laws R r0 r1 radd rmul -> forall fold, conv1d_export_statement r0 r1 radd rmul fold.
Proof. exact conv1d_export_eq. Qed.

(* depthwise PITConv1d (mask shared with the producer) *)
Theorem C01_dw_export_eq : forall R r0 r1 radd rmul, @laws R r0 r1 radd rmul -> forall fold, dw_export_statement r0 r1 radd rmul fold.
Proof. exact dw_export_eq. Qed.

(* stride <> 1: frozen time maskers, kernel / dilation / padding unchanged *)
Theorem C01_conv1d_export_eq_frozen : forall R r0 r1 radd rmul, @laws R r0 r1 radd rmul ->
  forall maskbias (w : w3 R) b bn cout cin K d s mout min (x : nat -> Z -> R) co' t,
  shape3 R w cout cin K -> bias_ok R b cout -> bn_ok R bn cout -> length mout = cout -> length min = cin ->
  (forall ci, ci < cin -> nth ci min false = false -> forall u, x ci u = r0) -> co' < count_true mout ->
  pit_conv1d_at r0 r1 radd rmul maskbias false false w b bn cin K (Z.of_nat d) s mout (all_true K) (fun ci => padl ((K - 1) * d) (x ci)) (nth co' (kept mout) 0) t
  = bn_at r0 radd rmul (slice_bn mout bn) co'
      (conv1d_at r0 radd rmul false (export_w3 false mout min (all_true K) w) (export_bias mout b) (count_true min) K (Z.of_nat (1 * d)) s
         (fun i => padl ((K - 1) * (1 * d)) (x (nth i (kept min) 0))) co' t).
Proof. exact L_conv1d_export_eq_frozen. Qed.

Theorem C01_conv2d_export_eq : forall R r0 r1 radd rmul, @laws R r0 r1 radd rmul ->
  forall maskbias (w : w4 R) b bn cout cin kh kw d s ph pw mout min (x : nat -> Z -> Z -> R) co' h v,
  shape4 R w cout cin -> bias_ok R b cout -> bn_ok R bn cout -> length mout = cout -> length min = cin ->
  (forall ci, ci < cin -> nth ci min false = false -> forall a c, x ci a c = r0) ->
  co' < count_true mout ->
  pit_conv2d_at r0 r1 radd rmul maskbias false false w b bn cin kh kw d s ph pw mout x (nth co' (kept mout) 0) h v
  = bn_at r0 radd rmul (slice_bn mout bn) co'
      (conv2d_at r0 radd rmul false (export_w4 false mout min w) (export_bias mout b) (count_true min) kh kw d s ph pw
         (fun i => x (nth i (kept min) 0)) co' h v).
Proof. exact L_conv2d_export_eq. Qed.

Theorem C01_conv2d_dw_export_eq : forall R r0 r1 radd rmul, @laws R r0 r1 radd rmul ->
  forall maskbias (w : w4 R) b bn c kh kw d s ph pw mout min (x : nat -> Z -> Z -> R) co' h v,
  shape4 R w c 1 -> bias_ok R b c -> bn_ok R bn c -> length mout = c -> co' < count_true mout ->
  pit_conv2d_at r0 r1 radd rmul maskbias false true w b bn c kh kw d s ph pw mout x (nth co' (kept mout) 0) h v
  = bn_at r0 radd rmul (slice_bn mout bn) co'
      (conv2d_at r0 radd rmul true (export_w4 true mout min w) (export_bias mout b) (count_true min) kh kw d s ph pw
         (fun i => x (nth i (kept mout) 0)) co' h v).
Proof. exact L_conv2d_export_eq_dw. Qed.

Theorem C01_linear_export_eq : forall R r0 r1 radd rmul, @laws R r0 r1 radd rmul ->
  forall maskbias (w : list (list R)) b bn cout cin mout min (x : nat -> R) co',
  shape2 R w cout cin -> bias_ok R b cout -> bn_ok R bn cout -> length mout = cout -> length min = cin ->
  (forall ci, ci < cin -> nth ci min false = false -> x ci = r0) ->
  co' < count_true mout ->
  pit_linear_at r0 r1 radd rmul maskbias false w b bn cin mout x (nth co' (kept mout) 0)
  = bn_at r0 radd rmul (slice_bn mout bn) co'
      (linear_at r0 radd rmul (export_w2 mout min w) (export_bias mout b) (count_true min) (fun i => x (nth i (kept min) 0)) co').
Proof. exact L_linear_export_eq. Qed.

(* masked-out channels are exactly zero: after the fused BN (fold_bn off, all three layers) and, in the repaired code,
   under fold_bn (Conv1d here; all three layers in C01_dead_out_zero_fold below) *)
Theorem C01_dead_out_zero : forall R r0 r1 radd rmul, @laws R r0 r1 radd rmul ->
  (forall maskbias dw w b bn cin K d s mout tm x co t, nth co mout false = false ->
     pit_conv1d_at r0 r1 radd rmul maskbias false dw w b bn cin K d s mout tm x co t = r0) /\
  (forall maskbias dw w b bn cin kh kw d s ph pw mout x co h v, nth co mout false = false ->
     pit_conv2d_at r0 r1 radd rmul maskbias false dw w b bn cin kh kw d s ph pw mout x co h v = r0) /\
  (forall maskbias w b bn cin mout x co, nth co mout false = false ->
     pit_linear_at r0 r1 radd rmul maskbias false w b bn cin mout x co = r0) /\
  (forall dw (w : w3 R) b bn cin K d s mout tm x co t, length mout = length w -> bias_ok R b (length mout) -> nth co mout false = false ->
     pit_conv1d_at r0 r1 radd rmul true true dw w b bn cin K d s mout tm x co t = r0).
Proof. exact L_dead_out_zero. Qed.

(* the pinned upstream commit (bias not masked under fold_bn): a pruned channel outputs its bias *)
Theorem C01_fold_bias_refuted : exists (w : w3 Z) b mout tm (x : nat -> Z -> Z) co t,
  length mout = length w /\ nth co mout false = false /\
  pit_conv1d_at 0%Z 1%Z Z.add Z.mul false true false w b None 1 1 1%Z 1%Z mout tm x co t <> 0%Z.
Proof. exact fold_bias_refuted. Qed.

(* re-created BatchNorm with the sliced coefficients == the fused BatchNorm on the kept channel (any coefficients) *)
Theorem C01_bn_slice_commutes : forall R (r0 : R) radd rmul (bn : option (list R * list R)) (mout : list bool) co' y,
  bn_ok R bn (length mout) -> co' < count_true mout ->
  bn_at r0 radd rmul (slice_bn mout bn) co' y = bn_at r0 radd rmul bn (nth co' (kept mout) 0) y.
Proof. exact L_bn_slice_commutes. Qed.

Theorem C01_zero_preserving_act : forall l, Forall (fun x => x = 0%Z) l ->
  Forall (fun x => x = 0%Z) (map relu l) /\ Forall (fun x => x = 0%Z) (map relu6 l).
Proof. exact zero_preserving_act. Qed.
Theorem C01_zero_preserving_pool1d : forall k l, Forall (fun x => x = 0%Z) l ->
  Forall (fun x => x = 0%Z) (maxpool1d k l) /\ Forall (fun x => x = 0%Z) (sumpool1d k l).
Proof. exact zero_preserving_pool1d. Qed.
Theorem C01_channelwise_commutes_with_slicing : forall A B (f : A -> B) m l, select m (map f l) = map f (select m l).
Proof. exact @channelwise_commutes_with_slicing. Qed.

(* network level, by induction over the node list (any depth / width / fan-out), nodes: input, full searchable layer
   (conv/linear with its causal pad and fused BN), depthwise layer sharing its producer's mask, channel-wise
   zero-preserving op, flatten (each channel -> mult features), residual add of tensors with equal alive masks, channel concat.
   Invariant at EVERY node: dead channels of the masked network are zero and the exported tensor is the masked one
   sliced by the alive mask.  Channel values live in any setoid (S, eqS) with a compatible addition with neutral zeroS.
   PARTIAL w.r.t. the code: layers enter through their abstract per-channel operators T (the layer theorems above show that the
   concrete PIT layers have this form and that the exported time-pruned kernels compute the same T); wf demands that masks of
   shared groups coincide (what build_shared_features_map guarantees) and input masks are the producers' alive masks (C09). *)
Theorem C01_export_sound : forall (S : Type) (eqS : S -> S -> Prop) (zeroS : S) (addS : S -> S -> S),
  RelationClasses.Equivalence eqS -> (forall a a' b b', eqS a a' -> eqS b b' -> eqS (addS a b) (addS a' b')) -> (forall s, eqS (addS zeroS s) s) ->
  forall (n : nat) (net : list (node S)) (x : list S), wf S eqS zeroS n net -> length x = n ->
  let al := alive_net S net in let P := eval_pit S zeroS addS net x in let E := eval_exp S zeroS addS net x in
  length al = length net /\ length P = length net /\ length E = length net /\
  (forall i, i < length net -> Inv S eqS zeroS (nth i al []) (nth i P []) (nth i E [])).
Proof. exact export_sound. Qed.

(* at a node all of whose channels are alive (output layers are frozen) the two networks give the same tensor *)
Theorem C01_export_sound_output : forall (S : Type) (eqS : S -> S -> Prop) (zeroS : S) (addS : S -> S -> S),
  RelationClasses.Equivalence eqS -> (forall a a' b b', eqS a a' -> eqS b b' -> eqS (addS a b) (addS a' b')) -> (forall s, eqS (addS zeroS s) s) ->
  forall (n : nat) (net : list (node S)) (x : list S), wf S eqS zeroS n net -> length x = n ->
  forall i, i < length net -> Forall (fun b => b = true) (nth i (alive_net S net) []) ->
  Forall2 eqS (nth i (eval_exp S zeroS addS net x) []) (nth i (eval_pit S zeroS addS net x) []).
Proof. exact export_sound_output. Qed.

(* ---- fold_bn = true for Conv2d / Linear (repaired code) *)
Theorem C01_conv2d_export_eq_fold : forall R r0 r1 radd rmul, @laws R r0 r1 radd rmul ->
  forall maskbias (w : w4 R) b bn cout cin kh kw d s ph pw mout min (x : nat -> Z -> Z -> R) co' h v,
  shape4 R w cout cin -> bias_ok R b cout -> length mout = cout -> length min = cin ->
  (forall ci, ci < cin -> nth ci min false = false -> forall a c, x ci a c = r0) ->
  co' < count_true mout ->
  pit_conv2d_at r0 r1 radd rmul maskbias true false w b bn cin kh kw d s ph pw mout x (nth co' (kept mout) 0) h v
  = conv2d_at r0 radd rmul false (export_w4 false mout min w) (export_bias mout b) (count_true min) kh kw d s ph pw
      (fun i => x (nth i (kept min) 0)) co' h v.
Proof. exact L_conv2d_export_eq_fold. Qed.

Theorem C01_conv2d_dw_export_eq_fold : forall R r0 r1 radd rmul, @laws R r0 r1 radd rmul ->
  forall maskbias (w : w4 R) b bn c kh kw d s ph pw mout min (x : nat -> Z -> Z -> R) co' h v,
  shape4 R w c 1 -> bias_ok R b c -> length mout = c -> co' < count_true mout ->
  pit_conv2d_at r0 r1 radd rmul maskbias true true w b bn c kh kw d s ph pw mout x (nth co' (kept mout) 0) h v
  = conv2d_at r0 radd rmul true (export_w4 true mout min w) (export_bias mout b) (count_true min) kh kw d s ph pw
      (fun i => x (nth i (kept mout) 0)) co' h v.
Proof. exact L_conv2d_export_eq_fold_dw. Qed.

Theorem C01_linear_export_eq_fold : forall R r0 r1 radd rmul, @laws R r0 r1 radd rmul ->
  forall maskbias (w : list (list R)) b bn cout cin mout min (x : nat -> R) co',
  shape2 R w cout cin -> bias_ok R b cout -> length mout = cout -> length min = cin ->
  (forall ci, ci < cin -> nth ci min false = false -> x ci = r0) ->
  co' < count_true mout ->
  pit_linear_at r0 r1 radd rmul maskbias true w b bn cin mout x (nth co' (kept mout) 0)
  = linear_at r0 radd rmul (export_w2 mout min w) (export_bias mout b) (count_true min) (fun i => x (nth i (kept min) 0)) co'.
Proof. exact L_linear_export_eq_fold. Qed.

(* under fold_bn the repaired forward (bias masked) gives exactly zero on masked-out channels, all three layers *)
Theorem C01_dead_out_zero_fold : forall R r0 r1 radd rmul, @laws R r0 r1 radd rmul ->
  (forall dw (w : w3 R) b bn cin K d s mout tm x co t, length mout = length w -> bias_ok R b (length mout) -> nth co mout false = false ->
     pit_conv1d_at r0 r1 radd rmul true true dw w b bn cin K d s mout tm x co t = r0) /\
  (forall dw (w : w4 R) b bn cin kh kw d s ph pw mout x co h v, length mout = length w -> bias_ok R b (length mout) -> nth co mout false = false ->
     pit_conv2d_at r0 r1 radd rmul true true dw w b bn cin kh kw d s ph pw mout x co h v = r0) /\
  (forall (w : list (list R)) b bn cin mout x co, length mout = length w -> bias_ok R b (length mout) -> nth co mout false = false ->
     pit_linear_at r0 r1 radd rmul true true w b bn cin mout x co = r0).
Proof. exact L_dead_out_zero_fold. Qed.

Theorem C01_zero_preserving_pool2d : forall k x, Forall zeros x -> Forall zeros (maxpool2d k x) /\ Forall zeros (sumpool2d k x).
Proof. exact zero_preserving_maxsum_pool2d. Qed.

(* ---- networks of CONCRETE layers.  A node is the network input, a searchable layer of Model/Conv.v (L1 = PITConv1d with
   its causal pad, time mask tm and exported (K', sp); L2 = PITConv2d; L0 = PITLinear; each full or depthwise, fold_bn off or
   on, with its binarized output mask m), a zero-preserving channel-wise op, flatten, residual add, channel concat.
   ceval_pit evaluates every layer with the eval-mode forward of the code (clayer_pit = pit_conv1d_at / pit_conv2d_at /
   pit_linear_at, repaired fold_bn), ceval_exp with the exported plain layer (clayer_exp = conv1d_at / conv2d_at / linear_at on
   export_w3/w4/w2, export_bias, slice_bn, K', sp*d, pad (K'-1)*sp*d) fed with the exported tensors and the producers' alive
   masks.  cwf = shapes of the parameter tensors, kept_lags K tm = export_lags K' sp (Masks.kept_taps_progression: every
   real beta/gamma; frozen maskers: K' = K, sp = 1), depthwise layers and add operands share their masks, indices point backwards. *)
Theorem C01_export_sound_concrete : forall R r0 r1 radd rmul, @laws R r0 r1 radd rmul ->
  forall n (net : list (cnode R)) (x : list (SR R)), cwf R r0 n net -> length x = n ->
  let al := calive_net R net in let P := ceval_pit R r0 r1 radd rmul net x in let E := ceval_exp R r0 radd rmul net x in
  length al = length net /\ length P = length net /\ length E = length net /\
  (forall i, i < length net -> Inv (SR R) (eqR R) (zeroR R r0) (nth i al []) (nth i P []) (nth i E [])).
Proof. exact export_sound_concrete. Qed.

Theorem C01_export_sound_concrete_output : forall R r0 r1 radd rmul, @laws R r0 r1 radd rmul ->
  forall n (net : list (cnode R)) (x : list (SR R)), cwf R r0 n net -> length x = n ->
  forall i, i < length net -> Forall (fun b => b = true) (nth i (calive_net R net) []) ->
  Forall2 (eqR R) (nth i (ceval_exp R r0 radd rmul net x) []) (nth i (ceval_pit R r0 r1 radd rmul net x) []).
Proof. exact export_sound_concrete_output. Qed.

Example C01_concrete_net_wf :
  let w : w3 Z := [[[1; 2]]; [[3; 4]]]%Z in
  cwf Z 0%Z 1 [CInput Z 1; CLayer Z 0 (L1 Z false false w None None 1 2 1 1 [false; true] 1 1) [true; false];
               CChan Z 1 (fun s => s); CLayer Z 2 (L0 Z true [[5; 6]]%Z (Some [7]%Z) None 2) [true]].
Proof.
  cbn. unfold cshape3, cshape2, cbias_ok, cbn_ok, respectsR, eqR. cbn.
  repeat split; try reflexivity; try discriminate; try lia; auto.
  - intros co H. destruct co as [|[|co]]; [reflexivity|reflexivity|lia].
  - intros co ci H H'. destruct co as [|[|co]]; destruct ci as [|ci]; try lia; reflexivity.
  - intros co H. destruct co as [|co]; [reflexivity|lia].
  - intros bl E. inversion E. reflexivity.
Qed.



(* ---- the executable evaluator used by the correspondence run IS the concrete network of the theorems above.
   run_net (Model/Conv.v, lists of integers) computes for every node the alive mask of xtr_net net x and, on every valid index,
   the tensors of ceval_pit and ceval_exp of that concrete network (Inv3 = masks equal, `agreeT` on both tensors), and
   xtr_net net x is well-formed (cwf), so C01_export_sound_concrete applies to it.
   Total over the xnode language: xwf only asks for shape consistency (rectangular input, kinds and sizes of operands agree,
   parameter tensors have the declared shapes, kept_lags = export_lags, window >= 1, stride >= 1) for every node kind:
   1-D / 2-D input, Conv1d (with its causal pad) and Conv2d (zero padding int / 'same', stride, dilation), each full or depthwise,
   fold_bn on/off, Linear, ReLU/ReLU6, identity/dropout, max pooling 1-D/2-D, stand-alone pad, flatten 1-D/2-D, add, channel concat. *)
Theorem C01_run_net_sound : forall net x, xwf net x ->
  let st := run_net net x in let cn := xtr_net net x in
  cwf Z 0%Z (tchan x) cn /\ length st = length net /\ length cn = length net /\
  forall i, i < length net ->
    Inv3 (nth i st xdef) (nth i (calive_net Z cn) []) (nth i (ceval_pit Z 0%Z 1%Z Z.add Z.mul cn (emb x)) [])
         (nth i (ceval_exp Z 0%Z Z.add Z.mul cn (emb x)) []).
Proof. exact run_net_sound. Qed.
(* former name (when only the 1-D fragment was proved) *)
Corollary C01_run_net_sound_partial : forall net x, xwf net x ->
  let st := run_net net x in let cn := xtr_net net x in
  cwf Z 0%Z (tchan x) cn /\ length st = length net /\ length cn = length net /\
  forall i, i < length net ->
    Inv3 (nth i st xdef) (nth i (calive_net Z cn) []) (nth i (ceval_pit Z 0%Z 1%Z Z.add Z.mul cn (emb x)) [])
         (nth i (ceval_exp Z 0%Z Z.add Z.mul cn (emb x)) []).
Proof. exact C01_run_net_sound. Qed.

Example C01_run_net_wf :
  xwf [XIn; XConv1 0 false false [[[1; 2]]; [[3; 4]]]%Z None 1 2 1 1 [true; false] [false; true] 1 1; XAct 1 false; XFlatten 2;
       XLin 3 true [[5; 6; 7; 8; 9; 1]]%Z (Some [7]%Z) 6 [true]] (TS1 [[1; 2; 3]]%Z).
Proof.
  unfold xwf. cbn. unfold cshape3, cshape2, cbias_ok, cbn_ok. cbn.
  split; [left; exists [[1; 2; 3]]%Z, 3; split; [reflexivity|repeat constructor]|].
  split; [|split; [lia|split; [split; [lia|left; repeat split; reflexivity]|]]].
  all: repeat split; try reflexivity; try discriminate; try lia; eauto.
  all: intros; repeat match goal with H : _ < _ |- _ => revert H end;
       try (match goal with |- context [match ?c with _ => _ end] => destruct c as [|[|c]] end); intros; try reflexivity; try lia; try discriminate.
  - destruct ci; [reflexivity|lia].
  - destruct ci; [reflexivity|lia].
  - match goal with H : Some _ = Some _ |- _ => inversion H end. reflexivity.
Qed.

(* ---- the hypotheses are satisfiable by concrete non-trivial instances *)
Example C01_laws_instances : laws 0%Z 1%Z Z.add Z.mul /\ laws (Qcanon.Q2Qc 0) (Qcanon.Q2Qc 1) Qcanon.Qcplus Qcanon.Qcmult.
Proof. split; [exact laws_Z | exact laws_Qc]. Qed.

(* K = 6, beta keeps the last 3 taps, gamma gives comb spacing 2 -> kept taps {3, 5}: k' = 2, dilation 2*d0 = 6, pad 6;
   2 of 3 output channels alive, 1 of 2 input channels alive; masked layer == exported layer on a concrete input *)
Example C01_example :
  let beta := [0; 0; 0; 3; 0; -1]%Q in let gamma := [0; 1; 0]%Q in
  let w := [[[1;2;3;4;5;6];[1;1;1;1;1;1]]; [[7;8;9;1;2;3];[2;2;2;2;2;2]]; [[-1;0;2;0;-3;1];[3;3;3;3;3;3]]]%Z in
  let x := [[0;0;0;0;0;0;0;0]; [1;-2;3;0;2;-1;4;1]]%Z in
  let mout := [false; true; true] in let min := [false; true] in
  time_mask true 6 beta gamma = [false; false; false; true; false; true] /\
  run_hp false false true false 6 3 beta gamma mout min = (1, 2, 2, (6, 1, 6, Some 2), [false; false; false; true; false; true]) /\
  run_export_w3 false mout min (time_mask true 6 beta gamma) w = [[[2;2]]; [[3;3]]]%Z /\
  select mout (run_pit_conv1d true false false w (Some [1;2;3]%Z) (Some ([2;1;-1], [0;1;5])%Z) 2 6 3 1 mout (time_mask true 6 beta gamma) x)
  = run_exp_conv1d false w (Some [1;2;3]%Z) (Some ([2;1;-1], [0;1;5])%Z) 2 6 1 mout min (time_mask true 6 beta gamma) x.
Proof. vm_compute. repeat split. Qed.

(* ================================================================ second tie, by translation (DESIGN.md §13.T).
   Gen/ExportGen.v is GENERATED (translator/export2coq.py, rewritten on every run of the check) from the SOURCE of
   PITConv1d / PITConv2d / PITLinear .forward, .export, .in_features_opt and PITBatchNorm1d / 2d .export of the tree under test;
   the mask quantities those methods read are the functions of Gen/MasksGen.v (translator/masks2coq.py, C08).  Proofs/ExportGen.v.
   masks1 / masks2 / masks0 ms mout .. = "the generated mask functions of the layer object ms give the binarized feature mask
   mout (time mask tm, k' kept taps, dilation d')"; C01_generated_masks_* establish them for the layers graph.py builds. *)

(* ---- the generated forwards are the eval-mode forwards of the model (repaired fold_bn: bias masked) *)
Theorem C01_generated_conv1d_forward_is_model : forall R r0 r1 radd rmul, @laws R r0 r1 radd rmul ->
  forall (s : conv1d_self R) mout tm k' d', masks1 (c1s_masks s) mout tm k' d' -> forall x co t,
  c1_forward_gen R r0 r1 radd rmul s x co t =
  pit_conv1d_at r0 r1 radd rmul true (c1s_fold_bn s) (c1_is_dw s) (c1s_weight s) (c1s_bias s) (option_map fb_coef (c1s_bn s))
    (c1s_in_channels s) (c1s_kernel_size s) (Z.of_nat (c1s_dilation s)) (Z.of_nat (c1s_stride s)) mout tm x co t.
Proof. exact c1_forward_gen_eq. Qed.
Theorem C01_generated_conv2d_forward_is_model : forall R r0 r1 radd rmul, @laws R r0 r1 radd rmul ->
  forall (s : conv2d_self R) mout, masks2 (c2s_masks s) mout -> forall x co h v,
  c2_forward_gen R r0 r1 radd rmul s x co h v =
  pit_conv2d_at r0 r1 radd rmul true (c2s_fold_bn s) (c2_is_dw s) (c2s_weight s) (c2s_bias s) (option_map fb_coef (c2s_bn s))
    (c2s_in_channels s) (fst (c2s_kernel_size s)) (snd (c2s_kernel_size s)) (Z.of_nat (fst (c2s_dilation s))) (Z.of_nat (fst (c2s_stride s)))
    (Z.of_nat (fst (pad2_of (c2s_padding s) (fst (c2s_kernel_size s)) (snd (c2s_kernel_size s)) (fst (c2s_dilation s)))))
    (Z.of_nat (snd (pad2_of (c2s_padding s) (fst (c2s_kernel_size s)) (snd (c2s_kernel_size s)) (fst (c2s_dilation s))))) mout x co h v.
Proof. exact c2_forward_gen_eq. Qed.
Theorem C01_generated_linear_forward_is_model : forall R r0 r1 radd rmul, @laws R r0 r1 radd rmul ->
  forall (s : linear_self R) mout, masks0 (ls_masks s) mout -> forall x co,
  lin_forward_gen R r0 r1 radd rmul s x co =
  pit_linear_at r0 r1 radd rmul true (ls_fold_bn s) (ls_weight s) (ls_bias s) (option_map fb_coef (ls_bn s)) (ls_in_features s) mout x co.
Proof. exact lin_forward_gen_eq. Qed.

(* ---- the generated exports write what the model says, whatever the initial parameters of the new modules:
   weight = export_w3 / w4 / w2 (output mask, producer-derived input mask unless depthwise, time mask), bias = export_bias,
   constructor arguments of the new layer, the new ConstantPad1d amount (k'-1)*d' (layers without implicit padding), the
   BatchNorm of the sliced width with the constructor arguments of the fused one iff there is one and it is not folded *)
Theorem C01_generated_conv1d_export_is_model : forall R (s : conv1d_self R) mout min tm k' d' iw ib,
  masks1 (c1s_masks s) mout tm k' d' -> c1s_in_mask s = bfloat min -> 1 <= k' ->
  let e := c1_export_gen R s iw ib in
  x1_weight e = export_w3 (c1_is_dw s) mout min tm (c1s_weight s) /\
  x1_bias e = export_bias mout (c1s_bias s) /\
  x1_layer e = {| nc_in := Z.of_nat (count_true min); nc_out := Z.of_nat (count_true mout); nc_kernel := Z.of_nat k'; nc_stride := c1s_stride s; nc_padding := c1s_padding s;
                  nc_dilation := Z.of_nat d'; nc_groups := if c1_is_dw s then Z.of_nat (count_true min) else Z.of_nat (c1s_groups s);
                  nc_has_bias := negb (is_none (c1s_bias s)); nc_padding_mode := c1s_padding_mode s |} /\
  x1_pad e = (if pad_zero (c1s_padding s) then Some (Z.of_nat ((k' - 1) * d')) else None) /\
  x1_bn e = new_bn_of (c1s_bn s) (c1s_fold_bn s) (count_true mout).
Proof. exact c1_export_gen_eq. Qed.
Theorem C01_generated_conv2d_export_is_model : forall R (s : conv2d_self R) mout min iw ib,
  masks2 (c2s_masks s) mout -> c2s_in_mask s = bfloat min ->
  let e := c2_export_gen R s iw ib in
  x2_weight e = export_w4 (c2_is_dw s) mout min (c2s_weight s) /\
  x2_bias e = export_bias mout (c2s_bias s) /\
  x2_layer e = {| n2_in := Z.of_nat (count_true min); n2_out := Z.of_nat (count_true mout); n2_kernel := c2s_kernel_size s; n2_stride := c2s_stride s; n2_padding := c2s_padding s;
                  n2_dilation := c2s_dilation s; n2_groups := if c2_is_dw s then Z.of_nat (count_true min) else Z.of_nat (c2s_groups s);
                  n2_has_bias := negb (is_none (c2s_bias s)); n2_padding_mode := c2s_padding_mode s |} /\
  x2_bn e = new_bn_of (c2s_bn s) (c2s_fold_bn s) (count_true mout).
Proof. exact c2_export_gen_eq. Qed.
Theorem C01_generated_linear_export_is_model : forall R (s : linear_self R) mout min iw ib,
  masks0 (ls_masks s) mout -> ls_in_mask s = bfloat min ->
  let e := lin_export_gen R s iw ib in
  xl_weight e = export_w2 mout min (ls_weight s) /\
  xl_bias e = export_bias mout (ls_bias s) /\
  xl_layer e = {| nl_in := Z.of_nat (count_true min); nl_out := Z.of_nat (count_true mout); nl_has_bias := negb (is_none (ls_bias s)) |} /\
  xl_bn e = new_bn_of (ls_bn s) (ls_fold_bn s) (count_true mout).
Proof. exact lin_export_gen_eq. Qed.
(* PITBatchNorm1d / 2d: width = number of alive input features, eps / momentum / affine / track_running_stats copied,
   weight, bias (iff affine), running_mean, running_var (iff present) sliced by the mask of the features that reach the layer *)
Theorem C01_generated_batchnorm_export_is_model : forall R (s : bn_self R) min iw ib im iv, bs_in_mask s = bfloat min ->
  bn1_export_gen R s iw ib im iv = bn_export_model R s min iw ib /\ bn2_export_gen R s iw ib im iv = bn_export_model R s min iw ib.
Proof. intros. split; [apply bn1_export_gen_eq|apply bn2_export_gen_eq]; assumption. Qed.

(* ---- the mask premises hold for the layers as graph.py / autoimport build them: features masker with theta th that binarizes to
   mout (trainable on any alpha of the right length, frozen, or an observed 0/1 vector), time-axis maskers on K taps trainable on
   EVERY real beta / gamma, or frozen (strided layers: all taps kept, kernel and dilation unchanged) *)
Theorem C01_generated_masks_conv1d : forall K d0 th mout beta gamma, 1 <= K -> length beta = K -> length gamma = gamma_len K -> theta_is th mout ->
  masks1 (masks_obj false K d0 th beta gamma) mout (time_mask true K beta gamma) (kernel_size_opt true K beta gamma) (dilation_opt true K d0 gamma) /\
  masks1 (masks_obj true K d0 th beta gamma) mout (all_true K) K d0.
Proof. intros. split; [apply masks1_trainable|apply masks1_frozen]; assumption. Qed.
Theorem C01_generated_masks_features : forall th mout, theta_is th mout ->
  masks2 (feat_masks c2_default_binarization_threshold th) mout /\ masks0 (feat_masks lin_default_binarization_threshold th) mout.
Proof. intros. split; [apply masks2_of|apply masks0_of]; assumption. Qed.
Theorem C01_generated_theta : (forall C alpha, 1 <= C -> length alpha = C -> theta_is (fm_theta_gen C fm_default_keep_alive_channels alpha) (features_mask alpha)) /\
  (forall C, theta_is (ffm_theta_gen C fm_default_keep_alive_channels) (all_true C)) /\ (forall mout, theta_is (bfloat mout) mout).
Proof. split; [exact theta_is_alpha|split; [exact theta_is_frozen|exact theta_is_observed]]. Qed.

(* ---- every operation the generated functions perform is defined on well-shaped layers: masks as long as the axes they index /
   multiply and 0/1-valued where they multiply a tensor, sliced parameters of the shape the new module's constructor gives its
   parameters (copy_), groups dividing the channel counts, geometry within what conv1d_at / conv2d_at model *)
Theorem C01_generated_export_defined : forall R,
  (forall (s : conv1d_self R) mout min tm k' d' iw ib, masks1 (c1s_masks s) mout tm k' d' -> c1s_in_mask s = bfloat min ->
     all3 (c1s_weight s) (length mout) (if c1_is_dw s then 1 else length min) (length tm) -> (forall bl, c1s_bias s = Some bl -> length bl = length mout) ->
     (c1_is_dw s = true -> count_true min = count_true mout /\ 1 <= count_true mout) -> (c1_is_dw s = false -> c1s_groups s = 1) ->
     c1_export_ok R s iw ib = true) /\
  (forall (s : conv2d_self R) mout min iw ib, masks2 (c2s_masks s) mout -> c2s_in_mask s = bfloat min ->
     all4 (c2s_weight s) (length mout) (if c2_is_dw s then 1 else length min) (fst (c2s_kernel_size s)) (snd (c2s_kernel_size s)) ->
     (forall bl, c2s_bias s = Some bl -> length bl = length mout) ->
     (c2_is_dw s = true -> count_true min = count_true mout /\ 1 <= count_true mout) -> (c2_is_dw s = false -> c2s_groups s = 1) ->
     c2_export_ok R s iw ib = true) /\
  (forall (s : linear_self R) mout min iw ib, masks0 (ls_masks s) mout -> ls_in_mask s = bfloat min ->
     all2 (ls_weight s) (length mout) (length min) -> (forall bl, ls_bias s = Some bl -> length bl = length mout) -> lin_export_ok R s iw ib = true) /\
  (forall (s : bn_self R) min iw ib im iv, bs_in_mask s = bfloat min ->
     (bs_affine s = true -> length (bs_weight s) = length min /\ length (bs_bias s) = length min) ->
     (forall l, bs_mean s = Some l -> length l = length min /\ bs_track s = true) -> (forall l, bs_var s = Some l -> length l = length min /\ bs_track s = true) ->
     bn1_export_ok R s iw ib im iv = true /\ bn2_export_ok R s iw ib im iv = true).
Proof. intro R. split; [exact (c1_export_ok_true R)|split; [exact (c2_export_ok_true R)|split; [exact (lin_export_ok_true R)|exact (bn_export_ok_true R)]]]. Qed.
Theorem C01_generated_forward_defined : forall R (r0 r1 : R) radd rmul,
  (forall (s : conv1d_self R) mout tm k' d' x, masks1 (c1s_masks s) mout tm k' d' -> c1_geom_ok s = true ->
     (exists wcin, all3 (c1s_weight s) (length mout) wcin (length tm)) -> (forall bl, c1s_bias s = Some bl -> length bl = length mout) ->
     c1_forward_ok R r0 r1 radd rmul s x = true) /\
  (forall (s : conv2d_self R) mout x, masks2 (c2s_masks s) mout -> c2_geom_ok s = true -> length (c2s_weight s) = length mout ->
     (forall bl, c2s_bias s = Some bl -> length bl = length mout) -> c2_forward_ok R r0 r1 radd rmul s x = true) /\
  (forall (s : linear_self R) mout x, masks0 (ls_masks s) mout -> length (ls_weight s) = length mout ->
     (forall bl, ls_bias s = Some bl -> length bl = length mout) -> lin_forward_ok R r0 r1 radd rmul s x = true).
Proof. intros. split; [exact (c1_forward_ok_true R r0 r1 radd rmul)|split; [exact (c2_forward_ok_true R r0 r1 radd rmul)|exact (lin_forward_ok_true R r0 r1 radd rmul)]]. Qed.

(* ---- the layer-level sentence of C01 about the code as it is now.  PITConv1d built on K >= 1 taps with initial dilation d0, any
   stride, full or depthwise, fold_bn off or on, time-axis maskers trainable (every real beta / gamma) or frozen: on every alive
   output channel, at every time step, the GENERATED forward on the input behind its causal pad (K-1)*d0 equals exp1_at = the plain
   Conv1d that the GENERATED export describes (its sliced weight and bias, in/out channels, kernel size, dilation, stride, behind the
   ConstantPad1d of the amount export installs, followed by the BatchNorm export re-creates, given the sliced statistics) on the
   alive input channels, provided the input vanishes on dead input channels. *)
Theorem C01_generated_conv1d_export_eq : forall R r0 r1 radd rmul, @laws R r0 r1 radd rmul ->
  forall (frozen_t fold dw : bool) (w : w3 R) b (bn : option (fbn R)) (cin cout K d0 st : nat) th beta gamma (min mout : list bool) (x : nat -> Z -> R) co' t iw ib,
  1 <= K -> length beta = K -> length gamma = gamma_len K -> theta_is th mout ->
  shape3 R w cout (if dw then 1 else cin) K -> bias_ok R b cout -> bn_ok R (option_map fb_coef bn) cout -> length mout = cout -> length min = cin ->
  (dw = true -> cin = cout) -> (dw = false -> ~ (cin = 1 /\ cout = 1)) ->
  (forall ci, ci < cin -> nth ci min false = false -> forall u, x ci u = r0) -> co' < count_true mout ->
  let s := conv1d_layer dw fold w b bn cin cout K d0 st (masks_obj frozen_t K d0 th beta gamma) (bfloat min) in
  c1_forward_gen R r0 r1 radd rmul s (fun ci => padl ((K - 1) * d0) (x ci)) (nth co' (kept mout) 0) t
  = exp1_at R r0 radd rmul dw (c1_export_gen R s iw ib) (option_map fb_coef bn) mout (fun i => x (nth i (kept (if dw then mout else min)) 0)) co' t.
Proof. exact gen_conv1d_export_eq. Qed.
Theorem C01_generated_conv2d_export_eq : forall R r0 r1 radd rmul, @laws R r0 r1 radd rmul ->
  forall (fold dw : bool) (w : w4 R) b (bn : option (fbn R)) (cin cout : nat) ks st dil pad th (min mout : list bool) (x : nat -> Z -> Z -> R) co' h v iw ib,
  theta_is th mout -> shape4 R w cout (if dw then 1 else cin) -> bias_ok R b cout -> bn_ok R (option_map fb_coef bn) cout -> length mout = cout -> length min = cin ->
  (dw = true -> cin = cout) -> (dw = false -> ~ (cin = 1 /\ cout = 1)) ->
  (forall ci, ci < cin -> nth ci min false = false -> forall a c, x ci a c = r0) -> co' < count_true mout ->
  let s := conv2d_layer dw fold w b bn cin cout ks st dil pad (feat_masks c2_default_binarization_threshold th) (bfloat min) in
  c2_forward_gen R r0 r1 radd rmul s x (nth co' (kept mout) 0) h v
  = exp2_at R r0 radd rmul dw (c2_export_gen R s iw ib) (option_map fb_coef bn) mout (fun i => x (nth i (kept (if dw then mout else min)) 0)) co' h v.
Proof. exact gen_conv2d_export_eq. Qed.
Theorem C01_generated_linear_export_eq : forall R r0 r1 radd rmul, @laws R r0 r1 radd rmul ->
  forall (fold : bool) (w : list (list R)) b (bn : option (fbn R)) (cin cout : nat) th (min mout : list bool) (x : nat -> R) co' iw ib,
  theta_is th mout -> shape2 R w cout cin -> bias_ok R b cout -> bn_ok R (option_map fb_coef bn) cout -> length mout = cout -> length min = cin ->
  (forall ci, ci < cin -> nth ci min false = false -> x ci = r0) -> co' < count_true mout ->
  let s := linear_layer fold w b bn cin cout (feat_masks lin_default_binarization_threshold th) (bfloat min) in
  lin_forward_gen R r0 r1 radd rmul s x (nth co' (kept mout) 0)
  = exp0_at R r0 radd rmul (lin_export_gen R s iw ib) (option_map fb_coef bn) mout (fun i => x (nth i (kept min) 0)) co'.
Proof. exact gen_linear_export_eq. Qed.

(* masked-out channels of the generated forwards are exactly zero (fold_bn off: after the fused BatchNorm; on: bias masked) *)
Theorem C01_generated_dead_out_zero : forall R r0 r1 radd rmul, @laws R r0 r1 radd rmul ->
  (forall (s : conv1d_self R) mout tm k' d' x co t, masks1 (c1s_masks s) mout tm k' d' -> length mout = length (c1s_weight s) ->
     bias_ok R (c1s_bias s) (length mout) -> nth co mout false = false -> c1_forward_gen R r0 r1 radd rmul s x co t = r0) /\
  (forall (s : conv2d_self R) mout x co h v, masks2 (c2s_masks s) mout -> length mout = length (c2s_weight s) ->
     bias_ok R (c2s_bias s) (length mout) -> nth co mout false = false -> c2_forward_gen R r0 r1 radd rmul s x co h v = r0) /\
  (forall (s : linear_self R) mout x co, masks0 (ls_masks s) mout -> length mout = length (ls_weight s) ->
     bias_ok R (ls_bias s) (length mout) -> nth co mout false = false -> lin_forward_gen R r0 r1 radd rmul s x co = r0).
Proof.
  intros R r0 r1 radd rmul L. split; [exact (gen_dead_out_zero1 R r0 r1 radd rmul L)|split; [exact (gen_dead_out_zero2 R r0 r1 radd rmul L)|exact (gen_dead_out_zero0 R r0 r1 radd rmul L)]].
Qed.

(* ---- the helpers the correspondence run evaluates next to run_export_w3 / run_hp / run_pit_conv1d compute the same values *)
Theorem C01_generated_run_export_is_model :
  (forall dw frozen has_bn fold K d0 beta gamma mout min w b, 1 <= K -> length beta = K -> length gamma = gamma_len K ->
     (dw = true -> length min = length mout) -> (dw = false -> ~ (length min = 1 /\ length mout = 1)) ->
     run_export1_gen dw frozen has_bn fold K d0 beta gamma mout min w b
     = (run_export_w3 dw mout min (time_mask_of frozen K beta gamma) w, @export_bias Z mout b, run_hp dw frozen has_bn fold K d0 beta gamma mout min)) /\
  (forall dw has_bn fold mout min w b, (dw = true -> length min = length mout) -> (dw = false -> ~ (length min = 1 /\ length mout = 1)) ->
     run_export2_gen dw has_bn fold mout min w b
     = (run_export_w4 dw mout min w, @export_bias Z mout b,
        (count_true min, count_true mout, if dw then count_true min else 1, if has_bn && negb fold then Some (count_true mout) else None))) /\
  (forall has_bn fold mout min w b,
     run_export0_gen has_bn fold mout min w b
     = (run_export_w2 mout min w, @export_bias Z mout b, (count_true min, count_true mout, if has_bn && negb fold then Some (count_true mout) else None))).
Proof. split; [exact run_export1_gen_eq|split; [exact run_export2_gen_eq|exact run_export0_gen_eq]]. Qed.
Theorem C01_generated_run_forward_is_model : forall fold dw w b bn cin K d st frozen alpha beta gamma x,
  1 <= K -> length beta = K -> length gamma = gamma_len K -> alpha <> [] -> (dw = true -> cin = length w) -> (dw = false -> ~ (cin = 1 /\ length w = 1)) ->
  run_pit_conv1d_gen fold dw w b bn cin K d st frozen alpha beta gamma x
  = run_pit_conv1d true fold dw w b bn cin K d st (features_mask alpha) (time_mask_of frozen K beta gamma) x.
Proof. exact run_pit_conv1d_gen_eq. Qed.

(* the worked example of C01_example through the generated functions: K = 6, kept taps {3, 5}: k' = 2, dilation 6, pad 6 *)
Example C01_generated_example :
  let beta := [0; 0; 0; 3; 0; -1]%Q in let gamma := [0; 1; 0]%Q in
  let w := [[[1;2;3;4;5;6];[1;1;1;1;1;1]]; [[7;8;9;1;2;3];[2;2;2;2;2;2]]; [[-1;0;2;0;-3;1];[3;3;3;3;3;3]]]%Z in
  let x := [[0;0;0;0;0;0;0;0]; [1;-2;3;0;2;-1;4;1]]%Z in
  run_export1_gen false false true false 6 3 beta gamma [false; true; true] [false; true] w (Some [1;2;3]%Z)
  = ([[[2;2]]; [[3;3]]]%Z, Some [2;3]%Z, (1, 2, 2, (6, 1, 6, Some 2), [false; false; false; true; false; true])) /\
  run_export1_gen_ok false false true false 6 3 beta gamma [false; true; true] [false; true] w (Some [1;2;3]%Z) = true /\
  run_pit_conv1d_gen false false w (Some [1;2;3]%Z) (Some ([2;1;-1], [0;1;5])%Z) 2 6 3 1 false [0;1;1]%Q beta gamma x
  = run_pit_conv1d true false false w (Some [1;2;3]%Z) (Some ([2;1;-1], [0;1;5])%Z) 2 6 3 1 [false; true; true] (time_mask true 6 beta gamma) x.
Proof. vm_compute. repeat split. Qed.


Print Assumptions C01_masked_sum_filter.
Print Assumptions C01_taps_export_eq.
Print Assumptions C01_conv1d_export_eq.
Print Assumptions C01_dw_export_eq.
Print Assumptions C01_conv1d_export_eq_frozen.
Print Assumptions C01_conv2d_export_eq.
Print Assumptions C01_conv2d_dw_export_eq.
Print Assumptions C01_linear_export_eq.
Print Assumptions C01_dead_out_zero.
Print Assumptions C01_fold_bias_refuted.
Print Assumptions C01_bn_slice_commutes.
Print Assumptions C01_zero_preserving_act.
Print Assumptions C01_zero_preserving_pool1d.
Print Assumptions C01_channelwise_commutes_with_slicing.
Print Assumptions C01_export_sound.
Print Assumptions C01_export_sound_output.
Print Assumptions C01_conv2d_export_eq_fold.
Print Assumptions C01_conv2d_dw_export_eq_fold.
Print Assumptions C01_linear_export_eq_fold.
Print Assumptions C01_dead_out_zero_fold.
Print Assumptions C01_zero_preserving_pool2d.
Print Assumptions C01_export_sound_concrete.
Print Assumptions C01_export_sound_concrete_output.
Print Assumptions C01_run_net_sound.
Print Assumptions C01_run_net_sound_partial.
Print Assumptions C01_generated_conv1d_forward_is_model.
Print Assumptions C01_generated_conv2d_forward_is_model.
Print Assumptions C01_generated_linear_forward_is_model.
Print Assumptions C01_generated_conv1d_export_is_model.
Print Assumptions C01_generated_conv2d_export_is_model.
Print Assumptions C01_generated_linear_export_is_model.
Print Assumptions C01_generated_batchnorm_export_is_model.
Print Assumptions C01_generated_masks_conv1d.
Print Assumptions C01_generated_masks_features.
Print Assumptions C01_generated_theta.
Print Assumptions C01_generated_export_defined.
Print Assumptions C01_generated_forward_defined.
Print Assumptions C01_generated_conv1d_export_eq.
Print Assumptions C01_generated_conv2d_export_eq.
Print Assumptions C01_generated_linear_export_eq.
Print Assumptions C01_generated_dead_out_zero.
Print Assumptions C01_generated_run_export_is_model.
Print Assumptions C01_generated_run_forward_is_model.
Print Assumptions C01_generated_example.
