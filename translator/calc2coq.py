"""Translator: plinio/graph/features_calculation.py  ->  coq/Gen/CalcGen.v   (C09)

Reads, with `ast`, the four calculator classes of the tree under test and emits per class (short names const / modattr /
flatten / concat), statement by statement:
  <c>_init_<field> p          the tensor a field gets in __init__ (torch.tensor(p) -> BN p, torch.ones((p,)) -> BM (repeat true p))
  <c>_features_gen ...        the `features` property            (+ <c>_features_ok: every buffer read is defined)
  <c>_features_mask_gen ...   the `features_mask` property       (+ <c>_features_mask_ok)
  <c>_register_gen ...        the `register` method as a transformer of the state `gstate`
followed by a fixed footer (geval / gok / greg / gregister_all: a `calc` term of Model/Calc.v evaluated with these
functions).  Proofs/CalcGen.v proves that the generated registration SIMULATES the model's `reg true` (real buffer names
<-> one number per (consumer, family, prefix) key) and that geval = (sfeat, smask); Props/C09.v transports the theorems.
`register` is TRANSLATED, not pinned: the guard `if self.mod is None`, the two field assignments, every
register_buffer(name, field), the recursive calls and the prefix expressions are read from the source.

How things are read (trusted)
  * a 0-d integer tensor is a nat, a 1-d tensor of 0/1 floats is a list bool, `elm * t` (element of a mask times a mask)
    is `scale elm t`, torch.stack(l).sum() / sum(l) is list_sum, torch.cat(l, dim=0) is List.concat, a python list is a list;
    torch.cat / torch.stack of an EMPTY list raise where the model returns [] / 0 (zero-width tensors and concatenations
    of zero tensors are outside the quantifier of C09);
  * strings that name buffers are `(prefix tokens, base name)`: "prev_" + p is `0 :: p`, f"prev_{i}" + p is `S i :: p`,
    p + 'lit' is `(p, "lit")` (the concatenation of such tokens is injective);
  * object identity of a calculator = the id in the `calc` term (node that created it); per object fields `mod`, `prefix`
    live in gstate (fld_mod / fld_prefix), buffers in gstate keyed by (module, name); register_buffer replaces;
  * `getattr(self.mod, self.prefix + 'lit')` is a lookup that can fail (None -> the `_ok` predicate is false and the value
    is the default 0 / []); the kind (scalar / mask) of a buffer name comes from the field registered under it and the
    expression that field gets in __init__;
  * ModAttrFeaturesCalculator: `getattr(self.mod, self.<param>)` is a parameter of the generated function; which of the
    two str parameters names a scalar and which a mask is read from the literals at the call sites in
    methods/pit/graph.py and methods/mps/graph.py ('out_features_eff' scalar, 'features_mask' mask); that these
    attributes of a searchable layer evaluate to (number of alive bits, mask) is NOT established here (C08 / the check);
  * values are immutable: nothing in the subset updates a tensor or a list in place except `<fresh local list>.append(e)`;
    augmented assignments (`+=`), calls of methods ending in `_`, `out=`, subscript stores, `del`, aliasing of a local
    list, and every method call other than .append/.sum/.register are refused, so a value obtained from another
    calculator (possibly the registered buffer itself) can never be written through.
Structure checked (fail closed): the module defines exactly the base class and the four calculators, imports only
abc/typing/torch; the base class has no state and no concrete property; each calculator defines exactly __init__,
features, features_mask, register; fields are assigned only in __init__ (and mod/prefix inside the register guard);
every `.register(` call elsewhere in plinio/ is `calc.register(self)` in an input_features_calculator setter (prefix
""), every constructor call elsewhere is positional with the right arity.
"""
import ast
import glob
import os


class Reject(Exception):
    pass


SHORT = {'ConstFeaturesCalculator': 'const', 'ModAttrFeaturesCalculator': 'modattr',
         'FlattenFeaturesCalculator': 'flatten', 'ConcatFeaturesCalculator': 'concat'}
ATTR_KIND = {'out_features_eff': 'nat', 'features_mask': 'mask'}      # literals allowed at ModAttr call sites
COQTY = {'nat': 'nat', 'mask': 'list bool', 'cv': 'cv', 'elm': 'bool', 'toks': 'list nat'}


def _d(n):
    return ast.dump(n)[:200]


def _u(n):
    return ast.unparse(n)[:160]


def cty(t):
    if isinstance(t, tuple) and t[0] == 'list':
        return 'list ' + (cty(t[1]) if ' ' not in cty(t[1]) else '(%s)' % cty(t[1]))
    return COQTY[t]


def v_(name):
    return 'v_' + name


def _strip(stmts):
    return [s for s in stmts if not (isinstance(s, ast.Expr) and isinstance(s.value, ast.Constant) and isinstance(s.value.value, str))]


def _self_attr(n, name=None):
    return isinstance(n, ast.Attribute) and isinstance(n.value, ast.Name) and n.value.id == 'self' and (name is None or n.attr == name)


def conj(xs):
    out = []
    for x in xs:
        if x != 'true' and x not in out:
            out.append(x)
    if not out:
        return 'true'
    r = out[0]
    for x in out[1:]:
        r = '%s && %s' % (r, x)
    return r


# --------------------------------------------------------------------------------------------- in-place / aliasing gate
def purity_gate(fn, where):
    for x in ast.walk(fn):
        if x is fn:
            continue
        if isinstance(x, ast.AugAssign):
            raise Reject('%s: augmented assignment `%s` updates its target in place (the target may be a tensor obtained from another calculator, '
                         'i.e. a registered buffer): not in the subset' % (where, _u(x)))
        if isinstance(x, (ast.Delete, ast.Global, ast.Nonlocal, ast.With, ast.Try, ast.While, ast.Lambda, ast.Yield, ast.YieldFrom, ast.Await,
                          ast.NamedExpr, ast.Starred, ast.Raise, ast.Assert, ast.Import, ast.ImportFrom, ast.FunctionDef, ast.ClassDef)):
            raise Reject('%s: %s is not in the subset' % (where, type(x).__name__))
        if isinstance(x, ast.Call):
            if any(k.arg == 'out' for k in x.keywords):
                raise Reject('%s: `out=` writes into an existing tensor: %s' % (where, _u(x)))
            if isinstance(x.func, ast.Attribute):
                a = x.func.attr
                if a.endswith('_') and not a.startswith('__'):
                    raise Reject('%s: in-place tensor method .%s(): %s' % (where, a, _u(x)))
                if a in ('copy_', 'fill_', 'set_', 'extend', 'insert', 'pop', 'remove', 'clear', 'sort', 'reverse', 'update', 'setdefault', '__setattr__', '__iadd__'):
                    raise Reject('%s: mutating call .%s(): %s' % (where, a, _u(x)))
        if isinstance(x, (ast.Assign, ast.AnnAssign)):
            tg = x.targets if isinstance(x, ast.Assign) else [x.target]
            for t in tg:
                if isinstance(t, ast.Subscript):
                    raise Reject('%s: store through a subscript: %s' % (where, _u(x)))
                if isinstance(t, ast.Attribute) and not _self_attr(t):
                    raise Reject('%s: store into an attribute of another object: %s' % (where, _u(x)))


# --------------------------------------------------------------------------------------------- class description
class Cls:
    def __init__(self, node):
        self.node = node
        self.name = node.name
        self.short = SHORT[node.name]
        self.params = []          # [(name, kind)]  kind in int / calc / calcs / module / attr:nat / attr:mask
        self.fields = {}          # field -> ('opt_mod',) | ('prefix',) | ('param', pname) | ('tensor', 'BN'|'BM', pname)
        self.buffers = {}         # base name -> field   (from register)
        self.fns = {}

    @property
    def stateful(self):
        return 'mod' in self.fields and self.fields['mod'][0] == 'opt_mod'


def param_kind(cls, a, pos, attr_kinds):
    ann = ast.unparse(a.annotation) if a.annotation is not None else None
    if ann == 'int':
        return 'int'
    if ann == 'FeaturesCalculator':
        return 'calc'
    if ann in ('List[FeaturesCalculator]', 'list[FeaturesCalculator]', 'typing.List[FeaturesCalculator]'):
        return 'calcs'
    if ann in ('nn.Module', 'torch.nn.Module'):
        return 'module'
    if ann == 'str' and cls.name == 'ModAttrFeaturesCalculator':
        k = attr_kinds.get(pos)
        if k is None:
            raise Reject('%s.__init__: no call site types the str parameter %s' % (cls.name, a.arg))
        return 'attr:' + k
    raise Reject('%s.__init__: parameter %s: %s is not a type the translator knows' % (cls.name, a.arg, ann))


def read_init(cls, attr_kinds):
    fn = cls.fns['__init__']
    if fn.decorator_list or fn.args.vararg or fn.args.kwarg or fn.args.kwonlyargs or fn.args.defaults or fn.args.posonlyargs:
        raise Reject('%s.__init__: decorators / defaults / *args are not in the subset' % cls.name)
    args = fn.args.args
    if not args or args[0].arg != 'self':
        raise Reject('%s.__init__: first parameter is not self' % cls.name)
    for pos, a in enumerate(args[1:]):
        cls.params.append((a.arg, param_kind(cls, a, pos, attr_kinds)))
    pk = dict(cls.params)
    for s in _strip(fn.body):
        if isinstance(s, ast.Expr) and isinstance(s.value, ast.Call) and _u(s.value) in ('super(%s, self).__init__()' % cls.name, 'super().__init__()'):
            continue
        if not (isinstance(s, ast.Assign) and len(s.targets) == 1 and _self_attr(s.targets[0])):
            raise Reject('%s.__init__: statement not in the subset: %s' % (cls.name, _u(s)))
        f, v = s.targets[0].attr, s.value
        if f in cls.fields:
            raise Reject('%s.__init__: field %s assigned twice' % (cls.name, f))
        if isinstance(v, ast.Constant) and v.value is None and f == 'mod':
            cls.fields[f] = ('opt_mod',)
        elif isinstance(v, ast.Constant) and v.value == '' and isinstance(v.value, str) and f == 'prefix':
            cls.fields[f] = ('prefix',)
        elif isinstance(v, ast.Name) and v.id in pk and pk[v.id] != 'int':
            cls.fields[f] = ('param', v.id)
        elif isinstance(v, ast.Call) and _u(v.func) == 'torch.tensor' and len(v.args) == 1 and not v.keywords and isinstance(v.args[0], ast.Name) and pk.get(v.args[0].id) == 'int':
            cls.fields[f] = ('tensor', 'BN', v.args[0].id)
        elif isinstance(v, ast.Call) and _u(v.func) == 'torch.ones' and len(v.args) == 1 and not v.keywords:
            a = v.args[0]
            if isinstance(a, (ast.Tuple, ast.List)) and len(a.elts) == 1:
                a = a.elts[0]
            if not (isinstance(a, ast.Name) and pk.get(a.id) == 'int'):
                raise Reject('%s.__init__: torch.ones of %s' % (cls.name, _u(v.args[0])))
            cls.fields[f] = ('tensor', 'BM', a.id)
        else:
            raise Reject('%s.__init__: value of field %s not in the subset: %s' % (cls.name, f, _u(v)))
    if ('mod' in cls.fields and cls.fields['mod'][0] == 'opt_mod') != ('prefix' in cls.fields):
        raise Reject('%s.__init__: `mod = None` and `prefix = ""` must come together' % cls.name)
    for p, k in cls.params:
        if k != 'int' and ('param', p) not in cls.fields.values():
            raise Reject('%s.__init__: parameter %s is not stored' % (cls.name, p))
        if k != 'int' and cls.fields.get(p) != ('param', p):
            raise Reject('%s.__init__: parameter %s is not stored under its own name' % (cls.name, p))


def check_field_stores(cls):
    """fields are written in __init__ only; mod / prefix also by the plain assignments the register translation reads"""
    for name, fn in cls.fns.items():
        if name == '__init__':
            continue
        for x in ast.walk(fn):
            if isinstance(x, (ast.Assign, ast.AnnAssign)):
                tg = x.targets if isinstance(x, ast.Assign) else [x.target]
                for t in tg:
                    for y in ast.walk(t):
                        if _self_attr(y) and not (name == 'register' and cls.stateful and y.attr in ('mod', 'prefix') and y is t):
                            raise Reject('%s.%s: stores into self.%s' % (cls.name, name, y.attr))
            if isinstance(x, ast.Call) and _u(x.func) in ('setattr', 'object.__setattr__', 'delattr'):
                raise Reject('%s.%s: %s' % (cls.name, name, _u(x)))


# --------------------------------------------------------------------------------------------- expressions
class Ctx:
    def __init__(self, cls, mode):
        self.cls, self.mode = cls, mode      # mode: 'value' (features / features_mask) or 'register'
        self.reads = []                      # definedness terms
        self.fresh = set()                   # local lists that may be appended to


def tokexpr(n, env, cx):
    """string that is a buffer-name prefix -> Coq list nat"""
    if isinstance(n, ast.Constant) and n.value == '' and isinstance(n.value, str):
        return '[]'
    if isinstance(n, ast.Name) and env.get(n.id, (None, None))[1] == 'toks':
        return env[n.id][0]
    if _self_attr(n, 'prefix') and cx.cls.stateful:
        return '(fld_prefix st self)'
    if isinstance(n, ast.BinOp) and isinstance(n.op, ast.Add):
        l = n.left
        if isinstance(l, ast.Constant) and l.value == 'prev_':
            return '(0 :: %s)' % tokexpr(n.right, env, cx)
        if isinstance(l, ast.JoinedStr) and len(l.values) == 2 and isinstance(l.values[0], ast.Constant) and l.values[0].value == 'prev_' \
                and isinstance(l.values[1], ast.FormattedValue) and l.values[1].conversion == -1 and l.values[1].format_spec is None \
                and isinstance(l.values[1].value, ast.Name) and env.get(l.values[1].value.id, (None, None))[1] == 'nat':
            return '(S %s :: %s)' % (env[l.values[1].value.id][0], tokexpr(n.right, env, cx))
        # "prev_" + str(i) + p   parses as ("prev_" + str(i)) + p
        if isinstance(l, ast.BinOp) and isinstance(l.op, ast.Add) and isinstance(l.left, ast.Constant) and l.left.value == 'prev_' \
                and isinstance(l.right, ast.Call) and _u(l.right.func) == 'str' and len(l.right.args) == 1 and isinstance(l.right.args[0], ast.Name) \
                and env.get(l.right.args[0].id, (None, None))[1] == 'nat':
            return '(S %s :: %s)' % (env[l.right.args[0].id][0], tokexpr(n.right, env, cx))
    raise Reject('%s: prefix expression not in the subset: %s' % (cx.cls.name, _u(n)))


def bufname(n, env, cx):
    """name of a buffer: <prefix expr> + 'lit' | 'lit'  ->  (Coq bname, literal)"""
    if isinstance(n, ast.Constant) and isinstance(n.value, str) and n.value and '"' not in n.value:
        return '([], "%s"%%string)' % n.value, n.value
    if isinstance(n, ast.BinOp) and isinstance(n.op, ast.Add) and isinstance(n.right, ast.Constant) and isinstance(n.right.value, str) and n.right.value \
            and '"' not in n.right.value:
        return '(%s, "%s"%%string)' % (_unparen(tokexpr(n.left, env, cx)), n.right.value), n.right.value
    raise Reject('%s: buffer name not in the subset: %s' % (cx.cls.name, _u(n)))


def expr(n, env, cx):
    """-> (Coq text, type)"""
    cls = cx.cls
    if isinstance(n, ast.Name):
        if n.id in env:
            return env[n.id]
        raise Reject('%s: unknown name %s' % (cls.name, n.id))
    if isinstance(n, ast.List) and not n.elts:
        return '[]', ('list', '?')
    if isinstance(n, ast.Call) and isinstance(n.func, ast.Name) and n.func.id == 'cast' and len(n.args) == 2 and not n.keywords:
        return expr(n.args[1], env, cx)
    # getattr(self.mod, <name>)
    if isinstance(n, ast.Call) and isinstance(n.func, ast.Name) and n.func.id == 'getattr' and len(n.args) == 2 and not n.keywords and _self_attr(n.args[0], 'mod'):
        if cx.mode != 'value':
            raise Reject('%s: getattr outside features / features_mask' % cls.name)
        if cls.stateful:
            bn, lit = bufname(n.args[1], env, cx)
            if lit not in cls.buffers:
                raise Reject('%s reads the buffer %r which its register does not create' % (cls.name, lit))
            kind = cls.fields[cls.buffers[lit]][1]
            rd = '(getattr_buf st (fld_mod st self) %s)' % bn
            cx.reads.append(('is_scalar %s' if kind == 'BN' else 'is_mask %s') % rd)
            return ('(as_scalar %s)' % rd, 'nat') if kind == 'BN' else ('(as_mask %s)' % rd, 'mask')
        if cls.fields.get('mod') == ('param', 'mod') and dict(cls.params).get('mod') == 'module' and _self_attr(n.args[1]):
            fd = cls.fields.get(n.args[1].attr)
            k = dict(cls.params).get(fd[1], '') if fd is not None and fd[0] == 'param' else ''
            if k.startswith('attr:'):
                return v_(n.args[1].attr), k[5:]
        raise Reject('%s: getattr not in the subset: %s' % (cls.name, _u(n)))
    # <calc>.features / .features_mask
    if isinstance(n, ast.Attribute) and n.attr in ('features', 'features_mask'):
        if cx.mode != 'value':
            raise Reject('%s: .%s outside features / features_mask' % (cls.name, n.attr))
        b, t = sub_calc(n.value, env, cx)
        if t != 'cv':
            raise Reject('%s: .%s of something that is not a calculator: %s' % (cls.name, n.attr, _u(n)))
        return ('(cv_features %s)' % b, 'nat') if n.attr == 'features' else ('(cv_mask %s)' % b, 'mask')
    if _self_attr(n) and cls.fields.get(n.attr, (None,))[0] == 'param' and dict(cls.params)[cls.fields[n.attr][1]] == 'calcs':
        return v_(n.attr), ('list', 'cv' if cx.mode == 'value' else 'registrar')
    if isinstance(n, ast.ListComp):
        if len(n.generators) != 1 or n.generators[0].ifs or n.generators[0].is_async or not isinstance(n.generators[0].target, ast.Name):
            raise Reject('%s: comprehension not in the subset: %s' % (cls.name, _u(n)))
        it, tt = expr(n.generators[0].iter, env, cx)
        et = elem_type(tt, cls, n)
        x = n.generators[0].target.id
        env2 = dict(env)
        env2[x] = (v_(x), et)
        b, bt = expr(n.elt, env2, cx)
        return '(map (fun %s => %s) %s)' % (v_(x), b, it), ('list', bt)
    if isinstance(n, ast.BinOp) and isinstance(n.op, (ast.Mult, ast.Add)):
        (a, ta), (b, tb) = expr(n.left, env, cx), expr(n.right, env, cx)
        if ta == 'nat' and tb == 'nat':
            return '(%s %s %s)' % (a, '*' if isinstance(n.op, ast.Mult) else '+', b), 'nat'
        if isinstance(n.op, ast.Mult) and ta == 'elm' and tb == 'mask':
            return '(scale %s %s)' % (a, b), 'mask'
        if isinstance(n.op, ast.Mult) and ta == 'mask' and tb == 'elm':
            return '(scale %s %s)' % (b, a), 'mask'
        raise Reject('%s: %s between %s and %s: %s' % (cls.name, type(n.op).__name__, ta, tb, _u(n)))
    # torch.stack(l[, dim=0]).sum() | sum(l) | torch.sum(torch.stack(l))
    st_arg = None
    if isinstance(n, ast.Call) and isinstance(n.func, ast.Attribute) and n.func.attr == 'sum' and not n.args and not n.keywords and _is_torch(n.func.value, 'stack'):
        st_arg = n.func.value
    if isinstance(n, ast.Call) and _u(n.func) == 'torch.sum' and len(n.args) == 1 and not n.keywords and _is_torch(n.args[0], 'stack'):
        st_arg = n.args[0]
    if st_arg is not None:
        a, t = expr(_dim0(st_arg, cls), env, cx)
        if t not in (('list', 'nat'), ('list', '?')):
            raise Reject('%s: torch.stack(..).sum() of %s' % (cls.name, t))
        return '(list_sum %s)' % a, 'nat'
    if isinstance(n, ast.Call) and isinstance(n.func, ast.Name) and n.func.id == 'sum' and len(n.args) == 1 and not n.keywords:
        a, t = expr(n.args[0], env, cx)
        if t not in (('list', 'nat'), ('list', '?')):
            raise Reject('%s: sum of %s' % (cls.name, t))
        return '(list_sum %s)' % a, 'nat'
    if _is_torch(n, 'cat'):
        a, t = expr(_dim0(n, cls), env, cx)
        if t not in (('list', 'mask'), ('list', '?')):
            raise Reject('%s: torch.cat of %s' % (cls.name, t))
        return '(List.concat %s)' % a, 'mask'
    raise Reject('%s: expression not in the subset: %s' % (cls.name, _u(n)))


def _is_torch(n, name):
    return isinstance(n, ast.Call) and isinstance(n.func, ast.Attribute) and isinstance(n.func.value, ast.Name) and n.func.value.id == 'torch' and n.func.attr == name


def _dim0(call, cls):
    """torch.cat / torch.stack (l) | (l, 0) | (l, dim=0)  ->  l"""
    args, kw = list(call.args), {k.arg: k.value for k in call.keywords}
    if len(args) == 2 and not kw:
        d = args[1]
    elif len(args) == 1 and set(kw) <= {'dim'}:
        d = kw.get('dim')
    else:
        raise Reject('%s: %s' % (cls.name, _u(call)))
    if d is not None and not (isinstance(d, ast.Constant) and d.value == 0 and not isinstance(d.value, bool)):
        raise Reject('%s: axis other than 0 in %s' % (cls.name, _u(call)))
    return args[0]


def sub_calc(n, env, cx):
    cls = cx.cls
    if _self_attr(n) and cls.fields.get(n.attr, (None,))[0] == 'param' and dict(cls.params)[cls.fields[n.attr][1]] == 'calc':
        return v_(n.attr), 'cv' if cx.mode == 'value' else 'registrar'
    if isinstance(n, ast.Name) and n.id in env:
        return env[n.id]
    raise Reject('%s: not a calculator: %s' % (cls.name, _u(n)))


def elem_type(t, cls, where):
    if t == 'mask':
        return 'elm'
    if isinstance(t, tuple) and t[0] == 'list' and t[1] != '?':
        return t[1]
    raise Reject('%s: iteration over %s: %s' % (cls.name, t, _u(where)))


# --------------------------------------------------------------------------------------------- statements
def assigned_in(stmts):
    out = []
    for s in stmts:
        if isinstance(s, ast.Assign) and len(s.targets) == 1 and isinstance(s.targets[0], ast.Name):
            out.append(s.targets[0].id)
        elif isinstance(s, ast.Expr) and isinstance(s.value, ast.Call) and isinstance(s.value.func, ast.Attribute) and s.value.func.attr == 'append' \
                and isinstance(s.value.func.value, ast.Name):
            out.append(s.value.func.value.id)
        elif isinstance(s, (ast.For, ast.If)):
            out += assigned_in(s.body) + assigned_in(s.orelse)
    return out


def touches_state(stmts):
    for s in stmts:
        for x in ast.walk(s):
            if isinstance(x, ast.Call) and isinstance(x.func, ast.Attribute) and x.func.attr in ('register', 'register_buffer'):
                return True
            if isinstance(x, ast.Assign) and any(_self_attr(t) for t in x.targets):
                return True
    return False


def pat(names):
    return names[0] if len(names) == 1 else "'(%s)" % ', '.join(names)


def tup(names):
    return names[0] if len(names) == 1 else '(%s)' % ', '.join(names)


def block(stmts, env, cx, ind, top):
    """-> (lets text, env, returned (text, type) or None)"""
    cls = cx.cls
    pad = '  ' * ind
    out = ''
    env = dict(env)
    stmts = _strip(stmts)
    for k, s in enumerate(stmts):
        if isinstance(s, ast.Pass):
            continue
        if isinstance(s, ast.Return):
            if not top or cx.mode != 'value' or k != len(stmts) - 1 or s.value is None:
                raise Reject('%s: return not at the end of a property: %s' % (cls.name, _u(s)))
            return out, env, expr(s.value, env, cx)
        if isinstance(s, ast.Assign) and len(s.targets) == 1 and isinstance(s.targets[0], ast.Name):
            x = s.targets[0].id
            if cx.mode == 'register':                     # locals of register are buffer-name prefixes
                if x in ('mod', 'self') or env.get(x, (None, 'toks'))[1] != 'toks':
                    raise Reject('%s.register: assignment to %s' % (cls.name, x))
                out += pad + 'let %s := %s in\n' % (v_(x), _unparen(tokexpr(s.value, env, cx)))
                env[x] = (v_(x), 'toks')
                continue
            if isinstance(s.value, ast.Name) and isinstance(env.get(s.value.id, (None, None))[1], tuple):
                raise Reject('%s: `%s` makes two names for one list (aliasing)' % (cls.name, _u(s)))
            b, t = expr(s.value, env, cx)
            out += pad + 'let %s := %s in\n' % (v_(x), _unparen(b))
            env[x] = (v_(x), t)
            cx.fresh.discard(x)
            if isinstance(s.value, (ast.List, ast.ListComp)):
                cx.fresh.add(x)
            continue
        if isinstance(s, ast.Expr) and isinstance(s.value, ast.Call) and isinstance(s.value.func, ast.Attribute):
            c, f = s.value, s.value.func
            if f.attr == 'append' and isinstance(f.value, ast.Name) and len(c.args) == 1 and not c.keywords and cx.mode == 'value':
                x = f.value.id
                if x not in cx.fresh or x not in env:
                    raise Reject('%s: .append on %s, which is not a list created in this method' % (cls.name, x))
                b, t = expr(c.args[0], env, cx)
                lt = env[x][1]
                if lt != ('list', '?') and lt != ('list', t):
                    raise Reject('%s: list %s holds %s, appended %s' % (cls.name, x, lt, t))
                out += pad + 'let %s := %s ++ [%s] in\n' % (v_(x), v_(x), _unparen(b))
                env[x] = (v_(x), ('list', t))
                continue
            if f.attr == 'register' and cx.mode == 'register' and len(c.args) == 2 and not c.keywords:
                r, t = sub_calc(f.value, env, cx)
                if t != 'registrar' or not (isinstance(c.args[0], ast.Name) and c.args[0].id == 'mod'):
                    raise Reject('%s.register: recursive call not in the subset: %s' % (cls.name, _u(s)))
                out += pad + 'let st := %s %s %s st in\n' % (r, v_('mod'), tokexpr(c.args[1], env, cx))
                continue
            if f.attr == 'register_buffer' and cx.mode == 'register' and isinstance(f.value, ast.Name) and f.value.id == 'mod' and len(c.args) == 2 and not c.keywords \
                    and _self_attr(c.args[1]) and cls.fields.get(c.args[1].attr, (None,))[0] == 'tensor':
                bn, lit = bufname(c.args[0], env, cx)
                fld = c.args[1].attr
                if cls.buffers.get(lit, fld) != fld:
                    raise Reject('%s.register: buffer %r registered from two fields' % (cls.name, lit))
                cls.buffers[lit] = fld
                out += pad + 'let st := register_buffer st %s %s (%s_init_%s %s) in\n' % (v_('mod'), bn, cls.short, fld, v_(cls.fields[fld][2]))
                continue
            raise Reject('%s: call statement not in the subset: %s' % (cls.name, _u(s)))
        if isinstance(s, ast.Assign) and len(s.targets) == 1 and _self_attr(s.targets[0]) and cx.mode == 'register' and cls.stateful:
            f = s.targets[0].attr
            if f == 'mod' and isinstance(s.value, ast.Name) and s.value.id == 'mod':
                out += pad + 'let st := set_mod st self %s in\n' % v_('mod')
                continue
            if f == 'prefix':
                out += pad + 'let st := set_prefix st self %s in\n' % tokexpr(s.value, env, cx)
                continue
            raise Reject('%s.register: %s' % (cls.name, _u(s)))
        if isinstance(s, ast.If) and cx.mode == 'register' and cls.stateful:
            t = s.test
            if not (isinstance(t, ast.Compare) and len(t.ops) == 1 and _self_attr(t.left, 'mod') and isinstance(t.comparators[0], ast.Constant) and t.comparators[0].value is None
                    and isinstance(t.ops[0], (ast.Is, ast.IsNot))):
                raise Reject('%s.register: test not in the subset: %s' % (cls.name, _u(t)))
            c = 'opt_none (fld_mod st self)' if isinstance(t.ops[0], ast.Is) else 'negb (opt_none (fld_mod st self))'
            if set(assigned_in(s.body) + assigned_in(s.orelse)):
                raise Reject('%s.register: a branch assigns a local' % cls.name)
            a, _, _ = block(s.body, env, cx, ind + 2, False)
            b, _, _ = block(s.orelse, env, cx, ind + 2, False)
            out += pad + 'let st := (if %s then\n%s%s    st\n%s  else\n%s%s    st) in\n' % (c, a, pad, pad, b, pad)
            continue
        if isinstance(s, ast.For):
            if s.orelse:
                raise Reject('%s: for/else' % cls.name)
            for x in ast.walk(s):
                if isinstance(x, (ast.Break, ast.Continue, ast.Return)):
                    raise Reject('%s: %s inside a loop' % (cls.name, type(x).__name__))
            env2 = dict(env)
            it = s.iter
            if isinstance(it, ast.Call) and isinstance(it.func, ast.Name) and it.func.id == 'enumerate' and len(it.args) == 1 and not it.keywords \
                    and isinstance(s.target, ast.Tuple) and len(s.target.elts) == 2 and all(isinstance(e, ast.Name) for e in s.target.elts):
                a, t = expr(it.args[0], env, cx)
                et = elem_type(t, cls, s)
                i, x = s.target.elts[0].id, s.target.elts[1].id
                env2[i], env2[x] = (v_(i), 'nat'), (v_(x), et)
                itxt, xpat = '(enumerate %s)' % a, "'(%s, %s)" % (v_(i), v_(x))
                loopvars = [i, x]
            elif isinstance(s.target, ast.Name):
                a, t = expr(it, env, cx)
                et = elem_type(t, cls, s)
                env2[s.target.id] = (v_(s.target.id), et)
                itxt, xpat = a, v_(s.target.id)
                loopvars = [s.target.id]
            else:
                raise Reject('%s: loop header not in the subset: %s' % (cls.name, _u(s).split('\n')[0]))
            carried = []
            for x in assigned_in(s.body):
                if x in loopvars:
                    raise Reject('%s: the loop assigns its own variable %s' % (cls.name, x))
                if x in env and x not in carried:
                    carried.append(x)
            names = [v_(x) for x in carried] + (['st'] if cx.mode == 'register' and touches_state(s.body) else [])
            if not names:
                raise Reject('%s: a loop that changes nothing that is defined before it' % cls.name)
            body, env3, _ = block(s.body, env2, cx, ind + 1, False)
            for x in carried:
                if isinstance(env3[x][1], tuple) and env[x][1] == ('list', '?'):
                    env[x] = env3[x]                       # element type learnt from the first append
                elif env3[x][1] != env[x][1]:
                    raise Reject('%s: %s changes type in a loop' % (cls.name, x))
            out += pad + 'let %s := fold_left (fun %s %s =>\n%s%s  %s) %s %s in\n' % (pat(names), pat(names), xpat, body, pad, tup(names), itxt, tup(names))
            continue
        raise Reject('%s: statement not in the subset: %s' % (cls.name, _u(s).split('\n')[0]))
    return out, env, None


def _unparen(t):
    if t.startswith('(') and t.endswith(')'):
        d = 0
        for k, ch in enumerate(t):
            d += ch == '('
            d -= ch == ')'
            if d == 0 and k < len(t) - 1:
                return t
        return t[1:-1]
    return t


# --------------------------------------------------------------------------------------------- per class
def value_params(cls):
    ps = ['(st : gstate) (self : nat)'] if cls.stateful else []
    env = {}
    for p, k in cls.params:
        if k == 'calc':
            ps.append('(%s : cv)' % v_(p))
        elif k == 'calcs':
            ps.append('(%s : list cv)' % v_(p))
        elif k.startswith('attr:'):
            ps.append('(%s : %s)' % (v_(p), COQTY[k[5:]]))
    return ' '.join(ps), env


def translate_property(cls, name):
    fn = cls.fns[name]
    decs = [_u(d) for d in fn.decorator_list]
    if decs != ['property']:
        raise Reject('%s.%s: decorators %s (a plain read-only property is expected)' % (cls.name, name, decs))
    if [a.arg for a in fn.args.args] != ['self'] or fn.args.vararg or fn.args.kwarg or fn.args.kwonlyargs or fn.args.defaults:
        raise Reject('%s.%s: signature' % (cls.name, name))
    purity_gate(fn, '%s.%s' % (cls.name, name))
    cx = Ctx(cls, 'value')
    ps, env = value_params(cls)
    body, _, ret = block(fn.body, env, cx, 1, True)
    if ret is None:
        raise Reject('%s.%s does not end with a return' % (cls.name, name))
    want = 'nat' if name == 'features' else 'mask'
    if ret[1] != want:
        raise Reject('%s.%s returns %s, expected %s' % (cls.name, name, ret[1], want))
    out = 'Definition %s_%s_gen %s : %s :=\n%s  %s.\n' % (cls.short, name, ps, cty(want), body, _unparen(ret[0]))
    if cls.stateful:
        out += 'Definition %s_%s_ok %s : bool :=\n  %s.\n' % (cls.short, name, ps, conj(cx.reads))
    elif cx.reads:
        raise Reject('%s.%s reads buffers but has no mod / prefix fields' % (cls.name, name))
    return out


def translate_register(cls):
    fn = cls.fns['register']
    if fn.decorator_list:
        raise Reject('%s.register is decorated' % cls.name)
    a = fn.args
    if [x.arg for x in a.args] != ['self', 'mod', 'prefix'] or a.vararg or a.kwarg or a.kwonlyargs or a.posonlyargs \
            or len(a.defaults) != 1 or not (isinstance(a.defaults[0], ast.Constant) and a.defaults[0].value == '' and isinstance(a.defaults[0].value, str)):
        raise Reject('%s.register: signature is not (self, mod, prefix="")' % cls.name)
    purity_gate(fn, '%s.register' % cls.name)
    cx = Ctx(cls, 'register')
    env = {'prefix': (v_('prefix'), 'toks')}
    body, _, _ = block(fn.body, env, cx, 1, True)
    ps = ['(self : nat)'] if cls.stateful else []
    ps += ['(%s : nat)' % v_(p) for p, k in cls.params if k == 'int']
    for p, k in cls.params:
        if k == 'calc':
            ps.append('(%s : registrar)' % v_(p))
        elif k == 'calcs':
            ps.append('(%s : list registrar)' % v_(p))
    ps += ['(%s : nat) (%s : list nat) (st : gstate)' % (v_('mod'), v_('prefix'))]
    return 'Definition %s_register_gen %s : gstate :=\n%s  st.\n' % (cls.short, ' '.join(ps), body)


def translate_inits(cls):
    out = ''
    for f, d in cls.fields.items():
        if d[0] == 'tensor':
            out += 'Definition %s_init_%s (%s : nat) : bval := %s.\n' % (cls.short, f, v_(d[2]), ('BN %s' if d[1] == 'BN' else 'BM (repeat true %s)') % v_(d[2]))
    return out


def translate_class(cls, attr_kinds):
    want = {'__init__', 'features', 'features_mask', 'register'}
    for m in cls.node.body:
        if isinstance(m, ast.FunctionDef):
            if m.name in cls.fns:
                raise Reject('%s defines %s twice' % (cls.name, m.name))
            cls.fns[m.name] = m
        elif isinstance(m, ast.Expr) and isinstance(m.value, ast.Constant) and isinstance(m.value.value, str):
            continue
        else:
            raise Reject('%s: class-level statement not in the subset: %s' % (cls.name, _u(m).split('\n')[0]))
    if set(cls.fns) != want:
        raise Reject('%s defines %s, expected exactly %s' % (cls.name, sorted(cls.fns), sorted(want)))
    read_init(cls, attr_kinds)
    check_field_stores(cls)
    reg = translate_register(cls)                 # first: fills cls.buffers, used to type the reads
    regd = set(cls.buffers.values())
    for f, d in cls.fields.items():
        if d[0] == 'tensor' and f not in regd:
            raise Reject('%s: tensor field %s is never registered as a buffer' % (cls.name, f))
    out = '(* ---------------------------------------------------------------- %s *)\n' % cls.name
    out += translate_inits(cls)
    out += translate_property(cls, 'features')
    out += translate_property(cls, 'features_mask')
    out += reg
    return out


# --------------------------------------------------------------------------------------------- module / surroundings
def check_base(node):
    if node.bases or node.keywords or node.decorator_list:
        raise Reject('FeaturesCalculator has bases / decorators')
    for m in node.body:
        if isinstance(m, ast.Expr) and isinstance(m.value, ast.Constant):
            continue
        if not isinstance(m, ast.FunctionDef):
            raise Reject('FeaturesCalculator: class-level statement (state shared by all calculators?): %s' % _u(m).split('\n')[0])
        body = [_u(s) for s in _strip(m.body)]
        decs = [_u(d) for d in m.decorator_list]
        if m.name == '__init__' and body == ['pass'] and decs in ([], ['abstractmethod']):
            continue
        if m.name in ('features', 'features_mask') and body == ['raise NotImplementedError'] and decs == ['property', 'abstractmethod']:
            continue
        if m.name == 'register' and body == ['raise NotImplementedError'] and decs == ['abstractmethod']:
            continue
        if m.name == '__str__' and body == ['return self.__class__.__name__'] and not decs:
            continue
        raise Reject('FeaturesCalculator.%s is not the abstract stub the translator expects (a concrete member of the base class would be inherited by every calculator)' % m.name)


def check_module(tree):
    seen = []
    for n in tree.body:
        if isinstance(n, ast.Expr) and isinstance(n.value, ast.Constant):
            continue
        if isinstance(n, ast.ImportFrom) and n.module in ('abc', 'typing') and n.level == 0:
            continue
        if isinstance(n, ast.Import) and all(a.name in ('torch', 'torch.nn') for a in n.names):
            continue
        if isinstance(n, ast.ClassDef):
            seen.append(n.name)
            continue
        raise Reject('module-level statement not in the subset: %s' % _u(n).split('\n')[0])
    if seen != ['FeaturesCalculator'] + list(SHORT):
        raise Reject('the module defines the classes %s; the model (calc: CConst | CMod | CFlat | CCat) knows exactly %s' % (seen, ['FeaturesCalculator'] + list(SHORT)))
    for n in tree.body:
        if isinstance(n, ast.ClassDef) and n.name != 'FeaturesCalculator':
            if [_u(b) for b in n.bases] != ['FeaturesCalculator'] or n.keywords or n.decorator_list:
                raise Reject('%s: bases / decorators' % n.name)


def check_call_sites(repo):
    """-> {position of a ModAttr str parameter: kind}"""
    kinds = {}
    arity = {'ConstFeaturesCalculator': 1, 'FlattenFeaturesCalculator': 2, 'ConcatFeaturesCalculator': 1, 'ModAttrFeaturesCalculator': 3}
    n_modattr = 0
    for f in sorted(glob.glob(os.path.join(repo, 'plinio', '**', '*.py'), recursive=True)):
        if f.endswith(os.path.join('graph', 'features_calculation.py')):
            continue
        try:
            tree = ast.parse(open(f).read())
        except SyntaxError as e:
            raise Reject('%s does not parse: %s' % (f, e))
        rel = os.path.relpath(f, repo)
        setters = []
        for n in ast.walk(tree):
            if isinstance(n, ast.FunctionDef) and n.name == 'input_features_calculator' and any(isinstance(d, ast.Attribute) and d.attr == 'setter' for d in n.decorator_list):
                b = [_u(s) for s in _strip(n.body)]
                if b == ['calc.register(self)', 'self._input_features_calculator = calc']:
                    setters += [x for x in ast.walk(n) if isinstance(x, ast.Call)]
                elif not (len(b) == 1 and b[0].startswith('raise NotImplementedError')):
                    raise Reject('%s: input_features_calculator setter is not `calc.register(self); self._input_features_calculator = calc`: %s' % (rel, b))
        for n in ast.walk(tree):
            if isinstance(n, ast.Call) and isinstance(n.func, ast.Attribute) and n.func.attr == 'register' and n not in setters:
                raise Reject('%s: a .register( call outside the input_features_calculator setters: %s' % (rel, _u(n)))
            if isinstance(n, ast.Call) and isinstance(n.func, (ast.Name, ast.Attribute)):
                nm = n.func.id if isinstance(n.func, ast.Name) else n.func.attr
                if nm in arity:
                    if n.keywords or len(n.args) != arity[nm] or any(isinstance(a, ast.Starred) for a in n.args):
                        raise Reject('%s: %s is not called with %d positional arguments: %s' % (rel, nm, arity[nm], _u(n)))
                    if nm == 'ModAttrFeaturesCalculator':
                        n_modattr += 1
                        for pos in (1, 2):
                            a = n.args[pos]
                            if not (isinstance(a, ast.Constant) and a.value in ATTR_KIND):
                                raise Reject('%s: ModAttrFeaturesCalculator attribute name %s is not one of %s' % (rel, _u(a), sorted(ATTR_KIND)))
                            if kinds.setdefault(pos, ATTR_KIND[a.value]) != ATTR_KIND[a.value]:
                                raise Reject('%s: call sites disagree on the kind of attribute %d of ModAttrFeaturesCalculator' % (rel, pos))
    if not n_modattr:
        raise Reject('no call site of ModAttrFeaturesCalculator found')
    return kinds


def translate_source(src, attr_kinds):
    tree = ast.parse(src)
    check_module(tree)
    out = ''
    for n in tree.body:
        if isinstance(n, ast.ClassDef):
            if n.name == 'FeaturesCalculator':
                check_base(n)
            else:
                out += translate_class(Cls(n), attr_kinds) + '\n'
    return out


HEADER = '''(* GENERATED by translator/calc2coq.py from plinio/graph/features_calculation.py of the tree under test -- do not edit.
   `features`, `features_mask`, `register` and the buffers created in __init__ of the four calculators, statement by statement. *)
From Coq Require Import String List Bool Arith.
Import ListNotations.
Require Import Plinio.Model.Calc.

(* ---------------------------------------------------------------- vocabulary (fixed text) *)
Inductive bval := BN (n : nat) | BM (m : list bool).      (* a registered buffer: 0-d integer tensor / 1-d tensor of 0,1 *)
Definition bname := (list nat * string)%type.               (* prefix tokens (0 = "prev_", S i = "prev_<i>") + base name *)
Definition bkey := (nat * bname)%type.                      (* module the buffer is registered on, name *)
Fixpoint toks_eqb (a b : list nat) : bool :=
  match a, b with
  | [], [] => true
  | x :: a', y :: b' => (x =? y) && toks_eqb a' b'
  | _, _ => false
  end.
Definition bkey_eqb (a b : bkey) : bool :=
  match a, b with (m1, (p1, n1)), (m2, (p2, n2)) => String.eqb n1 n2 && ((m1 =? m2) && toks_eqb p1 p2) end.
(* state of the calculator objects (fields `mod`, `prefix`, per object identity) and of the buffers of the modules *)
Record gstate := { f_mod : list (nat * nat); f_prefix : list (nat * list nat); g_bufs : list (bkey * bval) }.
Definition gempty : gstate := {| f_mod := []; f_prefix := []; g_bufs := [] |}.
Definition fld_mod (st : gstate) (self : nat) : option nat :=
  match find (fun e => fst e =? self) (f_mod st) with Some e => Some (snd e) | None => None end.
Definition fld_prefix (st : gstate) (self : nat) : list nat :=
  match find (fun e => fst e =? self) (f_prefix st) with Some e => snd e | None => [] end.
Definition set_mod (st : gstate) (self m : nat) : gstate :=
  {| f_mod := (self, m) :: f_mod st; f_prefix := f_prefix st; g_bufs := g_bufs st |}.
Definition set_prefix (st : gstate) (self : nat) (p : list nat) : gstate :=
  {| f_mod := f_mod st; f_prefix := (self, p) :: f_prefix st; g_bufs := g_bufs st |}.
(* nn.Module.register_buffer: a buffer of that name is replaced *)
Definition register_buffer (st : gstate) (m : nat) (nm : bname) (v : bval) : gstate :=
  {| f_mod := f_mod st; f_prefix := f_prefix st; g_bufs := ((m, nm), v) :: g_bufs st |}.
Definition buf_lookup (st : gstate) (k : bkey) : option bval :=
  match find (fun e => bkey_eqb (fst e) k) (g_bufs st) with Some e => Some (snd e) | None => None end.
(* getattr(m, name) for a buffer name; m = None (`self.mod` never set): AttributeError *)
Definition getattr_buf (st : gstate) (m : option nat) (nm : bname) : option bval :=
  match m with Some c => buf_lookup st (c, nm) | None => None end.
Definition as_scalar (v : option bval) : nat := match v with Some (BN n) => n | _ => 0 end.
Definition as_mask (v : option bval) : list bool := match v with Some (BM m) => m | _ => [] end.
Definition is_scalar (v : option bval) : bool := match v with Some (BN _) => true | _ => false end.
Definition is_mask (v : option bval) : bool := match v with Some (BM _) => true | _ => false end.
Definition opt_none {A} (o : option A) : bool := match o with None => true | Some _ => false end.
(* value of a sub-calculator: (.features, .features_mask) *)
Definition cv := (nat * list bool)%type.
Definition cv_features (v : cv) : nat := fst v.
Definition cv_mask (v : cv) : list bool := snd v.
Definition scale (b : bool) (l : list bool) : list bool := map (andb b) l.     (* 0-d element * 1-d tensor, entries 0/1 *)
Fixpoint enumerate_from {A} (k : nat) (l : list A) : list (nat * A) :=
  match l with [] => [] | x :: r => (k, x) :: enumerate_from (S k) r end.
Definition enumerate {A} (l : list A) : list (nat * A) := enumerate_from 0 l.
Definition registrar := (nat -> list nat -> gstate -> gstate).                 (* bound method `x.register` *)

'''

FOOTER = '''(* ---------------------------------------------------------------- the calculator objects of Model/Calc.v, evaluated with the functions above (fixed text) *)
(* CConst id c = ConstFeaturesCalculator(c) created at node id; CMod i = ModAttrFeaturesCalculator(layer i, ..) whose two
   attributes evaluate to (number of alive bits of ms i, ms i); CFlat id p m = FlattenFeaturesCalculator(p, m); CCat = Concat *)
Fixpoint geval (st : gstate) (ms : nat -> list bool) (c : calc) : cv :=
  match c with
  | CConst id _ => (const_features_gen st id, const_features_mask_gen st id)
  | CMod i => (modattr_features_gen (count (ms i)) (ms i), modattr_features_mask_gen (count (ms i)) (ms i))
  | CFlat id p _ => let v := geval st ms p in (flatten_features_gen st id v, flatten_features_mask_gen st id v)
  | CCat cs => let vs := map (geval st ms) cs in (concat_features_gen vs, concat_features_mask_gen vs)
  end.
(* every buffer read on the way finds a registered buffer of the right kind (no AttributeError, no default value used) *)
Fixpoint gok (st : gstate) (ms : nat -> list bool) (c : calc) : bool :=
  match c with
  | CConst id _ => const_features_ok st id && const_features_mask_ok st id
  | CMod _ => true
  | CFlat id p _ => let v := geval st ms p in gok st ms p && flatten_features_ok st id v && flatten_features_mask_ok st id v
  | CCat cs => forallb (gok st ms) cs
  end.
Fixpoint greg (c : calc) : registrar :=
  match c with
  | CConst id n => const_register_gen id n
  | CMod _ => modattr_register_gen
  | CFlat id p m => flatten_register_gen id m (greg p)
  | CCat cs => concat_register_gen (map greg cs)
  end.
(* register_input_features: `calc.register(self)` on every consumer, in graph order *)
Definition gregister_all (nt : net) : gstate :=
  fold_left (fun st i => if consumer nt i then greg (input_calc true nt i) i [] st else st) (seq 0 (List.length nt)) gempty.

(* correspondence helpers *)
Definition run_masks_gen (nt : net) (m : list (nat * list bool)) :=
  let ms := assoc m in
  let st := gregister_all nt in
  map (fun i => (i, geval st ms (input_calc true nt i), gok st ms (input_calc true nt i)))
      (filter (consumer nt) (seq 0 (List.length nt))).
Definition run_names_gen (nt : net) : list bkey := map fst (g_bufs (gregister_all nt)).
'''


def translate_repo(repo):
    kinds = check_call_sites(repo)
    src = open(os.path.join(repo, 'plinio', 'graph', 'features_calculation.py')).read()
    return HEADER + translate_source(src, kinds) + FOOTER


if __name__ == '__main__':
    import sys
    print(translate_repo(sys.argv[1] if len(sys.argv) > 1 else '/repo'))
