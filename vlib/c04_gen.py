"""C04 — second tie, by translation (DESIGN.md §13, "Second tie, by translation").

translator/pitcost2coq.py reads the source of the PIT cost composition of the tree under test (PIT._get_single_cost,
_single_cost_fn_map, the cost_specification setter, __init__; DNAS.get_cost / cost / _create_cost_fn_map; get_modified_vars,
out_features_eff / _opt, in_features_opt, k_eff, kernel_size_opt, _generate_norm_constants and the constructor arguments of
export of PITConv1d / PITConv2d / PITLinear) and writes coq/Gen/PitCostGen.v; coq/Proofs/PitCostGen.v proves the generated
functions equal (== of rationals) to Model/PitCost.v and their definedness predicates true; Props/C04.v states the
C04_generated_* theorems.  This module is what vlib/c04.py needs:

    rej = c04_gen.regenerate(ctx)                      # BEFORE ctx.build(); None, or why the translator refused the source
    built = ctx.build()
    c04_gen.note(ctx, built, rej)
    ...
    mism += c04_gen.correspond(ctx, good, [coq_case_expr(o) for o in good], vals, _replay_dict)      # next to the hand model
    mism += c04_gen.correspond_keff(ctx, [kcases[i] for i in idx], kv)
    ...
    if not ctx.violations and c04_gen.report_rejected(ctx, built, rej): pass                          # first in the final block
"""
import os
from fractions import Fraction
from .common import COQ, REPO, Nat, coq, write_if_changed
from translator import pitcost2coq

GEN_V = os.path.join(COQ, 'Gen', 'PitCostGen.v')
IMPORTS = ['Plinio.Model.Masks', 'Plinio.Model.PitCost', 'Plinio.Gen.PitCostGen']
TRANSLATOR = 'translator/pitcost2coq.py'
SOURCE = 'plinio/methods/pit/pit.py, plinio/methods/pit/nn/{conv1d,conv2d,linear}.py, plinio/methods/dnas_base/dnas.py'
ORDER = ['params', 'params_no_bias', 'ops', 'ops_no_bias', 'gap8_latency']     # = all_specs of Model/PitCost.v


def regenerate(ctx=None, repo=None):
    """translate the cost composition of the tree under test into Gen/PitCostGen.v (written only when it changed).
    -> None, or the reason why the translator refused the source (the file then fails on purpose)"""
    try:
        text, rej = pitcost2coq.translate_repo(repo or REPO), None
    except (pitcost2coq.Reject, SyntaxError, OSError, RecursionError) as e:
        rej = '%s: %s' % (type(e).__name__, e)
        text = ('(* %s REFUSED the PIT cost composition of the tree under test:\n   %s\n   no model of the current code exists; this file fails on purpose. *)\n'
                'Definition translator_rejected : True := 0.\n' % (TRANSLATOR, rej.replace('*)', '* )').replace('(*', '( *')))
    write_if_changed(GEN_V, text)
    if ctx is not None and rej:
        ctx.notes.append('generated model: the translator refused the source: ' + rej)
    return rej


def note(ctx, built, rej):
    ctx.extra['generated_model'] = {
        'file': 'coq/Gen/PitCostGen.v', 'translator': TRANSLATOR, 'source': SOURCE,
        'status': ('refused: ' + rej) if rej else
                  ('regenerated; equal (== of rationals, proper cost functions) to Model/PitCost.v, every division / dict read / assert defined (C04_generated_*)' if built
                   else 'regenerated; obligations do not check')}


def gen_expr(e):
    """`run_cost <layers> <masks> <full>` of the hand model -> the same case for the generated one"""
    assert e.startswith('run_cost ')
    return 'run_cost_gen ' + e[len('run_cost '):]


def _fr(p):
    return Fraction(p[0], p[1])


def correspond(ctx, cases, exprs, vals, replay=lambda o: {'case': {'seed': o.get('seed')}}, shard=12):
    """the generated model on the cases of the hand model: `vals` are the values of run_cost (hand), in the order of `cases`;
    also compared with the discrete costs the implementation reported.  -> [(replay dict, difference)]"""
    if not cases:
        return []
    gvals = ctx.coq_eval_sharded('gen_nets', IMPORTS, '', [gen_expr(e) for e in exprs], shard=shard)
    out, n = [], 0
    for o, v, g in zip(cases, vals, gvals):
        costs, esizes, numel, flags = v
        gcosts, gsizes, gok = g
        diff = {}
        for k, name in enumerate(ORDER):
            e5, g5 = costs[k], gcosts[k]              # ((a, b), p2, ...) is printed (a, b, p2, ...)
            cont, disc, opencont = Fraction(e5[0], e5[1]), _fr(e5[2]), _fr(e5[5])
            gcont, gdisc, gdcont, gddisc, gopen = Fraction(g5[0], g5[1]), _fr(g5[2]), _fr(g5[3]), _fr(g5[4]), _fr(g5[5])
            n += 5
            if (gcont, gdisc, gopen) != (cont, disc, opencont):
                diff['generated-vs-hand:' + name] = {'generated (cont, disc, open)': [str(gcont), str(gdisc), str(gopen)], 'hand': [str(cont), str(disc), str(opencont)]}
            if (gdcont, gddisc) != (cont, disc):
                diff['generated-dictionary-vs-hand:' + name] = {'generated get_cost(name) (cont, disc)': [str(gdcont), str(gddisc)], 'hand': [str(cont), str(disc)]}
            impl = (o.get('pruned') or {}).get('disc', {}).get(name)
            if impl is not None and (o.get('dim') == 2 or name != 'gap8_latency'):
                n += 1
                if impl != gdisc:
                    diff['generated-vs-impl-disc:' + name] = (impl, str(gdisc))
        n += 2
        if [tuple(s[:3]) + (list(s[3]),) for s in gsizes] != [tuple(s[:3]) + (list(s[3]),) for s in esizes]:
            diff['generated-exported-sizes'] = (gsizes, esizes)
        if gok is not True:
            diff['generated-definedness'] = 'an _ok predicate of the generated model is false (an assert / dict read / division of the code would fail)'
        if diff:
            out.append((replay(o), diff))
    ctx.corr += n
    ctx.extra['generated_model_comparisons'] = ctx.extra.get('generated_model_comparisons', 0) + n
    return out


def correspond_keff(ctx, kcases, kvals):
    """masker level: generated k_eff (continuous) / kernel_size_opt next to run_keff / kernel_size_opt of the hand model.
    kvals[i] = (kn, kd, kopt, ...) as vlib/c04.py reads them"""
    if not kcases:
        return []
    exprs = ['run_keff_gen %s %s %s' % (coq(Nat(c['K'])), coq([Fraction(x) for x in c['beta']]), coq([Fraction(x) for x in c['gamma']])) for c in kcases]
    gv = ctx.coq_eval_sharded('gen_keff', IMPORTS, '', exprs, shard=300)
    out = []
    for c, v, g in zip(kcases, kvals, gv):
        kn, kd, kopt = v[0], v[1], v[2]
        gn, gd, gopt = g
        if (Fraction(gn, gd), gopt) != (Fraction(kn, kd), kopt):
            out.append(({'kcase': c}, {'generated-vs-hand:k_eff': {'generated': (str(Fraction(gn, gd)), gopt), 'hand': (str(Fraction(kn, kd)), kopt)}}))
    ctx.corr += len(kcases)
    ctx.extra['generated_model_comparisons'] = ctx.extra.get('generated_model_comparisons', 0) + len(kcases)
    return out


def report_rejected(ctx, built, rej):
    """to be called first in the final block of the check; True if it reported"""
    if built or not rej:
        return False
    ctx.violation('translator-rejected', {'translator': TRANSLATOR, 'source': SOURCE, 'reason': rej, 'theorems': [o[0] for o in ctx.obligations if not o[1]]},
                  'the source of the PIT cost composition is outside the subset the translator accepts (%s): no generated model, the C04_generated_* theorems are not established' % rej[:300],
                  no_input=True)
    return True
