"""./check Cxx [--tier quick|thorough] [--replay FILE]"""
import sys, os, argparse, importlib, json, traceback
from . import common


GROUPS = [('masks', ('C01', 'C08')), ('costs', ('C02', 'C03', 'C04', 'C05', 'C06', 'C10', 'C12', 'C13'))]


def group_lock(prop):
    """checks whose generated models (coq/Gen/*.v, rewritten from the tree under test on every run) are shared may run side by
    side only on the SAME tree: runs on /repo share the lock of their group, a run on another tree (VERIF_REPO=<scratch
    worktree>) takes it alone.  Returns the open lock file (released when the process ends)."""
    if os.environ.get('VERIF_NO_GROUP_LOCK'):
        return None
    import fcntl
    grp = next((g for g, ps in GROUPS if prop in ps), prop)
    os.makedirs(common.BUILD, exist_ok=True)
    f = open(os.path.join(common.BUILD, 'gen-%s.lock' % grp), 'w')
    fcntl.flock(f, fcntl.LOCK_SH if os.path.realpath(common.REPO) == '/repo' else fcntl.LOCK_EX)
    return f


def main():
    ap = argparse.ArgumentParser()
    ap.add_argument('prop')
    ap.add_argument('--tier', default=os.environ.get('VERIF_TIER', 'quick'), choices=['quick', 'thorough'])
    ap.add_argument('--replay', default=None)
    a = ap.parse_args()
    seed = int(os.environ.get('VERIF_SEED', '0') or 0)
    mod = importlib.import_module('vlib.' + a.prop.lower())
    if a.replay:
        r = json.load(open(a.replay))
        sys.exit(mod.replay(r))
    ctx = common.Ctx(a.prop, a.tier, seed)
    _lock = group_lock(a.prop)      # kept open until the process ends
    try:
        mod.run(ctx)
    except Exception:
        # a crash of the machinery is never silently a pass
        tb = traceback.format_exc()
        print(tb, flush=True)
        ctx.violation('harness-crash', {'traceback': tb}, 'the check itself crashed: ' + tb.strip().split('\n')[-1], no_input=True)
    sys.exit(ctx.finish())


if __name__ == '__main__':
    main()
