"""C09 extension of the shared architecture grammar (gen_arch.py; DESIGN.md §5.1, §C09).

Same idea as gen_arch: a seeded derivation produces a JSON-able *spec*; `build(spec)` makes an fx-traceable
nn.Module whose forward interprets the node list (module of node i = `layers.n<i>`).  Added for C09:

  * joins: channel-cat of 2..3 tensors whose origins are {searchable layer, excluded/fixed layer, the network
    input itself, another cat, a depthwise layer}, time-axis cat (dim=2), residual add with a cat operand,
    depthwise directly after a cat, depthwise chains, add of two heads;
  * shape ops: flatten (function / method / nn.Flatten; start_dim 1 and 2; spatial size 1 and >1),
    squeeze / unsqueeze (function and method form, positive and negative dims);
  * options: 'exclude_names' (node indices), 'exclude_types' (type names), 'autoconvert' False with
    user-placed PIT layers ('pit': masker class id, 'pit_frozen'), 1..2 network inputs.

extra node kinds w.r.t. gen_arch:
  flatten   {'src', 'start': 1|2, 'form': 'fn'|'method'|'module'}
  squeeze   {'src', 'dim', 'form': 'fn'|'method'}          unsqueeze {'src','dim','form'}
  gapw      {'src'}  nn.AdaptiveAvgPool2d((None, 1))  (N,C,H,W) -> (N,C,H,1)
  sub       {'src': [a, b]}
"""
import math, random, copy
from . import gen_arch as GA

PROP = ('pad1d', 'bn1d', 'bn2d', 'relu', 'relu6', 'relu_f', 'dropout', 'identity', 'avgpool1d', 'maxpool1d',
        'avgpool2d', 'maxpool2d', 'gap1d', 'gap2d', 'gapw')


# ----------------------------------------------------------------------------- shapes
def shapes(spec):
    sh = []
    for nd in spec['nodes']:
        k = nd['k']
        if k == 'in':
            sh.append(tuple(nd['shape']))
            continue
        src = nd['src'] if isinstance(nd['src'], int) else nd['src'][0]
        s = sh[src]
        if k == 'flatten':
            st = nd.get('start', 1)
            sh.append(tuple(s[:st - 1]) + (math.prod(s[st - 1:]),))
        elif k == 'squeeze':
            d = nd['dim'] if nd['dim'] >= 0 else len(s) + 1 + nd['dim']
            assert s[d - 1] == 1, (s, nd)
            sh.append(tuple(s[:d - 1]) + tuple(s[d:]))
        elif k == 'unsqueeze':
            d = nd['dim'] if nd['dim'] >= 0 else len(s) + 2 + nd['dim']
            sh.append(tuple(s[:d - 1]) + (1,) + tuple(s[d - 1:]))
        elif k == 'gapw':
            sh.append((s[0], s[1], 1))
        elif k == 'pad1d':
            sh.append((s[0], s[1] + nd['left']))
        elif k == 'conv1d':
            sh.append((nd['cout'], GA.conv_out(s[1], nd['ks'], nd['dil'], nd['stride'], 0)))
        elif k == 'conv2d':
            if nd['padding'] == 'same':
                sh.append((nd['cout'], s[1], s[2]))
            else:
                kk = nd['ks']
                sh.append((nd['cout'],) + tuple(GA.conv_out(s[1 + i], kk[i], nd['dil'], nd['stride'], 2 * nd['padding']) for i in (0, 1)))
        elif k == 'linear':
            sh.append(tuple(s[:-1]) + (nd['cout'],))
        elif k in ('avgpool1d', 'maxpool1d'):
            sh.append((s[0], s[1] // nd['ks']))
        elif k in ('avgpool2d', 'maxpool2d'):
            sh.append((s[0], s[1] // nd['ks'], s[2] // nd['ks']))
        elif k == 'gap1d':
            sh.append((s[0], 1))
        elif k == 'gap2d':
            sh.append((s[0], 1, 1))
        elif k == 'cat':
            if nd['dim'] == 1:
                sh.append((sum(sh[j][0] for j in nd['src']),) + tuple(s[1:]))
            else:
                sh.append((s[0], sum(sh[j][1] for j in nd['src'])) + tuple(s[2:]))
        else:
            sh.append(s)
    return sh


# ----------------------------------------------------------------------------- torch module
def build(spec, seed=0):
    """-> nn.Module (eval mode semantics are the caller's).  BatchNorm layers get running_mean = 0 and
    bias = 0 (zero-preserving) so that a dead channel stays identically zero through them; depthwise
    convolutions have their bias as generated."""
    import torch, torch.nn as nn
    nodes = spec['nodes']
    maskers = {}

    def mk(i, nd):
        m = GA._mk(nn, nd)
        k = nd['k']
        if k == 'gapw':
            return nn.AdaptiveAvgPool2d((None, 1))
        if k == 'flatten' and nd.get('form') == 'module':
            return nn.Flatten(nd.get('sstart', nd.get('start', 1)))
        if m is not None and nd.get('pit') is not None:
            from plinio.methods.pit.nn import PITConv1d, PITConv2d, PITLinear
            from plinio.methods.pit.nn.features_masker import PITFeaturesMasker, PITFrozenFeaturesMasker
            from plinio.methods.pit.nn.timestep_masker import PITTimestepMasker
            from plinio.methods.pit.nn.dilation_masker import PITDilationMasker
            g = nd['pit']
            if g not in maskers:
                if nd.get('pit_frozen'):
                    maskers[g] = PITFrozenFeaturesMasker(nd['cout'])
                else:   # a masker that is not trainable still masks the channels its alpha selects
                    maskers[g] = PITFeaturesMasker(nd['cout'], trainable=not nd.get('pit_untrainable', False))
            thr = spec.get('pit_thr', 0.5)       # the user's binarization threshold for his hand-placed layers
            if k == 'conv1d':
                return PITConv1d(m, maskers[g], PITTimestepMasker(nd['ks']), PITDilationMasker(nd['ks']), binarization_threshold=thr)
            if k == 'conv2d':
                return PITConv2d(m, maskers[g], binarization_threshold=thr)
            return PITLinear(m, maskers[g], binarization_threshold=thr)
        return m

    class GNet(nn.Module):
        def __init__(self):
            super().__init__()
            self.layers = nn.ModuleDict()
            for i, nd in enumerate(nodes):
                m = mk(i, nd)
                if m is not None:
                    self.layers['n%d' % i] = m

        def _run(self, xs):
            v = []
            nin = 0
            for i, nd in enumerate(nodes):
                k = nd['k']
                if k == 'in':
                    v.append(xs[nin])
                    nin += 1
                elif k == 'add':
                    v.append(v[nd['src'][0]] + v[nd['src'][1]])
                elif k == 'sub':
                    v.append(v[nd['src'][0]] - v[nd['src'][1]])
                elif k == 'cat':
                    ts = [v[j] for j in nd['src']]
                    d = nd.get('sdim', nd['dim'])
                    catf = {'concat': torch.concat, 'concatenate': torch.concatenate}.get(nd.get('alias'), torch.cat)
                    v.append(catf(ts, dim=d) if nd.get('kw', True) else catf(ts, d))
                elif k == 'relu_f':
                    v.append(torch.relu(v[nd['src']]))
                elif k == 'flatten' and nd.get('form') != 'module':
                    st = nd.get('sstart', nd.get('start', 1))
                    if nd.get('form') == 'method':
                        v.append(v[nd['src']].flatten(start_dim=st) if nd.get('kw') else v[nd['src']].flatten(st))
                    else:
                        v.append(torch.flatten(v[nd['src']], start_dim=st) if nd.get('kw') else torch.flatten(v[nd['src']], st))
                elif k == 'squeeze':
                    x, d = v[nd['src']], nd['dim']
                    if nd.get('kw'):
                        v.append(x.squeeze(dim=d) if nd.get('form') == 'method' else torch.squeeze(x, dim=d))
                    else:
                        v.append(x.squeeze(d) if nd.get('form') == 'method' else torch.squeeze(x, d))
                elif k == 'unsqueeze':
                    x, d = v[nd['src']], nd['dim']
                    if nd.get('kw'):
                        v.append(x.unsqueeze(dim=d) if nd.get('form') == 'method' else torch.unsqueeze(x, dim=d))
                    else:
                        v.append(x.unsqueeze(d) if nd.get('form') == 'method' else torch.unsqueeze(x, d))
                else:
                    v.append(self.layers['n%d' % i](v[nd['src']]))
            outs = spec.get('out')
            if outs and len(outs) > 1:
                return tuple(v[j] for j in outs)
            return v[outs[0]] if outs else v[-1]

    nin_total = sum(1 for nd in nodes if nd['k'] == 'in')
    if nin_total == 1:
        class GNet1(GNet):
            def forward(self, x0):
                return self._run((x0,))
        m = GNet1()
    else:
        class GNet2(GNet):
            def forward(self, x0, x1):
                return self._run((x0, x1))
        m = GNet2()
    g = torch.Generator().manual_seed(seed)
    with torch.no_grad():
        for mod in m.modules():
            if isinstance(mod, (nn.Conv1d, nn.Conv2d, nn.Linear)):
                mod.weight.copy_(torch.randn(mod.weight.shape, generator=g) * 0.5 + 0.05)
                if mod.bias is not None:
                    mod.bias.copy_(torch.randn(mod.bias.shape, generator=g) * 0.5)
            if isinstance(mod, (nn.BatchNorm1d, nn.BatchNorm2d)):
                mod.running_mean.zero_()
                mod.running_var.copy_(torch.rand(mod.running_var.shape, generator=g) * 1.5 + 0.5)
                mod.weight.copy_(torch.rand(mod.weight.shape, generator=g) + 0.5)
                mod.bias.zero_()
    # layers the user froze (a pre-trained block that is only fine-tuned around): requires_grad = False on weight / bias
    for i, nd in enumerate(nodes):
        if nd.get('wfrozen') and 'n%d' % i in m.layers:
            for q in m.layers['n%d' % i].parameters():
                q.requires_grad_(False)
    return m


def example_input(spec, torch, seed=0, batch=3):
    g = torch.Generator().manual_seed(1000 + seed)
    return [torch.randn((batch,) + tuple(nd['shape']), generator=g) for nd in spec['nodes'] if nd['k'] == 'in']


def name(i):
    return 'layers.n%d' % i


TYPES = {'Linear': 'linear', 'Conv1d': 'conv1d', 'Conv2d': 'conv2d', 'BatchNorm1d': 'bn1d', 'BatchNorm2d': 'bn2d',
         'PITLinear': 'linear', 'PITConv1d': 'conv1d', 'PITConv2d': 'conv2d'}


def listed(spec, i):
    """node i is named in exclude_names or its module type is in exclude_types (exact type match, as plinio does)"""
    nd = spec['nodes'][i]
    if i in spec.get('exclude_names', []):
        return True
    pit = nd.get('pit') is not None
    return any(TYPES[t] == nd['k'] and t.startswith('PIT') == pit for t in spec.get('exclude_types', []))


def excluded(spec, i):
    """node i is effectively excluded from the NAS: listed, and not a hand-placed PIT layer (which stays a PIT layer)"""
    return listed(spec, i) and spec['nodes'][i].get('pit') is None


def pit_kwargs(spec, nn):
    kw = {}
    if spec.get('exclude_names'):
        kw['exclude_names'] = tuple(name(i) for i in spec['exclude_names'])
    if spec.get('exclude_types'):
        import plinio.methods.pit.nn as pnn
        kw['exclude_types'] = tuple(getattr(pnn, t) if t.startswith('PIT') else getattr(nn, t) for t in spec['exclude_types'])
    if not spec.get('autoconvert', True):
        kw['autoconvert_layers'] = False
    if spec.get('pit_thr', 0.5) != 0.5:
        # mask values strictly between 0 and 1 are used: `.features` is the NUMBER of alive features only for the discretized cost
        kw['discrete_cost'] = True
    return kw


# ----------------------------------------------------------------------------- grammar
class G(GA.G):
    def sh(self, i):
        return shapes({'nodes': self.nodes})[i]

    def flat(self, cur, start=1):
        return self.add(k='flatten', src=cur, start=start, form=self.rng.choice(['fn', 'fn', 'method', 'module']))

    def operand(self, cur, kinds):
        """one cat operand with the time/space size of `cur`; returns (node, origin tag)"""
        rng = self.rng
        o = rng.choice(kinds)
        if o == 'search':
            return self.act(self.bn(self.same_shape_conv(cur), 0.3)), o
        if o == 'fixed':
            i = self.same_shape_conv(cur)
            self.excl.append(i)
            return (self.act(i) if rng.random() < 0.4 else i), o
        if o == 'self':
            return cur, o
        if o == 'input':
            ins = [j for j, nd in enumerate(self.nodes) if nd['k'] == 'in' and tuple(nd['shape'][1:]) == tuple(self.sh(cur)[1:])]
            if ins:
                return rng.choice(ins), o
            return cur, 'self'
        if o == 'dw':
            return self.same_shape_conv(cur, dw=True), o
        if o == 'cat':
            a, _ = self.operand(cur, ['search', 'fixed', 'self', 'input'])
            b, _ = self.operand(cur, ['search', 'fixed', 'search'])
            return self.add(k='cat', src=[a, b], dim=1), o
        raise ValueError(o)

    def cat(self, cur, n=None):
        rng = self.rng
        n = n or rng.choice([2, 2, 3])
        ops = [self.operand(cur, ['search', 'search', 'fixed', 'fixed', 'self', 'input', 'input', 'dw', 'cat']) for _ in range(n)]
        self.prod.append('cat:' + '+'.join(sorted(o for _, o in ops)))
        return self.add(k='cat', src=[a for a, _ in ops], dim=1)

    def block(self, cur):
        rng = self.rng
        c = self.sh(cur)[0]
        kinds = ['conv', 'dw', 'dwchain', 'res', 'res2', 'cat', 'tcat', 'dwcat', 'addcat', 'pool', 'misc', 'xconv', 'bnalone']
        ws = [0.2, 0.07, 0.07, 0.1, 0.06, 0.2, 0.06, 0.05, 0.05, 0.04, 0.03, 0.05, 0.04]
        w = self.o.get('weights', {})
        kind = rng.choices(kinds, [w.get(k, d) for k, d in zip(kinds, ws)])[0]
        if kind not in ('cat',):
            self.prod.append(kind)
        if kind == 'conv':
            cur = self.act(self.bn(self.conv(cur)))
        elif kind == 'xconv':      # an excluded / fixed layer downstream of a searchable one
            cur = self.conv(cur)
            self.excl.append(cur)
            cur = self.act(cur)
        elif kind == 'bnalone':    # BatchNorm that cannot be fused (after an activation)
            if self.nodes[cur]['k'] in ('conv1d', 'conv2d', 'linear', 'bn1d', 'bn2d'):
                cur = self.add(k='relu', src=cur)
            cur = self.bn(cur, 1.0)
        elif kind == 'dw':
            cur = self.act(self.bn(self.conv(cur, dw=True), 0.4))
        elif kind == 'dwchain':
            a = self.act(self.bn(self.same_shape_conv(cur, dw=True), 0.3))
            b = self.same_shape_conv(a, dw=True)
            cur = self.add(k='add', src=[cur, b]) if rng.random() < 0.5 else b
        elif kind == 'res':
            a = self.bn(self.same_shape_conv(cur, cout=c), 0.4)
            a = self.act(a) if rng.random() < 0.3 else a
            cur = self.add(k=rng.choice(['add', 'add', 'add', 'sub']), src=[cur, a] if rng.random() < 0.5 else [a, cur])
            cur = self.act(cur)
        elif kind == 'res2':
            co = rng.randint(1, self.o.get('cmax', 6))
            a = self.bn(self.same_shape_conv(cur, cout=co), 0.3)
            b = self.same_shape_conv(cur, cout=co)
            if rng.random() < 0.3:
                self.excl.append(b)
            cur = self.act(self.add(k='add', src=[a, b]))
        elif kind == 'cat':
            cur = self.cat(cur)
            if rng.random() < 0.3:
                cur = self.bn(cur, 1.0)
            cur = self.act(cur)
        elif kind == 'tcat':
            if self.dim == 1 or True:
                if rng.random() < 0.5:
                    co = rng.randint(1, self.o.get('cmax', 6))
                    a = self.act(self.same_shape_conv(cur, cout=co))
                    b = self.same_shape_conv(cur, cout=co)
                    cur = self.add(k='cat', src=[a, b], dim=2)
                else:
                    cur = self.add(k='cat', src=[cur, cur] if rng.random() < 0.5 else [cur, self.add(k='relu', src=cur)], dim=2)
        elif kind == 'dwcat':
            cur = self.cat(cur, 2)
            cur = self.act(cur) if rng.random() < 0.3 else cur
            cur = self.same_shape_conv(cur, dw=True)
        elif kind == 'addcat':
            a = self.cat(cur, 2)
            b = self.same_shape_conv(cur, cout=self.sh(a)[0])
            cur = self.add(k='add', src=[a, b] if rng.random() < 0.5 else [b, a])
        elif kind == 'pool':
            sp = self.sh(cur)[1:]
            if min(sp) >= 4:
                cur = self.add(k=rng.choice(['avgpool', 'maxpool']) + '%dd' % self.dim, src=cur, ks=2)
        else:
            cur = self.add(k=rng.choice(['dropout', 'identity']), src=cur)
        return cur

    def sq_last(self, cur):
        """(N,C,H,W) -> (N,C,H,1) -> squeeze -> (N,C,H)   /   (N,C,T) -> unsqueeze(3) -> squeeze(3) -> (N,C,T):
        a squeeze of a trailing size-one axis (a Flatten calculator with multiplier 1) over a spatial size > 1"""
        rng = self.rng
        if len(self.sh(cur)) == 3:
            cur = self.add(k='gapw', src=cur)
        else:
            cur = self.add(k='unsqueeze', src=cur, dim=3, form=rng.choice(['fn', 'method']))
        return self.add(k='squeeze', src=cur, dim=3, form=rng.choice(['fn', 'method']))

    def nested(self, cur):
        """heads whose input-features calculator NESTS calculators (Flatten of Flatten, Flatten of Concat of Flatten,
        squeeze on a cat, ...), with spatial sizes > 1; result is a (N, F) tensor"""
        rng = self.rng
        kind = rng.choice(['squeeze-flatten', 'cat-of-squeezed-flatten', 'squeeze-on-cat', 'flatten-unsqueeze-flatten',
                           'cat-of-flatten-flatten', 'squeeze-conv1d-squeeze-flatten'])
        self.prod.append('head:nested:' + kind)
        if kind == 'squeeze-flatten':
            cur = self.flat(self.sq_last(cur))
        elif kind == 'cat-of-squeezed-flatten':
            a = self.sq_last(cur)
            b = self.sq_last(self.act(self.same_shape_conv(cur)))
            cur = self.add(k='cat', src=[a, b] if rng.random() < 0.5 else [b, a], dim=1)
            cur = self.flat(cur)
        elif kind == 'squeeze-on-cat':
            b = self.act(self.same_shape_conv(cur))
            c = self.add(k='cat', src=[cur, b] if rng.random() < 0.5 else [b, cur], dim=1)
            cur = self.sq_last(c)
            if rng.random() < 0.5:
                dim0, self.dim = self.dim, 1
                cur = self.act(self.conv(cur, stride_ok=False, k=rng.choice([1, 2])))
                self.dim = dim0
            cur = self.flat(cur)
        elif kind == 'flatten-unsqueeze-flatten':
            cur = self.flat(cur)
            cur = self.add(k='unsqueeze', src=cur, dim=2, form=rng.choice(['fn', 'method']))
            if rng.random() < 0.5:
                f = self.sh(cur)[0]
                cur = self.add(k='conv1d', src=cur, cin=f, cout=rng.randint(2, 5), ks=1, dil=1, stride=1, groups=1, bias=True)
            cur = self.flat(cur)
        elif kind == 'cat-of-flatten-flatten':
            a = self.flat(cur)
            b = self.flat(self.sq_last(self.act(self.same_shape_conv(cur))))
            cur = self.add(k='cat', src=[a, b] if rng.random() < 0.5 else [b, a], dim=1)
            cur = self.add(k='unsqueeze', src=cur, dim=2, form=rng.choice(['fn', 'method']))
            cur = self.flat(cur)
        else:
            cur = self.sq_last(cur)
            dim0, self.dim = self.dim, 1
            cur = self.act(self.conv(cur, stride_ok=False, k=rng.choice([1, 2])))
            self.dim = dim0
            cur = self.flat(self.sq_last(cur))
        return cur

    def head(self, cur, nout):
        rng = self.rng
        sp = self.sh(cur)[1:]
        r = rng.random()
        if rng.random() < self.o.get('p_squeeze_features', 0.12):
            # a one-channel map whose (size one) FEATURES axis is squeezed: the next axis becomes the features
            c = self.sh(cur)[0]
            if self.dim == 2:
                kk = rng.choice([1, 3])
                one = self.add(k='conv2d', src=cur, cin=c, cout=1, ks=[kk, kk], dil=1, stride=1, groups=1, bias=True, padding=kk // 2)
            else:
                one = self.add(k='conv1d', src=cur, cin=c, cout=1, ks=1, dil=1, stride=1, groups=1, bias=True)
            if rng.random() < 0.15:
                self.excl.append(one)
            one = self.act(one)
            cur = self.add(k='squeeze', src=one, dim=1, form=rng.choice(['fn', 'method']))
            if self.dim == 2:
                dim0, self.dim = self.dim, 1
                cur = self.act(self.conv(cur, stride_ok=False, k=rng.choice([1, 2, 3])))
                self.dim = dim0
                cur = self.flat(cur) if rng.random() < 0.6 else self.flat(self.add(k='gap1d', src=cur))
            self.prod.append('head:squeeze-features-axis')
            r = 2.0
        elif rng.random() < self.o.get('p_nested', 0.3):
            cur = self.nested(cur)
            r = 2.0          # none of the plain heads below
        if r >= 2.0:
            pass
        elif r < 0.22:
            cur = self.flat(self.add(k='gap%dd' % self.dim, src=cur))
            self.prod.append('head:gap-flatten')
        elif r < 0.45:
            if min(sp) >= 4 and rng.random() < 0.5:
                cur = self.add(k='avgpool%dd' % self.dim, src=cur, ks=2)
            cur = self.flat(cur)
            self.prod.append('head:flatten-spatial')
        elif r < 0.62:
            # squeeze variants down to (N, C)
            cur = self.add(k='gap%dd' % self.dim, src=cur)
            form = rng.choice(['fn', 'method'])
            if self.dim == 2:
                cur = self.add(k='squeeze', src=cur, dim=rng.choice([3, -1]), form=form)
            cur = self.add(k='squeeze', src=cur, dim=rng.choice([2, -1]), form=form)
            self.prod.append('head:gap-squeeze')
        elif r < 0.72 and self.dim == 2:
            # (N,C,H,W) -> (N,C,H*W) -> Conv1d -> flatten
            cur = self.flat(cur, start=2)
            dim0, self.dim = self.dim, 1
            cur = self.act(self.conv(cur, stride_ok=False, k=rng.choice([1, 2, 3])))
            self.dim = dim0
            cur = self.flat(cur) if rng.random() < 0.5 else self.flat(self.add(k='gap1d', src=cur))
            self.prod.append('head:flatten2-conv1d')
        elif r < 0.80 and self.dim == 2:
            # (N,C,H,W) -> (N,C,H,1) -> squeeze(3) -> (N,C,H) -> Conv1d -> flatten
            cur = self.add(k='gapw', src=cur)
            cur = self.add(k='squeeze', src=cur, dim=rng.choice([3, -1]), form=rng.choice(['fn', 'method']))
            dim0, self.dim = self.dim, 1
            cur = self.act(self.conv(cur, stride_ok=False, k=rng.choice([1, 2])))
            self.dim = dim0
            cur = self.flat(cur)
            self.prod.append('head:squeeze-spatial-conv1d')
        elif r < 0.90:
            # linear -> unsqueeze -> conv1d(k=1) -> squeeze -> linear
            cur = self.flat(self.add(k='gap%dd' % self.dim, src=cur))
            h = rng.randint(2, 5)
            cur = self.add(k='linear', src=cur, cin=self.sh(cur)[0], cout=h, bias=True)
            cur = self.add(k='unsqueeze', src=cur, dim=rng.choice([2, -1]), form=rng.choice(['fn', 'method']))
            cur = self.add(k='conv1d', src=cur, cin=h, cout=rng.randint(2, 5), ks=1, dil=1, stride=1, groups=1, bias=True)
            cur = self.add(k='squeeze', src=cur, dim=rng.choice([2, -1]), form=rng.choice(['fn', 'method']))
            self.prod.append('head:unsqueeze-conv1d-squeeze')
        else:
            # two flattened branches concatenated (cat of 2-D tensors), possibly with different spatial sizes
            a = self.flat(cur)
            b = self.flat(self.add(k='gap%dd' % self.dim, src=self.act(self.same_shape_conv(cur))))
            cur = self.add(k='cat', src=[a, b] if rng.random() < 0.5 else [b, a], dim=1)
            self.prod.append('head:cat-of-flatten')
        if len(self.sh(cur)) == 1 and self.nodes[cur]['k'] not in ('conv1d', 'conv2d', 'linear') and rng.random() < self.o.get('p_bn_after_flatten', 0.25):
            # a stand-alone BatchNorm1d on the flattened / squeezed tensor (spatial size 1 and > 1), possibly behind other propagating ops
            r2 = rng.random()
            if r2 < 0.3:
                cur = self.add(k='relu', src=cur)
            elif r2 < 0.45:
                cur = self.add(k='dropout', src=cur)
            cur = self.bn(cur, 1.0)
            if rng.random() < 0.3:
                cur = self.add(k='relu', src=cur)
            self.prod.append('head:bn-after-flatten')
        f = self.sh(cur)[-1]
        if rng.random() < 0.6:
            h = rng.randint(2, 6)
            cur = self.add(k='linear', src=cur, cin=f, cout=h, bias=rng.random() < 0.8)
            if rng.random() < 0.15:
                self.excl.append(cur)
            cur = self.act(self.bn(cur, 0.4))
            if rng.random() < 0.2:
                b = self.add(k='linear', src=self.nodes[cur]['src'] if False else cur, cin=h, cout=h, bias=True)
                cur = self.add(k='add', src=[cur, b])
                self.prod.append('head:res-linear')
            f = h
            self.prod.append('head:2fc')
        return self.add(k='linear', src=cur, cin=f, cout=nout, bias=rng.random() < 0.8)


def gen(rng, dim=None, depth=None, **opts):
    """one architecture without dead nodes (every node reaches the output)"""
    while True:
        spec = _gen(rng, dim, depth, **opts)
        live = {spec['out'][0]}
        for i in range(len(spec['nodes']) - 1, -1, -1):
            if i in live and 'src' in spec['nodes'][i]:
                s = spec['nodes'][i]['src']
                live.update([s] if isinstance(s, int) else s)
        if len(live) == len(spec['nodes']):
            respell(spec, rng, opts.get('p_negative_axis', 0.4))
            attributes(spec, rng, opts)
            return spec


def _gen(rng, dim=None, depth=None, **opts):
    dim = dim or rng.choice([1, 2])
    g = G(rng, dim, opts)
    g.excl = []
    cin = opts.get('cin') or rng.randint(1, 4)
    two = rng.random() < opts.get('p_two_inputs', 0.15)
    if dim == 1:
        T = opts.get('T') or rng.randint(8, 14)
        shp = [cin, T]
    else:
        hw = opts.get('HW') or rng.randint(5, 8)
        shp = [cin, hw, hw]
    x0 = g.add(k='in', shape=shp)
    cur = x0
    if two:
        shp2 = [rng.randint(1, 3)] + shp[1:]
        x1 = g.add(k='in', shape=shp2)
        g.prod.append('two-inputs')
        r = rng.random()
        if r < 0.4:
            cur = g.add(k='cat', src=[x0, x1], dim=1)
        elif r < 0.7:
            a = g.act(g.same_shape_conv(x0))
            b = g.same_shape_conv(x1)
            cur = g.add(k='cat', src=[a, b], dim=1)
        else:
            co = rng.randint(2, 5)
            a = g.same_shape_conv(x0, cout=co)
            b = g.same_shape_conv(x1, cout=co)
            cur = g.add(k='add', src=[a, b])
    r = rng.random()
    if r < 0.75 or two:
        g.prod.append('stem')
        cur = g.act(g.bn(g.conv(cur)))
    elif r < 0.9:
        g.prod.append('stem:cat-with-input')
        a = g.act(g.same_shape_conv(cur))
        cur = g.add(k='cat', src=[cur, a] if rng.random() < 0.5 else [a, cur], dim=1)
    else:
        g.prod.append('stem:excluded')
        cur = g.same_shape_conv(cur)
        g.excl.append(cur)
        cur = g.act(cur)
    for _ in range(depth if depth is not None else rng.randint(1, 4)):
        cur = g.block(cur)
    cur = g.head(cur, rng.randint(2, 4))
    spec = {'dim': dim, 'nodes': g.nodes, 'out': [cur], 'productions': g.prod}
    # exclusion: by name for the nodes the derivation marked as fixed, or by type
    r = rng.random()
    if r < 0.12:
        spec['exclude_types'] = [rng.choice(['Linear', 'Conv%dd' % dim, 'Linear', 'BatchNorm%dd' % dim])]
        g.prod.append('exclude-type:' + spec['exclude_types'][0])
    else:
        names = sorted(set(g.excl))
        if rng.random() < 0.15:
            layers = [i for i, nd in enumerate(g.nodes) if nd['k'] in ('conv1d', 'conv2d', 'linear')]
            names = sorted(set(names + rng.sample(layers, min(len(layers), rng.randint(1, 2)))))
        if names:
            spec['exclude_names'] = names
            g.prod.append('exclude-names')
    r = rng.random()
    if r < opts.get('p_noauto', 0.10) and 'exclude_types' not in spec:
        user_pit(spec, rng, auto=False)
        g.prod.append('autoconvert-off')
    elif r < opts.get('p_noauto', 0.10) + opts.get('p_placed', 0.08) and 'exclude_types' not in spec:
        user_pit(spec, rng, auto=True)
        g.prod.append('autoconvert-on-with-placed-pit-layers')
    elif r < opts.get('p_noauto', 0.10) + opts.get('p_placed', 0.08) + opts.get('p_rewrap', 0.10):
        # PIT(model) -> masks assigned -> train_features = False -> PIT(pit.seed, autoconvert_layers=False, train_features=False)
        spec['rewrap'] = True
        g.prod.append('rewrap-with-features-frozen')
    return spec


def attributes(spec, rng, opts):
    """per-layer attributes that do not change the dataflow: weight-frozen layers (requires_grad False on weight / bias of a random
    subset of conv / linear / BatchNorm layers before PIT(...)), and — rarely — a cat spelled with an alias (torch.concat /
    torch.concatenate), which PLiNIO may refuse at construction (ValueError: Unsupported node) but must handle correctly if it accepts it"""
    nodes = spec['nodes']
    if rng.random() < opts.get('p_weight_frozen', 0.3):
        layers = [i for i, nd in enumerate(nodes) if nd['k'] in ('conv1d', 'conv2d', 'linear', 'bn1d', 'bn2d') and nd.get('pit') is None]
        for i in rng.sample(layers, min(len(layers), rng.randint(1, 3))):
            nodes[i]['wfrozen'] = True
        spec.setdefault('productions', []).append('weight-frozen-layers')
    cats = [i for i, nd in enumerate(nodes) if nd['k'] == 'cat']
    if cats and rng.random() < opts.get('p_cat_alias', 0.05):
        nodes[rng.choice(cats)]['alias'] = rng.choice(['concat', 'concatenate'])
        spec.setdefault('productions', []).append('cat-alias')


def respell(spec, rng, p_neg):
    """axis spellings: every axis-taking op (cat, flatten, squeeze, unsqueeze) gets its axis written either
    from the front or from the end (negative index), as keyword or positional argument.  The fields 'dim' of cat
    and 'start' of flatten stay NORMALISED (the IR node depends on the normalised axis only); the spelled value
    is in 'sdim' / 'sstart'; squeeze / unsqueeze keep the spelled value in 'dim'."""
    sh = shapes(spec)
    neg = False
    for i, nd in enumerate(spec['nodes']):
        k = nd['k']
        if k not in ('cat', 'flatten', 'squeeze', 'unsqueeze'):
            continue
        src = nd['src'] if isinstance(nd['src'], int) else nd['src'][0]
        rank = len(sh[src]) + 1                      # with the batch axis
        nd['kw'] = rng.random() < 0.5
        flip = rng.random() < p_neg
        if k == 'cat':
            nd['sdim'] = nd['dim'] - rank if flip else nd['dim']
            if not flip:
                nd['kw'] = True if rng.random() < 0.5 else nd['kw']
        elif k == 'flatten':
            st = nd.get('start', 1)
            nd['sstart'] = st - rank if flip else st
        elif k == 'squeeze':
            a = nd['dim'] if nd['dim'] >= 0 else rank + nd['dim']
            nd['dim'] = a - rank if flip else a
        else:
            a = nd['dim'] if nd['dim'] >= 0 else rank + 1 + nd['dim']
            nd['dim'] = a - (rank + 1) if flip else a
        neg = neg or flip
    if neg:
        spec.setdefault('productions', []).append('negative-axis')


def user_pit(spec, rng, auto=False):
    """the user places PIT layers himself (autoconvert_layers=False, or True with hand-placed layers).  A careful user: every
    non-excluded conv / linear becomes a PIT layer with the masker sharing a correct conversion needs (reference partition),
    frozen where the tensor is tied to a network input/output or to a fixed layer.  Excluded layers stay nn layers.  Some of the
    hand-placed PIT layers are ALSO named in exclude_names / exclude_types: they stay PIT layers and must be exported."""
    from . import c09 as C
    spec['autoconvert'] = auto
    ex = [i for i in range(len(spec['nodes'])) if excluded(spec, i)]
    for i, nd in enumerate(spec['nodes']):
        if nd['k'] in ('conv1d', 'conv2d', 'linear') and i not in ex:
            nd['pit'] = 0
    part = C.ref_partition(spec)
    placed = []
    for i, nd in enumerate(spec['nodes']):
        if nd.get('pit') is not None:
            nd['pit'], nd['pit_frozen'] = part[i]
            placed.append(i)
    # some of the user's (non-frozen) maskers are created with trainable=False: they still mask what their alpha selects
    for c in sorted(set(spec['nodes'][i]['pit'] for i in placed if not spec['nodes'][i]['pit_frozen'])):
        if rng.random() < 0.35:
            for i in placed:
                if spec['nodes'][i]['pit'] == c:
                    spec['nodes'][i]['pit_untrainable'] = True
            if 'untrainable-placed-masker' not in spec.get('productions', []):
                spec.setdefault('productions', []).append('untrainable-placed-masker')
    # a non-default binarization threshold on the hand-placed layers (mask values between it and 0.5 are then used)
    if placed and rng.random() < 0.5:
        spec['pit_thr'] = rng.choice([0.3, 0.3, 0.7])
        spec.setdefault('productions', []).append('placed-layers-threshold-%s' % spec['pit_thr'])
    r = rng.random()
    if placed and r < 0.55:
        spec['exclude_names'] = sorted(set(spec.get('exclude_names', []) + rng.sample(placed, min(len(placed), rng.randint(1, 2)))))
        spec.setdefault('productions', []).append('placed-pit-layer-in-exclude-names')
    elif placed and r < 0.75 and 'exclude_types' not in spec:
        k = spec['nodes'][rng.choice(placed)]['k']
        spec['exclude_types'] = [{'conv1d': 'PITConv1d', 'conv2d': 'PITConv2d', 'linear': 'PITLinear'}[k]]
        spec.setdefault('productions', []).append('placed-pit-layer-in-exclude-types')


def gen_mps(rng):
    """small 2-D architectures for the MPS (PER_CHANNEL, 0-bit = channel pruning) stream: plain convolutions, residual adds of
    (producer, conv) and of two convolutions, channel cats of searchable / pass-through tensors, pooling, and heads
    add/cat -> relu -> pool -> flatten -> fc with spatial size 1 and > 1"""
    g = G(rng, 2, {'cmax': 6, 'bn': False, 'p_stride': 0.0})
    g.excl = []
    hw = rng.choice([4, 6, 8])
    cur = g.add(k='in', shape=[rng.randint(1, 3), hw, hw])

    def conv(src, cout=None):
        c = g.sh(src)[0]
        kk = rng.choice([1, 3])
        return g.add(k='conv2d', src=src, cin=c, cout=cout or rng.randint(2, 6), ks=[kk, kk], dil=1, stride=1, groups=1, bias=True, padding=kk // 2)
    cur = g.add(k='relu', src=conv(cur))
    g.prod.append('mps:stem')
    for _ in range(rng.randint(1, 3)):
        kind = rng.choice(['conv', 'res', 'res', 'res2', 'cat', 'pool'])
        g.prod.append('mps:' + kind)
        c = g.sh(cur)[0]
        if kind == 'conv':
            cur = g.add(k='relu', src=conv(cur))
        elif kind == 'res':
            a = conv(cur, c)
            cur = g.add(k='add', src=[cur, a] if rng.random() < 0.5 else [a, cur])
            cur = g.add(k=rng.choice(['relu', 'relu_f']), src=cur) if rng.random() < 0.7 else cur
        elif kind == 'res2':
            co = rng.randint(2, 6)
            a, b = conv(cur, co), conv(cur, co)
            cur = g.add(k='relu', src=g.add(k='add', src=[a, b]))
        elif kind == 'cat':
            # operands of equal width: MPS lets the operands of a cat share one per-channel weight quantizer
            # (its sharing graph is not cut at concatenations), different widths do not construct
            a = g.add(k='relu', src=conv(cur, c if rng.random() < 0.5 else None))
            through_cat = any(nd['k'] == 'cat' for nd in g.nodes)     # a pass-through operand would tie this cat to an earlier one
            b = cur if g.sh(a)[0] == c and not through_cat and rng.random() < 0.5 else conv(cur, g.sh(a)[0])
            cur = g.add(k='cat', src=[a, b] if rng.random() < 0.5 else [b, a], dim=1)
        elif min(g.sh(cur)[1:]) >= 4:
            cur = g.add(k=rng.choice(['avgpool2d', 'maxpool2d']), src=cur, ks=2)
    r = rng.random()
    if r < 0.4 and min(g.sh(cur)[1:]) >= 2:
        cur = g.add(k='avgpool2d', src=cur, ks=2)
        g.prod.append('mps:head-pool-flatten')
    elif r < 0.7:
        cur = g.add(k='gap2d', src=cur)
        g.prod.append('mps:head-gap-flatten')
    else:
        g.prod.append('mps:head-flatten')
    cur = g.add(k='flatten', src=cur, start=1, form=rng.choice(['fn', 'method', 'module']))
    f = g.sh(cur)[0]
    if rng.random() < 0.5:
        h = rng.randint(2, 5)
        cur = g.add(k='relu', src=g.add(k='linear', src=cur, cin=f, cout=h, bias=True))
        f = h
    cur = g.add(k='linear', src=cur, cin=f, cout=rng.randint(2, 4), bias=True)
    spec = {'dim': 2, 'nodes': g.nodes, 'out': [cur], 'productions': g.prod, 'method': 'mps'}
    if rng.random() < 0.5:
        # layer-specific qinfo entries (same content as the default) named after one or two conv / linear layers
        layers = [i for i, nd in enumerate(g.nodes) if nd['k'] in ('conv2d', 'linear')]
        spec['qinfo_layers'] = sorted(rng.sample(layers, min(len(layers), rng.randint(1, 2))))
        g.prod.append('mps:layer-specific-qinfo')
    return spec


def describe(spec):
    def ax(nd):
        d = nd.get('sdim', nd.get('dim')) if nd['k'] == 'cat' else nd.get('sstart') if nd['k'] == 'flatten' else nd.get('dim') if nd['k'] in ('squeeze', 'unsqueeze') else None
        return '' if d is None or (nd['k'] == 'cat' and d == 1) or (nd['k'] == 'flatten' and d == 1) else '[%s%d]' % ('dim=' if nd.get('kw') else '', d)
    s = ' '.join('%d:%s%s' % (i, nd['k'] + (':' + nd['alias'] if nd.get('alias') else '') + ax(nd) + ('*' if listed(spec, i) else '') + ('#' if nd.get('wfrozen') else '') + ('!' if nd.get('pit') is not None else ''), ('<-' + str(nd['src'])) if 'src' in nd else '') for i, nd in enumerate(spec['nodes']))
    if spec.get('exclude_types'):
        s += ' exclude_types=%s' % spec['exclude_types']
    if not spec.get('autoconvert', True):
        s += ' autoconvert=off'
    if spec.get('rewrap'):
        s += ' rewrap(train_features=False)'
    if spec.get('pit_thr', 0.5) != 0.5:
        s += ' binarization_threshold=%s' % spec['pit_thr']
    if spec.get('qinfo_layers'):
        s += ' qinfo_entries=%s' % spec['qinfo_layers']
    if any(nd.get('pit_untrainable') for nd in spec['nodes']):
        s += ' untrainable-maskers=%s' % sorted(set(nd['pit'] for nd in spec['nodes'] if nd.get('pit_untrainable')))
    return s
