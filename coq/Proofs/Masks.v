From Coq Require Import Sorted.
From Coq Require Import QArith ZArith List Bool Arith Lia Lqa.
Import ListNotations.
Require Import Plinio.Base.Qx Plinio.Model.Masks.
Local Open Scope nat_scope.

(* ---------------------------------------------------------------- generic list facts *)
Lemma nth_map_seq {A} (f : nat -> A) K j d : j < K -> nth j (map f (seq 0 K)) d = f j.
Proof.
  intro H. rewrite (nth_indep _ d (f 0)) by (rewrite map_length, seq_length; exact H).
  rewrite map_nth, seq_nth by exact H. reflexivity.
Qed.

Lemma nth_map_default {A B} (f : A -> B) l j d d' : j < length l -> nth j (map f l) d = f (nth j l d').
Proof. intro H. rewrite (nth_indep _ d (f d')) by (rewrite map_length; exact H). apply map_nth. Qed.

Lemma count_true_pos m j : nth j m false = true -> 1 <= count_true m.
Proof.
  unfold count_true. revert j. induction m as [|b m IH]; intros j H; [destruct j; discriminate|].
  destruct j as [|j]; cbn in H; [subst; cbn; lia|].
  specialize (IH j H). cbn. destruct b; cbn; lia.
Qed.

Lemma qsum_cons x l : qsum (x :: l) = (x + qsum l)%Q.
Proof. reflexivity. Qed.
Lemma qsum_nil : qsum [] = 0%Q.
Proof. reflexivity. Qed.

Lemma qsum_nonneg l : Forall (fun x => (0 <= x)%Q) l -> (0 <= qsum l)%Q.
Proof. induction 1 as [|x l Hx Hl IH]; [rewrite qsum_nil; apply Qle_refl|]. rewrite qsum_cons. lra. Qed.

Lemma qsum_app a b : (qsum (a ++ b) == qsum a + qsum b)%Q.
Proof. induction a as [|x a IH]; [cbn [app]; rewrite qsum_nil; lra|]. cbn [app]. rewrite !qsum_cons, IH. lra. Qed.

Lemma bin_true x : bin x = true <-> ((1 # 2) < x)%Q.
Proof. unfold bin. apply qlt_bool_iff. Qed.
Lemma bin_false x : bin x = false <-> (x <= 1 # 2)%Q.
Proof.
  unfold bin. split; intro H.
  - apply Qnot_lt_le. intro H'. apply qlt_bool_iff in H'. congruence.
  - destruct (qlt_bool (1 # 2) x) eqn:E; [|reflexivity]. apply qlt_bool_iff in E. lra.
Qed.

(* ---------------------------------------------------------------- keep-alive *)
Lemma keep_alive_length p : length (keep_alive p) = length p.
Proof.
  induction p as [|x t IH]; [reflexivity|]. destruct t as [|y t]; [reflexivity|].
  change (keep_alive (x :: y :: t)) with (qabs x :: keep_alive (y :: t)). cbn [length]. rewrite IH. reflexivity.
Qed.

Lemma qabs_nonneg x : (0 <= qabs x)%Q.
Proof. destruct (qabs_cases x) as [[H E]|[H E]]; rewrite E; lra. Qed.

Lemma keep_alive_nonneg p : Forall (fun x => (0 <= x)%Q) (keep_alive p).
Proof.
  induction p as [|x t IH]; [constructor|]. destruct t as [|y t]; [repeat constructor; lra|].
  change (keep_alive (x :: y :: t)) with (qabs x :: keep_alive (y :: t)). constructor; [apply qabs_nonneg|exact IH].
Qed.

Lemma keep_alive_last p : p <> [] -> nth (length p - 1) (keep_alive p) 0%Q = 1%Q.
Proof.
  induction p as [|x t IH]; [congruence|]. intros _. destruct t as [|y t]; [reflexivity|].
  change (keep_alive (x :: y :: t)) with (qabs x :: keep_alive (y :: t)).
  replace (length (x :: y :: t) - 1) with (S (length (y :: t) - 1)) by (cbn; lia).
  cbn [nth]. apply IH. discriminate.
Qed.

Lemma nth_nonneg l i : Forall (fun x => (0 <= x)%Q) l -> (0 <= nth i l 0)%Q.
Proof.
  intro H. revert i. induction H as [|x l Hx Hl IH]; intro i; destruct i; cbn [nth]; try apply Qle_refl; try exact Hx; apply IH.
Qed.

(* every element of a non-negative list is below the total *)
Lemma nth_le_qsum l i : Forall (fun x => (0 <= x)%Q) l -> (nth i l 0 <= qsum l)%Q.
Proof.
  intro H. revert i. induction H as [|x l Hx Hl IH]; intro i; destruct i; cbn [nth]; rewrite ?qsum_nil, ?qsum_cons; try apply Qle_refl.
  - pose proof (qsum_nonneg l Hl). lra.
  - specialize (IH i). lra.
Qed.

(* ---------------------------------------------------------------- alpha *)
Theorem alpha_alive alpha : alpha <> [] -> 1 <= out_features_opt alpha.
Proof.
  intro H. unfold out_features_opt, features_mask, theta_alpha.
  apply (count_true_pos _ (length alpha - 1)).
  assert (Hl : length alpha - 1 < length (keep_alive alpha)).
  { rewrite keep_alive_length. destruct alpha; [congruence|cbn; lia]. }
  rewrite (nth_indep _ false (bin 0%Q)) by (rewrite map_length; exact Hl).
  rewrite map_nth, keep_alive_last by exact H. reflexivity.
Qed.

Theorem frozen_full_width alpha : Forall (fun x => bin x = true) (theta_alpha_frozen alpha).
Proof. unfold theta_alpha_frozen. apply Forall_forall. intros x Hx. apply in_map_iff in Hx as [y [E _]]. subst. reflexivity. Qed.

(* ---------------------------------------------------------------- beta: cumulative sums, suffix mask *)
Lemma firstn_S_sum l t : t < length l -> (qsum (firstn (S t) l) == qsum (firstn t l) + nth t l 0)%Q.
Proof.
  revert t. induction l as [|x l IH]; intros t Ht; [cbn in Ht; lia|].
  destruct t as [|t]; [cbn [firstn nth]; rewrite !qsum_cons, !qsum_nil; lra|].
  change (firstn (S (S t)) (x :: l)) with (x :: firstn (S t) l). change (firstn (S t) (x :: l)) with (x :: firstn t l).
  cbn [nth]. rewrite !qsum_cons. rewrite IH by (cbn in Ht; lia). lra.
Qed.

Lemma least_true : forall n (f : nat -> bool), f n = true ->
  exists s, s <= n /\ f s = true /\ forall t, t < s -> f t = false.
Proof.
  induction n as [|n IH]; intros f Hn.
  - exists 0. split; [lia|]. split; [exact Hn|]. intros t Ht. lia.
  - destruct (f 0) eqn:E0.
    + exists 0. split; [lia|]. split; [exact E0|]. intros t Ht. lia.
    + destruct (IH (fun t => f (S t)) Hn) as [s [Hs [Hfs Hlt]]].
      exists (S s). split; [lia|]. split; [exact Hfs|]. intros t Ht.
      destruct t as [|t]; [exact E0|]. apply Hlt. lia.
Qed.

Lemma mono_prop (f : nat -> bool) K : (forall t, S t < K -> f t = true -> f (S t) = true) ->
  forall u t, t <= u -> u < K -> f t = true -> f u = true.
Proof.
  intros Hmono u. induction u as [|u IH]; intros t Htu Hu Ht.
  - replace t with 0 in Ht by lia. exact Ht.
  - destruct (Nat.eq_dec t (S u)) as [E|NE]; [subst; exact Ht|].
    apply Hmono; [exact Hu|]. apply (IH t); [lia|lia|exact Ht].
Qed.

Lemma mono_bool_suffix (f : nat -> bool) K : 1 <= K -> f (K - 1) = true ->
  (forall t, S t < K -> f t = true -> f (S t) = true) ->
  exists r, 1 <= r <= K /\ forall t, t < K -> f t = (K - r <=? t).
Proof.
  intros HK Hlast Hmono.
  destruct (least_true (K - 1) f Hlast) as [s [Hs [Hfs Hlt]]].
  exists (K - s). split; [lia|]. intros t Ht.
  destruct (Nat.leb_spec (K - (K - s)) t) as [H|H].
  - apply (mono_prop f K Hmono t s); [lia|exact Ht|exact Hfs].
  - apply Hlt. lia.
Qed.

Theorem beta_suffix beta : beta <> [] ->
  let K := length beta in
  exists r, 1 <= r <= K /\ forall t, t < K -> nth t (map bin (theta_beta beta)) false = (K - r <=? t).
Proof.
  intro Hne. cbn zeta. set (K := length beta).
  assert (HK : 1 <= K) by (unfold K; destruct beta; [congruence|cbn; lia]).
  set (ka := keep_alive beta).
  assert (Hka : Forall (fun x => (0 <= x)%Q) ka) by apply keep_alive_nonneg.
  assert (Hlen : length ka = K) by apply keep_alive_length.
  set (f := fun t => bin (qsum (firstn (S t) ka))).
  assert (Hnth : forall t, t < K -> nth t (map bin (theta_beta beta)) false = f t).
  { intros t Ht. unfold theta_beta. fold ka. fold K. rewrite map_map. rewrite nth_map_seq by exact Ht. reflexivity. }
  destruct (mono_bool_suffix f K HK) as [r [Hr Hf]].
  - unfold f. apply bin_true. replace (S (K - 1)) with K by lia.
    rewrite <- Hlen, firstn_all.
    pose proof (nth_le_qsum ka (K - 1) Hka) as H. unfold ka, K in H. rewrite keep_alive_last in H by exact Hne. fold ka in H. lra.
  - intros t Ht. unfold f. rewrite !bin_true. intro H.
    rewrite (firstn_S_sum ka (S t)) by lia. pose proof (nth_nonneg ka (S t) Hka). lra.
  - exists r. split; [exact Hr|]. intros t Ht. rewrite Hnth by exact Ht. apply Hf. exact Ht.
Qed.

(* ---------------------------------------------------------------- gamma: power-of-two comb *)
Definition gterm (ka : list Q) (d i : nat) : Q := if Nat.eqb (d mod 2 ^ i) 0 then nth i ka 0%Q else 0%Q.

Lemma qsum_map_ext {A} (f g : A -> Q) l : (forall x, In x l -> (f x == g x)%Q) -> (qsum (map f l) == qsum (map g l))%Q.
Proof. induction l as [|x l IH]; intro H; cbn [map]; [lra|]. rewrite !qsum_cons. rewrite (H x) by (left; reflexivity). rewrite IH; [lra|]. intros; apply H; right; assumption. Qed.

Lemma qsum_map_nonneg {A} (f : A -> Q) l : (forall x, In x l -> (0 <= f x)%Q) -> (0 <= qsum (map f l))%Q.
Proof. intro H. apply qsum_nonneg. apply Forall_forall. intros y Hy. apply in_map_iff in Hy as [x [E Hx]]. subst. apply H. exact Hx. Qed.

Lemma qsum_map_zero {A} (f : A -> Q) l : (forall x, In x l -> (f x == 0)%Q) -> (qsum (map f l) == 0)%Q.
Proof. induction l as [|x l IH]; intro H; cbn [map]; [rewrite qsum_nil; lra|]. rewrite !qsum_cons. rewrite (H x) by (left; reflexivity). rewrite IH; [lra|]. intros; apply H; right; assumption. Qed.

Lemma firstn_as_map l n : n <= length l -> (qsum (firstn n l) == qsum (map (fun i => nth i l 0%Q) (seq 0 n)))%Q.
Proof.
  revert l. induction n as [|n IH]; intros l Hn; [cbn [firstn seq map]; lra|].
  rewrite seq_S, map_app, qsum_app. cbn [map plus]. rewrite qsum_cons, qsum_nil.
  rewrite <- IH by lia. rewrite (firstn_S_sum l n) by lia. lra.
Qed.

Lemma pow2_divide i v d : i <= v -> d mod 2 ^ v = 0 -> d mod 2 ^ i = 0.
Proof.
  intros Hiv H. apply Nat.mod_divide in H; [|apply Nat.pow_nonzero; lia].
  apply Nat.mod_divide; [apply Nat.pow_nonzero; lia|].
  eapply Nat.divide_trans; [|exact H]. exists (2 ^ (v - i)). rewrite <- Nat.pow_add_r. f_equal. lia.
Qed.

Theorem gamma_comb K gamma : gamma <> [] ->
  exists v, v < length gamma /\
    forall j, j < K -> nth j (map bin (theta_gamma true K gamma)) false = Nat.eqb ((K - 1 - j) mod 2 ^ v) 0.
Proof.
  intro Hne. set (L := length gamma). set (ka := keep_alive gamma).
  assert (HL : 1 <= L) by (unfold L; destruct gamma; [congruence|cbn; lia]).
  assert (Hka : Forall (fun x => (0 <= x)%Q) ka) by apply keep_alive_nonneg.
  assert (Hlen : length ka = L) by apply keep_alive_length.
  set (P := fun m => bin (qsum (firstn (S m) ka))).
  (* P is monotone and true at L-1: it is a suffix of [0, L) *)
  destruct (mono_bool_suffix P L HL) as [r [Hr HP]].
  - unfold P. apply bin_true. replace (S (L - 1)) with L by lia. rewrite <- Hlen, firstn_all.
    pose proof (nth_le_qsum ka (L - 1) Hka) as H. unfold ka, L in H. rewrite keep_alive_last in H by exact Hne. fold ka in H. lra.
  - intros t Ht. unfold P. rewrite !bin_true. intro H.
    rewrite (firstn_S_sum ka (S t)) by lia. pose proof (nth_nonneg ka (S t) Hka). lra.
  - set (v := L - r). exists v. split; [unfold v; lia|]. intros j Hj.
    unfold theta_gamma. fold ka. rewrite map_map. rewrite nth_map_seq by exact Hj.
    unfold dist. set (d := K - 1 - j). unfold theta_gamma_at. rewrite Hlen.
    change (fun i : nat => if (d mod 2 ^ i =? 0) then nth i ka 0%Q else 0%Q) with (gterm ka d).
    assert (Hv : v < L) by (unfold v; lia).
    assert (Hsplit : seq 0 L = seq 0 v ++ seq v (L - v)).
    { replace L with (v + (L - v)) at 1 by lia. apply seq_app. }
    assert (Hnn : forall l, (0 <= qsum (map (gterm ka d) l))%Q).
    { intro l. apply qsum_map_nonneg. intros i _. unfold gterm. destruct (d mod 2 ^ i =? 0); [apply nth_nonneg; exact Hka|lra]. }
    destruct (Nat.eqb_spec (d mod 2 ^ v) 0) as [Hd|Hd].
    + (* all levels i <= v divide d: theta >= P(v) > 1/2 *)
      apply bin_true.
      assert (HPv : P v = true) by (rewrite HP by exact Hv; apply Nat.leb_le; unfold v; lia).
      unfold P in HPv. apply bin_true in HPv. rewrite firstn_as_map in HPv by lia.
      assert (Hs2 : seq 0 L = seq 0 (S v) ++ seq (S v) (L - S v)).
      { replace L with (S v + (L - S v)) at 1 by lia. apply seq_app. }
      rewrite Hs2, map_app, qsum_app.
      assert (E : (qsum (map (gterm ka d) (seq 0 (S v))) == qsum (map (fun i => nth i ka 0%Q) (seq 0 (S v))))%Q).
      { apply qsum_map_ext. intros i Hi. apply in_seq in Hi. unfold gterm.
        rewrite (pow2_divide i v d) by (try lia; exact Hd). reflexivity. }
      rewrite E. pose proof (Hnn (seq (S v) (L - S v))). lra.
    + (* no level i >= v divides d: theta <= P(v-1) <= 1/2 *)
      apply bin_false. rewrite Hsplit, map_app, qsum_app.
      assert (Ez : (qsum (map (gterm ka d) (seq v (L - v))) == 0)%Q).
      { apply qsum_map_zero. intros i Hi. apply in_seq in Hi. unfold gterm.
        destruct (Nat.eqb_spec (d mod 2 ^ i) 0) as [Hi0|]; [|reflexivity].
        exfalso. apply Hd. apply (pow2_divide v i d); [lia|exact Hi0]. }
      rewrite Ez.
      assert (Hle : (qsum (map (gterm ka d) (seq 0 v)) <= qsum (map (fun i => nth i ka 0%Q) (seq 0 v)))%Q).
      { generalize (seq 0 v) as l0. intro l0. clear - Hka. induction l0 as [|i l IH]; cbn [map]; [lra|]. rewrite !qsum_cons. unfold gterm at 1.
        destruct (d mod 2 ^ i =? 0); [lra|]. pose proof (nth_nonneg ka i Hka). lra. }
      destruct (Nat.eq_dec v 0) as [E0|NE0].
      * rewrite E0 in Hle |- *. cbn [seq map] in Hle |- *. rewrite qsum_nil in *. lra.
      * assert (HPv' : P (v - 1) = false).
        { rewrite HP by lia. apply Nat.leb_gt. unfold v in *. lia. }
        unfold P in HPv'. apply bin_false in HPv'. replace (S (v - 1)) with v in HPv' by lia.
        rewrite firstn_as_map in HPv' by lia. lra.
Qed.

(* ---------------------------------------------------------------- time mask *)
Lemma theta_beta_length beta : length (theta_beta beta) = length beta.
Proof. unfold theta_beta. rewrite map_length, seq_length. reflexivity. Qed.
Lemma theta_gamma_length f K gamma : length (theta_gamma f K gamma) = K.
Proof. unfold theta_gamma. rewrite map_length, seq_length. reflexivity. Qed.

Lemma time_mask_nth K beta gamma j : length beta = K -> j < K ->
  nth j (time_mask true K beta gamma) false =
  nth j (map bin (theta_gamma true K gamma)) false && nth j (map bin (theta_beta beta)) false.
Proof.
  intros Hb Hj. unfold time_mask.
  rewrite (nth_map_default _ _ j false (0%Q, 0%Q)) by (rewrite combine_length, theta_gamma_length, theta_beta_length, Hb; lia).
  rewrite combine_nth by (rewrite theta_gamma_length, theta_beta_length; lia). cbn [fst snd].
  rewrite (nth_map_default bin _ j false 0%Q) by (rewrite theta_gamma_length; exact Hj).
  rewrite (nth_map_default bin (theta_beta beta) j false 0%Q) by (rewrite theta_beta_length; lia).
  reflexivity.
Qed.

(* the time mask is determined by a receptive-field length r and a comb level v *)
Definition pattern (K r v : nat) : list bool :=
  map (fun j => Nat.eqb ((K - 1 - j) mod 2 ^ v) 0 && (K - r <=? j)) (seq 0 K).
Definition comb_pattern (K v : nat) : list bool := map (fun j => Nat.eqb ((K - 1 - j) mod 2 ^ v) 0) (seq 0 K).

Theorem time_mask_pattern K beta gamma : 1 <= K -> length beta = K -> gamma <> [] ->
  exists r v, 1 <= r <= K /\ v < length gamma /\
    time_mask true K beta gamma = pattern K r v /\ map bin (theta_gamma true K gamma) = comb_pattern K v.
Proof.
  intros HK Hb Hg.
  assert (Hbne : beta <> []) by (destruct beta; [cbn in Hb; lia|discriminate]).
  destruct (beta_suffix beta Hbne) as [r [Hr Hbeta]]. rewrite Hb in *.
  destruct (gamma_comb K gamma Hg) as [v [Hv Hgamma]].
  exists r, v. repeat split; try lia.
  - apply (nth_ext _ _ false false).
    + unfold time_mask, pattern. rewrite !map_length, combine_length, theta_gamma_length, theta_beta_length, seq_length, Hb. lia.
    + intros j Hj. unfold time_mask in Hj. rewrite map_length, combine_length, theta_gamma_length, theta_beta_length, Hb in Hj.
      assert (Hj' : j < K) by lia.
      rewrite time_mask_nth by assumption. rewrite Hgamma, Hbeta by exact Hj'.
      unfold pattern. rewrite nth_map_seq by exact Hj'. reflexivity.
  - apply (nth_ext _ _ false false).
    + unfold comb_pattern. rewrite !map_length, theta_gamma_length, seq_length. reflexivity.
    + intros j Hj. rewrite map_length, theta_gamma_length in Hj. rewrite Hgamma by exact Hj.
      unfold comb_pattern. rewrite nth_map_seq by exact Hj. reflexivity.
Qed.

Theorem time_mask_nonempty K beta gamma : 1 <= K -> length beta = K -> gamma <> [] ->
  1 <= kernel_size_opt true K beta gamma.
Proof.
  intros HK Hb Hg. destruct (time_mask_pattern K beta gamma HK Hb Hg) as [r [v [Hr [Hv [E _]]]]].
  unfold kernel_size_opt. rewrite E. apply (count_true_pos _ (K - 1)).
  unfold pattern. rewrite nth_map_seq by lia. replace (K - 1 - (K - 1)) with 0 by lia.
  rewrite Nat.mod_0_l by (apply Nat.pow_nonzero; lia). cbn. apply Nat.leb_le. lia.
Qed.

Theorem dilation_opt_ge_1 K d0 gamma : 1 <= d0 -> 1 <= dilation_opt true K d0 gamma.
Proof. intro H. unfold dilation_opt. nia. Qed.

(* ---------------------------------------------------------------- tap combinatorics, for EVERY K:
   for every pattern the kept taps are an arithmetic progression ending at the most recent timestep,
   whose step is the exported dilation and whose length is the exported kernel size *)
(* ---------- longest zero run of a comb with spacing s, for every K *)
Definition comb_s (s K : nat) : list bool := map (fun j => Nat.eqb ((K - 1 - j) mod s) 0) (seq 0 K).

Lemma comb_s_S s K : comb_s s (S K) = Nat.eqb (K mod s) 0 :: comb_s s K.
Proof.
  unfold comb_s. rewrite <- cons_seq, <- seq_shift. cbn [map]. rewrite map_map.
  f_equal.
  - replace (S K - 1 - 0) with K by lia. reflexivity.
  - apply map_ext. intro j. replace (S K - 1 - S j) with (K - 1 - j) by lia. reflexivity.
Qed.

Definition runF (s K cur : nat) : nat :=
  match K with
  | 0 => cur
  | S k => Nat.max (cur + k mod s) (if Nat.leb 1 (k / s) then s - 1 else 0)
  end.

Lemma lzr_comb s K : 1 <= s -> forall cur best, lzr (comb_s s K) cur best = Nat.max best (runF s K cur).
Proof.
  intro Hs. induction K as [|K IH]; intros cur best.
  - cbn. lia.
  - rewrite comb_s_S. destruct (Nat.eqb (K mod s) 0) eqn:E.
    + apply Nat.eqb_eq in E. cbn [lzr]. rewrite IH.
      unfold runF at 2. 
      destruct K as [|k].
      * cbn [runF]. rewrite Nat.mod_0_l, Nat.div_0_l by lia. cbn. lia.
      * cbn [runF].
        pose proof (Nat.div_mod (S k) s ltac:(lia)) as D1.
        pose proof (Nat.div_mod k s ltac:(lia)) as D2.
        pose proof (Nat.mod_upper_bound k s ltac:(lia)) as B2.
        rewrite E in *.
        assert (Hq : 1 <= S k / s) by (destruct (S k / s); [lia|lia]).
        assert (Hk : k mod s = s - 1 /\ k / s = S k / s - 1).
        { assert (k = (S k / s - 1) * s + (s - 1)) by nia.
          split.
          - rewrite H at 1. rewrite Nat.add_comm, Nat.mod_add by lia. apply Nat.mod_small. lia.
          - rewrite H at 1. rewrite Nat.add_comm, Nat.div_add by lia. rewrite Nat.div_small by lia. lia. }
        destruct Hk as [Hk1 Hk2]. rewrite Hk1.
        destruct (Nat.leb 1 (S k / s)) eqn:L1; [|apply Nat.leb_gt in L1; lia].
        destruct (Nat.leb 1 (k / s)); lia.
    + apply Nat.eqb_neq in E. cbn [lzr]. rewrite IH.
      destruct K as [|k]; [rewrite Nat.mod_0_l in E by lia; lia|].
      cbn [runF].
      pose proof (Nat.div_mod (S k) s ltac:(lia)) as D1.
      pose proof (Nat.div_mod k s ltac:(lia)) as D2.
      pose proof (Nat.mod_upper_bound k s ltac:(lia)) as B2.
      pose proof (Nat.mod_upper_bound (S k) s ltac:(lia)) as B1.
      assert (Hk : S k mod s = S (k mod s) /\ S k / s = k / s).
      { assert (Hlt : S (k mod s) < s).
        { destruct (Nat.eq_dec (S (k mod s)) s) as [Heq|]; [|lia].
          exfalso. apply E. assert (S k = (k / s + 1) * s + 0) by nia. rewrite H.
          rewrite Nat.add_0_r, Nat.mod_mul by lia. reflexivity. }
        assert (S k = k / s * s + S (k mod s)) by nia.
        split.
        - rewrite H at 1. rewrite Nat.add_comm, Nat.mod_add by lia. apply Nat.mod_small. lia.
        - rewrite H at 1. rewrite Nat.add_comm, Nat.div_add by lia. rewrite Nat.div_small by lia. lia. }
      destruct Hk as [Hk1 Hk2]. rewrite Hk1, Hk2. lia.
Qed.

Lemma dil_of_comb s K : 1 <= s -> (s <= K - 1 \/ (K = 1 /\ s = 1)) -> 1 <= K -> S (lzr (comb_s s K) 0 0) = s.
Proof.
  intros Hs Hc HK. rewrite lzr_comb by exact Hs. destruct K as [|k]; [lia|]. cbn [runF].
  pose proof (Nat.mod_upper_bound k s ltac:(lia)) as B.
  destruct Hc as [Hc|[Hc1 Hc2]].
  - assert (1 <= k / s) by (apply Nat.div_le_lower_bound; lia).
    destruct (Nat.leb 1 (k / s)) eqn:L; [|apply Nat.leb_gt in L; lia]. lia.
  - assert (k = 0) by lia. subst. cbn. reflexivity.
Qed.

(* ---------- strictly decreasing lists with the same elements are equal *)
Lemma sorted_same_elems (l1 l2 : list nat) : StronglySorted gt l1 -> StronglySorted gt l2 ->
  (forall x, In x l1 <-> In x l2) -> l1 = l2.
Proof.
  revert l2. induction l1 as [|a l1 IH]; intros l2 S1 S2 H.
  - destruct l2 as [|b l2]; [reflexivity|]. exfalso. apply (proj2 (H b)). left. reflexivity.
  - destruct l2 as [|b l2]; [exfalso; apply (proj1 (H a)); left; reflexivity|].
    inversion S1 as [|? ? S1' F1]; subst. inversion S2 as [|? ? S2' F2]; subst.
    rewrite Forall_forall in F1, F2.
    assert (a = b).
    { destruct (proj1 (H a) (or_introl eq_refl)) as [E|I]; [congruence|].
      destruct (proj2 (H b) (or_introl eq_refl)) as [E|I']; [congruence|].
      specialize (F2 _ I). specialize (F1 _ I'). lia. }
    subst b. f_equal. apply IH; try assumption.
    intro x. split; intro I.
    + destruct (proj1 (H x) (or_intror I)) as [E|I']; [|exact I']. subst. specialize (F1 _ I). lia.
    + destruct (proj2 (H x) (or_intror I)) as [E|I']; [|exact I']. subst. specialize (F2 _ I). lia.
Qed.

Lemma seq_sorted a n : StronglySorted lt (seq a n).
Proof.
  revert a. induction n as [|n IH]; intro a; cbn; constructor; [apply IH|].
  apply Forall_forall. intros x Hx. apply in_seq in Hx. lia.
Qed.

Lemma filter_sorted {A} (R : A -> A -> Prop) p l : StronglySorted R l -> StronglySorted R (filter p l).
Proof.
  induction 1 as [|a l S IH F]; cbn; [constructor|].
  destruct (p a); [|exact IH]. constructor; [exact IH|].
  rewrite Forall_forall in *. intros x Hx. apply filter_In in Hx. apply F. tauto.
Qed.

Lemma map_antitone_sorted (f : nat -> nat) l : StronglySorted lt l ->
  (forall x y, In x l -> In y l -> x < y -> f x > f y) -> StronglySorted gt (map f l).
Proof.
  induction 1 as [|a l S IH F]; intro Hf; cbn; constructor.
  - apply IH. intros x y Hx Hy. apply Hf; right; assumption.
  - rewrite Forall_forall in *. intros y Hy. apply in_map_iff in Hy as [x [<- Hx]].
    apply Hf; [left; reflexivity|right; exact Hx|apply F; exact Hx].
Qed.

Definition pattern_s (s K r : nat) : list bool :=
  map (fun j => Nat.eqb ((K - 1 - j) mod s) 0 && (K - r <=? j)) (seq 0 K).

Lemma kept_lags_sorted K m : StronglySorted gt (kept_lags K m).
Proof.
  unfold kept_lags. apply map_antitone_sorted.
  - apply filter_sorted, seq_sorted.
  - intros x y Hx Hy Hlt. apply filter_In in Hx as [Hx _]. apply filter_In in Hy as [Hy _].
    apply in_seq in Hx. apply in_seq in Hy. lia.
Qed.

Lemma export_lags_sorted n s : 1 <= s -> StronglySorted gt (export_lags n s).
Proof.
  intro Hs. unfold export_lags. apply map_antitone_sorted; [apply seq_sorted|].
  intros x y Hx Hy Hlt. apply in_seq in Hx. apply in_seq in Hy. nia.
Qed.

Lemma in_kept_lags_pattern s K r l : 1 <= s -> 1 <= r <= K ->
  In l (kept_lags K (pattern_s s K r)) <-> l mod s = 0 /\ l <= r - 1.
Proof.
  intros Hs Hr. unfold kept_lags. rewrite in_map_iff. split.
  - intros [j [<- Hj]]. apply filter_In in Hj as [Hj Hp]. apply in_seq in Hj.
    unfold pattern_s in Hp. rewrite nth_map_seq in Hp by lia.
    apply andb_prop in Hp as [H1 H2]. apply Nat.eqb_eq in H1. apply Nat.leb_le in H2. split; [exact H1|lia].
  - intros [H1 H2]. exists (K - 1 - l). split; [lia|]. apply filter_In. split; [apply in_seq; lia|].
    unfold pattern_s. rewrite nth_map_seq by lia. replace (K - 1 - (K - 1 - l)) with l by lia.
    apply andb_true_intro. split; [apply Nat.eqb_eq; exact H1|apply Nat.leb_le; lia].
Qed.

Lemma in_export_lags n s l : 1 <= s -> In l (export_lags n s) <-> l mod s = 0 /\ l / s <= n - 1 /\ 1 <= n.
Proof.
  intro Hs. unfold export_lags. rewrite in_map_iff. split.
  - intros [i [<- Hi]]. apply in_seq in Hi. rewrite Nat.mod_mul, Nat.div_mul by lia. lia.
  - intros [H1 [H2 H3]]. exists (n - 1 - l / s). split; [|apply in_seq; lia].
    replace (n - 1 - (n - 1 - l / s)) with (l / s) by lia.
    pose proof (Nat.div_mod l s ltac:(lia)). nia.
Qed.

Theorem kept_lags_pattern s K r : 1 <= s -> 1 <= r <= K ->
  kept_lags K (pattern_s s K r) = export_lags ((r - 1) / s + 1) s.
Proof.
  intros Hs Hr. apply sorted_same_elems; [apply kept_lags_sorted|apply export_lags_sorted; exact Hs|].
  intro l. rewrite in_kept_lags_pattern, in_export_lags by assumption. split.
  - intros [H1 H2]. split; [exact H1|]. split; [|lia].
    replace ((r - 1) / s + 1 - 1) with ((r - 1) / s) by lia. apply Nat.div_le_mono; lia.
  - intros [H1 [H2 _]]. split; [exact H1|].
    replace ((r - 1) / s + 1 - 1) with ((r - 1) / s) in H2 by lia.
    pose proof (Nat.div_mod l s ltac:(lia)). pose proof (Nat.div_mod (r - 1) s ltac:(lia)). nia.
Qed.

Lemma filter_map_S b (m : list bool) l :
  filter (fun j => nth j (b :: m) false) (map S l) = map S (filter (fun j => nth j m false) l).
Proof.
  induction l as [|x l IHl]; [reflexivity|].
  simpl in *. destruct (nth x m false); simpl; rewrite IHl; reflexivity.
Qed.

Lemma filter_index_length (m : list bool) :
  length (filter (fun b => b) m) = length (filter (fun j => nth j m false) (seq 0 (length m))).
Proof.
  induction m as [|b m IH]; [reflexivity|].
  cbn [length]. rewrite <- cons_seq, <- seq_shift.
  set (p := fun j => nth j (b :: m) false).
  change (filter p (0 :: map S (seq 0 (length m)))) with (if p 0 then 0 :: filter p (map S (seq 0 (length m))) else filter p (map S (seq 0 (length m)))).
  unfold p. rewrite filter_map_S. cbn [nth filter].
  destruct b; cbn [length]; rewrite map_length, IH; reflexivity.
Qed.

Lemma count_true_kept_lags K m : length m = K -> count_true m = length (kept_lags K m).
Proof.
  intro H. unfold count_true, kept_lags. rewrite map_length, <- H. apply filter_index_length.
Qed.

Lemma export_lags_length n s : length (export_lags n s) = n.
Proof. unfold export_lags. rewrite map_length, seq_length. reflexivity. Qed.

(* ---------- the general statement: every K *)
Theorem kept_taps_progression K d0 beta gamma : 1 <= K -> length beta = K -> length gamma = gamma_len K ->
  let m := time_mask true K beta gamma in
  let k' := kernel_size_opt true K beta gamma in
  exists v, v < gamma_len K /\ dilation_opt true K d0 gamma = 2 ^ v * d0 /\
            kept_lags K m = export_lags k' (2 ^ v) /\ 1 <= k'.
Proof.
  intros HK Hb Hg. cbn zeta.
  assert (Hgne : gamma <> []).
  { intro E. subst. cbn in Hg. unfold gamma_len in Hg. lia. }
  destruct (time_mask_pattern K beta gamma HK Hb Hgne) as [r [v [Hr [Hv [Em Ec]]]]].
  rewrite Hg in Hv. exists v. split; [exact Hv|].
  assert (Hs : 1 <= 2 ^ v) by (pose proof (Nat.pow_nonzero 2 v); lia).
  assert (Hc : 2 ^ v <= K - 1 \/ (K = 1 /\ 2 ^ v = 1)).
  { unfold gamma_len in Hv. destruct (Nat.eq_dec K 1) as [->|Hne].
    - right. split; [reflexivity|]. cbn in Hv. assert (v = 0) by lia. subst. reflexivity.
    - left. assert (v < Nat.log2_up K).
      { assert (1 <= Nat.log2_up K) by (apply Nat.log2_up_pos; lia). lia. }
      apply Nat.log2_up_lt_pow2 in H; lia. }
  change (pattern K r v) with (pattern_s (2 ^ v) K r) in Em.
  change (comb_pattern K v) with (comb_s (2 ^ v) K) in Ec.
  unfold dilation_opt, kernel_size_opt. rewrite Ec, Em.
  rewrite dil_of_comb by assumption.
  assert (Hlen : length (pattern_s (2 ^ v) K r) = K) by (unfold pattern_s; rewrite map_length, seq_length; reflexivity).
  rewrite (count_true_kept_lags K _ Hlen), kept_lags_pattern by assumption.
  rewrite export_lags_length. repeat split; lia.
Qed.

(* kept for the developments that were written against the earlier bounded statement *)
Corollary kept_taps_progression_64 K d0 beta gamma : 1 <= K <= 64 -> length beta = K -> length gamma = gamma_len K ->
  let m := time_mask true K beta gamma in
  let k' := kernel_size_opt true K beta gamma in
  exists v, v < gamma_len K /\ dilation_opt true K d0 gamma = 2 ^ v * d0 /\
            kept_lags K m = export_lags k' (2 ^ v) /\ 1 <= k'.
Proof. intros HK. apply kept_taps_progression. lia. Qed.

(* the pinned upstream commit (comb anchored at tap 0, suffix at tap K-1) can lose every tap *)
Lemma time_mask_empty_refuted_v0 : exists K beta gamma, length beta = K /\ length gamma = gamma_len K /\
  kernel_size_opt false K beta gamma = 0.
Proof. exists 4, [0; 0; 0; 0]%Q, [0; 0]%Q. repeat split. Qed.
