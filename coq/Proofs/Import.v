(* Proofs about Model/Import.v (C07) *)
From Coq Require Import QArith ZArith List Bool Arith Lia Lqa Setoid.
Import ListNotations.
Require Import Plinio.Base.Qx Plinio.Model.Masks Plinio.Proofs.Masks Plinio.Model.Import.
Local Open Scope Q_scope.

(* ================================================================ Part 1: algebra *)
Lemma dot_scale c r x : dot (map (fun v => v * c) r) x == dot r x * c.
Proof.
  revert x. induction r as [|a r IH]; intros [|b x]; cbn [map dot]; try ring. rewrite IH. ring.
Qed.

Lemma dot2_scale c w x : dot2 (map (map (fun v => v * c)) w) x == dot2 w x * c.
Proof.
  revert x. induction w as [|a w IH]; intros [|b x]; cbn [map dot2]; try ring. rewrite IH, dot_scale. ring.
Qed.

(* BatchNorm folding, for EVERY per-channel factor r (it stands for rsqrt(var + eps)), with or without a conv bias *)
Theorem bn_fold_identity p w ob x :
  plain (fold_w p w) (Some (fold_b p ob)) x == bn_apply p (plain w ob x).
Proof.
  unfold plain, fold_w, fold_b, bn_apply. cbn [bias_val]. rewrite dot2_scale. ring.
Qed.

Corollary bn_fold_identity_nobias p w x :
  plain (fold_w p w) (Some (fold_b p None)) x == bn_apply p (dot2 w x).
Proof. rewrite bn_fold_identity. unfold plain, bn_apply. cbn [bias_val]. ring. Qed.

Lemma mask_row_open row x : dot (mask_row (repeat true (length row)) row) x == dot row x.
Proof.
  revert x. induction row as [|a row IH]; intros [|b x]; cbn [length repeat mask_row dot b2q]; try reflexivity.
  rewrite IH. ring.
Qed.

Lemma dot2_mask_open K w x : Forall (fun row => length row = K) w ->
  dot2 (map (mask_row (repeat true K)) w) x == dot2 w x.
Proof.
  intro H. revert x. induction H as [|row w Hr Hw IH]; intros [|b x]; cbn [map dot2]; try reflexivity.
  rewrite IH. subst K. rewrite mask_row_open. reflexivity.
Qed.

Lemma forall_len_scale K c w : Forall (fun row : list Q => length row = K) w ->
  Forall (fun row : list Q => length row = K) (map (map (fun v => v * c)) w).
Proof. intro H. induction H; cbn [map]; constructor; [rewrite map_length|]; assumption. Qed.

Lemma open_core K w x c : Forall (fun row => length row = K) w ->
  dot2 (map (mask_row (repeat true K)) (map (map (fun v => v * c)) w)) x == dot2 w x * c.
Proof. intro H. rewrite (dot2_mask_open K _ x (forall_len_scale K c w H)). apply dot2_scale. Qed.

(* ---- the initial parameters (all 1.0) open every mask *)
Lemma ka_ones l : Forall (fun x => x == 1) l -> Forall (fun x => x == 1) (keep_alive l).
Proof.
  induction l as [|x t IH]; intro H; [constructor|]. destruct t as [|y t]; [repeat constructor; reflexivity|].
  change (keep_alive (x :: y :: t)) with (qabs x :: keep_alive (y :: t)). inversion H as [|? ? Hx Ht]; subst.
  constructor; [|apply IH; exact Ht].
  destruct (qabs_cases x) as [[_ E]|[Hlt E]]; rewrite E; [exact Hx|]. rewrite Hx in Hlt. lra.
Qed.

Lemma ones_forall n : Forall (fun x => x == 1) (ones n).
Proof. unfold ones. induction n; cbn [repeat]; constructor; [reflexivity|assumption]. Qed.

Lemma bin_of_one x : x == 1 -> bin x = true.
Proof. intro H. apply bin_true. rewrite H. lra. Qed.

Lemma all_true_repeat (l : list bool) : Forall (fun b => b = true) l -> l = repeat true (length l).
Proof. intro H. induction H as [|b l Hb Hl IH]; [reflexivity|]. cbn [length repeat]. subst b. f_equal. exact IH. Qed.

Lemma forall_map_true {A} (f : A -> bool) l : (forall a, In a l -> f a = true) -> map f l = repeat true (length l).
Proof.
  intro H. rewrite <- (map_length f l). apply all_true_repeat. apply Forall_forall. intros b Hb.
  apply in_map_iff in Hb as [a [E Ha]]. subst. apply H. exact Ha.
Qed.

Theorem open_features_mask_all C : open_features_mask C = repeat true C.
Proof.
  unfold open_features_mask, features_mask, theta_alpha.
  rewrite forall_map_true.
  - rewrite keep_alive_length. unfold ones. rewrite repeat_length. reflexivity.
  - intros a Ha. apply bin_of_one. pose proof (ka_ones _ (ones_forall C)) as H. rewrite Forall_forall in H. apply H. exact Ha.
Qed.

Lemma qsum_firstn_nonneg l t : Forall (fun x => x == 1) l -> 0 <= qsum (firstn t l).
Proof.
  intro H. revert t. induction H as [|a l Ha Hl IH]; intros [|t]; cbn [firstn]; rewrite ?qsum_nil, ?qsum_cons; try lra.
  specialize (IH t). rewrite Ha. lra.
Qed.

Lemma theta_beta_open K : map bin (theta_beta (ones K)) = repeat true K.
Proof.
  unfold theta_beta. rewrite map_map. rewrite forall_map_true.
  - rewrite seq_length. unfold ones. rewrite repeat_length. reflexivity.
  - intros t Ht. apply in_seq in Ht. unfold ones in Ht. rewrite repeat_length in Ht.
    pose proof (ka_ones _ (ones_forall K)) as H. pose proof (keep_alive_length (ones K)) as HL.
    unfold ones in HL at 2. rewrite repeat_length in HL.
    destruct (keep_alive (ones K)) as [|a ka]; [cbn in HL; lia|].
    inversion H as [|? ? Ha Hka]; subst. apply bin_true. cbn [firstn]. rewrite qsum_cons.
    pose proof (qsum_firstn_nonneg ka t Hka). rewrite Ha. lra.
Qed.

Lemma gamma_len_pos K : (1 <= gamma_len K)%nat.
Proof. unfold gamma_len. apply Nat.le_max_r. Qed.

Lemma theta_gamma_at_ge1 n d : (1 <= n)%nat -> 1 <= theta_gamma_at (keep_alive (ones n)) d.
Proof.
  intro Hn. pose proof (ka_ones _ (ones_forall n)) as H. pose proof (keep_alive_nonneg (ones n)) as Hnn.
  pose proof (keep_alive_length (ones n)) as HL. unfold ones in HL at 2. rewrite repeat_length in HL.
  unfold theta_gamma_at. remember (keep_alive (ones n)) as ka eqn:Eka. rewrite HL.
  destruct n as [|m]; [lia|]. rewrite <- cons_seq. cbn [map]. rewrite qsum_cons.
  assert (E0 : nth 0 ka 0 == 1).
  { destruct ka as [|a ka]; [cbn in HL; lia|]. inversion H; subst. cbn [nth]. assumption. }
  rewrite Nat.pow_0_r, Nat.mod_1_r. cbn [Nat.eqb]. rewrite E0.
  assert (0 <= qsum (map (fun i : nat => if (d mod 2 ^ i =? 0)%nat then nth i ka 0 else 0) (seq 1 m))).
  { apply qsum_map_nonneg. intros i _. destruct (d mod 2 ^ i =? 0)%nat; [apply nth_nonneg; exact Hnn|lra]. }
  lra.
Qed.

Lemma theta_gamma_open K : map bin (theta_gamma true K (ones (gamma_len K))) = repeat true K.
Proof.
  unfold theta_gamma. rewrite map_map. rewrite forall_map_true.
  - rewrite seq_length. reflexivity.
  - intros j _. apply bin_true. pose proof (theta_gamma_at_ge1 (gamma_len K) (dist true K j) (gamma_len_pos K)). lra.
Qed.

Lemma map_bin_true_forall l n : map bin l = repeat true n -> Forall (fun x => bin x = true) l.
Proof.
  revert n. induction l as [|a l IH]; intros n H; [constructor|]. destruct n as [|n]; [discriminate|].
  cbn [map repeat] in H. injection H as Ha Hl. constructor; [exact Ha|]. eapply IH. exact Hl.
Qed.

Theorem open_time_mask_all K : open_time_mask K = repeat true K.
Proof.
  unfold open_time_mask, time_mask.
  pose proof (map_bin_true_forall _ _ (theta_gamma_open K)) as HG. pose proof (map_bin_true_forall _ _ (theta_beta_open K)) as HB.
  rewrite forall_map_true.
  - rewrite combine_length, theta_gamma_length, theta_beta_length. unfold ones. rewrite repeat_length. rewrite Nat.min_id. reflexivity.
  - intros [g b] Hp. rewrite Forall_forall in HG, HB. cbn [fst snd].
    rewrite (HG g (in_combine_l _ _ _ _ Hp)), (HB b (in_combine_r _ _ _ _ Hp)). reflexivity.
Qed.

Lemma nth_repeat_true c C : (c < C)%nat -> nth c (repeat true C) false = true.
Proof. revert c. induction C as [|C IH]; intros c H; [lia|]. destruct c; cbn [repeat nth]; [reflexivity|apply IH; lia]. Qed.

(* with the masks of the initial parameters, the PIT layer built by the import (BatchNorm attached or folded, the
   bias masked or not) computes BatchNorm(plain layer) — for all weights, inputs, BatchNorm coefficients *)
Theorem open_masks_identity K C c maskb fold w ob bn x :
  (c < C)%nat -> Forall (fun row => length row = K) w ->
  pit_out maskb (open_time_mask K) (nth c (open_features_mask C) false) (import_layer fold w ob bn) x == obn bn (plain w ob x).
Proof.
  intros Hc Hw. rewrite open_time_mask_all, open_features_mask_all, (nth_repeat_true c C Hc).
  unfold pit_out, import_layer. destruct bn as [p|]; destruct fold; cbn [s_fold s_w s_b s_bn obn].
  - rewrite (open_core K (fold_w p w) x (b2q true) (forall_len_scale K _ w Hw)).
    rewrite <- (bn_fold_identity p w ob x). unfold plain. cbn [bias_val b2q]. destruct maskb; ring.
  - unfold bn_apply. rewrite (dot2_mask_open K w x Hw). unfold plain. cbn [b2q]. ring.
  - rewrite (open_core K w x (b2q true) Hw). unfold plain. cbn [b2q]. destruct maskb; ring.
  - rewrite (dot2_mask_open K w x Hw). unfold plain. cbn [b2q]. ring.
Qed.

(* the pinned commit ran a layer folded by PIT(fold_bn=True) with the layer's own flag (False): BatchNorm twice *)
Theorem double_bn_refuted : exists maskb K C c w ob p x, (c < C)%nat /\ Forall (fun row => length row = K) w /\
  ~ pit_out maskb (open_time_mask K) (nth c (open_features_mask C) false) (with_flag false (import_layer true w ob (Some p))) x
    == bn_apply p (plain w ob x).
Proof.
  exists false, 1%nat, 1%nat, 0%nat, [[1]], None, {| bn_g := 2; bn_b := 0; bn_mu := 0; bn_r := 1 |}, [[1]].
  split; [lia|]. split; [repeat constructor|]. intro H. vm_compute in H. discriminate.
Qed.

(* ---- immediate export *)
Lemma keep_all {A} (l : list A) : keep (repeat true (length l)) l = l.
Proof. induction l as [|a l IH]; [reflexivity|]. cbn [length repeat keep]. f_equal. exact IH. Qed.

Lemma count_true_repeat n : count_true (repeat true n) = n.
Proof. unfold count_true. induction n as [|n IH]; [reflexivity|]. cbn [repeat filter length]. f_equal. exact IH. Qed.

Lemma lzr_all_true n : lzr (repeat true n) 0 0 = 0%nat.
Proof. induction n as [|n IH]; [reflexivity|]. cbn [repeat lzr Nat.max]. exact IH. Qed.

Theorem export_open_is_original K C cin d0 (W : list (list (list Q))) (B : list Q) :
  length W = C -> length B = C ->
  Forall (fun ch => length ch = cin /\ Forall (fun row => length row = K) ch) W ->
  export_hp K d0 (ones C) (ones K) (ones (gamma_len K)) (repeat true cin) = (cin, C, K, d0)
  /\ export_w (open_features_mask C) (repeat true cin) (open_time_mask K) W = W
  /\ export_b (open_features_mask C) B = B.
Proof.
  intros HW HB HF. repeat split.
  - unfold export_hp, out_features_opt, kernel_size_opt, dilation_opt.
    fold (open_features_mask C). fold (open_time_mask K).
    rewrite open_features_mask_all, open_time_mask_all, theta_gamma_open, !count_true_repeat, lzr_all_true.
    rewrite Nat.mul_1_l. reflexivity.
  - unfold export_w. rewrite open_features_mask_all, open_time_mask_all. rewrite <- HW at 1. rewrite keep_all.
    rewrite <- (map_id W) at 2. apply map_ext_in. intros ch Hch. rewrite Forall_forall in HF. destruct (HF ch Hch) as [Hl Hr].
    rewrite <- Hl. rewrite keep_all. rewrite <- (map_id ch) at 2. apply map_ext_in. intros row Hrow.
    rewrite Forall_forall in Hr. rewrite <- (Hr row Hrow). apply keep_all.
  - unfold export_b. rewrite open_features_mask_all. rewrite <- HB. apply keep_all.
Qed.

(* ================================================================ Part 2: the object graph *)
Local Open Scope nat_scope.

Lemma upd_length {A} i (f : A -> A) l : length (upd i f l) = length l.
Proof. revert i. induction l as [|a l IH]; intros [|i]; cbn [upd length]; try reflexivity; rewrite IH; reflexivity. Qed.

Lemma nth_upd_other {A} i j (f : A -> A) l d : i <> j -> nth j (upd i f l) d = nth j l d.
Proof.
  revert i j. induction l as [|a l IH]; intros [|i] [|j] H; cbn [upd nth]; try reflexivity; try lia. apply IH. lia.
Qed.

Lemma nth_upd_same {A} i (f : A -> A) l d : i < length l -> nth i (upd i f l) d = f (nth i l d).
Proof. revert i. induction l as [|a l IH]; intros [|i] H; cbn [upd nth length] in *; try lia; try reflexivity. apply IH. lia. Qed.

Lemma mapi_from_length {A B} k (f : nat -> A -> B) l : length (mapi_from k f l) = length l.
Proof. revert k. induction l as [|a l IH]; intro k; cbn [mapi_from length]; [reflexivity|]. rewrite IH. reflexivity. Qed.

Lemma nth_mapi_from {A B} k (f : nat -> A -> B) l j d d' : j < length l -> nth j (mapi_from k f l) d' = f (k + j) (nth j l d).
Proof.
  revert k j. induction l as [|a l IH]; intros k [|j] H; cbn [mapi_from nth length] in *; try lia.
  - rewrite Nat.add_0_r. reflexivity.
  - rewrite (IH (S k) j) by lia. f_equal. lia.
Qed.

Lemma nth_mapi (f : nat -> obj -> obj) l j : j < length l -> nth j (mapi f l) dobj = f j (nth j l dobj).
Proof. intro H. unfold mapi. rewrite (nth_mapi_from 0 f l j dobj dobj H). reflexivity. Qed.

Lemma mapi_length (f : nat -> obj -> obj) l : length (mapi f l) = length l.
Proof. apply mapi_from_length. Qed.

Lemma nth_mapi_beyond (f : nat -> obj -> obj) l j : length l <= j -> nth j (mapi f l) dobj = nth j l dobj.
Proof. intro H. rewrite !nth_overflow; [reflexivity|exact H|rewrite mapi_length; exact H]. Qed.

Lemma pview_set_train v o : pview (set_train v o) = pview o.
Proof. reflexivity. Qed.

(* a function on objects that only touches the training flag *)
Definition flag_only (f : nat -> obj -> obj) : Prop := forall id o, pview (f id o) = pview o.

Lemma pview_nth_mapi f l j : flag_only f -> pview (nth j (mapi f l) dobj) = pview (nth j l dobj).
Proof.
  intro Hf. destruct (Nat.lt_ge_cases j (length l)) as [H|H].
  - rewrite nth_mapi by exact H. apply Hf.
  - rewrite nth_mapi_beyond by exact H. reflexivity.
Qed.

Lemma restore_flag_only mods rt : flag_only (fun id o => if Nat.leb id (length mods) then set_train (found_flag mods rt id) o else o).
Proof. intros id o. destruct (Nat.leb id (length mods)); reflexivity. Qed.

Lemma final_flag_only rt r : flag_only (fun id o => if memb id r then set_train rt o else o).
Proof. intros id o. destruct (memb id r); reflexivity. Qed.

Lemma nth_map_set_train v h j : pview (nth j (map (set_train v) h) dobj) = pview (nth j h dobj).
Proof.
  destruct (Nat.lt_ge_cases j (length h)) as [H|H].
  - rewrite (nth_indep _ dobj (set_train v dobj)) by (rewrite map_length; exact H). rewrite map_nth. reflexivity.
  - rewrite !nth_overflow; [reflexivity|exact H|rewrite map_length; exact H].
Qed.

(* ---- invariant 1: the caller's objects (ids <= n) keep everything but their training flag *)
Definition UP (n : nat) (h0 h : list obj) : Prop :=
  n < length h /\ forall i, i <= n -> pview (nth i h dobj) = pview (nth i h0 dobj).

Lemma UP_app n h0 h l : UP n h0 h -> UP n h0 (h ++ l).
Proof. intros [HL H]. split; [rewrite app_length; lia|]. intros i Hi. rewrite app_nth1 by lia. apply H. exact Hi. Qed.

Lemma UP_upd n h0 h id f : UP n h0 h -> n < id -> UP n h0 (upd id f h).
Proof. intros [HL H] Hid. split; [rewrite upd_length; exact HL|]. intros i Hi. rewrite nth_upd_other by lia. apply H. exact Hi. Qed.

Lemma UP_mapi n h0 h f : flag_only f -> UP n h0 h -> UP n h0 (mapi f h).
Proof. intros Hf [HL H]. split; [rewrite mapi_length; exact HL|]. intros i Hi. rewrite pview_nth_mapi by exact Hf. apply H. exact Hi. Qed.

Lemma UP_eval n h0 : n < length h0 -> UP n h0 (step_eval h0).
Proof. intro HL. split; [unfold step_eval; rewrite map_length; exact HL|]. intros i _. apply nth_map_set_train. Qed.

Lemma UP_layers c n h0 mods : forall i h s, UP n h0 h -> UP n h0 (fst (step_layers c mods i h s)).
Proof.
  induction mods as [|m t IH]; intros i h s H; cbn [step_layers]; [exact H|].
  destruct (convertible m); apply IH; [apply UP_app|]; exact H.
Qed.

Lemma UP_fuse_one c n h0 m j h s h' s' : c_copyfuse c = true -> UP n h0 h -> fuse_one c m j (h, s) = Some (h', s') -> UP n h0 h'.
Proof.
  intros Hc H E. unfold fuse_one in E. rewrite Hc in E.
  destruct (u_kind m); try (inversion E; subst; exact H).
  destruct (u_prev m) as [i|]; try (inversion E; subst; exact H).
  destruct (nth i s None) as [L|]; try (inversion E; subst; exact H).
  destruct (nth j s None) as [B|]; try (inversion E; subst; exact H).
  destruct (kind_eqb (o_kind (nth L h dobj)) KPit); try (inversion E; subst; exact H).
  destruct (Nat.ltb 1 (u_users m)); [discriminate|]. inversion E; subst. clear E.
  apply UP_upd; [apply UP_app, UP_app; exact H|]. destruct H as [HL _]. exact HL.
Qed.

Lemma UP_fuse c n h0 mods : c_copyfuse c = true -> forall j h s h' s', UP n h0 h -> step_fuse c mods j (h, s) = Some (h', s') -> UP n h0 h'.
Proof.
  intro Hc. induction mods as [|m t IH]; intros j h s h' s' H E; cbn [step_fuse] in E.
  - inversion E; subst. exact H.
  - destruct (fuse_one c m j (h, s)) as [[h1 s1]|] eqn:E1; [|discriminate].
    eapply IH; [|exact E]. eapply UP_fuse_one; eassumption.
Qed.

Lemma heap0_length mods rt : length (heap0 mods rt) = S (length mods).
Proof. unfold heap0. rewrite app_length, map_length. cbn. lia. Qed.

(* PIT / SuperNet / MPS-skeleton conversion (the code as it is now) writes nothing but training flags into any object
   of the caller's model: same kind, no parameter write, no BatchNorm attached, same fold flag — for every module
   list, every configuration (autoconvert on or off, user-placed PIT layers, fold on or off) *)
Theorem convert_keeps_user_params c mods rt st :
  c_copyfuse c = true -> convert c mods rt = Some st ->
  forall i, i <= length mods -> pview (nth i (heap st) dobj) = pview (nth i (heap0 mods rt) dobj).
Proof.
  intros Hc E. assert (U : UP (length mods) (heap0 mods rt) (heap st)); [|apply U].
  unfold convert in E.
  assert (U1 : UP (length mods) (heap0 mods rt) (step_eval (heap0 mods rt))) by (apply UP_eval; rewrite heap0_length; lia).
  set (h1 := step_eval (heap0 mods rt)) in *. set (s1 := map Some (seq 0 (length mods))) in *.
  assert (U2 : forall h2 s2, (match c_method c with
                 | PIT => if c_auto c then step_layers c mods 0 h1 s1 else (h1, s1)
                 | MPS => step_layers c mods 0 h1 s1 | SN => (h1, s1) end) = (h2, s2) -> UP (length mods) (heap0 mods rt) h2).
  { intros h2 s2 E2. destruct (c_method c); [destruct (c_auto c)| |]; try (inversion E2; subst; exact U1);
      pose proof (UP_layers c _ _ mods 0 h1 s1 U1) as U'; rewrite E2 in U'; exact U'. }
  destruct (match c_method c with
            | PIT => if c_auto c then step_layers c mods 0 h1 s1 else (h1, s1)
            | MPS => step_layers c mods 0 h1 s1 | SN => (h1, s1) end) as [h2 s2] eqn:E2.
  specialize (U2 h2 s2 eq_refl).
  assert (U3 : forall h3 s3, (match c_method c with PIT => step_fuse c mods 0 (h2, s2) | _ => Some (h2, s2) end) = Some (h3, s3) ->
                             UP (length mods) (heap0 mods rt) h3).
  { intros h3 s3 E3. destruct (c_method c); try (inversion E3; subst; exact U2). eapply UP_fuse; eassumption. }
  destruct (match c_method c with PIT => step_fuse c mods 0 (h2, s2) | _ => Some (h2, s2) end) as [[h3 s3]|] eqn:E3; [|discriminate].
  specialize (U3 h3 s3 eq_refl).
  assert (U4 : UP (length mods) (heap0 mods rt) (if c_restore c then step_restore mods rt h3 else h3)).
  { destruct (c_restore c); [|exact U3]. apply UP_mapi; [apply restore_flag_only|exact U3]. }
  destruct (c_method c); inversion E; subst; cbn [heap]; try exact U4;
    destruct (c_keepshared c); try (apply UP_mapi; [apply restore_flag_only|]); apply UP_mapi; try apply final_flag_only; exact U4.
Qed.

Lemma nth_heap0 mods rt i d : i < length mods ->
  pview (nth i (heap0 mods rt) dobj) = (u_kind (nth i mods d), 0, None, u_fold (nth i mods d)).
Proof.
  intro H. unfold heap0. rewrite app_nth1 by (rewrite map_length; exact H).
  set (f := fun m => {| o_kind := u_kind m; o_train := u_train m; o_ver := 0; o_bn := None; o_fold := u_fold m; o_src := None |}).
  rewrite (nth_indep (map f mods) dobj (f d)) by (rewrite map_length; exact H).
  rewrite map_nth. reflexivity.
Qed.

Corollary convert_keeps_user_params_readable c mods rt st d :
  c_copyfuse c = true -> convert c mods rt = Some st ->
  forall i, i < length mods ->
    let o := nth i (heap st) dobj in
    o_ver o = 0 /\ o_bn o = None /\ o_fold o = u_fold (nth i mods d) /\ o_kind o = u_kind (nth i mods d).
Proof.
  intros Hc E i Hi. pose proof (convert_keeps_user_params c mods rt st Hc E i (Nat.lt_le_incl _ _ Hi)) as H.
  rewrite (nth_heap0 mods rt i d Hi) in H. unfold pview in H. inversion H. cbn zeta. repeat split; assumption.
Qed.

(* the pinned commit: a user-placed PIT layer followed by a BatchNorm is written to *)
Theorem convert_keeps_user_params_refuted : exists auto fold mods rt st i,
  convert (pinned PIT auto fold) mods rt = Some st /\ i < length mods /\
  (0 < o_ver (nth i (heap st) dobj) /\ o_bn (nth i (heap st) dobj) <> None).
Proof.
  exists false, true, [mk KPit false None 0 false true; mk KBn false (Some 0) 1 false true], true.
  eexists. exists 0. split; [vm_compute; reflexivity|]. cbn. split; [lia|]. split; [lia|discriminate].
Qed.

(* ---- invariant 2: lengths only grow *)
Lemma layers_len c mods : forall i h s, length h <= length (fst (step_layers c mods i h s)).
Proof.
  induction mods as [|m t IH]; intros i h s; cbn [step_layers]; [cbn; lia|].
  destruct (convertible m); [|apply IH]. etransitivity; [|apply IH]. rewrite app_length. lia.
Qed.

Lemma fuse_one_len c m j h s h' s' : fuse_one c m j (h, s) = Some (h', s') -> length h <= length h'.
Proof.
  intro E. unfold fuse_one in E.
  destruct (u_kind m); try (inversion E; subst; lia).
  destruct (u_prev m) as [i|]; try (inversion E; subst; lia).
  destruct (nth i s None) as [L|]; try (inversion E; subst; lia).
  destruct (nth j s None) as [B|]; try (inversion E; subst; lia).
  destruct (kind_eqb (o_kind (nth L h dobj)) KPit); try (inversion E; subst; lia).
  destruct (Nat.ltb 1 (u_users m)); [discriminate|].
  destruct (c_copyfuse c); inversion E; subst; rewrite upd_length, !app_length; cbn; lia.
Qed.

Lemma fuse_len c mods : forall j h s h' s', step_fuse c mods j (h, s) = Some (h', s') -> length h <= length h'.
Proof.
  induction mods as [|m t IH]; intros j h s h' s' E; cbn [step_fuse] in E.
  - inversion E; subst. lia.
  - destruct (fuse_one c m j (h, s)) as [[h1 s1]|] eqn:E1; [|discriminate].
    apply fuse_one_len in E1. apply IH in E. lia.
Qed.

Lemma memb_in i l : memb i l = true <-> In i l.
Proof.
  unfold memb. rewrite existsb_exists. split.
  - intros [x [Hx E]]. apply Nat.eqb_eq in E. subst. exact Hx.
  - intro H. exists i. split; [exact H|apply Nat.eqb_refl].
Qed.

Lemma obn_nth_mapi f l j : flag_only f -> o_bn (nth j (mapi f l) dobj) = o_bn (nth j l dobj).
Proof. intro Hf. pose proof (pview_nth_mapi f l j Hf) as H. unfold pview in H. inversion H. reflexivity. Qed.

Lemma reach_mapi f h s : flag_only f -> reach (mapi f h) s = reach h s.
Proof.
  intro Hf. unfold reach. f_equal. apply flat_map_ext. intro id. rewrite obn_nth_mapi by exact Hf. reflexivity.
Qed.

(* shape of a successful conversion: what the last two steps did *)
Lemma convert_shape c mods rt st : convert c mods rt = Some st ->
  exists h3 s3, length mods < length h3 /\ seed st = s3 /\
    let h4 := if c_restore c then step_restore mods rt h3 else h3 in
    match c_method c with
    | SN => heap st = h4 /\ seed_train st = false /\ wrap_train st = true /\ s3 = map Some (seq 0 (length mods))
    | _ => heap st = (if c_keepshared c then step_restore mods rt (step_final rt h4 s3) else step_final rt h4 s3) /\ seed_train st = rt /\ wrap_train st = rt
    end.
Proof.
  intro E. unfold convert in E.
  set (h1 := step_eval (heap0 mods rt)) in *. set (s1 := map Some (seq 0 (length mods))) in *.
  assert (L1 : length mods < length h1) by (unfold h1, step_eval; rewrite map_length, heap0_length; lia).
  destruct (match c_method c with
            | PIT => if c_auto c then step_layers c mods 0 h1 s1 else (h1, s1)
            | MPS => step_layers c mods 0 h1 s1 | SN => (h1, s1) end) as [h2 s2] eqn:E2.
  assert (L2 : length mods < length h2 /\ (c_method c = SN -> s2 = s1)).
  { destruct (c_method c); [destruct (c_auto c)| |]; try (inversion E2; subst; split; [exact L1|intros; try reflexivity; discriminate]);
      (split; [|discriminate]); pose proof (layers_len c mods 0 h1 s1) as HL; rewrite E2 in HL; cbn [fst] in HL; lia. }
  destruct L2 as [L2 S2].
  destruct (match c_method c with PIT => step_fuse c mods 0 (h2, s2) | _ => Some (h2, s2) end) as [[h3 s3]|] eqn:E3; [|discriminate].
  assert (L3 : length mods < length h3 /\ (c_method c = SN -> s3 = s1)).
  { destruct (c_method c); try (inversion E3; subst; split; [exact L2|exact S2]). split; [|discriminate]. apply fuse_len in E3. lia. }
  destruct L3 as [L3 S3].
  exists h3, s3. split; [exact L3|].
  destruct (c_method c); inversion E; subst; cbn [heap seed seed_train wrap_train]; repeat split; try reflexivity. apply S3. reflexivity.
Qed.

(* PIT and MPS end in the mode they found: wrapper, seed, and every object the seed holds (its modules and the
   BatchNorm copies inside them); a module that the seed shares with the caller's model keeps the caller's flag
   (c_keepshared) — whatever the rest of the configuration *)
Theorem convert_keeps_mode c mods rt st :
  c_method c <> SN -> convert c mods rt = Some st ->
  wrap_train st = rt /\ seed_train st = rt /\
  forall id, In id (reach (heap st) (seed st)) -> id < length (heap st) ->
    o_train (nth id (heap st) dobj) = if c_keepshared c && Nat.leb id (length mods) then found_flag mods rt id else rt.
Proof.
  intros HM E. destruct (convert_shape c mods rt st E) as [h3 [s3 [L3 [ES H]]]]. cbn zeta in H.
  set (h4 := if c_restore c then step_restore mods rt h3 else h3) in *.
  assert (H' : heap st = (if c_keepshared c then step_restore mods rt (step_final rt h4 s3) else step_final rt h4 s3)
               /\ seed_train st = rt /\ wrap_train st = rt) by (destruct (c_method c); [exact H|exact H|congruence]).
  destruct H' as [EH [E1 E2]]. repeat split; [exact E2|exact E1|].
  intros id Hin Hlt. rewrite EH in *. rewrite ES in *.
  destruct (c_keepshared c); cbn [andb].
  - unfold step_restore in Hin, Hlt |- *. rewrite reach_mapi in Hin by apply restore_flag_only. rewrite mapi_length in Hlt.
    rewrite nth_mapi by exact Hlt. destruct (Nat.leb id (length mods)); [reflexivity|].
    unfold step_final in *. rewrite reach_mapi in Hin by apply final_flag_only. rewrite mapi_length in Hlt. rewrite nth_mapi by exact Hlt.
    apply memb_in in Hin. rewrite Hin. reflexivity.
  - unfold step_final in *. rewrite reach_mapi in Hin by apply final_flag_only. rewrite mapi_length in Hlt. rewrite nth_mapi by exact Hlt.
    apply memb_in in Hin. rewrite Hin. reflexivity.
Qed.

Lemma train_nth_restore mods rt h i : i <= length mods -> i < length h ->
  o_train (nth i (step_restore mods rt h) dobj) = found_flag mods rt i.
Proof. intros Hi HL. unfold step_restore. rewrite nth_mapi by exact HL. apply Nat.leb_le in Hi. rewrite Hi. reflexivity. Qed.

(* the caller's model: every module of it, and the model itself, ends with the flag it was found with (c_keepshared);
   before the last repair a module shared with the converted model took the mode of the converted model *)
Theorem convert_user_mode c mods rt st :
  c_restore c = true -> convert c mods rt = Some st ->
  forall i, i <= length mods ->
    o_train (nth i (heap st) dobj) =
      match c_method c with
      | SN => found_flag mods rt i
      | _ => if c_keepshared c then found_flag mods rt i
             else if memb i (reach (heap st) (seed st)) then rt else found_flag mods rt i
      end.
Proof.
  intros HR E i Hi. destruct (convert_shape c mods rt st E) as [h3 [s3 [L3 [ES H]]]]. cbn zeta in H. rewrite HR in H.
  assert (Hlt : i < length h3) by lia.
  assert (G : forall hh, hh = (if c_keepshared c then step_restore mods rt (step_final rt (step_restore mods rt h3) s3) else step_final rt (step_restore mods rt h3) s3) ->
              o_train (nth i hh dobj) = if c_keepshared c then found_flag mods rt i
                                        else if memb i (reach hh s3) then rt else found_flag mods rt i).
  { intros hh EH. rewrite EH. destruct (c_keepshared c).
    - apply train_nth_restore; [exact Hi|]. unfold step_final, step_restore. rewrite !mapi_length. exact Hlt.
    - unfold step_final. rewrite reach_mapi by apply final_flag_only.
      rewrite nth_mapi by (unfold step_restore; rewrite mapi_length; exact Hlt).
      destruct (memb i (reach (step_restore mods rt h3) s3)); [reflexivity|]. apply train_nth_restore; assumption. }
  destruct (c_method c) eqn:EM.
  - destruct H as [EH _]. rewrite ES. apply G. exact EH.
  - destruct H as [EH _]. rewrite ES. apply G. exact EH.
  - destruct H as [EH _]. rewrite EH. apply train_nth_restore; assumption.
Qed.

Lemma found_flag_uniform mods rt i : Forall (fun m => u_train m = rt) mods -> found_flag mods rt i = rt.
Proof.
  intro H. unfold found_flag. destruct (Nat.ltb i (length mods)) eqn:E; [|reflexivity].
  apply Nat.ltb_lt in E. rewrite Forall_forall in H. apply H. apply nth_In. exact E.
Qed.

(* the code as it is now: ANY mix of flags in the model handed over comes back untouched *)
Corollary convert_keeps_user_flags c mods rt st :
  c_restore c = true -> c_keepshared c = true -> convert c mods rt = Some st ->
  forall i, i <= length mods -> o_train (nth i (heap st) dobj) = found_flag mods rt i.
Proof.
  intros HR HK E i Hi. rewrite (convert_user_mode c mods rt st HR E i Hi). rewrite HK. destruct (c_method c); reflexivity.
Qed.

(* a model handed over in ONE mode (all its modules agree with the model) got its flags back already before the last repair *)
Corollary convert_keeps_user_mode c mods rt st :
  c_restore c = true -> Forall (fun m => u_train m = rt) mods -> convert c mods rt = Some st ->
  forall i, i <= length mods -> o_train (nth i (heap st) dobj) = found_flag mods rt i.
Proof.
  intros HR HU E i Hi. rewrite (convert_user_mode c mods rt st HR E i Hi). rewrite (found_flag_uniform mods rt i HU).
  destruct (c_method c); try reflexivity; destruct (c_keepshared c); try reflexivity; destruct (memb i _); reflexivity.
Qed.

(* before the last repair: a Dropout kept in eval() inside a training model comes back in training mode *)
Theorem convert_keeps_user_flags_refuted : exists m mods rt st i,
  convert (before_keepshared m true false) mods rt = Some st /\ i < length mods /\
  o_train (nth i (heap st) dobj) <> found_flag mods rt i.
Proof.
  exists PIT, [mk KLayer false None 0 false true; mk KOther false (Some 0) 1 false false], true. eexists. exists 1.
  split; [vm_compute; reflexivity|]. cbn. split; [lia|discriminate].
Qed.

(* the pinned commit: the model handed over in training mode comes back in eval mode *)
Theorem convert_keeps_user_mode_refuted : exists m mods rt st,
  Forall (fun u => u_train u = rt) mods /\ convert (pinned m true false) mods rt = Some st /\
  o_train (nth (length mods) (heap st) dobj) <> rt.
Proof.
  exists PIT, [mk KLayer false None 0 false true; mk KOther false (Some 0) 1 false true], true. eexists.
  split; [repeat constructor|]. split; [vm_compute; reflexivity|]. cbn. discriminate.
Qed.

(* SuperNet: every module of the seed is the caller's own object (nothing is replaced) *)
Theorem supernet_wrap_identity c mods rt st :
  c_method c = SN -> convert c mods rt = Some st ->
  seed st = map Some (seq 0 (length mods)) /\
  forall i, i <= length mods -> pview (nth i (heap st) dobj) = pview (nth i (heap0 mods rt) dobj).
Proof.
  intros HM E. destruct (convert_shape c mods rt st E) as [h3 [s3 [L3 [ES H]]]]. cbn zeta in H. rewrite HM in H.
  destruct H as [EH [_ [_ E3]]]. split; [congruence|].
  (* no fusion happens for SN, so the parameter view is kept whatever c_copyfuse says *)
  intros i Hi. unfold convert in E. rewrite HM in E.
  destruct (c_restore c); inversion E; subst; cbn [heap].
  - unfold step_restore. rewrite pview_nth_mapi by apply restore_flag_only. apply nth_map_set_train.
  - apply nth_map_set_train.
Qed.

(* ---- invariant 3: a layer that holds a BatchNorm copy has the fold flag of the fusion *)
Definition FB (c : cfg) (o : obj) : Prop := o_bn o <> None -> o_fold o = c_fold c.

Lemma Forall_upd {A} (P : A -> Prop) i f l : Forall P l -> (forall a, P (f a)) -> Forall P (upd i f l).
Proof.
  intros H Hf. revert i. induction H as [|a l Ha Hl IH]; intros [|i]; cbn [upd]; constructor; auto.
Qed.

Lemma Forall_mapi_from {A} (P : A -> Prop) k (f : nat -> A -> A) l : Forall P l -> (forall i a, P a -> P (f i a)) -> Forall P (mapi_from k f l).
Proof. intros H Hf. revert k. induction H; intro k; cbn [mapi_from]; constructor; auto. Qed.

Lemma FB_nth c h id : Forall (FB c) h -> FB c (nth id h dobj).
Proof.
  intro H. destruct (Nat.lt_ge_cases id (length h)) as [Hl|Hl].
  - rewrite Forall_forall in H. apply H. apply nth_In. exact Hl.
  - rewrite nth_overflow by exact Hl. intro Hb. cbn in Hb. congruence.
Qed.

Lemma FB_layers c mods : forall i h s, Forall (FB c) h -> Forall (FB c) (fst (step_layers c mods i h s)).
Proof.
  induction mods as [|m t IH]; intros i h s H; cbn [step_layers]; [exact H|].
  destruct (convertible m); apply IH; [|exact H]. apply Forall_app. split; [exact H|]. constructor; [|constructor].
  intro Hb. cbn in Hb. congruence.
Qed.

Lemma FB_fuse_one c m j h s h' s' : c_setflag c = true -> Forall (FB c) h -> fuse_one c m j (h, s) = Some (h', s') -> Forall (FB c) h'.
Proof.
  intros Hc H E. unfold fuse_one in E.
  destruct (u_kind m); try (inversion E; subst; exact H).
  destruct (u_prev m) as [i|]; try (inversion E; subst; exact H).
  destruct (nth i s None) as [L|]; try (inversion E; subst; exact H).
  destruct (nth j s None) as [B|]; try (inversion E; subst; exact H).
  destruct (kind_eqb (o_kind (nth L h dobj)) KPit); try (inversion E; subst; exact H).
  destruct (Nat.ltb 1 (u_users m)); [discriminate|].
  assert (Hcopy : forall id o, FB c o -> FB c (copy_of id o)) by (intros id o Ho; exact Ho).
  assert (Hw : forall b o, FB c (fuse_write c b o)) by (intros b o _; unfold fuse_write; cbn; rewrite Hc; reflexivity).
  destruct (c_copyfuse c); inversion E; subst; apply Forall_upd; try apply Hw; repeat (apply Forall_app; split); try exact H;
    constructor; try constructor; apply Hcopy, FB_nth; repeat (apply Forall_app; split); try exact H;
    constructor; try constructor; apply Hcopy, FB_nth; exact H.
Qed.

Lemma FB_fuse c mods : c_setflag c = true -> forall j h s h' s', Forall (FB c) h -> step_fuse c mods j (h, s) = Some (h', s') -> Forall (FB c) h'.
Proof.
  intro Hc. induction mods as [|m t IH]; intros j h s h' s' H E; cbn [step_fuse] in E.
  - inversion E; subst. exact H.
  - destruct (fuse_one c m j (h, s)) as [[h1 s1]|] eqn:E1; [|discriminate]. eapply IH; [|exact E]. eapply FB_fuse_one; eassumption.
Qed.

(* every object that holds a BatchNorm copy runs with the fold flag PIT was given: together with
   open_masks_identity (which is about import_layer, whose flag IS the fusion's flag) the BatchNorm acts exactly once *)
Theorem fused_layer_flag c mods rt st :
  c_setflag c = true -> convert c mods rt = Some st ->
  forall id, o_bn (nth id (heap st) dobj) <> None -> o_fold (nth id (heap st) dobj) = c_fold c.
Proof.
  intros Hc E id. apply FB_nth. unfold convert in E.
  assert (F0 : Forall (FB c) (step_eval (heap0 mods rt))).
  { unfold step_eval, heap0. apply Forall_forall. intros o Ho. apply in_map_iff in Ho as [o' [Eo Ho]]. subst o.
    apply in_app_or in Ho as [Ho|Ho].
    - apply in_map_iff in Ho as [m [Em _]]. subst o'. intro Hb. cbn in Hb. congruence.
    - destruct Ho as [Ho|[]]. subst o'. intro Hb. cbn in Hb. congruence. }
  set (h1 := step_eval (heap0 mods rt)) in *. set (s1 := map Some (seq 0 (length mods))) in *.
  destruct (match c_method c with
            | PIT => if c_auto c then step_layers c mods 0 h1 s1 else (h1, s1)
            | MPS => step_layers c mods 0 h1 s1 | SN => (h1, s1) end) as [h2 s2] eqn:E2.
  assert (F2 : Forall (FB c) h2).
  { destruct (c_method c); [destruct (c_auto c)| |]; try (inversion E2; subst; exact F0);
      pose proof (FB_layers c mods 0 h1 s1 F0) as F'; rewrite E2 in F'; exact F'. }
  destruct (match c_method c with PIT => step_fuse c mods 0 (h2, s2) | _ => Some (h2, s2) end) as [[h3 s3]|] eqn:E3; [|discriminate].
  assert (F3 : Forall (FB c) h3).
  { destruct (c_method c); try (inversion E3; subst; exact F2). eapply FB_fuse; eassumption. }
  assert (Ft : forall (f : nat -> obj -> obj) h, (forall i o, FB c o -> FB c (f i o)) -> Forall (FB c) h -> Forall (FB c) (mapi f h)).
  { intros f h Hf Hh. apply Forall_mapi_from; assumption. }
  assert (F4 : Forall (FB c) (if c_restore c then step_restore mods rt h3 else h3)).
  { destruct (c_restore c); [|exact F3]. apply Ft; [|exact F3]. intros i o Ho. destruct (Nat.leb i (length mods)); exact Ho. }
  assert (Frest : forall h, Forall (FB c) h -> Forall (FB c) (step_restore mods rt h)).
  { intros h Hh. apply Ft; [|exact Hh]. intros i o Ho. destruct (Nat.leb i (length mods)); exact Ho. }
  assert (Ffin : forall h s, Forall (FB c) h -> Forall (FB c) (step_final rt h s)).
  { intros h s Hh. apply Ft; [|exact Hh]. intros i o Ho. destruct (memb i _); exact Ho. }
  destruct (c_method c); inversion E; subst; cbn [heap]; try exact F4; destruct (c_keepshared c); try apply Frest; apply Ffin; exact F4.
Qed.

(* the pinned commit: a user-placed layer built with the default flag and folded by PIT(fold_bn=True) *)
Theorem fused_layer_flag_refuted : exists mods rt st id,
  convert (pinned PIT false true) mods rt = Some st /\ nth 0 (seed st) None = Some id /\
  o_bn (nth id (heap st) dobj) <> None /\ 0 < o_ver (nth id (heap st) dobj) /\ o_fold (nth id (heap st) dobj) = false.
Proof.
  exists [mk KPit false None 0 false true; mk KBn false (Some 0) 1 false true], true. eexists. exists 0.
  split; [vm_compute; reflexivity|]. cbn. repeat split; [discriminate|lia].
Qed.
