(* Proofs/CalcMasks.v — every family of rational parameter vectors gives a mask assignment that the C09
   theorems accept, keeps every layer and every exported tensor non-empty, and keeps frozen components whole. *)
From Coq Require Import QArith List Bool Arith Lia.
Import ListNotations.
Require Import Plinio.Base.Qx Plinio.Model.Masks Plinio.Proofs.Masks Plinio.Model.Calc Plinio.Proofs.Calc Plinio.Model.CalcMasks.
Local Open Scope nat_scope.

Lemma frozen_bits a : map bin (theta_alpha_frozen a) = repeat true (length a).
Proof. unfold theta_alpha_frozen. induction a as [|x a IH]; [reflexivity|]. cbn [map length repeat]. rewrite IH. reflexivity. Qed.

Lemma features_mask_length a : length (features_mask a) = length a.
Proof. unfold features_mask, theta_alpha. rewrite map_length. apply keep_alive_length. Qed.

Lemma in_search nt i : In i (search_layers nt) <-> i < length nt /\ is_search_layer (node_at nt i) = true.
Proof. unfold search_layers. rewrite filter_In, in_seq. split; intros [A B]; split; auto; lia. Qed.

Lemma masker_of_true nt i : exists c fr, masker_of true nt i = Some (c, fr).
Proof. unfold masker_of. rewrite orb_true_r. eauto. Qed.

(* the representative of the component of a searchable layer is a searchable layer with the same masker *)
Lemma masker_rep nt i c fr : i < length nt -> is_search_layer (node_at nt i) = true ->
  masker_of true nt i = Some (c, fr) -> masker_of true nt c = Some (c, fr).
Proof.
  intros Hi Hs E. unfold masker_of in *. rewrite orb_true_r in *.
  set (L := nth i (labels nt) 0) in *.
  set (lst := filter (fun j => is_search_layer (node_at nt j)) (members nt L)) in *.
  assert (Hin : In i lst).
  { unfold lst, members. cbv zeta. rewrite filter_In, filter_In, in_seq, Nat.eqb_eq. repeat split; auto; lia. }
  assert (Hc : In c lst).
  { injection E as Ec _. destruct lst as [|x r]; [contradiction|]. simpl in Ec. subst. left. reflexivity. }
  assert (HL : nth c (labels nt) 0 = L).
  { unfold lst, members in Hc. cbv zeta in Hc. rewrite filter_In, filter_In, Nat.eqb_eq in Hc. tauto. }
  rewrite HL. fold lst.
  injection E as Ec Ef. rewrite Ef. f_equal. f_equal.
  destruct lst as [|x r]; [contradiction|]. simpl in *. exact Ec.
Qed.

Lemma width_layer nt i s co k sr : i < length nt -> node_at nt i = NLayer s co k sr -> nth i (widths nt) 0 = co.
Proof. intros Hi E. rewrite widths_nth by exact Hi. rewrite E. reflexivity. Qed.

Lemma pos_node nt i : pos_b nt = true -> i < length nt ->
  match node_at nt i with
  | NIn c => 1 <= c | NLayer _ co _ _ => 1 <= co | NFlat _ m _ => 1 <= m | _ => True end.
Proof.
  intros H Hi. unfold pos_b in H. rewrite forallb_forall in H.
  specialize (H (node_at nt i) (nth_In _ _ Hi)).
  destruct (node_at nt i); auto; apply Nat.leb_le; exact H.
Qed.

Section Comp.
Context (nt : net) (alpha : nat -> list Q).
Context (Hwf : wf nt = true) (Hok : alpha_ok_b nt alpha = true).
Let ms := comp_mask nt alpha.

Lemma alpha_len i c fr : i < length nt -> is_search_layer (node_at nt i) = true ->
  masker_of true nt i = Some (c, fr) -> length (alpha c) = nth i (widths nt) 0.
Proof.
  intros Hi Hs E. unfold alpha_ok_b in Hok. rewrite forallb_forall in Hok.
  specialize (Hok i (proj2 (in_search nt i) (conj Hi Hs))). rewrite E in Hok. apply Nat.eqb_eq. exact Hok.
Qed.

Lemma comp_mask_length i : i < length nt -> is_search_layer (node_at nt i) = true ->
  length (ms i) = nth i (widths nt) 0.
Proof.
  intros Hi Hs. destruct (masker_of_true nt i) as (c & fr & E).
  unfold ms, comp_mask. rewrite E. rewrite <- (alpha_len i c fr Hi Hs E).
  destruct fr; [rewrite frozen_bits, repeat_length; reflexivity|apply features_mask_length].
Qed.

(* (3) a frozen component keeps its full width *)
Lemma frozen_full i c : i < length nt -> is_search_layer (node_at nt i) = true ->
  masker_of true nt i = Some (c, true) -> ms i = repeat true (nth i (widths nt) 0).
Proof.
  intros Hi Hs E. unfold ms, comp_mask. rewrite E, frozen_bits, (alpha_len i c true Hi Hs E). reflexivity.
Qed.

(* (1) the assignment is one the repaired sharing can produce *)
Theorem comp_consistent : consistent_b true nt ms = true.
Proof.
  unfold consistent_b. cbv zeta. apply forallb_forall. intros i Hi.
  apply filter_In in Hi as [Hi Hs]. apply in_seq in Hi. assert (Hlt : i < length nt) by lia.
  destruct (masker_of_true nt i) as (c & fr & E). rewrite E.
  rewrite (comp_mask_length i Hlt Hs), Nat.eqb_refl. cbn [andb].
  assert (Hc : ms c = ms i).
  { unfold ms, comp_mask. rewrite E, (masker_rep nt i c fr Hlt Hs E). reflexivity. }
  rewrite Hc, lbeq_refl, andb_true_r.
  destruct fr; [|reflexivity]. cbn [negb orb].
  rewrite (frozen_full i c Hlt Hs E). apply lbeq_refl.
Qed.

Context (Hpos : pos_b nt = true).

(* (2a) every searchable layer keeps at least one alive output feature *)
Theorem comp_layer_alive i : i < length nt -> is_search_layer (node_at nt i) = true -> 1 <= count (ms i).
Proof.
  intros Hi Hs. destruct (masker_of_true nt i) as (c & fr & E).
  assert (Hw : 1 <= nth i (widths nt) 0).
  { pose proof (pos_node nt i Hpos Hi) as P. destruct (node_at nt i) as [|s co k sr| | | | |] eqn:En; try discriminate.
    rewrite (width_layer nt i s co k sr Hi En). exact P. }
  destruct fr.
  - rewrite (frozen_full i c Hi Hs E), count_repeat_true. exact Hw.
  - unfold ms, comp_mask. rewrite E.
    assert (Hne : alpha c <> []).
    { intro Z. pose proof (alpha_len i c false Hi Hs E) as L. rewrite Z in L. simpl in L. lia. }
    exact (alpha_alive (alpha c) Hne).
Qed.

(* (2b) every tensor of the exported network has at least one feature *)
Theorem comp_xwidth_pos : forall j, j < length nt -> 1 <= nth j (xwidths nt ms) 0.
Proof.
  intro j. induction j as [j IH] using lt_wf_ind. intro Hj.
  pose proof (wf_srcs nt j Hwf Hj) as Hs.
  pose proof (wf_node nt j Hwf Hj) as Hn.
  pose proof (pos_node nt j Hpos Hj) as Hp.
  rewrite xwidths_nth by exact Hj. unfold xwidth_step.
  assert (Hlen : length (firstn j (xwidths nt ms)) = j).
  { unfold xwidths. apply firstn_build_length. lia. }
  rewrite Hlen.
  assert (G : forall s, s < j -> 1 <= nth s (firstn j (xwidths nt ms)) 0).
  { intros s Hsj. rewrite nth_firstn_lt by exact Hsj. apply IH; lia. }
  destruct (node_at nt j) as [c|s co k sr|s sr|s t|s m t|a b t|l] eqn:En; simpl in Hs.
  - exact Hp.
  - destruct sr; [|exact Hp]. apply comp_layer_alive; [exact Hj|rewrite En; reflexivity].
  - apply G, Hs. auto.
  - apply G, Hs. auto.
  - assert (1 <= nth s (firstn j (xwidths nt ms)) 0) by (apply G, Hs; auto). nia.
  - apply G, Hs. auto.
  - unfold wf_step in Hn. apply andb_true_iff in Hn as [_ Hn].
    destruct l as [|x l]; [discriminate|].
    assert (Hx : 1 <= nth x (firstn j (xwidths nt ms)) 0) by (apply G, Hs; left; reflexivity).
    change (1 <= nth x (firstn j (xwidths nt ms)) 0
                 + list_sum (map (fun j0 => nth j0 (firstn j (xwidths nt ms)) 0) l)). lia.
Qed.

(* (4) the C09 theorems apply: shape-consistent, non-empty export for every parameter setting *)
Theorem comp_sound : sound_b nt ms = true.
Proof. apply P3; [exact Hwf|exact comp_consistent]. Qed.

Theorem comp_export_ok :
  shape_ok true nt ms = true /\
  (forall j, j < length nt -> 1 <= nth j (xwidths nt ms) 0) /\
  (forall i, i < length nt -> consumer nt i = true ->
     export_in true nt ms i = nth (src1 (node_at nt i)) (xwidths nt ms) 0 /\ 1 <= export_in true nt ms i) /\
  (forall i, i < length nt -> is_search_layer (node_at nt i) = true -> 1 <= nth i (xwidths nt ms) 0).
Proof.
  split; [apply export_shape_consistent_fixed; [exact Hwf|exact comp_sound]|].
  split; [exact comp_xwidth_pos|]. split.
  - intros i Hi Hc.
    pose proof (wf_srcs nt i Hwf Hi _ (consumer_src nt i Hc)) as Hlt.
    rewrite (in_features_export nt ms Hwf comp_sound (names_ok_fixed nt Hwf) i Hi Hc).
    assert (Hl : src1 (node_at nt i) < length nt) by lia.
    rewrite <- (xwidth_count nt ms Hwf comp_sound _ Hl).
    split; [reflexivity|apply comp_xwidth_pos; exact Hl].
  - intros i Hi _. apply comp_xwidth_pos; exact Hi.
Qed.
End Comp.

