"""C04 helper: the shared grammar of gen_arch.py extended with one production of this property's quantifier,
"a layer invoked twice per forward":

  reuse   {'src', 'layer': j}      calls the module of node j (a conv1d / conv2d / linear node) on v[src]

and with a PARTIAL flatten that turns a 2-D feature map into a 1-D one (the rest of the network is 1-D):

  flatten12 {'src', 'form': 'method' | 'kw' | 'fn'}     (N,C,H,W) -> (N,C*H,W):
            x.flatten(1, 2) | torch.flatten(x, start_dim=1, end_dim=2) | torch.flatten(x, 1, 2)

`build` / `shapes` / `describe` accept the extended node list (everything else is delegated to gen_arch).
"""
import copy
from . import gen_arch as ga


def _plain(spec):
    """the same node list in gen_arch's vocabulary (for shapes / topology predicates): a reuse node becomes a copy of
    the node it re-invokes, a partial flatten becomes a pseudo input of the flattened shape"""
    nodes = []
    for nd in spec['nodes']:
        if nd['k'] == 'reuse':
            c = dict(spec['nodes'][nd['layer']])
            c['src'] = nd['src']
            nodes.append(c)
        elif nd['k'] == 'flatten12':
            sh = ga.shapes({'nodes': nodes})[nd['src']]
            nodes.append({'k': 'in', 'shape': [sh[0] * sh[1], sh[2]], 'flatten12_of': nd['src'], 'mult': sh[1]})
        else:
            nodes.append(nd)
    return {'nodes': nodes}


def shapes(spec):
    return ga.shapes(_plain(spec))


def describe(spec):
    return ' '.join('%d:%s%s%s' % (i, nd['k'], ('<-' + str(nd['src'])) if 'src' in nd else '', ('@%d' % nd['layer']) if nd['k'] == 'reuse' else '')
                    for i, nd in enumerate(spec['nodes']))


def build(spec, seed=0):
    import torch, torch.nn as nn
    nodes = spec['nodes']

    class GNet(nn.Module):
        def __init__(self):
            super().__init__()
            self.layers = nn.ModuleDict()
            for i, nd in enumerate(nodes):
                m = ga._mk(nn, nd) if nd['k'] != 'reuse' else None
                if m is not None:
                    self.layers['n%d' % i] = m

        def forward(self, x0):
            v = []
            for i, nd in enumerate(nodes):
                k = nd['k']
                if k == 'in':
                    v.append(x0)
                elif k == 'add':
                    v.append(v[nd['src'][0]] + v[nd['src'][1]])
                elif k == 'cat':
                    v.append(torch.cat([v[j] for j in nd['src']], dim=nd['dim']))
                elif k == 'relu_f':
                    v.append(torch.relu(v[nd['src']]))
                elif k == 'flatten':
                    v.append(torch.flatten(v[nd['src']], 1))
                elif k == 'reuse':
                    v.append(self.layers['n%d' % nd['layer']](v[nd['src']]))
                elif k == 'flatten12':
                    if nd['form'] == 'method':
                        v.append(v[nd['src']].flatten(1, 2))
                    elif nd['form'] == 'kw':
                        v.append(torch.flatten(v[nd['src']], start_dim=1, end_dim=2))
                    else:
                        v.append(torch.flatten(v[nd['src']], 1, 2))
                else:
                    v.append(self.layers['n%d' % i](v[nd['src']]))
            return v[spec['out'][0]]

    m = GNet()
    g = torch.Generator().manual_seed(seed)
    with torch.no_grad():
        for mod in m.modules():
            if isinstance(mod, (nn.Conv1d, nn.Conv2d, nn.Linear)):
                mod.weight.copy_(torch.randn(mod.weight.shape, generator=g) * 0.5)
                if mod.bias is not None:
                    mod.bias.copy_(torch.randn(mod.bias.shape, generator=g) * 0.5)
    return m


class G2(ga.G):
    def sh(self, i):
        return shapes({'nodes': self.nodes})[i]

    def twice(self, cur):
        """a convolution S applied to `cur` and once more to a second tensor derived from `cur`
        (same channels, possibly another spatial size); the two results are joined by add (same size)
        or by global pooling + channel concat (different sizes)"""
        rng = self.rng
        self.prod.append('twice')
        dw = rng.random() < 0.2
        s = self.same_shape_conv(cur, dw=dw)
        nd = self.nodes[s]
        sp = self.sh(cur)[1:]
        other = cur
        r = rng.random()
        diff = False
        if r < 0.4 and min(sp) >= 4:
            other = self.add(k=rng.choice(['avgpool', 'maxpool']) + '%dd' % self.dim, src=cur, ks=2)
            diff = True
        elif r < 0.7:
            other = self.add(k='relu', src=cur)
        elif r < 0.85:
            other = self.add(k='identity', src=cur)
        if self.dim == 1:
            left = (nd['ks'] - 1) * nd['dil']
            if self.nodes[nd['src']]['k'] == 'pad1d':
                other = self.add(k='pad1d', src=other, left=left)
        a = self.act(s)
        b = self.add(k='reuse', src=other, layer=s)
        if diff or rng.random() < 0.4:
            ga_, gb_ = self.add(k='gap%dd' % self.dim, src=a), self.add(k='gap%dd' % self.dim, src=b)
            return self.add(k='cat', src=[ga_, gb_], dim=1)
        return self.add(k='add', src=[a, b])

    def shared_cat(self, cur):
        """a channel-wise concatenation whose operands descend from ONE searchable layer through features-propagating
        ops (they carry the very same features calculator), or are the same tensor, consumed by a searchable layer"""
        rng = self.rng
        y = self.same_shape_conv(cur)
        y = self.add(k=rng.choice(['relu', 'relu6', 'identity']), src=y)
        sp = self.sh(y)[1:]
        kinds = ['act', 'act', 'bn', 'three', 'dup'] + (['pools', 'pools'] if min(sp) >= 4 else [])
        kind = rng.choice(kinds)
        self.prod.append('shared-cat:' + kind)
        if kind == 'pools':
            ops = [self.add(k='avgpool%dd' % self.dim, src=y, ks=2), self.add(k='maxpool%dd' % self.dim, src=y, ks=2)]
            if rng.random() < 0.3:
                ops.reverse()
        elif kind == 'act':
            z = self.add(k=rng.choice(['relu', 'relu_f', 'relu6', 'dropout']), src=y)
            ops = [y, z] if rng.random() < 0.6 else [z, y]
        elif kind == 'bn':
            c = self.sh(y)[0]
            ops = [y, self.add(k='bn1d' if len(self.sh(y)) <= 2 else 'bn2d', src=y, c=c)]
        elif kind == 'three':
            ops = [y, self.add(k='relu', src=y), self.add(k='identity', src=y)]
        else:
            ops = [y, y]
        cur = self.add(k='cat', src=ops, dim=1)
        return self.act(self.bn(self.conv(cur, stride_ok=False), 0.3))

    def partial_flatten(self, cur):
        """(C,H,W) -> (C*H, W) followed by a (causally padded) Conv1d; from here on the network is 1-D"""
        self.prod.append('partial-flatten')
        cur = self.add(k='flatten12', src=cur, form=self.rng.choice(['method', 'kw', 'fn']))
        self.dim = 1
        return self.act(self.bn(self.conv(cur, stride_ok=False), 0.3))

    def twice_linear(self, cur):
        """head: two linear heads sharing one hidden Linear:  L(f) + L(relu(f))"""
        rng = self.rng
        self.prod.append('twice-linear')
        f = self.sh(cur)[0]
        h = rng.randint(2, 5)
        l = self.add(k='linear', src=cur, cin=f, cout=h, bias=rng.random() < 0.8)
        o = self.add(k='relu', src=cur)
        b = self.add(k='reuse', src=o, layer=l)
        return self.add(k='add', src=[self.act(l), b]) if rng.random() < 0.6 else self.add(k='cat', src=[l, b], dim=1)


def gen(rng, dim=None, depth=None, p_twice=0.35, p_pflat=0.0, p_scat=0.0, **opts):
    """gen_arch.gen with the extra production (probability p_twice per network, at a random body position)"""
    dim = dim or rng.choice([1, 2])
    g = G2(rng, dim, opts)
    cin = opts.get('cin') or rng.randint(1, 4)
    if dim == 1:
        cur = g.add(k='in', shape=[cin, opts.get('T') or rng.randint(8, 16)])
    else:
        # rectangular inputs: several aspect ratios, most of them with ceil(H/2)*ceil(W/8) != ceil(W/2)*ceil(H/8)
        # (a cost model that confuses the two spatial axes must show), some square ones
        if opts.get('HW'):
            H = W = opts['HW']
        else:
            H, W = rng.choice([(5, 5), (6, 6), (7, 7), (6, 8), (8, 5), (5, 8), (10, 6), (6, 10), (16, 4), (4, 16), (9, 5), (12, 7), (20, 12), (12, 5)])
        cur = g.add(k='in', shape=[cin, H, W])
    g.prod.append('stem')
    cur = g.act(g.bn(g.conv(cur)))
    nb = depth if depth is not None else rng.randint(1, 4)
    tw = rng.randrange(nb) if rng.random() < p_twice else -1
    pf = rng.randrange(nb + 1) if (dim == 2 and rng.random() < p_pflat) else -1
    sc = rng.randrange(nb) if rng.random() < p_scat else -1
    for b in range(nb):
        if b == sc:
            cur = g.shared_cat(cur)
        if b == pf:
            cur = g.partial_flatten(cur)
        cur = g.twice(cur) if b == tw else g.block(cur)
    if pf == nb:
        cur = g.partial_flatten(cur)
    if opts.get('conv_head') and rng.random() < 0.3:
        cur = g.conv(cur, cout=rng.randint(2, 3), stride_ok=False)
        g.prod.append('head-conv')
    elif rng.random() < 0.15:
        cur = g.add(k='gap%dd' % g.dim, src=cur)
        cur = g.add(k='flatten', src=cur)
        cur = g.twice_linear(cur)
        cur = g.add(k='linear', src=cur, cin=g.sh(cur)[0], cout=rng.randint(2, 4), bias=rng.random() < 0.8)
    else:
        cur = g.head(cur, rng.randint(2, 4))
    spec = {'dim': dim, 'nodes': g.nodes, 'out': [cur], 'productions': g.prod}
    spec['input_shape'] = list(g.nodes[0]['shape'])
    return spec


def skip_reason(spec):
    """topologies whose feature bookkeeping is decided by C09 (see gen_arch)"""
    p = _plain(spec)
    if ga.has_dw_after_cat(p):
        return 'dw-after-cat'
    if ga.has_add_of_cat(p):
        return 'add-of-cat'
    return None
