"""Shared by C08 / C01 / C04: PIT masker-level cases (adversarial real vectors realising every binarized
receptive-field x dilation pattern) and their observation on the real maskers / PITConv1d."""
import math
from .common import *

ADV = [0.0, -0.0, 2.0 ** -12, -2.0 ** -5, 0.25, -0.25, 0.5 - 2.0 ** -10, -(0.5 - 2.0 ** -10), 0.5, 0.5 + 2.0 ** -10, 0.75, -0.75, 1.0, -1.0, 3.0, -3.0, 1e30, -1e30]
BIG = [0.75, -0.75, 1.0, -1.0, 3.0, 0.5 + 2.0 ** -10, 1e30, -1e30]
SMALL = [0.0, -0.0, 2.0 ** -12, -2.0 ** -12, 2.0 ** -20]


def glen(K):
    return max(math.ceil(math.log2(K)) if K > 1 else 0, 1)


def beta_for(rng, K, r, style):
    """K-vector beta whose binarized cumulative mask keeps exactly the last r taps (element K-1 is keep-alive)"""
    b = [0.0] * K
    for i in range(K - 1):
        if i < K - r:
            b[i] = rng.choice(SMALL) if style != 'zero' else 0.0
        elif i == K - r:
            b[i] = rng.choice(BIG) if style != 'zero' else 1.0
        else:
            b[i] = rng.choice(ADV) if style == 'adv' else 1.0
    b[K - 1] = rng.choice(ADV) if style == 'adv' else (0.0 if style == 'zero' else 1.0)   # ignored (keep-alive)
    return b


def gamma_for(rng, K, v, style):
    """gamma (length L) whose binarized comb has spacing 2^v; element L-1 is keep-alive (v = L-1 when all others pruned)"""
    L = glen(K)
    g = [0.0] * L
    for i in range(L - 1):
        if i < v:
            g[i] = rng.choice(SMALL) if style != 'zero' else 0.0
        elif i == v:
            g[i] = rng.choice(BIG) if style != 'zero' else 1.0
        else:
            g[i] = rng.choice(ADV) if style == 'adv' else 1.0
    g[L - 1] = rng.choice(ADV) if style == 'adv' else (0.0 if style == 'zero' else 1.0)
    return g


def alpha_for(rng, C, style):
    if style == 'allzero':
        return [0.0] * C
    if style == 'neg':
        return [-0.25] * C
    if style == 'single':
        a = [0.0] * C
        a[rng.randrange(C)] = -1e30
        return a
    return [rng.choice(ADV) for _ in range(C)]


def pattern_cases(rng, Kmax, reps=1):
    """every (K, r, v) pattern, `reps` adversarial realisations + the all-zero / all-open ones"""
    out = []
    for K in range(1, Kmax + 1):
        L = glen(K)
        for r in range(1, K + 1):
            for v in range(0, L):
                styles = ['adv'] * reps + (['zero'] if (r == 1 or v == L - 1) else []) + (['open'] if (r == K and v == 0) else [])
                for st in styles:
                    out.append({'K': K, 'd0': rng.choice([1, 1, 2, 3]), 'r': r, 'v': v, 'style': st,
                                'beta': beta_for(rng, K, r, st), 'gamma': gamma_for(rng, K, v, st),
                                'alpha': alpha_for(rng, rng.randint(1, 6), rng.choice(['adv', 'allzero', 'neg', 'single']))})
    return out


def random_cases(rng, Kmax, n):
    out = []
    for _ in range(n):
        K = rng.randint(1, Kmax)
        L = glen(K)
        dy = lambda: rng.choice([0.0, 0.0, rng.randint(-64, 64) / 64.0, rng.randint(-8, 8) / 16.0])
        out.append({'K': K, 'd0': rng.choice([1, 2, 3]), 'r': None, 'v': None, 'style': 'dyadic',
                    'beta': [dy() for _ in range(K)], 'gamma': [dy() for _ in range(L)], 'alpha': [dy() for _ in range(rng.randint(1, 8))]})
    return out


def observe(torch, c):
    """instantiate the real maskers and a PITConv1d; return the observations (exceptions are observations)"""
    import torch.nn as nn
    from plinio.methods.pit.nn import PITConv1d
    from plinio.methods.pit.nn.features_masker import PITFeaturesMasker
    from plinio.methods.pit.nn.timestep_masker import PITTimestepMasker
    from plinio.methods.pit.nn.dilation_masker import PITDilationMasker
    from plinio.methods.pit.nn.binarizer import PITBinarizer
    K, d0 = c['K'], c['d0']
    C = len(c['alpha'])
    conv = nn.Conv1d(2, C, K, dilation=d0)
    fm, tm, dm = PITFeaturesMasker(C), PITTimestepMasker(K), PITDilationMasker(K)
    with torch.no_grad():
        fm.alpha.copy_(torch.tensor(c['alpha']))
        tm.beta.copy_(torch.tensor(c['beta']))
        if dm.gamma.numel() != len(c['gamma']):
            return {'exc': 'gamma_len %d != %d' % (dm.gamma.numel(), len(c['gamma']))}
        dm.gamma.copy_(torch.tensor(c['gamma']))
    layer = PITConv1d(conv, fm, tm, dm)
    o = {}
    with torch.no_grad():
        o['bin_beta'] = [bool(x) for x in PITBinarizer.apply(tm.theta, 0.5)]
        o['bin_gamma'] = [bool(x) for x in PITBinarizer.apply(dm.theta, 0.5)]
        o['time_mask'] = [bool(x) for x in layer.time_mask]
        o['k_opt'] = layer.kernel_size_opt[0]
        o['dil_opt'] = layer.dilation_opt[0]
        o['gamma_len'] = dm._gamma_len
        o['features_mask'] = [bool(x) for x in layer.features_mask]
        o['out_features_opt'] = layer.out_features_opt
        layer.discrete_cost = False
        o['k_eff_cont'] = float(layer.k_eff)
        layer.discrete_cost = True
        o['k_eff_disc'] = float(layer.k_eff)
    return o


def coq_masks_expr(c, flip=True):
    fr = lambda l: [Fraction(x) for x in l]
    return 'run_masks %s %s %s %s %s' % ('true' if flip else 'false', coq(Nat(c['K'])), coq(Nat(c['d0'])), coq(fr(c['beta'])), coq(fr(c['gamma'])))


def coq_alpha_expr(c):
    return 'run_alpha %s' % coq([Fraction(x) for x in c['alpha']])


def kept_lags(K, mask):
    return [K - 1 - j for j in range(K) if mask[j]]


def export_lags(k, s):
    return [(k - 1 - i) * s for i in range(k)]
