(* C04 — PIT cost equals the real cost of the network that export would produce.
   Statements only (proofs: Proofs/PitCost.v; model: Model/PitCost.v, Model/Masks.v). *)
From Coq Require Import QArith ZArith List Bool Arith.
Import ListNotations.
Require Import Plinio.Base.Qx Plinio.Model.Masks Plinio.Model.PitCost Plinio.Proofs.PitCost.
Local Open Scope nat_scope.

Theorem C04_cost_discrete_eq_export : forall spec net ms full,
  groups_blind spec -> dw_consistent net ms -> no_degenerate net ms ->
  pit_cost spec net ms true full = plain_cost spec full (export_net net ms).
Proof. exact cost_discrete_eq_export. Qed.

Print Assumptions C04_cost_discrete_eq_export.
