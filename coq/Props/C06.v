(* C06 — SuperNet cost is the coefficient-weighted mix of branch costs.
   Statements only (proofs: Proofs/SuperNet.v; model: Model/SuperNet.v).  Quantifiers: every network of the
   IR, every per-layer cost function `cost : module -> call site -> Q` (any sign), shared and per-invocation
   metrics, full_cost on/off, every coefficient assignment (probability vectors where stated), every winner
   assignment. *)
From Coq Require Import QArith List ZArith.
Import ListNotations.
Require Import Plinio.Base.Qx Plinio.Model.SuperNet Plinio.Proofs.SuperNet.

(* the cost is the sum over the combiners of the coefficient-weighted branch costs ... *)
Theorem C06_sn_cost_is_weighted_mix : forall cost shared th nt,
  sn_cost cost shared false th nt ==
  qsum (map (fun e => match e with ECombiner b brs => dot (th b) (map (branch_cost cost) brs) | ELayer _ _ => 0 end) (target_list shared nt)).
Proof. exact sn_cost_is_weighted_mix. Qed.

(* ... plus, with full_cost, the cost of the layers outside the choice blocks *)
Theorem C06_sn_cost_full_adds_fixed : forall cost shared th nt,
  sn_cost cost shared true th nt == sn_cost cost shared false th nt + fixed_cost cost shared nt.
Proof. exact sn_cost_full_adds_fixed. Qed.

(* for probability vectors it lies between the cheapest and the most expensive selection ... *)
Theorem C06_sn_cost_convex : forall cost shared full th nt, blocks_consistent nt -> coeffs_ok th nt ->
  sn_cost cost shared full (hard_sel nt (cheapest cost nt)) nt <= sn_cost cost shared full th nt /\
  sn_cost cost shared full th nt <= sn_cost cost shared full (hard_sel nt (dearest cost nt)) nt.
Proof. exact sn_cost_convex. Qed.

(* ... which are the minimum and the maximum over ALL selections *)
Theorem C06_sn_cost_selection_bounds : forall cost shared full nt win, blocks_consistent nt -> winners_ok win nt ->
  sn_cost cost shared full (hard_sel nt (cheapest cost nt)) nt <= sn_cost cost shared full (hard_sel nt win) nt /\
  sn_cost cost shared full (hard_sel nt win) nt <= sn_cost cost shared full (hard_sel nt (dearest cost nt)) nt.
Proof. exact sn_cost_selection_bounds. Qed.

(* affine in the coefficient vector of each block *)
Theorem C06_sn_cost_affine : forall cost shared full th nt b lam u v, length u = length v ->
  sn_cost cost shared full (upd th b (lin lam u v)) nt ==
  lam * sn_cost cost shared full (upd th b u) nt + (1 - lam) * sn_cost cost shared full (upd th b v) nt.
Proof. exact sn_cost_affine. Qed.

(* hard selection: the cost is the same metric computed from scratch on the exported network.
   Guards: site_independent (every module has the same output shape at each of its call sites -- see the
   refuted statement below and KNOWN_FINDINGS), names_ok / blocks_disjoint (a module belongs to one block or
   to none, and its name says so), winners_nodup (per-invocation metrics: no module reused inside a branch). *)
Theorem C06_sn_cost_hard_eq_export_cost_shared : forall cost inb full win nt e,
  site_independent cost -> blocks_consistent nt -> names_ok inb nt -> blocks_disjoint nt ->
  sn_export win nt = Some e ->
  sn_cost cost true full (hard_sel nt win) nt == plain_cost cost true full inb (fixed_layers e).
Proof. exact sn_cost_hard_eq_export_cost_shared. Qed.

Theorem C06_sn_cost_hard_eq_export_cost_per_call : forall cost inb full win nt e,
  site_independent cost -> blocks_consistent nt -> names_ok inb nt -> winners_nodup win nt ->
  sn_export win nt = Some e ->
  sn_cost cost false full (hard_sel nt win) nt == plain_cost cost false full inb (fixed_layers e).
Proof. exact sn_cost_hard_eq_export_cost_per_call. Qed.

(* full statement (no site_independent guard) is violated by the code as it is: a block invoked twice at
   different resolutions is charged twice the per-invocation cost of its first call site *)
Theorem C06_sn_cost_site_dependent_refuted : exists cost inb win nt e,
  blocks_consistent nt /\ names_ok inb nt /\ winners_nodup win nt /\ sn_export win nt = Some e /\
  ~ sn_cost cost false false (hard_sel nt win) nt == plain_cost cost false false inb (fixed_layers e).
Proof. exact sn_cost_site_dependent_refuted. Qed.

(* a concrete non-trivial instance: two blocks, one used twice, soft coefficients *)
Example C06_example :
  let cost := fun (i : Z) (_ : nat) => inject_Z (i * i) in
  let nt := [NFixed (Mod 9); NChoice 0 [[Mod 1]; [Mod 2; Mod 3]]; NChoice 1 [[Mod 4]; [Mod 5; Fn 0]; [Mod 6]]; NChoice 0 [[Mod 1]; [Mod 2; Mod 3]]] in
  let th := fun b : Z => if Z.eqb b 0 then [1#4; 3#4] else [1#2; 1#4; 1#4] in
  blocks_consistent nt /\ coeffs_ok th nt /\
  sn_cost cost true false th nt == 10 + (93#4) /\ sn_cost cost false true th nt == 20 + (93#4) + 81 /\
  sn_cost cost true false (hard_sel nt (cheapest cost nt)) nt == 17 /\ sn_cost cost true false (hard_sel nt (dearest cost nt)) nt == 49.
Proof.
  cbn zeta. split; [|split].
  - intros b brs brs' [H|[H|[H|[H|[]]]]] [H'|[H'|[H'|[H'|[]]]]]; congruence.
  - intros b brs [H|[H|[H|[H|[]]]]]; try discriminate; injection H as <- <-; cbn;
      (split; [split; [repeat constructor; discriminate|reflexivity]|reflexivity]).
  - vm_compute. repeat split; reflexivity.
Qed.

(* ---- generalised branch bodies (expressions with binary ops, residuals): the cost depends on the leaf layers of the
   bodies only (g_cost = sn_cost of g_flatten, which commutes with export: C03_g_flatten_export) *)
Theorem C06_g_cost_is_weighted_mix : forall cost shared th g,
  g_cost cost shared false th g ==
  qsum (map (fun e => match e with ECombiner b brs => dot (th b) (map (branch_cost cost) brs) | ELayer _ _ => 0 end) (target_list shared (g_flatten g))).
Proof. exact g_cost_is_weighted_mix. Qed.

Theorem C06_g_cost_full_adds_fixed : forall cost shared th g,
  g_cost cost shared true th g == g_cost cost shared false th g + fixed_cost cost shared (g_flatten g).
Proof. exact g_cost_full_adds_fixed. Qed.

Theorem C06_g_cost_convex : forall cost shared full th g, g_blocks_consistent g -> g_coeffs_ok th g ->
  g_cost cost shared full (g_hard_sel g (cheapest cost (g_flatten g))) g <= g_cost cost shared full th g /\
  g_cost cost shared full th g <= g_cost cost shared full (g_hard_sel g (dearest cost (g_flatten g))) g.
Proof. exact g_cost_convex. Qed.

Theorem C06_g_cost_selection_bounds : forall cost shared full g win, g_blocks_consistent g -> g_winners_ok win g ->
  g_cost cost shared full (g_hard_sel g (cheapest cost (g_flatten g))) g <= g_cost cost shared full (g_hard_sel g win) g /\
  g_cost cost shared full (g_hard_sel g win) g <= g_cost cost shared full (g_hard_sel g (dearest cost (g_flatten g))) g.
Proof. exact g_cost_selection_bounds. Qed.

Theorem C06_g_cost_affine : forall cost shared full th g b lam u v, length u = length v ->
  g_cost cost shared full (upd th b (lin lam u v)) g ==
  lam * g_cost cost shared full (upd th b u) g + (1 - lam) * g_cost cost shared full (upd th b v) g.
Proof. exact g_cost_affine. Qed.

Theorem C06_g_cost_hard_eq_export_cost_shared : forall cost inb full win g e,
  site_independent cost -> g_blocks_consistent g -> names_ok inb (g_flatten g) -> blocks_disjoint (g_flatten g) ->
  g_export win g = Some e ->
  g_cost cost true full (g_hard_sel g win) g == g_plain_cost cost true full inb e.
Proof. exact g_cost_hard_eq_export_cost_shared. Qed.

Theorem C06_g_cost_hard_eq_export_cost_per_call : forall cost inb full win g e,
  site_independent cost -> g_blocks_consistent g -> names_ok inb (g_flatten g) -> winners_nodup win (g_flatten g) ->
  g_export win g = Some e ->
  g_cost cost false full (g_hard_sel g win) g == g_plain_cost cost false full inb e.
Proof. exact g_cost_hard_eq_export_cost_per_call. Qed.

Print Assumptions C06_sn_cost_is_weighted_mix.
Print Assumptions C06_sn_cost_full_adds_fixed.
Print Assumptions C06_sn_cost_convex.
Print Assumptions C06_sn_cost_selection_bounds.
Print Assumptions C06_sn_cost_affine.
Print Assumptions C06_sn_cost_hard_eq_export_cost_shared.
Print Assumptions C06_sn_cost_hard_eq_export_cost_per_call.
Print Assumptions C06_sn_cost_site_dependent_refuted.
Print Assumptions C06_g_cost_is_weighted_mix.
Print Assumptions C06_g_cost_full_adds_fixed.
Print Assumptions C06_g_cost_convex.
Print Assumptions C06_g_cost_selection_bounds.
Print Assumptions C06_g_cost_affine.
Print Assumptions C06_g_cost_hard_eq_export_cost_shared.
Print Assumptions C06_g_cost_hard_eq_export_cost_per_call.
