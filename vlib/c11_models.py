"""C11 helper: prototype NAS models (PIT / MPS / SuperNet with frozen and shared components), the operation
alphabet, execution of one operation on a real object, and extraction of the abstract state / the static
description (tensors, layers, samplers) that instantiates Model/Train.v."""
import copy
from .common import Fraction, Nat, Raw, coq, setup_torch


def env():
    torch = setup_torch()
    import torch.nn as nn
    from plinio.methods import PIT, MPS, SuperNet
    from plinio.methods.supernet import SuperNetModule
    from plinio.methods.mps import MPSType, get_default_qinfo
    from plinio.cost import params, ops
    return dict(torch=torch, nn=nn, PIT=PIT, MPS=MPS, SuperNet=SuperNet, SuperNetModule=SuperNetModule,
                MPSType=MPSType, get_default_qinfo=get_default_qinfo, params=params, ops=ops)


# ----------------------------------------------------------------------------- prototypes
def _nets(E):
    torch, nn = E['torch'], E['nn']
    SuperNetModule = E['SuperNetModule']

    class TCN(nn.Module):
        """1-D: input-connected residual (frozen features on `cin`), strided conv (frozen rf / dilation on c1),
        c1 + depthwise c2 joined by an add (one shared features masker), output layer (frozen features)"""
        def __init__(s):
            super().__init__()
            s.pin = nn.ConstantPad1d((2, 0), 0); s.cin = nn.Conv1d(3, 3, 3)
            s.p0 = nn.ConstantPad1d((4, 0), 0); s.c0 = nn.Conv1d(3, 6, 5); s.b0 = nn.BatchNorm1d(6); s.r = nn.ReLU()
            s.p1 = nn.ConstantPad1d((2, 0), 0); s.c1 = nn.Conv1d(6, 6, 3, stride=2)
            s.p2 = nn.ConstantPad1d((2, 0), 0); s.c2 = nn.Conv1d(6, 6, 3, groups=6)
            s.pool = nn.AdaptiveAvgPool1d(2); s.f = nn.Flatten(); s.l = nn.Linear(12, 4); s.l2 = nn.Linear(4, 3)

        def forward(s, x):
            x = x + s.cin(s.pin(x))
            a = s.r(s.b0(s.c0(s.p0(x)))); b = s.c1(s.p1(a)); c = s.c2(s.p2(b))
            return s.l2(torch.relu(s.l(s.f(s.pool(c + b)))))

    class CNN(nn.Module):
        """2-D: conv / BN, depthwise chain, residual add sharing a masker, two conv feeding one add, output linear"""
        def __init__(s):
            super().__init__()
            s.c0 = nn.Conv2d(3, 4, 3, padding=1); s.b0 = nn.BatchNorm2d(4); s.r = nn.ReLU()
            s.d1 = nn.Conv2d(4, 4, 3, padding=1, groups=4); s.d2 = nn.Conv2d(4, 4, 3, padding=1, groups=4)
            s.c3 = nn.Conv2d(4, 5, 3, padding=1); s.c4 = nn.Conv2d(4, 5, 1)
            s.pool = nn.AdaptiveAvgPool2d(1); s.f = nn.Flatten(); s.l = nn.Linear(5, 3)

        def forward(s, x):
            a = s.r(s.b0(s.c0(x))); b = s.d2(s.d1(a)) + a
            return s.l(s.f(s.pool(torch.relu(s.c3(b) + s.c4(b)))))

    class QNet(nn.Module):
        """MPS: two convolutions joined by an add (shared output quantizer), shared input quantizers"""
        def __init__(s):
            super().__init__()
            s.c0 = nn.Conv2d(3, 4, 3, padding=1); s.r = nn.ReLU(); s.c1 = nn.Conv2d(4, 4, 3, padding=1)
            s.c2 = nn.Conv2d(4, 4, 3, padding=1); s.pool = nn.AdaptiveAvgPool2d(1); s.f = nn.Flatten(); s.l = nn.Linear(4, 3)

        def forward(s, x):
            a = s.r(s.c0(x)); b = s.c1(a); c = s.c2(a)
            return s.l(s.f(s.pool(torch.relu(b + c))))

    class QNet1d(nn.Module):
        def __init__(s):
            super().__init__()
            s.c0 = nn.Conv1d(3, 4, 3, padding=1); s.r = nn.ReLU(); s.c1 = nn.Conv1d(4, 4, 3, padding=1)
            s.pool = nn.AdaptiveAvgPool1d(1); s.f = nn.Flatten(); s.l = nn.Linear(4, 3)

        def forward(s, x):
            a = s.r(s.c0(x)); return s.l(s.f(s.pool(torch.relu(s.c1(a) + a))))

    class SNet(nn.Module):
        def __init__(s, g1, h1, g2, h2):
            super().__init__()
            s.m1 = SuperNetModule([nn.Conv2d(3, 4, 3, padding=1), nn.Conv2d(3, 4, 5, padding=2),
                                   nn.Sequential(nn.Conv2d(3, 4, 1), nn.BatchNorm2d(4))], gumbel_softmax=g1, hard_softmax=h1)
            s.m2 = SuperNetModule([nn.Conv2d(4, 4, 3, padding=1), nn.Identity()], gumbel_softmax=g2, hard_softmax=h2)
            s.pool = nn.AdaptiveAvgPool2d(1); s.f = nn.Flatten(); s.l = nn.Linear(4, 3)

        def forward(s, x):
            return s.l(s.f(s.pool(s.m2(torch.relu(s.m1(x))))))
    class TiedPIT(nn.Module):
        """two pointwise convolutions excluded from the search that share ONE weight and ONE bias object (tied parameters held
        by two distinct modules)"""
        def __init__(s):
            super().__init__()
            s.c0 = nn.Conv2d(3, 4, 3, padding=1); s.e1 = nn.Conv2d(4, 4, 1); s.e2 = nn.Conv2d(4, 4, 1)
            s.e2.weight = s.e1.weight; s.e2.bias = s.e1.bias
            s.c3 = nn.Conv2d(4, 5, 3, padding=1); s.pool = nn.AdaptiveAvgPool2d(1); s.f = nn.Flatten(); s.l = nn.Linear(5, 3)

        def forward(s, x):
            a = torch.relu(s.c0(x)); b = s.e2(torch.relu(s.e1(a)))
            return s.l(s.f(s.pool(torch.relu(s.c3(b)))))

    class TiedSNet(nn.Module):
        """SuperNet whose first module has two pointwise branches sharing weight and bias objects, and whose second module
        shares the bias object of its two convolutions"""
        def __init__(s):
            super().__init__()
            b0 = nn.Conv2d(3, 4, 1); b1 = nn.Sequential(nn.Conv2d(3, 4, 1), nn.ReLU())
            b1[0].weight = b0.weight; b1[0].bias = b0.bias
            s.m1 = SuperNetModule([b0, b1, nn.Conv2d(3, 4, 3, padding=1)], gumbel_softmax=False, hard_softmax=False)
            c0 = nn.Conv2d(4, 4, 3, padding=1); c1 = nn.Conv2d(4, 4, 1)
            c1.bias = c0.bias
            s.m2 = SuperNetModule([c0, c1, nn.Identity()], gumbel_softmax=True, hard_softmax=False)
            s.pool = nn.AdaptiveAvgPool2d(1); s.f = nn.Flatten(); s.l = nn.Linear(4, 3)

        def forward(s, x):
            return s.l(s.f(s.pool(s.m2(torch.relu(s.m1(x))))))

    class QAddIn(nn.Module):
        """MPS: an add fed by the network input only (x + avgpool(x)): the add is the SOLE holder of its output quantizer;
        a second add shares the quantizer of the two convolutions it sums"""
        def __init__(s):
            super().__init__()
            s.smooth = nn.AvgPool2d(3, stride=1, padding=1)
            s.c1 = nn.Conv2d(3, 4, 3, padding=1); s.c2 = nn.Conv2d(4, 4, 3, padding=1); s.c3 = nn.Conv2d(4, 4, 3, padding=1)
            s.pool = nn.AdaptiveAvgPool2d(1); s.f = nn.Flatten(); s.l = nn.Linear(4, 3)

        def forward(s, x):
            x = x + s.smooth(x)
            a = torch.relu(s.c1(x)); b = torch.relu(s.c2(a) + s.c3(a))
            return s.l(s.f(s.pool(b)))

    class QAddExcl(nn.Module):
        """MPS: an add fed by two layers excluded from the search, followed by searchable layers"""
        def __init__(s):
            super().__init__()
            s.e1 = nn.Conv2d(3, 4, 3, padding=1); s.e2 = nn.Conv2d(3, 4, 1)
            s.c1 = nn.Conv2d(4, 4, 3, padding=1); s.pool = nn.AdaptiveAvgPool2d(1); s.f = nn.Flatten(); s.l = nn.Linear(4, 3)

        def forward(s, x):
            a = s.e1(x) + s.e2(x)
            return s.l(s.f(s.pool(torch.relu(s.c1(torch.relu(a))))))

    class GNet(nn.Module):
        """interpreter of a node list (see GSPECS); layer i is the sub-module `n<i>`"""
        def __init__(s, nodes, out, dim=2):
            super().__init__()
            s.nodes, s.out = nodes, out
            ch = gnet_channels(nodes)
            Conv, BN, Pool = (nn.Conv1d, nn.BatchNorm1d, nn.AdaptiveAvgPool1d) if dim == 1 else (nn.Conv2d, nn.BatchNorm2d, nn.AdaptiveAvgPool2d)
            for i, nd in enumerate(nodes):
                k = nd[0]
                if k == 'conv':
                    o = nd[4]
                    setattr(s, 'n%d' % i, Conv(ch[nd[1]], nd[2], nd[3], padding=nd[3] // 2, groups=o.get('groups', 1), stride=o.get('stride', 1)))
                elif k == 'lin':
                    setattr(s, 'n%d' % i, nn.Linear(ch[nd[1]], nd[2]))
                elif k == 'bn':
                    flat = nodes[nd[1]][0] in ('flat', 'lin')
                    kw = nd[2] if len(nd) > 2 else {}
                    setattr(s, 'n%d' % i, (nn.BatchNorm1d if flat or dim == 1 else BN)(ch[nd[1]], **kw))
                elif k == 'relu':
                    setattr(s, 'n%d' % i, nn.ReLU())
                elif k == 'pool':
                    setattr(s, 'n%d' % i, Pool(1))
                elif k == 'flat':
                    setattr(s, 'n%d' % i, nn.Flatten())

        def forward(s, x):
            v = []
            for i, nd in enumerate(s.nodes):
                k = nd[0]
                if k == 'in':
                    v.append(x)
                elif k == 'add':
                    v.append(v[nd[1]] + v[nd[2]])
                elif k == 'cat':
                    v.append(torch.cat([v[j] for j in nd[1]], dim=1))
                elif k == 'call':
                    v.append(getattr(s, 'n%d' % nd[2])(v[nd[1]]))
                else:
                    v.append(getattr(s, 'n%d' % i)(v[nd[1]]))
            return v[s.out]
    return TCN, CNN, QNet, QNet1d, SNet, GNet, TiedPIT, TiedSNet, QAddIn, QAddExcl


# ----------------------------------------------------------------------------- networks given as dataflow
# A network is a list of nodes (index = position):  ('in', C) | ('conv', src, cout, k, {groups, stride}) | ('bn', src) |
# ('relu', src) | ('pool', src) | ('flat', src) | ('lin', src, cout) | ('add', a, b) | ('cat', [srcs]);  `out` = returned node.
# The torch module is an interpreter of this list (fx-traceable); `io_tied_layers` derives from the SAME list, with
# no reference to what the library builds, which layers' output features are tied to a network input / output.
GSPECS = {
    # out = cat(cat(a, b), c): the output features are those of a, b and c (transitively through two concats)
    'pit-cat2-out': dict(nodes=[('in', 3), ('conv', 0, 4, 3, {}), ('relu', 1),
                                ('conv', 2, 2, 3, {}), ('conv', 2, 3, 3, {}), ('cat', [3, 4]),
                                ('conv', 2, 2, 1, {}), ('cat', [5, 6])], out=7, excluded=[]),
    # out = cat(cat(a + b, c), d)
    'pit-cat2-add-out': dict(nodes=[('in', 3), ('conv', 0, 4, 3, {}), ('relu', 1),
                                    ('conv', 2, 2, 3, {}), ('conv', 2, 2, 1, {}), ('add', 3, 4), ('conv', 2, 3, 3, {}),
                                    ('cat', [5, 6]), ('bn', 7), ('conv', 2, 2, 3, {}), ('cat', [8, 9])], out=10, excluded=[]),
    # out = relu(cat(a, b) + c): a concat feeding an add that reaches the output
    'pit-cat-add-out': dict(nodes=[('in', 3), ('conv', 0, 4, 3, {}), ('relu', 1),
                                   ('conv', 2, 2, 3, {}), ('conv', 2, 3, 1, {}), ('cat', [3, 4]), ('conv', 2, 5, 3, {}),
                                   ('add', 5, 6), ('relu', 7)], out=8, excluded=[]),
    # v = cat(a(x), b(x)) + x: input-side tie through a concat; the head ends in a linear layer (output tie)
    'pit-cat-in-tie': dict(nodes=[('in', 4), ('conv', 0, 2, 3, {}), ('conv', 0, 2, 1, {}), ('cat', [1, 2]), ('add', 3, 0),
                                  ('conv', 4, 5, 3, {}), ('relu', 5), ('conv', 6, 5, 3, {'groups': 5}), ('pool', 7), ('flat', 8), ('lin', 9, 3)],
                           out=10, excluded=[]),
    # a layer excluded from the search: the features of its producer and of what is added to its output are fixed
    'pit-excluded': dict(nodes=[('in', 3), ('conv', 0, 4, 3, {}), ('relu', 1), ('conv', 2, 4, 3, {}), ('conv', 2, 4, 1, {}), ('add', 3, 4),
                                ('conv', 5, 6, 3, {}), ('relu', 6), ('pool', 7), ('flat', 8), ('lin', 9, 3)], out=10, excluded=[3]),
    # 1-D temporal ResNet block: strided k=3 conv on the main path, strided POINTWISE (k=1, stride 2) shortcut, a second
    # strided k=5 conv after the add; PIT cannot search rf / dilation of a strided Conv1d
    'pit-tcn-res': dict(dim=1, nodes=[('in', 3), ('conv', 0, 4, 3, {}), ('relu', 1),
                                      ('conv', 2, 6, 3, {'stride': 2}), ('relu', 3), ('conv', 4, 6, 5, {}),
                                      ('conv', 2, 6, 1, {'stride': 2}), ('add', 5, 6), ('relu', 7),
                                      ('conv', 8, 4, 5, {'stride': 2}), ('relu', 9), ('pool', 10), ('flat', 11), ('lin', 12, 3)],
                        out=13, excluded=[]),
    # fold_bn=True: Conv / Linear directly followed by affine and non-affine BatchNorm (the BN survives inside the fused layer)
    'pit-foldbn-mix': dict(fold_bn=True, nodes=[('in', 3), ('conv', 0, 4, 3, {}), ('bn', 1), ('relu', 2),
                                               ('conv', 3, 5, 3, {}), ('bn', 4, {'affine': False}), ('relu', 5),
                                               ('conv', 6, 5, 3, {'groups': 5}), ('bn', 7), ('add', 8, 6),
                                               ('pool', 9), ('flat', 10), ('lin', 11, 6), ('bn', 12), ('relu', 13), ('lin', 14, 3)],
                           out=15, excluded=[]),
    # a layer invoked at two call sites, one inside the net and one summed into the output: h = relu(mix(z)); out = mix(h) + skip(h)
    # (('call', src, j) applies the module of node j to node src: same weights, same output features at both sites)
    'pit-twice-out': dict(nodes=[('in', 3), ('conv', 0, 4, 3, {}), ('relu', 1), ('conv', 2, 4, 3, {}), ('relu', 3),
                                 ('call', 4, 3), ('conv', 4, 4, 1, {}), ('add', 5, 6)], out=7, excluded=[]),
    # same with the operands of the add swapped and a BN + ReLU between the add and the output
    'pit-twice-out-rev': dict(nodes=[('in', 3), ('conv', 0, 4, 3, {}), ('relu', 1), ('conv', 2, 4, 3, {}), ('relu', 3),
                                     ('conv', 4, 4, 1, {}), ('call', 4, 3), ('add', 5, 6), ('relu', 7)], out=8, excluded=[]),
    # the twice-used layer is internal at both sites (not tied), its consumer is the output layer
    'pit-twice-inner': dict(nodes=[('in', 3), ('conv', 0, 4, 3, {}), ('relu', 1), ('conv', 2, 4, 3, {}), ('relu', 3),
                                   ('call', 4, 3), ('relu', 5), ('pool', 6), ('flat', 7), ('lin', 8, 3)], out=9, excluded=[]),
}


def strided_layers(spec):
    """indices of the 1-D convolutions with stride != 1 (read from the node list): their receptive-field and dilation
    masks are frozen by construction"""
    if spec.get('dim', 2) != 1:
        return []
    return [i for i, nd in enumerate(spec['nodes']) if nd[0] == 'conv' and nd[4].get('stride', 1) != 1]


def gnet_channels(nodes):
    ch = []
    for nd in nodes:
        k = nd[0]
        if k == 'in':
            ch.append(nd[1])
        elif k in ('conv', 'lin'):
            ch.append(nd[2])
        elif k == 'add':
            ch.append(ch[nd[1]])
        elif k == 'call':
            ch.append(ch[nd[2]])
        elif k == 'cat':
            ch.append(sum(ch[i] for i in nd[1]))
        else:
            ch.append(ch[nd[1]])
    return ch


def io_tied_layers(spec):
    """indices of the conv / linear nodes whose output features are tied to a network input or output (or to a layer
    excluded from the search): feature identity classes through unary ops, adds and depthwise convolutions; a concat
    whose features are tied ties the features of each operand (transitively)."""
    nodes, out, excluded = spec['nodes'], spec['out'], set(spec['excluded'])
    ch = gnet_channels(nodes)
    parent = list(range(len(nodes)))

    def find(i):
        while parent[i] != i:
            parent[i] = parent[parent[i]]
            i = parent[i]
        return i

    def union(a, b):
        parent[find(a)] = find(b)

    def depthwise(i):
        nd = nodes[i]
        return nd[0] == 'conv' and nd[4].get('groups', 1) == ch[nd[1]] == nd[2] and nd[2] > 1
    for i, nd in enumerate(nodes):
        k = nd[0]
        if k in ('bn', 'relu', 'pool', 'flat'):
            union(i, nd[1])
        elif k == 'add':
            union(i, nd[1]); union(i, nd[2])
        elif k == 'conv' and depthwise(i):
            union(i, nd[1])
        elif k == 'call':
            union(i, nd[2])       # the same layer: the same output features at every call site
    tied = {find(i) for i, nd in enumerate(nodes) if nd[0] == 'in'} | {find(out)}
    for e in excluded:
        tied |= {find(e), find(nodes[e][1])}
    changed = True
    while changed:
        changed = False
        for i, nd in enumerate(nodes):
            if nd[0] == 'cat' and find(i) in tied:
                for p in nd[1]:
                    if find(p) not in tied:
                        tied.add(find(p)); changed = True
    return [i for i, nd in enumerate(nodes) if nd[0] in ('conv', 'lin') and i not in excluded and find(i) in tied]


PROTOS_QUICK = ['pit-tcn', 'pit-cnn', 'pit-cnn-foldbn', 'pit-tcn-foldbn', 'pit-tied', 'mps-chan-gumbel', 'mps-layer-soft', 'mps-tied', 'mps-add-input', 'mps-add-excluded', 'sn-mixed', 'sn-tied'] + sorted(GSPECS)
PROTOS_THOROUGH = PROTOS_QUICK + ['pit-tcn-off', 'mps-add-input-hard', 'mps-1d-hard', 'mps-chan-noshare', 'sn-gumbel-hard']


def build(name, E=None, seed=0):
    """-> (method, model (training mode), input batch); weights and the input batch are drawn from `seed`"""
    E = E or env()
    torch = E['torch']
    TCN, CNN, QNet, QNet1d, SNet, GNet, TiedPIT, TiedSNet, QAddIn, QAddExcl = _nets(E)
    torch.manual_seed(11 + 1000 * int(seed))
    cost = {'p': E['params'], 'o': E['ops']}
    if name in GSPECS:
        sp = GSPECS[name]
        shape = (sp['nodes'][0][1], 16) if sp.get('dim', 2) == 1 else (sp['nodes'][0][1], 8, 8)
        m = E['PIT'](GNet(sp['nodes'], sp['out'], sp.get('dim', 2)), input_shape=shape, cost=cost, exclude_names=['n%d' % i for i in sp['excluded']], fold_bn=sp.get('fold_bn', False))
        x = torch.randn(2, *shape)
    elif name == 'pit-tied':
        m = E['PIT'](TiedPIT(), input_shape=(3, 8, 8), cost=cost, exclude_names=['e1', 'e2'])
        x = torch.randn(2, 3, 8, 8)
    elif name == 'sn-tied':
        m = E['SuperNet'](TiedSNet(), input_shape=(3, 8, 8), cost=cost)
        x = torch.randn(2, 3, 8, 8)
    elif name == 'mps-add-input':
        m = E['MPS'](QAddIn(), input_shape=(3, 8, 8), w_search_type=E['MPSType'].PER_LAYER,
                     qinfo=E['get_default_qinfo'](w_precision=(2, 4, 8), a_precision=(4, 8)), temperature=2.0, gumbel_softmax=True)
        x = torch.randn(2, 3, 8, 8)
    elif name == 'mps-add-input-hard':
        m = E['MPS'](QAddIn(), input_shape=(3, 8, 8), w_search_type=E['MPSType'].PER_CHANNEL,
                     qinfo=E['get_default_qinfo'](w_precision=(2, 4, 8), a_precision=(2, 4, 8)), hard_softmax=True, disable_sampling=True)
        x = torch.randn(2, 3, 8, 8)
    elif name == 'mps-add-excluded':
        m = E['MPS'](QAddExcl(), input_shape=(3, 8, 8), w_search_type=E['MPSType'].PER_LAYER,
                     qinfo=E['get_default_qinfo'](w_precision=(4, 8), a_precision=(4, 8)), exclude_names=['e1', 'e2'], temperature=0.5)
        x = torch.randn(2, 3, 8, 8)
    elif name == 'mps-tied':
        # weight tying done by the user on the converted model: the two parallel convolutions share weight and bias objects
        m = E['MPS'](QNet(), input_shape=(3, 8, 8), w_search_type=E['MPSType'].PER_LAYER,
                     qinfo=E['get_default_qinfo'](w_precision=(2, 4, 8), a_precision=(4, 8)), gumbel_softmax=True)
        m.seed.c2.weight = m.seed.c1.weight
        m.seed.c2.bias = m.seed.c1.bias
        x = torch.randn(2, 3, 8, 8)
    elif name.startswith('pit-tcn'):
        kw = dict(train_features=False, train_dilation=False, discrete_cost=True) if name.endswith('off') else dict(fold_bn=True) if name.endswith('foldbn') else {}
        m = E['PIT'](TCN(), input_shape=(3, 16), cost=cost, **kw)
        x = torch.randn(2, 3, 16)
    elif name.startswith('pit-cnn'):
        m = E['PIT'](CNN(), input_shape=(3, 8, 8), cost=cost, fold_bn=name.endswith('foldbn'))
        x = torch.randn(2, 3, 8, 8)
    elif name.startswith('mps'):
        gq = E['get_default_qinfo']
        T = E['MPSType']
        if name == 'mps-chan-gumbel':
            m = E['MPS'](QNet(), input_shape=(3, 8, 8), w_search_type=T.PER_CHANNEL,
                         qinfo=gq(w_precision=(0, 2, 4, 8), a_precision=(4, 8)), gumbel_softmax=True)
        elif name == 'mps-layer-soft':
            m = E['MPS'](QNet(), input_shape=(3, 8, 8), w_search_type=T.PER_LAYER,
                         qinfo=gq(w_precision=(2, 4, 8), a_precision=(4, 8)), temperature=2.0)
        elif name == 'mps-chan-noshare':
            m = E['MPS'](QNet(), input_shape=(3, 8, 8), w_search_type=T.PER_CHANNEL,
                         qinfo=gq(w_precision=(2, 4, 8), a_precision=(4, 8)), gumbel_softmax=True, hard_softmax=True,
                         disable_shared_quantizers=True)
        else:
            m = E['MPS'](QNet1d(), input_shape=(3, 12), w_search_type=T.PER_LAYER,
                         qinfo=gq(w_precision=(4, 8), a_precision=(8,)), hard_softmax=True)
        x = torch.randn(2, 3, 12) if name == 'mps-1d-hard' else torch.randn(2, 3, 8, 8)
    elif name == 'sn-mixed':
        m = E['SuperNet'](SNet(True, False, False, True), input_shape=(3, 8, 8), cost=cost)
        x = torch.randn(2, 3, 8, 8)
    elif name == 'sn-gumbel-hard':
        m = E['SuperNet'](SNet(True, True, False, False), input_shape=(3, 8, 8), cost=cost)
        x = torch.randn(2, 3, 8, 8)
    else:
        raise KeyError(name)
    m.train()
    return type(m).__name__, m, x


# ----------------------------------------------------------------------------- operation alphabet
def alphabet(method, thorough=False):
    ops = [['train_nas_only'], ['train_net_only'], ['train_net_and_nas']]
    if method == 'PIT':
        for f in ('train_features', 'train_rf', 'train_dilation', 'discrete_cost'):
            ops += [['set', f, True], ['set', f, False]]
    if method == 'MPS':
        ops += [['update', {'temperature': 0.5}], ['update', {'temperature': 4.0}]]
        for k in ('hard', 'gumbel', 'disable_sampling'):
            ops += [['update', {k: True}], ['update', {k: False}]]
        if thorough:
            ops += [['update', {'temperature': 0.25, 'gumbel': True}], ['update', {'hard': True, 'disable_sampling': False}]]
    if method == 'SuperNet':
        ops += [['update', {'temperature': 0.5}], ['update', {'temperature': 4.0}], ['update', {'hard': True}], ['update', {'hard': False}],
                ['set', 'train_selection', True], ['set', 'train_selection', False]]
    if method in ('MPS', 'SuperNet'):
        ops.append(['fwd'])     # a forward pass alone (keeps the autograd graph of the sampled coefficients alive in the history)
    ops.append(['fb'])
    return ops


def op_coq(op):
    k = op[0]
    if k == 'train_nas_only':
        return 'TNasOnly'
    if k == 'train_net_only':
        return 'TNetOnly'
    if k == 'train_net_and_nas':
        return 'TNetAndNas'
    if k == 'fb':
        return 'TFwdBwd'
    if k == 'fwd':
        return '(TUpdate None None None None)'    # forward only: the identity step of the model (no option given, no observation)
    if k == 'set':
        c = {'train_features': 'TSetFeat', 'train_rf': 'TSetRf', 'train_dilation': 'TSetDil', 'train_selection': 'TSetSel', 'discrete_cost': 'TSetDiscrete'}[op[1]]
        return '(%s %s)' % (c, coq(bool(op[2])))
    if k == 'update':
        o = op[1]
        def opt(key, conv):
            return '(Some %s)' % coq(conv(o[key])) if key in o else 'None'
        return '(TUpdate %s %s %s %s)' % (opt('temperature', lambda v: Fraction(v)), opt('hard', bool), opt('gumbel', bool), opt('disable_sampling', bool))
    raise KeyError(op)


def op_name(op):
    if op[0] == 'set':
        return '%s=%s' % (op[1], op[2])
    if op[0] == 'update':
        return 'update(%s)' % ','.join('%s=%s' % kv for kv in sorted(op[1].items()))
    return op[0]


# ----------------------------------------------------------------------------- structure of a real model
FROZEN_ATTR = {'PITFrozenFeaturesMasker': 'alpha', 'PITFrozenTimestepMasker': 'beta', 'PITFrozenDilationMasker': 'gamma'}
MASK_ATTR = {'out_features_masker': 'alpha', 'timestep_masker': 'beta', 'dilation_masker': 'gamma'}


def sampler_modules(model):
    from plinio.methods.mps.nn.qtz import MPSBaseQtz
    from plinio.methods.supernet.nn.combiner import SuperNetCombiner
    return [(n, q) for n, q in model.named_modules() if isinstance(q, (MPSBaseQtz, SuperNetCombiner))]


def tensor_table(model):
    """[(name, tensor, frozen class or None)]: every registered parameter once (first name) plus the mask tensor
    of every frozen masker (a parameter upstream, possibly a buffer after a repair)"""
    out, seen = [], set()
    frozen = {}
    for mn, mod in model.named_modules():
        a = FROZEN_ATTR.get(type(mod).__name__)
        if a is not None:
            frozen[id(getattr(mod, a))] = (mn + '.' + a, type(mod).__name__)
    for n, p in model.named_parameters():
        if id(p) not in seen:
            seen.add(id(p))
            out.append((n, p, frozen[id(p)][1] if id(p) in frozen else None))
    for i, (n, cls) in frozen.items():
        if i not in seen:
            seen.add(i)
            mod, a = n.rsplit('.', 1)
            out.append((n, getattr(model.get_submodule(mod), a), cls))
    return out


def get_tensor(model, name):
    mod, a = name.rsplit('.', 1)
    return getattr(model.get_submodule(mod), a)


def kind_of(q):
    return {'sample_alpha_sm': 0, 'sample_alpha_gs': 1, 'sample_alpha_none': 2}[q.sample_alpha.__name__]


def observe(model, S):
    """abstract state of a real object (S = static description made by `describe` on the prototype)"""
    import torch
    rg = tuple(bool(get_tensor(model, n).requires_grad) for n in S['names'])
    pid = {id(get_tensor(model, n)): k for k, n in enumerate(S['names'])}
    nas = tuple(pid.get(id(p), -1) for p in model.nas_parameters())
    net = tuple(pid.get(id(p), -1) for p in model.net_parameters())
    par = tuple(pid.get(id(p), -1) for p in model.parameters())
    flags = tuple(bool(getattr(model, f)) if hasattr(model, f) else None for f in ('train_features', 'train_rf', 'train_dilation', 'train_selection', 'discrete_cost'))
    ldisc = tuple(bool(model.get_submodule(n).discrete_cost) for n in S['disc_layers'])
    samp, hidden = [], []
    for n in S['sampler_names']:
        q = model.get_submodule(n)
        t = q.temperature if hasattr(q, 'temperature') else q.softmax_temperature
        samp.append((Fraction(float(t)), bool(q.hard_softmax), kind_of(q)))
        hidden.append((getattr(q, 'gumbel_softmax', None), getattr(q, 'disable_sampling', None)))
    tgraph = any(isinstance(getattr(model.get_submodule(n), 'theta_alpha', None), torch.Tensor) and model.get_submodule(n).theta_alpha.requires_grad
                 for n in S['sampler_names']) if S['method'] == 'MPS' else False
    return {'rg': rg, 'nas': nas, 'net': net, 'par': par, 'flags': flags, 'ldisc': ldisc, 'samplers': tuple(samp), 'hidden': tuple(hidden), 'tgraph': tgraph}


def akey(a):
    return (a['rg'], a['nas'], a['net'], a['par'], a['flags'], a['ldisc'], a['samplers'], a['hidden'], a.get('tgraph', False))


def forward_backward(model, x, S):
    """zero the grads, forward, (loss + every cost).backward(); -> tuple of 0 (.grad is None) / 1 (all zero) / 2 (non-zero) per tensor"""
    import torch
    ts = [get_tensor(model, n) for n in S['names']]
    for p in model.parameters():
        p.grad = None
    for t in ts:
        t.grad = None
    for n in S['sampler_names']:
        q = model.get_submodule(n)
        if kind_of(q) == 2 and isinstance(getattr(q, 'theta_alpha', None), torch.Tensor):
            q.theta_alpha = q.theta_alpha.detach()      # stale sampled coefficients: sampling semantics are C10's subject
    y = model(x)
    ys = y if isinstance(y, (tuple, list)) else [y]
    loss = sum((v * v).sum() for v in ys)
    cs = model._cost_specification
    for k in (cs.keys() if isinstance(cs, dict) else [None]):
        loss = loss + model.get_cost(k)
    if loss.requires_grad:
        loss.backward()
    return tuple(0 if t.grad is None else (2 if bool((t.grad != 0).any()) else 1) for t in ts)


def apply_op(model, x, S, op):
    """-> observation of the op (grad codes for fb, else None); exceptions propagate"""
    k = op[0]
    if k == 'fb':
        return forward_backward(model, x, S)
    if k == 'fwd':
        model(x)
        return None
    if k == 'set':
        setattr(model, op[1], op[2])
    elif k == 'update':
        model.update_softmax_options(**op[1])
    else:
        getattr(model, k)()
    return None


def snapshot(model):
    """generic reset point of a real object: every module's attribute bindings (incl. the registered parameter /
    buffer / sub-module tables, bound sampler methods, python flags) and the content + requires_grad of every tensor"""
    import torch
    mods, tens = [], {}
    for m in model.modules():
        d = dict(m.__dict__)
        for k in ('_parameters', '_buffers', '_modules'):
            d[k] = dict(d[k])
        mods.append((m, d))
        for v in list(d['_parameters'].values()) + list(d['_buffers'].values()) + list(d.values()):
            if isinstance(v, torch.Tensor) and id(v) not in tens:
                tens[id(v)] = (v, v.detach().clone(), bool(v.requires_grad))
    return mods, tens


def restore(snap):
    import torch
    mods, tens = snap
    for m, d in mods:
        m.__dict__.clear()
        m.__dict__.update(d)
        for k in ('_parameters', '_buffers', '_modules'):
            m.__dict__[k] = dict(d[k])
    with torch.no_grad():
        for t, data, rg in tens.values():
            t.grad = None
            if t.is_leaf and t.requires_grad != rg:
                t.requires_grad_(rg)
            t.data.copy_(data)


def describe(method, model, x):
    """static description of the prototype = the instance of Model/Train.v (ids are positions in `names`)"""
    import torch
    from plinio.methods.mps.nn.qtz import MPSBaseQtz
    from plinio.methods.mps.nn.module import MPSModule
    from plinio.methods.supernet.nn.combiner import SuperNetCombiner
    from plinio.methods.pit.nn.module import PITModule
    tab = tensor_table(model)
    names = [n for n, _, _ in tab]
    pid = {id(t): k for k, (_, t, _) in enumerate(tab)}
    S = {'method': method, 'names': names, 'frozen': [c for _, _, c in tab]}
    smods = sampler_modules(model)
    S['sampler_names'] = [n for n, _ in smods]
    sidx = {id(q): k for k, (_, q) in enumerate(smods)}
    via = [None] * len(names)
    for n, q in smods:
        if id(q.alpha) in pid:
            via[pid[id(q.alpha)]] = sidx[id(q)]
    S['via'] = via
    # layers in named_modules() order
    layers, disc_layers = [], []
    reached = set()
    for ln, layer in model.named_modules():
        if isinstance(layer, PITModule):
            ids = {}
            for attr, a in MASK_ATTR.items():
                mk = getattr(layer, attr, None)
                if mk is not None and type(layer).__name__ not in ('PITBatchNorm1d', 'PITBatchNorm2d'):
                    ids[attr] = pid[id(getattr(mk, a))]
            if not ids and not hasattr(layer, 'discrete_cost'):
                continue    # PITBatchNorm: yields no NAS parameter, has no switch
            layers.append({'name': ln, 'feat': ids.get('out_features_masker'), 'rf': ids.get('timestep_masker'), 'dil': ids.get('dilation_masker'),
                           'sel': None, 'other': [], 'disc': bool(getattr(layer, 'discrete_cost', False))})
            if hasattr(layer, 'discrete_cost'):
                disc_layers.append(ln)
        elif isinstance(layer, MPSModule):
            other = [pid[id(p)] for _, p in layer.named_nas_parameters(recurse=True)]   # MPS.named_nas_parameters passes recurse=True
            layers.append({'name': ln, 'feat': None, 'rf': None, 'dil': None, 'sel': None, 'other': other, 'disc': False})
            if type(layer).update_softmax_options is not MPSModule.update_softmax_options:
                for attr in ('out_mps_quantizer', 'w_mps_quantizer'):
                    q = getattr(layer, attr, None)
                    if isinstance(q, MPSBaseQtz):
                        reached.add(id(q))
        elif isinstance(layer, SuperNetCombiner):
            layers.append({'name': ln, 'feat': None, 'rf': None, 'dil': None, 'sel': pid[id(layer.alpha)], 'other': [], 'disc': False})
            reached.add(id(layer))
    S['layers'] = layers
    S['disc_layers'] = [l['name'] for l in layers if l['name'] in disc_layers]
    S['layer_has_disc'] = [l['name'] in disc_layers for l in layers]
    S['samplers_static'] = [{'upd': id(q) in reached, 'comb': isinstance(q, SuperNetCombiner)} for _, q in smods]
    # structural dependency of loss + cost on each tensor: probe on a copy with everything trainable and every
    # sampler letting the gradient through; a frozen features masker reads a constant buffer by construction
    pm = copy.deepcopy(model)
    for n in names:
        t = get_tensor(pm, n)
        if isinstance(t, torch.nn.Parameter):
            t.requires_grad_(True)
    for n, _ in smods:
        q = pm.get_submodule(n)
        q.hard_softmax = False
        q.sample_alpha = q.sample_alpha_sm
    called = set()
    hooks = [pm.get_submodule(n).register_forward_hook(lambda mod, i, o, nm=n: called.add(nm)) for n, _ in smods]
    g = forward_backward(pm, x, S)
    for h in hooks:
        h.remove()
    for st, (n, _) in zip(S['samplers_static'], smods):
        st['used'] = n in called      # the quantizer / combiner takes part in the forward pass (observed, not read from the classes)
    S['reads'] = [bool(c) and S['frozen'][k] != 'PITFrozenFeaturesMasker' for k, c in enumerate(g)]
    return S


# hand-derived ties of the hand-written prototypes (same rule as io_tied_layers, applied by reading `forward`)
HAND_TIED = {'pit-tied': ['c0', 'l'], 'pit-tcn': ['cin', 'l2'], 'pit-tcn-off': ['cin', 'l2'], 'pit-tcn-foldbn': ['cin', 'l2'], 'pit-cnn': ['l'], 'pit-cnn-foldbn': ['l']}


def tied_masks(proto, model, S):
    """-> [(layer name, index in S['names'] of its feature mask)] for the layers whose output features the network's own
    dataflow ties to an input / output: derived from the node list (GSPECS) or given by hand, never from the masker classes"""
    if proto in GSPECS:
        layers = ['n%d' % i for i in io_tied_layers(GSPECS[proto])]
    else:
        layers = HAND_TIED.get(proto, [])
    out = []
    for ln in layers:
        mk = model.get_submodule('seed.' + ln).out_features_masker
        hit = [k for k, n in enumerate(S['names']) if get_tensor(model, n) is mk.alpha]
        out.append((ln, hit[0] if hit else None))
    return out


def state_coq(S, a):
    """Coq literal of the model state for abstract state `a` of the prototype"""
    tens = []
    for k, n in enumerate(S['names']):
        tens.append('{| p_id := %s; p_frozen := %s; p_reads := %s; p_via := %s; p_rg := %s |}' % (
            coq(Nat(k)), coq(S['frozen'][k] is not None), coq(S['reads'][k]),
            'None' if S['via'][k] is None else '(Some %s)' % coq(Nat(S['via'][k])), coq(a['rg'][k])))
    o = lambda v: 'None' if v is None else '(Some %s)' % coq(Nat(v))
    lays = []
    for l in S['layers']:
        lays.append('{| l_feat := %s; l_rf := %s; l_dil := %s; l_sel := %s; l_other := %s; l_disc := %s |}' % (
            o(l['feat']), o(l['rf']), o(l['dil']), o(l['sel']), coq([Nat(i) for i in l['other']]), coq(l['disc'])))
    samp = []
    for k, st in enumerate(S['samplers_static']):
        t, h, kind = a['samplers'][k]
        hg, hd = a['hidden'][k]
        dis = bool(hd) if hd is not None else kind == 2
        gum = bool(hg) if hg is not None else kind == 1
        samp.append('{| s_temp := %s; s_hard := %s; s_gum := %s; s_dis := %s; s_kind := %s; s_upd := %s; s_comb := %s |}' % (
            coq(t), coq(h), coq(gum), coq(dis), ['KSm', 'KGs', 'KNone'][kind], coq(st['upd']), coq(st['comb'])))
    f = [bool(v) for v in a['flags']]
    return ('{| tens := [%s]; layers := [%s]; samplers := [%s]; tr_feat := %s; tr_rf := %s; tr_dil := %s; tr_sel := %s; discrete := %s |}'
            % ('; '.join(tens), '; '.join(lays), '; '.join(samp), coq(f[0]), coq(f[1]), coq(f[2]), coq(f[3]), coq(f[4])))


HAND_STRIDED = {'pit-tcn': ['c1'], 'pit-tcn-off': ['c1'], 'pit-tcn-foldbn': ['c1']}


def strided_masks(proto, model, S):
    """-> [(layer, 'beta' | 'gamma', index in S['names'] or None)] for the Conv1d layers that the network's own description
    gives a stride != 1: receptive-field / dilation masks that the method freezes by construction"""
    layers = ['n%d' % i for i in strided_layers(GSPECS[proto])] if proto in GSPECS else HAND_STRIDED.get(proto, [])
    out = []
    for ln in layers:
        lay = model.get_submodule('seed.' + ln)
        for mk, a in (('timestep_masker', 'beta'), ('dilation_masker', 'gamma')):
            t = getattr(getattr(lay, mk), a)
            hit = [k for k, n in enumerate(S['names']) if get_tensor(model, n) is t]
            out.append((ln, a, hit[0] if hit else None))
    return out


def mask_update_probe(model, x, S):
    """a mask reported trainable is effective: zeroing (all but its kept-alive element of) a trainable PIT mask with more
    than one element must change the cost and the output of the layer(s) holding it (forward hooks).
    -> [(tensor name, cost changed, layer output changed)]; values restored"""
    import torch
    if S['method'] != 'PIT':
        return []
    res = []
    was = model.training
    model.eval()
    cs = model._cost_specification
    ck = list(cs.keys()) if isinstance(cs, dict) else [None]

    holders = {}      # tensor index -> names of the layers holding that mask
    for l in S['layers']:
        for key in ('feat', 'rf', 'dil'):
            if l[key] is not None:
                holders.setdefault(l[key], []).append(l['name'])
    outs = {}
    hooks = [model.get_submodule(l['name']).register_forward_hook(lambda mod, i, o, nm=l['name']: outs.__setitem__(nm, o.detach().clone())) for l in S['layers']]

    def look():
        with torch.no_grad():
            outs.clear()
            model(x)
            return [float(model.get_cost(k)) for k in ck], dict(outs)
    c0, y0 = look()
    for k, n in enumerate(S['names']):
        t = get_tensor(model, n)
        if n.rsplit('.', 1)[1] not in ('alpha', 'beta', 'gamma') or not isinstance(t, torch.nn.Parameter) or not t.requires_grad or t.numel() < 2:
            continue
        old = t.detach().clone()
        with torch.no_grad():
            t.zero_()
        c1, y1 = look()
        with torch.no_grad():
            t.copy_(old)
        res.append((n, c1 != c0, any(not torch.equal(y0[h], y1[h]) for h in holders.get(k, []))))
    for h in hooks:
        h.remove()
    model.train(was)
    return res
