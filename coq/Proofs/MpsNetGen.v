(* C02: the model GENERATED from the source of the searchable MPS layers / selectors and of the exported Quant layers
   (Gen/MpsNetGen.v, rewritten by translator/mpsnet2coq.py on every run) against the hand-written model Model/MpsNet.v. *)
From Coq Require Import QArith ZArith List Bool Arith Lia.
Import ListNotations.
Require Import Plinio.Base.Qx Plinio.Model.MpsNet Plinio.Proofs.MpsNet Plinio.Model.Sampler Plinio.Proofs.Sampler
               Plinio.Gen.SamplerGen Plinio.Proofs.SamplerGen Plinio.Gen.MpsNetGen.

(* ------------------------------------------------------------------ the two arg-max / one-hot definitions agree *)
Lemma argmax_aux_agree : forall l best bi i, Model.MpsNet.argmax_aux best bi i l = Model.Sampler.argmax_aux l i bi best.
Proof. induction l as [|x r IH]; intros; simpl; [reflexivity|]. destruct (qlt_bool best x); apply IH. Qed.
Lemma argmax_agree : forall l, Model.MpsNet.argmax l = Model.Sampler.argmax l.
Proof. destruct l; [reflexivity|]. apply argmax_aux_agree. Qed.
Lemma onehot_agree : forall n k, Model.MpsNet.onehot 0%Q 1%Q k n = Model.Sampler.onehot n k.
Proof. reflexivity. Qed.

Lemma qid_eqb_eq : forall a b, qid_eqb a b = true <-> a = b.
Proof.
  intros a b. split.
  - destruct a, b; simpl; intro H; try discriminate; try reflexivity; apply Nat.eqb_eq in H; subst; reflexivity.
  - intros ->. destruct b; simpl; try reflexivity; apply Nat.eqb_refl.
Qed.
Lemma qid_eqb_refl : forall a, qid_eqb a a = true.
Proof. intro a. apply qid_eqb_eq. reflexivity. Qed.
Lemma qid_eqb_neq : forall a b, a <> b -> qid_eqb a b = false.
Proof. intros a b H. destruct (qid_eqb a b) eqn:E; [|reflexivity]. apply qid_eqb_eq in E. contradiction. Qed.

(* ------------------------------------------------------------------ list facts *)
Lemma fold_left_map {A B C} (f : A -> B -> A) (g : C -> B) l : forall a, fold_left f (map g l) a = fold_left (fun a x => f a (g x)) l a.
Proof. induction l; intros; simpl; [reflexivity|]. apply IHl. Qed.
Lemma fold_left_ext {A B} (f g : A -> B -> A) : (forall a b, f a b = g a b) -> forall l a, fold_left f l a = fold_left g l a.
Proof. intros H. induction l; intros; simpl; [reflexivity|]. rewrite H. apply IHl. Qed.
Lemma combine_nth_seq {A B} (d : A) (f : nat -> B) : forall (th : list A) a,
  combine th (map f (seq a (length th))) = map (fun k => (nth (k - a) th d, f k)) (seq a (length th)).
Proof.
  induction th as [|t r IH]; intros a; simpl; [reflexivity|]. rewrite Nat.sub_diag. f_equal.
  rewrite IH. apply map_ext_in. intros k Hk. apply in_seq in Hk.
  replace (k - a)%nat with (S (k - S a)) by lia. reflexivity.
Qed.
Lemma combine_map_r {A B C} (f : B -> C) : forall (l : list A) (m : list B), combine l (map f m) = map (fun p => (fst p, f (snd p))) (combine l m).
Proof. induction l; intros [|b m]; simpl; try reflexivity. f_equal. apply IHl. Qed.
Lemma combine_seq_diag {B} (f : nat -> B) : forall n a, combine (seq a n) (map f (seq a n)) = map (fun k => (k, f k)) (seq a n).
Proof. induction n; intros; simpl; [reflexivity|]. f_equal. apply IHn. Qed.

(* ================================================================== selectors *)
Section Sel.
Context {W : World}.

Definition qlen (q : qid) : nat := length (precs q).
Definition th1 (h : heap) (q : qid) : list Q := hd [] (theta_of h q).          (* the sampled coefficients of a per-layer selector *)
Definition acol (h : heap) (q : qid) : list Q := hd [] (alpha_of h q).          (* its raw coefficients *)
Definition hscale (h : heap) : qid -> nat -> V := fun q k => qscale q k (lasts h q k).
(* the heap after selector q was applied to x: every candidate quantizer saw x *)
Definition after_call (q : qid) (x : V) (h : heap) : heap := fold_left (fun h k => set_last h (q, k) x) (seq 0 (qlen q)) h.
Definition hmix (th : list Q) (fs : list V) : V := mix V Q vzero vadd smul th fs.
Definition cands (q : qid) (x : V) : list V := map (fun k => qfun q k x) (seq 0 (qlen q)).
Definition scales (h : heap) (q : qid) : list V := map (hscale h q) (seq 0 (qlen q)).

Lemma after_call_sels q x h : sels (after_call q x h) = sels h.
Proof. unfold after_call. generalize (seq 0 (qlen q)). intro l. revert h. induction l; intros; simpl; [reflexivity|]. rewrite IHl. reflexivity. Qed.

Lemma set_lasts_lasts q x : forall l h q' k',
  lasts (fold_left (fun h k => set_last h (q, k) x) l h) q' k' = if (qid_eqb q' q && existsb (Nat.eqb k') l)%bool then Some x else lasts h q' k'.
Proof.
  induction l as [|a r IH]; intros; simpl.
  - rewrite andb_false_r. reflexivity.
  - rewrite IH. simpl. destruct (qid_eqb q' q); simpl; [|reflexivity].
    destruct (existsb (Nat.eqb k') r); [rewrite orb_true_r; reflexivity|]. rewrite orb_false_r. reflexivity.
Qed.
Lemma existsb_seq k n : existsb (Nat.eqb k) (seq 0 n) = (k <? n)%nat.
Proof.
  destruct (Nat.ltb_spec k n).
  - apply existsb_exists. exists k. split; [apply in_seq; lia|apply Nat.eqb_refl].
  - destruct (existsb (Nat.eqb k) (seq 0 n)) eqn:E; [|reflexivity]. apply existsb_exists in E. destruct E as [y [Hy E]].
    apply Nat.eqb_eq in E. subst. apply in_seq in Hy. lia.
Qed.
Lemma after_call_lasts q x h q' k' :
  lasts (after_call q x h) q' k' = if (qid_eqb q' q && (k' <? qlen q)%nat)%bool then Some x else lasts h q' k'.
Proof. unfold after_call. rewrite set_lasts_lasts, existsb_seq. reflexivity. Qed.
Lemma after_call_theta q x h q' : theta_of (after_call q x h) q' = theta_of h q'.
Proof. unfold theta_of. rewrite after_call_sels. reflexivity. Qed.
Lemma after_call_alpha q x h q' : alpha_of (after_call q x h) q' = alpha_of h q'.
Proof. unfold alpha_of. rewrite after_call_sels. reflexivity. Qed.

Lemma enumerate_qtz_funcs q : enumerate (qtz_funcs q) = map (fun k => (k, (q, k))) (seq 0 (qlen q)).
Proof. unfold enumerate, qtz_funcs. rewrite map_length, seq_length. apply combine_seq_diag. Qed.

Lemma mix_as_sum (th : list Q) (f : nat -> V) n : length th = n ->
  hmix th (map f (seq 0 n)) = fold_left vadd (map (fun k => smul (nth k th 0%Q) (f k)) (seq 0 n)) vzero.
Proof.
  intros <-. unfold hmix, mix. rewrite (combine_nth_seq 0%Q f th 0). rewrite !fold_left_map.
  apply fold_left_ext. intros a k. simpl. rewrite Nat.sub_0_r. reflexivity.
Qed.

(* ---- the loop of MPSPerLayerQtz.forward, canonical form *)
Definition pl_body (q : qid) (x : V) : heap * list V -> nat * qobj -> heap * list V :=
  fun st it => (set_last (fst st) (snd it) x, snd st ++ [smul (t1_at (theta_of (fst st) q) (fst it)) (qfun (fst (snd it)) (snd (snd it)) x)]).
Lemma pl_fold q x : forall (L : list (nat * qobj)) h y,
  fold_left (pl_body q x) L (h, y) =
  (fold_left (fun h it => set_last h (snd it) x) L h,
   y ++ map (fun it => smul (t1_at (theta_of h q) (fst it)) (qfun (fst (snd it)) (snd (snd it)) x)) L).
Proof.
  induction L as [|it r IH]; intros; simpl; [rewrite app_nil_r; reflexivity|].
  unfold pl_body at 2. simpl. rewrite IH. f_equal. rewrite <- app_assoc. reflexivity.
Qed.

Definition pl_forward_canon (q : qid) (h : heap) (x : V) (noise : qid -> list (list Q)) : heap * V :=
  let h1 := sample_alpha h q noise in (after_call q x h1, hmix (th1 h1 q) (cands q x)).

Lemma pl_forward_canon_eq q h x noise (f : heap * list V -> nat * qobj -> heap * list V) :
  (forall st it, f st it = pl_body q x st it) ->
  length (th1 (sample_alpha h q noise) q) = qlen q ->
  (let '(h', y) := fold_left f (enumerate (qtz_funcs q)) (sample_alpha h q noise, []) in (h', stack_sum y)) = pl_forward_canon q h x noise.
Proof.
  intros Hf HL. rewrite (fold_left_ext f (pl_body q x) Hf). rewrite pl_fold, enumerate_qtz_funcs. unfold pl_forward_canon. cbv zeta.
  f_equal.
  - unfold after_call. rewrite fold_left_map. reflexivity.
  - simpl. unfold cands. rewrite (mix_as_sum _ _ _ HL). unfold stack_sum. rewrite map_map. reflexivity.
Qed.
End Sel.

Section SelGen.
Context {W : World}.

(* MPSPerLayerQtz.forward = sample, then the coefficient-weighted sum of the quantized copies (`mix` of Model/MpsNet.v) *)
Theorem pl_forward_gen_eq : forall q h x noise, length (th1 (sample_alpha h q noise) q) = qlen q ->
  pl_forward_gen q h x noise = pl_forward_canon q h x noise.
Proof.
  intros q h x noise HL. unfold pl_forward_gen. cbv zeta.
  apply pl_forward_canon_eq; [intros [h' y'] [i o]; reflexivity|exact HL].
Qed.

(* MPSBaseQtz.effective_scale read on a per-layer selector = `effscale` of Model/MpsNet.v, the scales being those the
   candidate quantizers report in the current heap *)
Theorem pl_effective_scale_gen_eq : forall q h, length (th1 h q) = qlen q ->
  pl_effective_scale_gen q h = hmix (th1 h q) (scales h q).
Proof.
  intros q h HL. unfold pl_effective_scale_gen. cbv zeta. rewrite enumerate_qtz_funcs, fold_left_map.
  unfold scales. rewrite (mix_as_sum _ _ _ HL), fold_left_map. apply fold_left_ext. intros a k. reflexivity.
Qed.

Theorem sel_call_pl : forall q h x noise, skind_of q = PerLayer -> length (th1 (sample_alpha h q noise) q) = qlen q ->
  sel_call q h x noise = pl_forward_canon q h x noise.
Proof. intros q h x noise K HL. unfold sel_call. rewrite K. apply pl_forward_gen_eq. exact HL. Qed.
Theorem effective_scale_pl : forall q h, skind_of q = PerLayer -> length (th1 h q) = qlen q ->
  effective_scale_gen h q = hmix (th1 h q) (scales h q).
Proof. intros q h K HL. unfold effective_scale_gen. rewrite K. apply pl_effective_scale_gen_eq. exact HL. Qed.
End SelGen.

(* ================================================================== eval / hard selection: the C10 postcondition on the heap *)
Section Eval.
Context {W : World}.
Hypothesis g_pos : forall x, (0 < gexp x)%Q.
Hypothesis g_incr : forall x y, (x < y)%Q -> (gexp x < gexp y)%Q.

(* selector q is a per-layer selector in a state in which a forward pass selects the arg-max (eval mode, or hard non-Gumbel
   sampling; sampling not disabled), bound sampler consistent with its flags *)
Definition ready (h : heap) (q : qid) : Prop :=
  exists s a, sels h q = embed s /\ Proofs.Sampler.wf s /\ disabled s = false /\
    (training s = false \/ (hard s = true /\ gumbel s = false)) /\ alpha s = [a] /\ length a = qlen q.
(* the sampled coefficients of q are the one-hot at the arg-max of its raw coefficients *)
Definition fresh (h : heap) (q : qid) : Prop :=
  acol h q <> [] /\ length (acol h q) = qlen q /\ th1 h q = Model.Sampler.onehot (length (acol h q)) (Model.Sampler.argmax (acol h q)).

Lemma sample_alpha_other h q noise q' : q' <> q -> sels (sample_alpha h q noise) q' = sels h q'.
Proof. intro H. unfold sample_alpha, set_sel. simpl. rewrite (qid_eqb_neq _ _ H). reflexivity. Qed.
Lemma sample_alpha_lasts h q noise : lasts (sample_alpha h q noise) = lasts h.
Proof. reflexivity. Qed.

Lemma sample_ready h q noise : ready h q ->
  ready (sample_alpha h q noise) q /\ fresh (sample_alpha h q noise) q /\ alpha_of (sample_alpha h q noise) q = alpha_of h q.
Proof.
  intros [s [a [E [Hw [Hd [Hm [Ha HL]]]]]]].
  assert (S1 : sels (sample_alpha h q noise) q = embed (set_theta s [Model.Sampler.onehot (length a) (Model.Sampler.argmax a)])).
  { unfold sample_alpha, set_sel. simpl. rewrite qid_eqb_refl, E.
    change (mps_sample_alpha_gen gexp (embed s) (noise q)) with (mps_forward_gen gexp (embed s) (noise q)).
    rewrite (mps_forward_gen_eq gexp cur_cfg). f_equal. f_equal.
    destruct (selected_onehot gexp g_pos g_incr cur_cfg KMps s (noise q)) as [R _]; auto.
    - left. reflexivity.
    - rewrite R, Ha. reflexivity. }
  split; [|split].
  - exists (set_theta s [Model.Sampler.onehot (length a) (Model.Sampler.argmax a)]), a.
    split; [exact S1|]. destruct s as [hd_ gm d T tr al th]. cbn [set_theta hard gumbel disabled temp training alpha theta] in *.
    destruct Hw as [H1 H2]. repeat split; auto.
  - unfold fresh, acol, th1, alpha_of, theta_of. rewrite S1. destruct s as [hd_ gm d T tr al th]. simpl in *. subst al. simpl.
    destruct Hw as [_ Hc]. simpl in Hc. inversion Hc as [|? ? [Hne _] _]; subst. repeat split; auto.
  - unfold alpha_of. rewrite S1, E. destruct s; reflexivity.
Qed.

Lemma ready_other h q noise q' : q' <> q -> ready h q' -> ready (sample_alpha h q noise) q'.
Proof. intros H [s [a R]]. exists s, a. rewrite (sample_alpha_other _ _ _ _ H). exact R. Qed.
Lemma fresh_other h q noise q' : q' <> q -> fresh h q' -> fresh (sample_alpha h q noise) q'.
Proof. intros H F. unfold fresh, acol, th1, alpha_of, theta_of in *. rewrite (sample_alpha_other _ _ _ _ H). exact F. Qed.
Lemma ready_after_call h q x q' : ready h q' -> ready (after_call q x h) q'.
Proof. intros [s [a R]]. exists s, a. rewrite after_call_sels. exact R. Qed.
Lemma fresh_after_call h q x q' : fresh h q' -> fresh (after_call q x h) q'.
Proof. intros F. unfold fresh, acol, th1 in *. rewrite after_call_alpha, after_call_theta. exact F. Qed.

Lemma fresh_len h q : fresh h q -> length (th1 h q) = qlen q.
Proof. intros [_ [L E]]. rewrite E. rewrite onehot_length. exact L. Qed.
Lemma fresh_lt h q : fresh h q -> (Model.Sampler.argmax (acol h q) < qlen q)%nat.
Proof. intros [N [L _]]. rewrite <- L. apply Proofs.Sampler.argmax_lt. exact N. Qed.
End Eval.

(* ================================================================== layers *)
Section Layer.
Context {W : World}.
Hypothesis smul0 : forall v, smul 0%Q v = vzero.
Hypothesis smul1 : forall v, smul 1%Q v = v.
Hypothesis add0l : forall v, vadd vzero v = v.
Hypothesis add0r : forall v, vadd v vzero = v.
Hypothesis g_pos : forall x, (0 < gexp x)%Q.
Hypothesis g_incr : forall x y, (x < y)%Q -> (gexp x < gexp y)%Q.

Definition ksel (h : heap) (q : qid) : nat := Model.Sampler.argmax (acol h q).     (* what summary() / export() select *)

Lemma hmix_onehot (f : nat -> V) n k : (k < n)%nat -> hmix (Model.Sampler.onehot n k) (map f (seq 0 n)) = f k.
Proof. intro H. unfold hmix. rewrite <- onehot_agree. apply (mix_onehot_map V Q 0%Q 1%Q vzero vadd smul); assumption. Qed.

Lemma acol_sample h q noise q' : acol (sample_alpha h q noise) q' = acol h q'.
Proof.
  unfold acol, alpha_of, sample_alpha, set_sel. simpl. destruct (qid_eqb q' q) eqn:E; [|reflexivity].
  apply qid_eqb_eq in E. subst q'. unfold mps_sample_alpha_gen.
  destruct (sels h q) as [[hd_ gm d T tr al th] b]. cbn [SamplerGen.bound core].
  destruct (Z.eqb b 2); [reflexivity|]. destruct (Z.eqb b 1).
  - unfold mps_sample_alpha_gs_gen, mps_sample_alpha_sm_gen. cbv zeta. cbn. destruct tr; [reflexivity|]. destruct (hd_ || negb false)%bool; reflexivity.
  - unfold mps_sample_alpha_sm_gen. cbv zeta. cbn. destruct (hd_ || negb tr)%bool; reflexivity.
Qed.
Lemma acol_after_call h q x q' : acol (after_call q x h) q' = acol h q'.
Proof. unfold acol. rewrite after_call_alpha. reflexivity. Qed.

(* a per-layer selector in eval / hard mode applies the quantizer summary() / export() select *)
Lemma sel_call_eval q h x noise : skind_of q = PerLayer -> ready h q ->
  sel_call q h x noise = (after_call q x (sample_alpha h q noise), qfun q (ksel h q) x).
Proof.
  intros K R. destruct (sample_ready g_pos g_incr h q noise R) as [R1 [F1 A1]].
  rewrite sel_call_pl by (auto; apply (fresh_len _ _ F1)). unfold pl_forward_canon. cbv zeta. f_equal.
  destruct F1 as [N [L E]]. rewrite E, L. unfold cands. rewrite hmix_onehot.
  - unfold ksel. rewrite acol_sample. reflexivity.
  - rewrite <- L. apply Proofs.Sampler.argmax_lt. exact N.
Qed.
Lemma effective_scale_eval q h : skind_of q = PerLayer -> fresh h q -> effective_scale_gen h q = hscale h q (ksel h q).
Proof.
  intros K F. rewrite effective_scale_pl by (auto; apply (fresh_len _ _ F)).
  pose proof (fresh_lt _ _ F) as Hlt. destruct F as [N [L E]]. rewrite E, L. unfold scales. apply hmix_onehot. exact Hlt.
Qed.

(* ---- canonical forms of the generated forward passes (the generated text is convertible to them) *)
Definition mps_forward_canon (self : mlayer) (h : heap) (x : V) (noise : qid -> list (list Q)) : heap * V :=
  let '(h, c1) := sel_call (l_w self) h (l_weight self) noise in
  let qb := call_mps_b self (effective_scale_gen h (l_in self)) (effective_scale_gen h (l_w self)) in
  let '(h, c2) := sel_call (l_out self) h (convf (l_id self) x c1 qb) noise in (h, c2).
Definition q_forward_canon (self : qlayer) (h : heap) (x : V) : heap * V :=
  let '(h, c1) := qcall h (e_w self) (e_weight self) in
  let qb := call_q_b self (qscale_of h (e_in self)) (qscale_of h (e_w self)) in
  let '(h, c2) := qcall h (e_out self) (convf (e_id self) x c1 qb) in (h, c2).

(* what the MPS layer computes in eval / hard mode *)
Definition mps_out (self : mlayer) (h : heap) (x : V) : V :=
  let qi := l_in self in let qo := l_out self in let qw := l_w self in
  qfun qo (ksel h qo)
    (convf (l_id self) x (qfun qw (ksel h qw) (l_weight self))
       (call_mps_b self (qscale qi (ksel h qi) (lasts h qi (ksel h qi))) (qscale qw (ksel h qw) (Some (l_weight self))))).
Definition mps_heap (self : mlayer) (h : heap) (x : V) (noise : qid -> list (list Q)) : heap :=
  let qi := l_in self in let qo := l_out self in let qw := l_w self in
  let hw := after_call qw (l_weight self) (sample_alpha h qw noise) in
  after_call qo (convf (l_id self) x (qfun qw (ksel h qw) (l_weight self))
       (call_mps_b self (qscale qi (ksel h qi) (lasts h qi (ksel h qi))) (qscale qw (ksel h qw) (Some (l_weight self)))))
    (sample_alpha hw qo noise).

Theorem mps_forward_eval : forall self h x noise,
  skind_of (l_w self) = PerLayer -> skind_of (l_out self) = PerLayer -> skind_of (l_in self) = PerLayer ->
  l_w self <> l_out self -> l_w self <> l_in self ->
  ready h (l_w self) -> ready h (l_out self) -> fresh h (l_in self) ->
  mps_forward_canon self h x noise = (mps_heap self h x noise, mps_out self h x).
Proof.
  intros self h x noise Kw Ko Ki Dwo Dwi Rw Ro Fi. unfold mps_forward_canon.
  rewrite (sel_call_eval _ _ _ _ Kw Rw).
  set (h1 := sample_alpha h (l_w self) noise). set (hw := after_call (l_w self) (l_weight self) h1).
  destruct (sample_ready g_pos g_incr h (l_w self) noise Rw) as [Rw1 [Fw1 _]]. fold h1 in Rw1, Fw1.
  assert (Fiw : fresh hw (l_in self)).
  { apply fresh_after_call. apply fresh_other; [intro E; apply Dwi; auto|exact Fi]. }
  assert (Fww : fresh hw (l_w self)) by (apply fresh_after_call; exact Fw1).
  assert (Row : ready hw (l_out self)).
  { apply ready_after_call. apply ready_other; [intro E; apply Dwo; auto|exact Ro]. }
  rewrite (effective_scale_eval _ _ Ki Fiw), (effective_scale_eval _ _ Kw Fww).
  rewrite (sel_call_eval _ _ _ _ Ko Row).
  assert (Ki' : ksel hw (l_in self) = ksel h (l_in self)) by (unfold ksel, hw, h1; rewrite acol_after_call, acol_sample; reflexivity).
  assert (Kw' : ksel hw (l_w self) = ksel h (l_w self)) by (unfold ksel, hw, h1; rewrite acol_after_call, acol_sample; reflexivity).
  assert (Ko' : ksel hw (l_out self) = ksel h (l_out self)) by (unfold ksel, hw, h1; rewrite acol_after_call, acol_sample; reflexivity).
  rewrite Ki', Kw', Ko'.
  assert (Li : hscale hw (l_in self) (ksel h (l_in self)) = qscale (l_in self) (ksel h (l_in self)) (lasts h (l_in self) (ksel h (l_in self)))).
  { unfold hscale, hw. rewrite after_call_lasts. rewrite (qid_eqb_neq (l_in self) (l_w self)) by (intro E; apply Dwi; auto). reflexivity. }
  assert (Lw : hscale hw (l_w self) (ksel h (l_w self)) = qscale (l_w self) (ksel h (l_w self)) (Some (l_weight self))).
  { unfold hscale, hw. rewrite after_call_lasts, qid_eqb_refl.
    assert (Hlt : (ksel h (l_w self) <? qlen (l_w self))%nat = true).
    { apply Nat.ltb_lt. rewrite <- Kw'. apply (fresh_lt _ _ Fww). }
    rewrite Hlt. reflexivity. }
  rewrite Li, Lw. reflexivity.
Qed.
End Layer.

(* ================================================================== generated text = canonical forms *)
Section Tie.
Context {W : World}.

Theorem conv2d_forward_gen_canon : forall self h x noise, conv2d_forward_gen self h x noise = mps_forward_canon self h x noise.
Proof. reflexivity. Qed.
Theorem conv1d_forward_gen_canon : forall self h x noise, conv1d_forward_gen self h x noise = mps_forward_canon self h x noise.
Proof. reflexivity. Qed.
Theorem linear_forward_gen_canon : forall self h x noise, linear_forward_gen self h x noise = mps_forward_canon self h x noise.
Proof. reflexivity. Qed.
Theorem qconv2d_forward_gen_canon : forall self h x, qconv2d_forward_gen self h x = q_forward_canon self h x.
Proof. reflexivity. Qed.
Theorem qconv1d_forward_gen_canon : forall self h x, qconv1d_forward_gen self h x = q_forward_canon self h x.
Proof. reflexivity. Qed.
Theorem qlinear_forward_gen_canon : forall self h x, qlinear_forward_gen self h x = q_forward_canon self h x.
Proof. reflexivity. Qed.
Theorem identity_forward_gen_canon : forall self h x noise, identity_forward_gen self h x noise = sel_call (l_out self) h x noise.
Proof. intros. unfold identity_forward_gen. cbv zeta. destruct (sel_call (l_out self) h x noise); reflexivity. Qed.
Theorem qidentity_forward_gen_canon : forall self h x, qidentity_forward_gen self h x = qcall h (ei_out self) x.
Proof. reflexivity. Qed.
Theorem mps_bias_forward_gen_canon : forall i b sa sw, mps_bias_forward_gen i b sa sw = biasq i b sa sw.
Proof. reflexivity. Qed.

(* the selection properties: arg-max of the RAW coefficients *)
Definition sel_prec_canon (h : heap) (q : qid) : Z := znth (precs q) (ksel h q).
Definition sel_qobj_canon (h : heap) (q : qid) : qobj := qnth (qtz_funcs q) (ksel h q).
Definition sel_wprec_canon (h : heap) (q : qid) : wsel Z :=
  match skind_of q with PerLayer => WOne (sel_prec_canon h q) | PerChannel => WMany (map (znth (precs q)) (targmax0 (alpha_of h q))) end.
Definition sel_wqobj_canon (h : heap) (q : qid) : wsel qobj :=
  match skind_of q with PerLayer => WOne (sel_qobj_canon h q) | PerChannel => WMany (map (qnth (qtz_funcs q)) (targmax0 (alpha_of h q))) end.

Ltac props := intros; reflexivity.
Theorem conv2d_selected_gen_canon : forall self h,
  conv2d_selected_in_precision_gen self h = sel_prec_canon h (l_in self) /\ conv2d_selected_out_precision_gen self h = sel_prec_canon h (l_out self) /\
  conv2d_selected_w_precision_gen self h = sel_wprec_canon h (l_w self) /\
  conv2d_selected_in_quantizer_gen self h = sel_qobj_canon h (l_in self) /\ conv2d_selected_out_quantizer_gen self h = sel_qobj_canon h (l_out self) /\
  conv2d_selected_w_quantizer_gen self h = sel_wqobj_canon h (l_w self).
Proof. intros. repeat split; try reflexivity; unfold conv2d_selected_w_precision_gen, conv2d_selected_w_quantizer_gen, sel_wprec_canon, sel_wqobj_canon; destruct (skind_of (l_w self)); reflexivity. Qed.
Theorem conv1d_selected_gen_canon : forall self h,
  conv1d_selected_in_precision_gen self h = sel_prec_canon h (l_in self) /\ conv1d_selected_out_precision_gen self h = sel_prec_canon h (l_out self) /\
  conv1d_selected_w_precision_gen self h = sel_wprec_canon h (l_w self) /\
  conv1d_selected_in_quantizer_gen self h = sel_qobj_canon h (l_in self) /\ conv1d_selected_out_quantizer_gen self h = sel_qobj_canon h (l_out self) /\
  conv1d_selected_w_quantizer_gen self h = sel_wqobj_canon h (l_w self).
Proof. intros. repeat split; try reflexivity; unfold conv1d_selected_w_precision_gen, conv1d_selected_w_quantizer_gen, sel_wprec_canon, sel_wqobj_canon; destruct (skind_of (l_w self)); reflexivity. Qed.
Theorem linear_selected_gen_canon : forall self h,
  linear_selected_in_precision_gen self h = sel_prec_canon h (l_in self) /\ linear_selected_out_precision_gen self h = sel_prec_canon h (l_out self) /\
  linear_selected_w_precision_gen self h = sel_wprec_canon h (l_w self) /\
  linear_selected_in_quantizer_gen self h = sel_qobj_canon h (l_in self) /\ linear_selected_out_quantizer_gen self h = sel_qobj_canon h (l_out self) /\
  linear_selected_w_quantizer_gen self h = sel_wqobj_canon h (l_w self).
Proof. intros. repeat split; try reflexivity; unfold linear_selected_w_precision_gen, linear_selected_w_quantizer_gen, sel_wprec_canon, sel_wqobj_canon; destruct (skind_of (l_w self)); reflexivity. Qed.
Theorem identity_selected_gen_canon : forall self h,
  identity_selected_out_precision_gen self h = sel_prec_canon h (l_out self) /\ identity_selected_out_quantizer_gen self h = sel_qobj_canon h (l_out self).
Proof. intros. split; reflexivity. Qed.

Theorem summary_gen_canon : forall self h,
  conv2d_summary_gen self h = (sel_prec_canon h (l_in self), sel_prec_canon h (l_out self), sel_wprec_canon h (l_w self)) /\
  conv1d_summary_gen self h = (sel_prec_canon h (l_in self), sel_prec_canon h (l_out self), sel_wprec_canon h (l_w self)) /\
  linear_summary_gen self h = (sel_prec_canon h (l_in self), sel_prec_canon h (l_out self), sel_wprec_canon h (l_w self)) /\
  identity_summary_gen self h = sel_prec_canon h (l_out self).
Proof.
  intros. unfold conv2d_summary_gen, conv1d_summary_gen, linear_summary_gen, identity_summary_gen.
  destruct (conv2d_selected_gen_canon self h) as [A1 [A2 [A3 _]]]. destruct (conv1d_selected_gen_canon self h) as [B1 [B2 [B3 _]]].
  destruct (linear_selected_gen_canon self h) as [C1 [C2 [C3 _]]]. destruct (identity_selected_gen_canon self h) as [D1 _].
  rewrite A1, A2, A3, B1, B2, B3, C1, C2, C3, D1. repeat split; reflexivity.
Qed.

(* export(), per-layer weight search: ONE exported layer carrying the selected quantizer objects, identity / weights / bias of the MPS layer *)
Definition exported_canon (c : lcls) (self : mlayer) (h : heap) : qlayer :=
  mkE (l_id self) c (sel_qobj_canon h (l_in self)) (sel_qobj_canon h (l_out self)) (sel_qobj_canon h (l_w self))
      (if has_bias self then Some (l_id self) else None) (l_weight self) (l_bias self) (l_mask self).
Theorem export_gen_canon : forall self h, skind_of (l_w self) = PerLayer ->
  conv2d_export_gen self h = EOne (exported_canon CConv2d self h) /\ conv1d_export_gen self h = EOne (exported_canon CConv1d self h) /\
  linear_export_gen self h = EOne (exported_canon CLinear self h).
Proof.
  intros self h K. unfold conv2d_export_gen, conv1d_export_gen, linear_export_gen. rewrite K. cbv zeta.
  destruct (conv2d_selected_gen_canon self h) as [_ [_ [_ [A4 [A5 A6]]]]]. destruct (conv1d_selected_gen_canon self h) as [_ [_ [_ [B4 [B5 B6]]]]].
  destruct (linear_selected_gen_canon self h) as [_ [_ [_ [C4 [C5 C6]]]]].
  rewrite ?A4, ?A5, ?A6, ?B4, ?B5, ?B6, ?C4, ?C5, ?C6. unfold sel_wqobj_canon. rewrite K. cbn [wone].
  cbv beta iota zeta delta [exported_canon qconv2d_init_gen qconv1d_init_gen qlinear_init_gen has_bias qhas_bias bq_func new_qlayer
                            set_e_in set_e_out set_e_w set_e_b e_id e_cls e_in e_out e_w e_b e_weight e_bias e_mask].
  destruct (l_bias self); repeat split; reflexivity.
Qed.
Theorem identity_export_gen_canon : forall self h,
  identity_export_gen self h = mkEI (sel_qobj_canon h (l_out self)) /\ add_export_gen self h = mkEI (sel_qobj_canon h (l_out self)).
Proof. intros. split; reflexivity. Qed.
(* QuantList.forward: the member layers run in list order on the same input (the heap threads through), outputs concatenated *)
Definition qlist_run (ls : list qlayer) (h : heap) (x : V) : heap * list V :=
  fold_left (fun st l => (fst (qlayer_call l (fst st) x), snd st ++ [snd (qlayer_call l (fst st) x)])) ls (h, []).
Theorem qlist_forward_gen_canon : forall ls h x, qlist_forward_gen ls h x = (fst (qlist_run ls h x), vcat (snd (qlist_run ls h x))).
Proof.
  intros ls h x. unfold qlist_forward_gen, qlist_run. cbv zeta.
  rewrite (fold_left_ext _ (fun st l => (fst (qlayer_call l (fst st) x), snd st ++ [snd (qlayer_call l (fst st) x)])))
    by (intros [h' o'] l; cbn [fst snd]; destruct (qlayer_call l h' x); reflexivity).
  destruct (fold_left _ ls (h, [])); reflexivity.
Qed.
Theorem qlayer_call_canon : forall l h x, qlayer_call l h x = q_forward_canon l h x.
Proof. intros l h x. unfold qlayer_call. destruct (e_cls l); reflexivity. Qed.
Theorem quant_list_forward : forall ls h x,
  qlist_forward_gen ls h x = (fst (qlist_run ls h x), vcat (snd (qlist_run ls h x))) /\ (forall l : qlayer, qlayer_call l h x = q_forward_canon l h x).
Proof. intros. split; [apply qlist_forward_gen_canon|intro l; apply qlayer_call_canon]. Qed.
End Tie.

(* ================================================================== the sentences of C02 at layer level *)
Section Main.
Context {W : World}.
Hypothesis smul0 : forall v, smul 0%Q v = vzero.
Hypothesis smul1 : forall v, smul 1%Q v = v.
Hypothesis add0l : forall v, vadd vzero v = v.
Hypothesis add0r : forall v, vadd v vzero = v.
Hypothesis g_pos : forall x, (0 < gexp x)%Q.
Hypothesis g_incr : forall x y, (x < y)%Q -> (gexp x < gexp y)%Q.

Lemma ready_lt h q : ready h q -> (ksel h q < qlen q)%nat.
Proof.
  intros [s [a [E [[_ Hc] [_ [_ [Ha HL]]]]]]]. unfold ksel, acol, alpha_of. rewrite E. destruct s as [hd_ gm d T tr al th]. simpl in *. subst al.
  simpl. rewrite <- HL. apply Proofs.Sampler.argmax_lt. inversion Hc as [|? ? [N _] _]. exact N.
Qed.
Lemma sel_qobj_in_range h q : (ksel h q < qlen q)%nat -> sel_qobj_canon h q = (q, ksel h q).
Proof.
  intro H. unfold sel_qobj_canon, qnth, qtz_funcs. fold (qlen q).
  rewrite (nth_indep _ (QDummy, 0%nat) ((fun k => (q, k)) 0%nat)) by (rewrite map_length, seq_length; exact H).
  rewrite map_nth, seq_nth by exact H. reflexivity.
Qed.

(* ---- the exported layer: which quantizer it applies where *)
Lemma q_forward_canon_val : forall e he x,
  q_forward_canon e he x =
  (let he1 := set_last he (e_w e) (e_weight e) in
   let out := convf (e_id e) x (qfun (fst (e_w e)) (snd (e_w e)) (e_weight e)) (call_q_b e (qscale_of he1 (e_in e)) (qscale_of he1 (e_w e))) in
   (set_last he1 (e_out e) out, qfun (fst (e_out e)) (snd (e_out e)) out)).
Proof. reflexivity. Qed.

Lemma bias_calls_agree : forall c self h sa sw, call_q_b (exported_canon c self h) sa sw = call_mps_b self sa sw.
Proof. intros. unfold call_q_b, call_mps_b, exported_canon, has_bias. cbn [e_bias e_b]. destruct (l_bias self); reflexivity. Qed.

(* MAIN SENTENCE, generated code, one layer: in eval / hard mode the searchable layer computes what the layer built by
   export() computes, provided the input selector's sampled coefficients are already those of this pass (its producer ran:
   `fresh`) and the selected input quantizer saw the same tensor last in both models *)
Theorem layer_export_sound : forall c self h he x noise,
  skind_of (l_w self) = PerLayer -> skind_of (l_out self) = PerLayer -> skind_of (l_in self) = PerLayer ->
  l_w self <> l_out self -> l_w self <> l_in self ->
  ready h (l_w self) -> ready h (l_out self) -> fresh h (l_in self) ->
  lasts he (l_in self) (ksel h (l_in self)) = lasts h (l_in self) (ksel h (l_in self)) ->
  snd (mps_forward_canon self h x noise) = snd (q_forward_canon (exported_canon c self h) he x).
Proof.
  intros c self h he x noise Kw Ko Ki Dwo Dwi Rw Ro Fi Hl.
  rewrite (mps_forward_eval smul0 smul1 add0l add0r g_pos g_incr) by assumption.
  rewrite q_forward_canon_val. cbv zeta. cbn [snd]. unfold mps_out. cbv zeta.
  pose proof (ready_lt _ _ Rw) as Lw. pose proof (ready_lt _ _ Ro) as Lo. pose proof (fresh_lt _ _ Fi) as Li. fold (ksel h (l_in self)) in Li.
  rewrite bias_calls_agree. unfold exported_canon. cbn [e_id e_in e_out e_w e_weight].
  rewrite !sel_qobj_in_range by assumption. cbn [fst snd]. unfold qscale_of. cbn [fst snd set_last lasts].
  rewrite (qid_eqb_neq (l_in self) (l_w self)) by (intro E; apply Dwi; auto). rewrite qid_eqb_refl, Nat.eqb_refl. cbn [andb].
  rewrite Hl. reflexivity.
Qed.

(* ... and the two heaps keep agreeing on what every SELECTED quantizer saw last (so the premise holds again at the consumers) *)
Theorem layer_export_sound_heap : forall c self h he x noise,
  skind_of (l_w self) = PerLayer -> skind_of (l_out self) = PerLayer -> skind_of (l_in self) = PerLayer ->
  l_w self <> l_out self -> l_w self <> l_in self ->
  ready h (l_w self) -> ready h (l_out self) -> fresh h (l_in self) ->
  (forall q, lasts he q (ksel h q) = lasts h q (ksel h q)) ->
  forall q, lasts (fst (q_forward_canon (exported_canon c self h) he x)) q (ksel h q) = lasts (fst (mps_forward_canon self h x noise)) q (ksel h q).
Proof.
  intros c self h he x noise Kw Ko Ki Dwo Dwi Rw Ro Fi Hl q.
  pose proof (layer_export_sound c self h he x noise Kw Ko Ki Dwo Dwi Rw Ro Fi (Hl _)) as Hv.
  rewrite (mps_forward_eval smul0 smul1 add0l add0r g_pos g_incr) in * by assumption.
  rewrite q_forward_canon_val in *. cbv zeta in *. cbn [fst snd] in *.
  pose proof (ready_lt _ _ Rw) as Lw. pose proof (ready_lt _ _ Ro) as Lo. pose proof (fresh_lt _ _ Fi) as Li. fold (ksel h (l_in self)) in Li.
  unfold mps_heap. cbv zeta. rewrite after_call_lasts, sample_alpha_lasts, after_call_lasts, sample_alpha_lasts. cbn [lasts set_last].
  unfold exported_canon in *. cbn [e_id e_in e_out e_w e_weight] in *.
  rewrite (sel_qobj_in_range _ _ Lw), (sel_qobj_in_range _ _ Lo), (sel_qobj_in_range _ _ Li) in *. cbn [fst snd] in *.
  destruct (qid_eqb q (l_out self)) eqn:Eo.
  - apply qid_eqb_eq in Eo. subst q. rewrite Nat.eqb_refl. apply Nat.ltb_lt in Lo. rewrite Lo. cbn [andb].
    f_equal. unfold mps_out in Hv. cbv zeta in Hv.
    set (X := convf _ _ _ _) in Hv |- *. set (Y := convf _ _ _ _) in Hv |- *.
    (* the pre-quantization tensors agree: same argument as for the values *)
    clear Hv. subst X Y. f_equal.
    pose proof (bias_calls_agree c self h) as B. unfold exported_canon in B.
    rewrite (sel_qobj_in_range _ _ Lw), (sel_qobj_in_range _ _ (proj1 (Nat.ltb_lt _ _) Lo)), (sel_qobj_in_range _ _ Li) in B. rewrite B.
    unfold qscale_of. cbn [fst snd set_last lasts].
    rewrite (qid_eqb_neq (l_in self) (l_w self)) by (intro E; apply Dwi; auto). rewrite qid_eqb_refl, Nat.eqb_refl. cbn [andb].
    rewrite (Hl (l_in self)). reflexivity.
  - cbn [andb]. destruct (qid_eqb q (l_w self)) eqn:Ew.
    + apply qid_eqb_eq in Ew. subst q. rewrite Nat.eqb_refl. apply Nat.ltb_lt in Lw. rewrite Lw. reflexivity.
    + cbn [andb]. apply Hl.
Qed.
End Main.

(* ================================================================== against the hand-written model (Model/MpsNet.v) *)
Section Hand.
Context {W : World}.
Hypothesis smul0 : forall v, smul 0%Q v = vzero.
Hypothesis smul1 : forall v, smul 1%Q v = v.
Hypothesis add0l : forall v, vadd vzero v = v.
Hypothesis add0r : forall v, vadd v vzero = v.
Hypothesis g_pos : forall x, (0 < gexp x)%Q.
Hypothesis g_incr : forall x y, (x < y)%Q -> (gexp x < gexp y)%Q.

(* the coefficients / the selection the theorems of Props/C02.v are about: one-hot at the arg-max of the raw coefficients *)
Definition theta_star (h : heap) : qid -> list Q := fun q => Model.MpsNet.onehot 0%Q 1%Q (Model.MpsNet.argmax (acol h q)) (qlen q).
Definition sel_star (h : heap) : qid -> nat := sel (acol h).
(* the layer object sits at node i of the network: it holds the selector objects the hand model's wiring gives node i *)
Definition wired (fixed shared : bool) (net : list node) (i : nat) (self : mlayer) : Prop :=
  l_id self = i /\ l_in self = in_qid fixed net i /\ l_out self = out_qid net i /\ l_w self = w_qid shared net i.

Lemma sel_star_ksel h q : sel_star h q = ksel h q.
Proof. unfold sel_star, sel, ksel. apply argmax_agree. Qed.

Lemma mixq_star h q X : (ksel h q < qlen q)%nat ->
  mixq V Q vzero vadd smul qlen qfun (theta_star h) q X = qfun q (ksel h q) X.
Proof.
  intro H. unfold mixq, theta_star. rewrite argmax_agree, onehot_agree. fold (ksel h q).
  apply (hmix_onehot smul0 smul1 add0l add0r (fun k => qfun q k X)). exact H.
Qed.
Lemma effscale_star h (sc : qid -> nat -> V) q : (ksel h q < qlen q)%nat ->
  effscale V Q vzero vadd smul qlen sc (theta_star h) q = sc q (ksel h q).
Proof.
  intro H. unfold effscale, theta_star. rewrite argmax_agree, onehot_agree. fold (ksel h q).
  apply (hmix_onehot smul0 smul1 add0l add0r (sc q)). exact H.
Qed.

(* the scales the quantizers report while the layer runs: the weight selector's candidates have just seen the weight *)
Definition run_scale (self : mlayer) (h : heap) : qid -> nat -> V := hscale (after_call (l_w self) (l_weight self) h).
Lemma run_scale_w self h k : (k < qlen (l_w self))%nat -> run_scale self h (l_w self) k = qscale (l_w self) k (Some (l_weight self)).
Proof. intro H. unfold run_scale, hscale. rewrite after_call_lasts, qid_eqb_refl. apply Nat.ltb_lt in H. rewrite H. reflexivity. Qed.
Lemma run_scale_other self h q k : q <> l_w self -> run_scale self h q k = qscale q k (lasts h q k).
Proof. intro H. unfold run_scale, hscale. rewrite after_call_lasts, (qid_eqb_neq _ _ H). reflexivity. Qed.

(* what the generated MPS layer computes in eval / hard mode IS the hand model's exported node ... *)
Theorem mps_out_is_exp_node : forall fixed shared net i nd s self h vs x0 propf addf,
  wired fixed shared net i self -> is_layer nd = true -> first_src nd = Some s ->
  l_in self <> l_w self -> (ksel h (l_w self) < qlen (l_w self))%nat ->
  mps_out self h (nth s vs vzero) =
  exp_node V vzero qfun (run_scale self h) convf (fun _ => l_weight self) (fun _ => vnone) (fun _ _ => call_mps_b self) propf addf
           fixed shared net (sel_star h) x0 vs i nd.
Proof.
  intros fixed shared net i nd s self h vs x0 propf addf [Hid [Hin [Hout Hw]]] HL Hs Dn Lw.
  unfold mps_out. cbv zeta.
  destruct nd; try discriminate HL; simpl in Hs; inversion Hs; subst; unfold exp_node; cbv zeta;
    rewrite <- Hin, <- Hout, <- Hw, !sel_star_ksel, (run_scale_w _ _ _ Lw), (run_scale_other _ _ _ _ Dn); reflexivity.
Qed.

(* ... and the hand model's MPS node evaluated with one-hot coefficients at the arg-max *)
Theorem mps_out_is_mps_node : forall fixed shared net i nd s self h vs x0 propf addf,
  wired fixed shared net i self -> is_layer nd = true -> first_src nd = Some s ->
  l_in self <> l_w self ->
  (ksel h (l_w self) < qlen (l_w self))%nat -> (ksel h (l_out self) < qlen (l_out self))%nat -> (ksel h (l_in self) < qlen (l_in self))%nat ->
  mps_out self h (nth s vs vzero) =
  mps_node V Q vzero vadd smul qlen qfun (run_scale self h) convf (fun _ => l_weight self) (fun _ => vnone) (fun _ _ => call_mps_b self) propf addf
           fixed shared net (theta_star h) x0 vs i nd.
Proof.
  intros fixed shared net i nd s self h vs x0 propf addf [Hid [Hin [Hout Hw]]] HL Hs Dn Lw Lo Li.
  unfold mps_out. cbv zeta.
  destruct nd; try discriminate HL; simpl in Hs; inversion Hs; subst; unfold mps_node; cbv zeta;
    rewrite <- Hin, <- Hout, <- Hw, !mixq_star, !effscale_star by assumption;
    rewrite (run_scale_w _ _ _ Lw), (run_scale_other _ _ _ _ Dn); reflexivity.
Qed.

(* MPSIdentity / MPSAdd: the input quantizer behind the placeholder, the re-quantization behind an add *)
Theorem identity_forward_eval : forall self h x noise, skind_of (l_out self) = PerLayer -> ready h (l_out self) ->
  identity_forward_gen self h x noise = (after_call (l_out self) x (sample_alpha h (l_out self) noise), qfun (l_out self) (ksel h (l_out self)) x).
Proof. intros. rewrite identity_forward_gen_canon. apply (sel_call_eval smul0 smul1 add0l add0r g_pos g_incr); assumption. Qed.

Theorem identity_out_is_hand_node : forall fixed shared net i nd self h vs x0 x sc convf' weight bias biasq' propf addf,
  l_out self = out_qid net i -> (ksel h (l_out self) < qlen (l_out self))%nat ->
  (exists c, nd = NIn c /\ x = x0) \/ (exists a b, nd = NAdd a b /\ x = addf (nth a vs vzero) (nth b vs vzero)) ->
  qfun (l_out self) (ksel h (l_out self)) x = exp_node V vzero qfun sc convf' weight bias biasq' propf addf fixed shared net (sel_star h) x0 vs i nd /\
  qfun (l_out self) (ksel h (l_out self)) x = mps_node V Q vzero vadd smul qlen qfun sc convf' weight bias biasq' propf addf fixed shared net (theta_star h) x0 vs i nd.
Proof.
  intros fixed shared net i nd self h vs x0 x sc convf' weight bias biasq' propf addf Hout Lo [[c [-> ->]]|[a [b [-> ->]]]];
    unfold exp_node, mps_node; cbv zeta; rewrite <- Hout, sel_star_ksel, mixq_star by assumption; split; reflexivity.
Qed.

(* ---- summary() / export(): the precisions reported, the quantizer objects handed to the exported layer *)
Lemma sel_prec_canon_hand h q : sel_prec_canon h q = sel_prec (acol h) precs q.
Proof. unfold sel_prec_canon, sel_prec, sel, znth, ksel. rewrite argmax_agree. reflexivity. Qed.

Theorem summary_is_hand : forall fixed shared net i self h, wired fixed shared net i self -> skind_of (l_w self) = PerLayer ->
  (sel_prec_canon h (l_in self), sel_prec_canon h (l_out self), sel_wprec_canon h (l_w self)) =
  (let '(a, b, c) := summary_of (acol h) precs fixed shared net i in (a, b, WOne c)).
Proof.
  intros fixed shared net i self h [_ [Hin [Hout Hw]]] K. unfold summary_of, sel_wprec_canon. rewrite K, !sel_prec_canon_hand, Hin, Hout, Hw. reflexivity.
Qed.

Theorem export_is_hand : forall c fixed shared net i self h, wired fixed shared net i self ->
  (ksel h (l_w self) < qlen (l_w self))%nat -> (ksel h (l_out self) < qlen (l_out self))%nat -> (ksel h (l_in self) < qlen (l_in self))%nat ->
  let e := exported_canon c self h in
  (e_in e, e_out e, e_w e) = export_of (acol h) fixed shared net i /\
  export_precs precs (e_in e, e_out e, e_w e) = summary_of (acol h) precs fixed shared net i.
Proof.
  intros c fixed shared net i self h [_ [Hin [Hout Hw]]] Lw Lo Li. cbv zeta. unfold exported_canon. cbn [e_in e_out e_w].
  rewrite !sel_qobj_in_range by assumption.
  assert (E : (l_in self, ksel h (l_in self), (l_out self, ksel h (l_out self)), (l_w self, ksel h (l_w self))) = export_of (acol h) fixed shared net i).
  { unfold export_of. cbv zeta. rewrite <- Hin, <- Hout, <- Hw. unfold ksel. rewrite !argmax_agree. reflexivity. }
  split; [exact E|]. etransitivity; [|apply export_layer_uses_selected]. f_equal. exact E.
Qed.
End Hand.

(* ================================================================== the open finding of C02 is a behaviour of the generated code
   A layer whose input selector is its own output selector (one module invoked twice: register_in_mps_quantizers keeps ONE
   in_mps_quantizer per module) reads `self.in_mps_quantizer.effective_scale` BEFORE `self.out_mps_quantizer(out)` refreshes the
   sampled coefficients: the first eval-mode forward after a coefficient change quantizes the bias with the stale input scale
   and differs from the exported layer; the second forward agrees with it. *)
Definition finding_world : World :=
  mkWorld Q 0%Q 0%Q Qplus Qmult (fun _ v => v) (fun _ => 0%Q) (fun _ v => v) gsur (fun _ => PerLayer) (fun _ => [2; 4]%Z)
          (fun _ _ x => x)                                   (* quantizers: identity ... *)
          (fun _ k _ => inject_Z (Z.of_nat k) + 1)%Q         (* ... candidate k reports the scale k + 1 *)
          (fun _ _ _ b => b)                                 (* the "convolution" returns its bias operand *)
          (fun _ _ sa _ => sa).                              (* the bias quantizer returns the input scale it is given *)
Definition finding_layer : @mlayer finding_world := @mkL finding_world 1%nat (QCls 0) (QCls 0) (QW 0) 0%Q (Some 0%Q) None.
(* eval mode, soft-max sampler; raw coefficients (0, 1): arg-max 1; sampled coefficients still (1, 0) from before the change *)
Definition finding_heap : @heap finding_world :=
  @mkH finding_world (fun _ => embed (mkS false false false 1%Q false [[0; 1]%Q] [[1; 0]%Q])) (fun _ _ => None).

Theorem layer_invoked_twice_first_forward_differs :
  let W := finding_world in let l := finding_layer in let h := finding_heap in let nz := fun _ : qid => @nil (list Q) in
  l_in l = l_out l /\ ready h (l_w l) /\ ready h (l_out l) /\ ~ fresh h (l_in l) /\
  (exists e, conv2d_export_gen l h = EOne e /\
     let r1 := conv2d_forward_gen l h 0%Q nz in
     let r2 := conv2d_forward_gen l (fst r1) 0%Q nz in
     let re := qconv2d_forward_gen e h 0%Q in
     Qeq_bool (snd r1) 1 = true /\ Qeq_bool (snd re) 2 = true /\ Qeq_bool (snd r2) 2 = true).
Proof.
  cbv zeta. split; [reflexivity|].
  assert (R : forall q, @ready finding_world finding_heap q).
  { intro q. exists (mkS false false false 1%Q false [[0; 1]%Q] [[1; 0]%Q]), [0; 1]%Q. repeat split; auto.
    - constructor; [|constructor]. split; [discriminate|]. repeat constructor. intro E. discriminate E. }
  split; [apply R|]. split; [apply R|]. split.
  - intros [_ [_ E]]. vm_compute in E. discriminate E.
  - eexists. split; [reflexivity|]. vm_compute. repeat split; reflexivity.
Qed.

(* ================================================================== the statements of Props/C02.v about the generated functions *)
Section Headline.
Context {W : World}.
Hypothesis smul0 : forall v, smul 0%Q v = vzero.
Hypothesis smul1 : forall v, smul 1%Q v = v.
Hypothesis add0l : forall v, vadd vzero v = v.
Hypothesis add0r : forall v, vadd v vzero = v.
Hypothesis g_pos : forall x, (0 < gexp x)%Q.
Hypothesis g_incr : forall x y, (x < y)%Q -> (gexp x < gexp y)%Q.

(* the layer's three selectors are per-layer selectors, the weight selector is an object of its own, the weight and output
   selectors are in eval / hard mode, the input selector's sampled coefficients are those of this pass *)
Definition eval_ready (self : mlayer) (h : heap) : Prop :=
  skind_of (l_w self) = PerLayer /\ skind_of (l_out self) = PerLayer /\ skind_of (l_in self) = PerLayer /\
  l_w self <> l_out self /\ l_w self <> l_in self /\ ready h (l_w self) /\ ready h (l_out self) /\ fresh h (l_in self).

(* at a layer node of a network wired by the hand model the weight selector is never an activation selector *)
Lemma wired_distinct : forall fixed shared net i nd self, wired fixed shared net i self -> nth_error net i = Some nd -> is_layer nd = true ->
  l_w self <> l_out self /\ l_w self <> l_in self.
Proof.
  intros fixed shared net i nd self [_ [Hin [Hout Hw]]] E L. rewrite Hin, Hout, Hw. unfold w_qid, out_qid, in_qid, in_producer. rewrite E, L.
  assert (O : forall p, out_qid net p <> QW (cls_of net i) /\ out_qid net p <> QWown i).
  { intro p. unfold out_qid. destruct (nth_error net p) as [[]|]; split; discriminate. }
  split.
  - destruct nd; try discriminate L; destruct shared; discriminate.
  - destruct (first_src nd); [|destruct shared; discriminate]. destruct (is_mps nd); [|destruct shared; discriminate].
    destruct shared; intro X; symmetry in X; revert X; apply O.
Qed.

Theorem selector_forward_is_mix : forall q h x noise, length (th1 (sample_alpha h q noise) q) = qlen q ->
  pl_forward_gen q h x noise =
  (after_call q x (sample_alpha h q noise), mix V Q vzero vadd smul (th1 (sample_alpha h q noise) q) (map (fun k => qfun q k x) (seq 0 (qlen q)))).
Proof. intros. rewrite pl_forward_gen_eq by assumption. reflexivity. Qed.

Theorem effective_scale_is_effscale : forall q h, length (th1 h q) = qlen q ->
  pl_effective_scale_gen q h = effscale V Q vzero vadd smul qlen (hscale h) (fun q' => th1 h q') q.
Proof. intros. rewrite pl_effective_scale_gen_eq by assumption. reflexivity. Qed.

Theorem selector_eval_selects_argmax : forall q h x noise, skind_of q = PerLayer -> ready h q ->
  snd (sel_call q h x noise) = qfun q (Model.Sampler.argmax (acol h q)) x /\ fresh (fst (sel_call q h x noise)) q.
Proof.
  intros q h x noise K R. rewrite (sel_call_eval smul0 smul1 add0l add0r g_pos g_incr) by assumption. split; [reflexivity|].
  cbn [fst]. apply fresh_after_call. destruct (sample_ready g_pos g_incr h q noise R) as [_ [F _]]. exact F.
Qed.

Ltac unpack H := destruct H as [Kw [Ko [Ki [Dwo [Dwi [Rw [Ro Fi]]]]]]].

Theorem layer_forward_export_sound : forall self h he x noise, eval_ready self h ->
  lasts he (l_in self) (ksel h (l_in self)) = lasts h (l_in self) (ksel h (l_in self)) ->
  (forall e, conv2d_export_gen self h = EOne e -> snd (conv2d_forward_gen self h x noise) = snd (qconv2d_forward_gen e he x)) /\
  (forall e, conv1d_export_gen self h = EOne e -> snd (conv1d_forward_gen self h x noise) = snd (qconv1d_forward_gen e he x)) /\
  (forall e, linear_export_gen self h = EOne e -> snd (linear_forward_gen self h x noise) = snd (qlinear_forward_gen e he x)).
Proof.
  intros self h he x noise ER Hl. unpack ER. destruct (export_gen_canon self h Kw) as [E1 [E2 E3]].
  repeat split; intros e Ee; [rewrite E1 in Ee|rewrite E2 in Ee|rewrite E3 in Ee]; inversion Ee; subst e;
    rewrite ?conv2d_forward_gen_canon, ?conv1d_forward_gen_canon, ?linear_forward_gen_canon,
            ?qconv2d_forward_gen_canon, ?qconv1d_forward_gen_canon, ?qlinear_forward_gen_canon;
    apply (layer_export_sound smul0 smul1 add0l add0r g_pos g_incr); assumption.
Qed.

Theorem layer_forward_heaps_agree : forall self h he x noise, eval_ready self h ->
  (forall q, lasts he q (ksel h q) = lasts h q (ksel h q)) ->
  forall e, conv2d_export_gen self h = EOne e ->
  forall q, lasts (fst (qconv2d_forward_gen e he x)) q (ksel h q) = lasts (fst (conv2d_forward_gen self h x noise)) q (ksel h q).
Proof.
  intros self h he x noise ER Hl e Ee q. unpack ER. destruct (export_gen_canon self h Kw) as [E1 _]. rewrite E1 in Ee. inversion Ee; subst e.
  rewrite conv2d_forward_gen_canon, qconv2d_forward_gen_canon.
  apply (layer_export_sound_heap smul0 smul1 add0l add0r g_pos g_incr); assumption.
Qed.

(* the generated forward of a layer node = the hand model's node functions (the definitions C02_export_sound_* are about) *)
Theorem layer_forward_is_hand_node : forall fixed shared net i nd s self h vs x0 noise propf addf,
  wired fixed shared net i self -> nth_error net i = Some nd -> is_layer nd = true -> first_src nd = Some s ->
  skind_of (l_w self) = PerLayer -> skind_of (l_out self) = PerLayer -> skind_of (l_in self) = PerLayer ->
  ready h (l_w self) -> ready h (l_out self) -> fresh h (l_in self) ->
  let hand_mps := mps_node V Q vzero vadd smul qlen qfun (run_scale self h) convf (fun _ => l_weight self) (fun _ => vnone) (fun _ _ => call_mps_b self)
                           propf addf fixed shared net (theta_star h) x0 vs i nd in
  let hand_exp := exp_node V vzero qfun (run_scale self h) convf (fun _ => l_weight self) (fun _ => vnone) (fun _ _ => call_mps_b self)
                           propf addf fixed shared net (sel_star h) x0 vs i nd in
  snd (conv2d_forward_gen self h (nth s vs vzero) noise) = hand_mps /\ snd (conv1d_forward_gen self h (nth s vs vzero) noise) = hand_mps /\
  snd (linear_forward_gen self h (nth s vs vzero) noise) = hand_mps /\ hand_mps = hand_exp.
Proof.
  intros fixed shared net i nd s self h vs x0 noise propf addf Wd E L Hs Kw Ko Ki Rw Ro Fi. cbv zeta.
  destruct (wired_distinct _ _ _ _ _ _ Wd E L) as [Dwo Dwi].
  pose proof (ready_lt _ _ Rw) as Lw. pose proof (ready_lt _ _ Ro) as Lo. pose proof (fresh_lt _ _ Fi) as Li. fold (ksel h (l_in self)) in Li.
  assert (Dn : l_in self <> l_w self) by (intro X; apply Dwi; auto).
  change (conv2d_forward_gen self h (nth s vs vzero) noise) with (mps_forward_canon self h (nth s vs vzero) noise).
  change (conv1d_forward_gen self h (nth s vs vzero) noise) with (mps_forward_canon self h (nth s vs vzero) noise).
  change (linear_forward_gen self h (nth s vs vzero) noise) with (mps_forward_canon self h (nth s vs vzero) noise).
  rewrite (mps_forward_eval smul0 smul1 add0l add0r g_pos g_incr) by assumption. cbn [snd].
  rewrite <- (mps_out_is_mps_node smul0 smul1 add0l add0r fixed shared net i nd s self h vs x0 propf addf) by assumption.
  rewrite <- (mps_out_is_exp_node fixed shared net i nd s self h vs x0 propf addf) by assumption.
  repeat split; reflexivity.
Qed.

Theorem identity_forward_export_sound : forall self h he x noise, skind_of (l_out self) = PerLayer -> ready h (l_out self) ->
  snd (identity_forward_gen self h x noise) = snd (qidentity_forward_gen (identity_export_gen self h) he x) /\
  snd (identity_forward_gen self h x noise) = snd (qidentity_forward_gen (add_export_gen self h) he x) /\
  snd (identity_forward_gen self h x noise) = qfun (l_out self) (ksel h (l_out self)) x.
Proof.
  intros self h he x noise K R. rewrite (identity_forward_eval smul0 smul1 add0l add0r g_pos g_incr) by assumption.
  destruct (identity_export_gen_canon self h) as [E1 E2]. rewrite E1, E2, !qidentity_forward_gen_canon. cbn [snd ei_out qcall].
  rewrite (sel_qobj_in_range _ _ (ready_lt _ _ R)). repeat split; reflexivity.
Qed.

(* summary() and export(): precisions reported = precisions of the quantizer objects the exported layer carries = the hand model's *)
Theorem summary_export_is_hand : forall fixed shared net i self h, wired fixed shared net i self -> skind_of (l_w self) = PerLayer ->
  (ksel h (l_w self) < qlen (l_w self))%nat -> (ksel h (l_out self) < qlen (l_out self))%nat -> (ksel h (l_in self) < qlen (l_in self))%nat ->
  let hand := summary_of (acol h) precs fixed shared net i in
  let tag := fun t : Z * Z * Z => let '(a, b, c) := t in (a, b, WOne c) in
  conv2d_summary_gen self h = tag hand /\ conv1d_summary_gen self h = tag hand /\ linear_summary_gen self h = tag hand /\
  (forall e, conv2d_export_gen self h = EOne e \/ conv1d_export_gen self h = EOne e \/ linear_export_gen self h = EOne e ->
     (e_in e, e_out e, e_w e) = export_of (acol h) fixed shared net i /\ export_precs precs (e_in e, e_out e, e_w e) = hand).
Proof.
  intros fixed shared net i self h Wd K Lw Lo Li. cbv zeta. destruct (summary_gen_canon self h) as [S1 [S2 [S3 _]]].
  rewrite S1, S2, S3, (summary_is_hand fixed shared net i self h Wd K). repeat split; try reflexivity;
    destruct (export_gen_canon self h K) as [E1 [E2 E3]]; destruct H as [H|[H|H]];
    [rewrite E1 in H|rewrite E2 in H|rewrite E3 in H|rewrite E1 in H|rewrite E2 in H|rewrite E3 in H]; inversion H; subst e;
    apply (export_is_hand _ fixed shared net i self h Wd Lw Lo Li).
Qed.
End Headline.

(* ================================================================== per-channel selectors (MPSPerChannelQtz) *)
Lemma mix_as_sum_gen (T S : Type) (tz : T) (tadd : T -> T -> T) (tmul : S -> T -> T) (d : S) (th : list S) (f : nat -> T) n : length th = n ->
  mix T S tz tadd tmul th (map f (seq 0 n)) = fold_left tadd (map (fun k => tmul (nth k th d) (f k)) (seq 0 n)) tz.
Proof.
  intros <-. unfold mix. rewrite (combine_nth_seq d f th 0). rewrite !fold_left_map.
  apply fold_left_ext. intros a k. simpl. rewrite Nat.sub_0_r. reflexivity.
Qed.

Section PerChannel.
Context {W : World}.

Definition pc_body (q : qid) (x : V) : heap * list V -> nat * qobj -> heap * list V :=
  fun st it => (set_last (fst st) (snd it) x, snd st ++ [cmul (t2_row (theta_of (fst st) q) (fst it)) (qfun (fst (snd it)) (snd (snd it)) x)]).
Lemma pc_fold q x : forall (L : list (nat * qobj)) h y,
  fold_left (pc_body q x) L (h, y) =
  (fold_left (fun h it => set_last h (snd it) x) L h,
   y ++ map (fun it => cmul (t2_row (theta_of h q) (fst it)) (qfun (fst (snd it)) (snd (snd it)) x)) L).
Proof.
  induction L as [|it r IH]; intros; simpl; [rewrite app_nil_r; reflexivity|].
  unfold pc_body at 2. simpl. rewrite IH. f_equal. rewrite <- app_assoc. reflexivity.
Qed.

Definition pc_forward_canon (q : qid) (h : heap) (x : V) (noise : qid -> list (list Q)) : heap * V :=
  let h1 := sample_alpha h q noise in
  (after_call q x h1, fold_left vadd (map (fun k => cmul (t2_row (theta_of h1 q) k) (qfun q k x)) (seq 0 (qlen q))) vzero).

(* MPSPerChannelQtz.forward: sample, then sum over the candidate precisions of (row i of theta_alpha, one entry per channel) x quantizer_i(input) *)
Theorem pc_forward_gen_eq : forall q h x noise, pc_forward_gen q h x noise = pc_forward_canon q h x noise.
Proof.
  intros q h x noise. unfold pc_forward_gen. cbv zeta.
  rewrite (fold_left_ext _ (pc_body q x)) by (intros [h' y'] [i o]; reflexivity).
  rewrite pc_fold, enumerate_qtz_funcs. unfold pc_forward_canon. cbv zeta. f_equal.
  - unfold after_call. rewrite fold_left_map. reflexivity.
  - simpl. unfold stack_sum. rewrite map_map. reflexivity.
Qed.

Theorem pc_effective_scale_gen_eq : forall q h,
  pc_effective_scale_gen q h = fold_left vadd (map (fun k => cmul (t2_row (theta_of h q) k) (hscale h q k)) (seq 0 (qlen q))) vzero.
Proof.
  intros q h. unfold pc_effective_scale_gen. cbv zeta. rewrite enumerate_qtz_funcs, !fold_left_map. apply fold_left_ext. intros a k. reflexivity.
Qed.

(* seen one output channel at a time: `chan v c` is channel c of a tensor, the operations act channel-wise *)
Variable X : Type.
Variables (zx : X) (addx : X -> X -> X) (smulx : Q -> X -> X) (chan : V -> nat -> X).
Hypothesis chan_zero : forall c, chan vzero c = zx.
Hypothesis chan_add : forall a b c, chan (vadd a b) c = addx (chan a c) (chan b c).
Hypothesis chan_cmul : forall row v c, chan (cmul row v) c = smulx (nth c row 0%Q) (chan v c).
Hypothesis smulx0 : forall v, smulx 0%Q v = zx.
Hypothesis smulx1 : forall v, smulx 1%Q v = v.
Hypothesis addx0l : forall v, addx zx v = v.
Hypothesis addx0r : forall v, addx v zx = v.
Hypothesis g_pos : forall x, (0 < gexp x)%Q.
Hypothesis g_incr : forall x y, (x < y)%Q -> (gexp x < gexp y)%Q.

Lemma chan_fold c : forall l a, chan (fold_left vadd l a) c = fold_left addx (map (fun v => chan v c) l) (chan a c).
Proof. induction l; intros; simpl; [reflexivity|]. rewrite IHl, chan_add. reflexivity. Qed.
Lemma t2_row_nth t k c : nth c (t2_row t k) 0%Q = nth k (nth c t []) 0%Q.
Proof.
  unfold t2_row. replace 0%Q with ((fun col : list Q => nth k col 0%Q) []) at 1 by (destruct k; reflexivity).
  apply (map_nth (fun col : list Q => nth k col 0%Q)).
Qed.

(* per-channel selector in a state in which a forward pass selects the arg-max of every column *)
Definition ready_pc (h : heap) (q : qid) : Prop :=
  exists s, sels h q = embed s /\ Proofs.Sampler.wf s /\ disabled s = false /\
    (training s = false \/ (hard s = true /\ gumbel s = false)) /\ Forall (fun col => length col = qlen q) (alpha s).

Theorem pc_forward_eval_chan : forall q h x noise c, ready_pc h q -> (c < length (alpha_of h q))%nat ->
  chan (snd (pc_forward_gen q h x noise)) c = chan (qfun q (Model.Sampler.argmax (nth c (alpha_of h q) [])) x) c.
Proof.
  intros q h x noise c [s [E [Hw [Hd [Hm HL]]]]] Hc. rewrite pc_forward_gen_eq. unfold pc_forward_canon. cbv zeta. cbn [snd].
  assert (S1 : theta_of (sample_alpha h q noise) q = map (fun col => Model.Sampler.onehot (length col) (Model.Sampler.argmax col)) (alpha s)).
  { unfold theta_of, sample_alpha, set_sel. simpl. rewrite qid_eqb_refl, E.
    change (mps_sample_alpha_gen gexp (embed s) (noise q)) with (mps_forward_gen gexp (embed s) (noise q)).
    rewrite (mps_forward_gen_eq gexp cur_cfg).
    destruct (selected_onehot gexp g_pos g_incr cur_cfg KMps s (noise q)) as [R _]; auto; try (left; reflexivity).
  }
  assert (A : alpha_of h q = alpha s) by (unfold alpha_of; rewrite E; destruct s; reflexivity).
  rewrite A in *. set (col := nth c (alpha s) []).
  assert (Hin : In col (alpha s)) by (apply nth_In; exact Hc).
  assert (Hn : length col = qlen q) by (rewrite Forall_forall in HL; apply HL; exact Hin).
  assert (Hne : col <> []) by (destruct Hw as [_ Hcol]; rewrite Forall_forall in Hcol; destruct (Hcol col Hin); assumption).
  rewrite chan_fold, chan_zero, map_map.
  rewrite (map_ext _ (fun k => smulx (nth k (Model.Sampler.onehot (qlen q) (Model.Sampler.argmax col)) 0%Q) (chan (qfun q k x) c))).
  2:{ intro k. rewrite chan_cmul, t2_row_nth, S1. f_equal.
      replace (@nil Q) with ((fun col0 => Model.Sampler.onehot (length col0) (Model.Sampler.argmax col0)) []) at 1 by reflexivity.
      rewrite (map_nth (fun col0 => Model.Sampler.onehot (length col0) (Model.Sampler.argmax col0))). fold col. rewrite Hn. reflexivity. }
  rewrite <- (mix_as_sum_gen X Q zx addx smulx 0%Q _ (fun k => chan (qfun q k x) c)) by apply onehot_length.
  rewrite <- onehot_agree. apply (mix_onehot_map X Q 0%Q 1%Q zx addx smulx smulx0 smulx1 addx0l addx0r (fun k => chan (qfun q k x) c)).
  rewrite <- Hn. apply Proofs.Sampler.argmax_lt. exact Hne.
Qed.
End PerChannel.

(* ================================================================== export(), per-channel weight search: one exported layer per precision group *)
(* dict(zip(keys, values)): insertion-ordered, one entry per distinct key *)
Lemma dict_set_keys d k v k' : In k' (map fst (dict_set d k v)) <-> k' = k \/ In k' (map fst d).
Proof.
  induction d as [|[a b] r IH]; simpl; [intuition|].
  destruct (Z.eqb_spec a k); simpl.
  - subst. intuition.
  - rewrite IH. intuition.
Qed.
Lemma dict_set_nodup d k v : NoDup (map fst d) -> NoDup (map fst (dict_set d k v)).
Proof.
  induction d as [|[a b] r IH]; simpl; intro H.
  - constructor; [intros []|constructor].
  - inversion H; subst. destruct (Z.eqb_spec a k); simpl.
    + constructor; assumption.
    + constructor; [|apply IH; assumption]. rewrite dict_set_keys. intros [E|E]; [congruence|contradiction].
Qed.
Lemma dict_set_in d k v k' v' : NoDup (map fst d) ->
  (In (k', v') (dict_set d k v) <-> (k' = k /\ v' = v) \/ (k' <> k /\ In (k', v') d)).
Proof.
  induction d as [|[a b] r IH]; simpl; intro H.
  - split; [intros [E|[]]; inversion E; auto|intros [[-> ->]|[_ []]]; auto].
  - inversion H; subst. destruct (Z.eqb_spec a k); simpl.
    + subst a. split.
      * intros [E|E]; [inversion E; auto|]. right. split; [|auto]. intros ->. apply H2. apply (in_map fst) in E. exact E.
      * intros [[-> ->]|[N [E|E]]]; auto. inversion E; subst. contradiction.
    + rewrite (IH H3). split.
      * intros [E|[E|[N E]]]; [inversion E; subst; right; split; auto| auto | right; split; auto].
      * intros [E|[N [E|E]]]; auto.
Qed.

Lemma map_fst_combine' {A B} : forall (l : list A) (m : list B), length l = length m -> map fst (combine l m) = l.
Proof. induction l; intros [|b m] H; simpl in *; try discriminate; [reflexivity|]. f_equal. apply IHl. lia. Qed.

Section Dict.
Variables (ks : list Z) (vs : list qobj).
Let dfold (l : list (Z * qobj)) (d : list (Z * qobj)) := fold_left (fun d kv => dict_set d (fst kv) (snd kv)) l d.

Lemma dfold_nodup : forall l d, NoDup (map fst d) -> NoDup (map fst (dfold l d)).
Proof. induction l as [|[k v] r IH]; intros d H; simpl; [exact H|]. apply IH. apply dict_set_nodup. exact H. Qed.
Lemma dfold_keys : forall l d k, In k (map fst (dfold l d)) <-> In k (map fst l) \/ In k (map fst d).
Proof.
  induction l as [|[a b] r IH]; intros d k; simpl; [intuition|]. rewrite IH, dict_set_keys. simpl. intuition.
Qed.
(* a value stored under a key was zipped with that key *)
Lemma dfold_in : forall l d k v, NoDup (map fst d) -> In (k, v) (dfold l d) -> In (k, v) l \/ In (k, v) d.
Proof.
  induction l as [|[a b] r IH]; intros d k v H E; simpl in *; [auto|].
  destruct (IH _ _ _ (dict_set_nodup d a b H) E) as [I|I]; [auto|].
  apply (dict_set_in d a b k v H) in I. destruct I as [[-> ->]|[_ I]]; auto.
Qed.
Lemma dict_zip_nodup : NoDup (map fst (dict_zip ks vs)).
Proof. apply dfold_nodup. constructor. Qed.
Lemma dict_zip_in k v : In (k, v) (dict_zip ks vs) -> In (k, v) (combine ks vs).
Proof. intro H. destruct (dfold_in (combine ks vs) [] k v (NoDup_nil _) H) as [I|[]]. exact I. Qed.
Lemma dict_zip_has k : length ks = length vs -> In k ks -> exists v, In (k, v) (dict_zip ks vs).
Proof.
  intros L H. assert (K : In k (map fst (dict_zip ks vs))).
  { apply dfold_keys. left. rewrite map_fst_combine'; auto. }
  apply in_map_iff in K. destruct K as [[k' v] [E I]]. simpl in E. subst. exists v. exact I.
Qed.
End Dict.

Lemma fold_skip_append {A B} (skip : A -> bool) (f : A -> B) : forall d l0,
  fold_left (fun l e => if skip e then l else l ++ [f e]) d l0 = l0 ++ map f (filter (fun e => negb (skip e)) d).
Proof.
  induction d as [|e r IH]; intros; simpl; [rewrite app_nil_r; reflexivity|]. rewrite IH. destruct (skip e); simpl; [reflexivity|].
  rewrite <- app_assoc. reflexivity.
Qed.
Lemma combine_map_in {A B C} (f : A -> B) (g : A -> C) : forall l b c, In (b, c) (combine (map f l) (map g l)) -> exists x, In x l /\ b = f x /\ c = g x.
Proof.
  induction l as [|a r IH]; simpl; intros b c H; [contradiction|]. destruct H as [E|H].
  - inversion E; subst. exists a. auto.
  - destruct (IH _ _ H) as [x [I [E1 E2]]]. exists x. auto.
Qed.
Lemma count_true_pos l : In true l -> count_true l <> 0%nat.
Proof. unfold count_true. induction l as [|[|] r IH]; simpl; intros H; [contradiction|discriminate|]. destruct H as [E|H]; [discriminate|auto]. Qed.
Lemma znth_inj (l : list Z) i j : NoDup l -> (i < length l)%nat -> (j < length l)%nat -> (Z.eqb (znth l i) (znth l j) = Nat.eqb i j).
Proof.
  intros N Hi Hj. unfold znth. destruct (Nat.eqb_spec i j) as [->|E]; [apply Z.eqb_refl|].
  apply Z.eqb_neq. intro X. apply E. apply (proj1 (NoDup_nth l (-1)%Z) N); assumption.
Qed.

Section Groups.
Context {W : World}.

(* the exported layer of the channels that selected precision `prec`: sliced weights / bias, quantizer wq *)
Definition pc_group (c : lcls) (self : mlayer) (h : heap) (P : list Z) (prec : Z) (wq : qobj) : qlayer :=
  let mask := map (fun p => Z.eqb p prec) P in
  mkE (l_id self) c (sel_qobj_canon h (l_in self)) (sel_qobj_canon h (l_out self)) wq (if has_bias self then Some (l_id self) else None)
      (vsel mask (l_weight self)) (option_map (vsel mask) (l_bias self)) (Some mask).
Definition pc_sel (self : mlayer) (h : heap) : list nat := targmax0 (alpha_of h (l_w self)).       (* arg-max of every channel *)
Definition pc_groups (c : lcls) (self : mlayer) (h : heap) : list qlayer :=
  let P := map (znth (precs (l_w self))) (pc_sel self h) in let Qs := map (qnth (qtz_funcs (l_w self))) (pc_sel self h) in
  map (fun e => pc_group c self h P (fst e) (snd e))
      (filter (fun e => negb (Nat.eqb (count_true (map (fun p => Z.eqb p (fst e)) P)) 0)) (dict_zip P Qs)).

Theorem export_gen_per_channel : forall self h, skind_of (l_w self) = PerChannel ->
  conv2d_export_gen self h = EList (pc_groups CConv2d self h) /\ conv1d_export_gen self h = EList (pc_groups CConv1d self h) /\
  linear_export_gen self h = EList (pc_groups CLinear self h).
Proof.
  intros self h K. unfold conv2d_export_gen, conv1d_export_gen, linear_export_gen. rewrite K. cbv zeta.
  destruct (conv2d_selected_gen_canon self h) as [_ [_ [A3 [A4 [A5 A6]]]]]. destruct (conv1d_selected_gen_canon self h) as [_ [_ [B3 [B4 [B5 B6]]]]].
  destruct (linear_selected_gen_canon self h) as [_ [_ [C3 [C4 [C5 C6]]]]].
  rewrite ?A3, ?A4, ?A5, ?A6, ?B3, ?B4, ?B5, ?B6, ?C3, ?C4, ?C5, ?C6. unfold sel_wprec_canon, sel_wqobj_canon. rewrite K. cbn [wmany].
  unfold pc_groups, pc_sel. cbv zeta.
  Ltac pc_case self h c :=
    (etransitivity; [apply (fold_left_ext _ (fun l e => if Nat.eqb (count_true (map (fun p => Z.eqb p (fst e)) (map (znth (precs (l_w self))) (targmax0 (alpha_of h (l_w self)))))) 0 then l
                                                       else l ++ [pc_group c self h (map (znth (precs (l_w self))) (targmax0 (alpha_of h (l_w self)))) (fst e) (snd e)]))|
                    rewrite fold_skip_append; reflexivity]);
    intros l [prec wq]; cbn [fst snd]; cbv zeta;
    rewrite ?(map_ext (fun c0 : Z => Z.eqb prec c0) (fun c0 : Z => Z.eqb c0 prec) (fun c0 : Z => Z.eqb_sym prec c0));
    destruct (Nat.eqb _ 0); [reflexivity|]; f_equal; f_equal;
    unfold pc_group, qconv2d_init_gen, qconv1d_init_gen, qlinear_init_gen, slice_layer, new_qlayer, set_e_in, set_e_out, set_e_w, set_e_b, has_bias, qhas_bias, bq_func;
    cbv zeta; cbn [e_id e_cls e_in e_out e_w e_b e_weight e_bias e_mask l_id l_in l_out l_w l_weight l_bias l_mask];
    destruct (l_bias self); reflexivity.
  split; [|split]; f_equal; [pc_case self h CConv2d|pc_case self h CConv1d|pc_case self h CLinear].
Qed.

(* every channel ends up in exactly the group of its own arg-max precision, which carries that precision's quantizer object *)
Theorem pc_groups_spec : forall c self h, NoDup (precs (l_w self)) -> Forall (fun k => (k < qlen (l_w self))%nat) (pc_sel self h) ->
  forall ch, (ch < length (pc_sel self h))%nat ->
  let kc := nth ch (pc_sel self h) 0%nat in
  (exists g, In g (pc_groups c self h) /\ e_w g = (l_w self, kc) /\ e_mask g = Some (map (fun k => Nat.eqb k kc) (pc_sel self h)) /\
             e_in g = sel_qobj_canon h (l_in self) /\ e_out g = sel_qobj_canon h (l_out self)) /\
  (forall g m, In g (pc_groups c self h) -> e_mask g = Some m -> nth ch m false = true -> e_w g = (l_w self, kc)).
Proof.
  intros c self h ND HR ch Hch. cbv zeta. set (ksl := pc_sel self h) in *. set (kc := nth ch ksl 0%nat).
  set (P := map (znth (precs (l_w self))) ksl). set (Qs := map (qnth (qtz_funcs (l_w self))) ksl).
  assert (Hkc : (kc < qlen (l_w self))%nat) by (rewrite Forall_forall in HR; apply HR; apply nth_In; exact Hch).
  assert (Hmask : forall k', (k' < qlen (l_w self))%nat ->
            map (fun p => Z.eqb p (znth (precs (l_w self)) k')) P = map (fun k => Nat.eqb k k') ksl).
  { intros k' Hk'. unfold P. rewrite map_map. apply map_ext_in. intros k Hk. rewrite Forall_forall in HR. apply znth_inj; auto; try (apply HR; exact Hk). }
  assert (Hval : forall prec v, In (prec, v) (dict_zip P Qs) -> exists k', (k' < qlen (l_w self))%nat /\ prec = znth (precs (l_w self)) k' /\ v = (l_w self, k')).
  { intros prec v I. apply dict_zip_in in I. destruct (combine_map_in _ _ _ _ _ I) as [k' [Ik [E1 E2]]].
    rewrite Forall_forall in HR. pose proof (HR _ Ik) as Hk'. exists k'. repeat split; auto.
    subst v. unfold qnth, qtz_funcs. fold (qlen (l_w self)).
    rewrite (nth_indep _ (QDummy, 0%nat) ((fun k => (l_w self, k)) 0%nat)) by (rewrite map_length, seq_length; exact Hk').
    rewrite map_nth, seq_nth by exact Hk'. reflexivity. }
  split.
  - assert (Hp : In (znth (precs (l_w self)) kc) P) by (unfold P; apply in_map; apply nth_In; exact Hch).
    destruct (dict_zip_has P Qs _ ltac:(unfold P, Qs; rewrite !map_length; reflexivity) Hp) as [v Iv].
    destruct (Hval _ _ Iv) as [k' [Hk' [Ep Ev]]].
    assert (k' = kc).
    { apply Nat.eqb_eq. rewrite <- (znth_inj (precs (l_w self)) k' kc ND Hk' Hkc). apply Z.eqb_eq. auto. }
    subst k'. exists (pc_group c self h P (znth (precs (l_w self)) kc) v). split; [|split; [|split; [|split]]].
    + unfold pc_groups. cbv zeta. fold ksl P Qs. apply (in_map (fun e => pc_group c self h P (fst e) (snd e)) _ (znth (precs (l_w self)) kc, v)).
      apply filter_In. split; [exact Iv|]. cbn [fst]. rewrite (Hmask kc Hkc).
      destruct (Nat.eqb_spec (count_true (map (fun k => Nat.eqb k kc) ksl)) 0) as [E|E]; [|reflexivity].
      exfalso. revert E. apply count_true_pos. apply in_map_iff. exists kc. split; [apply Nat.eqb_refl|apply nth_In; exact Hch].
    + exact Ev.
    + unfold pc_group. cbn [e_mask]. rewrite (Hmask kc Hkc). reflexivity.
    + reflexivity.
    + reflexivity.
  - intros g m Ig Em Hm. unfold pc_groups in Ig. cbv zeta in Ig. fold ksl P Qs in Ig. apply in_map_iff in Ig. destruct Ig as [[prec v] [Eg If]].
    apply filter_In in If. destruct If as [Iv _]. destruct (Hval _ _ Iv) as [k' [Hk' [Ep Ev]]]. subst g. cbn [fst snd pc_group e_mask e_w] in *.
    inversion Em; subst m. clear Em. subst prec. rewrite (Hmask k' Hk') in Hm.
    rewrite (nth_indep _ false (Nat.eqb 0 k')) in Hm by (rewrite map_length; exact Hch).
    rewrite (map_nth (fun k => Nat.eqb k k') ksl 0%nat ch) in Hm. apply Nat.eqb_eq in Hm. fold kc in Hm. subst v. rewrite Hm. reflexivity.
Qed.
Theorem per_channel_export_groups : forall self h, skind_of (l_w self) = PerChannel ->
  (conv2d_export_gen self h = EList (pc_groups CConv2d self h) /\ conv1d_export_gen self h = EList (pc_groups CConv1d self h) /\
   linear_export_gen self h = EList (pc_groups CLinear self h)) /\
  forall c : lcls, NoDup (precs (l_w self)) -> Forall (fun k : nat => (k < qlen (l_w self))%nat) (pc_sel self h) ->
  forall ch : nat, (ch < length (pc_sel self h))%nat ->
  let kc := nth ch (pc_sel self h) 0%nat in
  (exists g : qlayer, In g (pc_groups c self h) /\ e_w g = (l_w self, kc) /\
      e_mask g = Some (map (fun k : nat => Nat.eqb k kc) (pc_sel self h)) /\
      e_in g = sel_qobj_canon h (l_in self) /\ e_out g = sel_qobj_canon h (l_out self)) /\
  (forall (g : qlayer) (m : list bool), In g (pc_groups c self h) -> e_mask g = Some m -> nth ch m false = true -> e_w g = (l_w self, kc)).
Proof. intros self h K. split; [exact (export_gen_per_channel self h K)|]. intro c. exact (pc_groups_spec c self h). Qed.
End Groups.

(* ================================================================== one tensor element at a time, with the GENERATED quantizers of C13
   (Gen/QuantGen.v: aq_gen / aq_scale_gen = PACTAct, wq_gen / wq_scale_gen = MinMaxWeight, bq_gen = QuantizerBias) plugged into the
   generated layers: tensors are rationals, coefficient * tensor is Qmult, the layer operation is one multiply-accumulate
   x * w + b.  Equalities are Qeq: 1 * v == v and 0 * v == 0 hold in Q (not syntactically), as they do for finite floats. *)
Require Import Plinio.Base.Round Plinio.Model.Quant Plinio.Gen.QuantGen Plinio.Proofs.QuantGen.
From Coq Require Import Qround Lqa.
Local Open Scope Q_scope.

Lemma fold_left_qsum {A} (gf : A -> Q) : forall l a, fold_left (fun acc p => acc + gf p) l a == a + qsum (map gf l).
Proof. induction l as [|x r IH]; intros; simpl; [rewrite Qplus_0_r; reflexivity|]. rewrite IH, Qplus_assoc. reflexivity. Qed.
Lemma qmix_onehot n k (f : nat -> Q) : (k < n)%nat ->
  mix Q Q 0 Qplus Qmult (Model.Sampler.onehot n k) (map f (seq 0 n)) == f k.
Proof.
  intro H. unfold mix. rewrite (fold_left_qsum (fun tf : Q * Q => fst tf * snd tf)). fold (dot (Model.Sampler.onehot n k) (map f (seq 0 n))).
  rewrite Proofs.Sampler.onehot_mix by (rewrite map_length, seq_length; reflexivity).
  rewrite (nth_indep _ 0 (f 0%nat)) by (rewrite map_length, seq_length; exact H). rewrite map_nth, seq_nth by exact H. rewrite Qplus_0_l. reflexivity.
Qed.

(* Qeq-compatibility of the generated quantizers in the argument that a mixture feeds them *)
Lemma qle_bool_compat a a' b b' : a == a' -> b == b' -> Qle_bool a b = Qle_bool a' b'.
Proof.
  intros Ha Hb. destruct (Qle_bool a b) eqn:E, (Qle_bool a' b') eqn:E'; try reflexivity.
  - apply Qle_bool_iff in E. rewrite Ha, Hb in E. apply Qle_bool_iff in E. congruence.
  - apply Qle_bool_iff in E'. rewrite <- Ha, <- Hb in E'. apply Qle_bool_iff in E'. congruence.
Qed.
Lemma qmin_compat a a' b b' : a == a' -> b == b' -> qmin a b == qmin a' b'.
Proof. intros Ha Hb. unfold qmin. rewrite (qle_bool_compat a a' b b' Ha Hb). destruct (Qle_bool a' b'); assumption. Qed.
Lemma qmax_compat a a' b b' : a == a' -> b == b' -> qmax a b == qmax a' b'.
Proof. intros Ha Hb. unfold qmax. rewrite (qle_bool_compat a a' b b' Ha Hb). destruct (Qle_bool a' b'); assumption. Qed.
Lemma qabs_compat a a' : a == a' -> qabs a == qabs a'.
Proof. intros Ha. unfold qabs. rewrite (qle_bool_compat 0 0 a a' (Qeq_refl 0) Ha). destruct (Qle_bool 0 a'); rewrite Ha; reflexivity. Qed.
Lemma rne_compat a a' : a == a' -> rne a = rne a'.
Proof. intro H. apply Z.le_antisymm; apply rne_mono; rewrite H; apply Qle_refl. Qed.

Lemma aq_gen_compat p clip x x' d : x == x' -> aq_gen p clip x d == aq_gen p clip x' d.
Proof.
  intro H. unfold aq_gen. cbv zeta.
  assert (E : Qfloor ((inject_Z (2 ^ Z.of_nat p) - 1) / (clip + (1 # 1000)) * qmin (qmax x 0) clip) =
              Qfloor ((inject_Z (2 ^ Z.of_nat p) - 1) / (clip + (1 # 1000)) * qmin (qmax x' 0) clip)).
  { apply Qfloor_comp. rewrite (qmin_compat _ _ _ _ (qmax_compat _ _ _ _ H (Qeq_refl 0)) (Qeq_refl clip)). reflexivity. }
  rewrite E. reflexivity.
Qed.
Lemma bq_gen_compat sb sb' b d : sb == sb' -> bq_gen sb b d == bq_gen sb' b d.
Proof.
  intro H. unfold bq_gen. cbv zeta. rewrite (qle_bool_compat _ _ _ _ (qabs_compat _ _ H) (Qeq_refl (1 # 100000000))).
  destruct (Qle_bool (qabs sb') (1 # 100000000)).
  - destruct d; [rewrite H|]; reflexivity.
  - rewrite (rne_compat (b / sb) (b / sb')) by (rewrite H; reflexivity). destruct d; [rewrite H|]; reflexivity.
Qed.

Section Raw.
Context {W : World}.
Hypothesis g_pos : forall x, 0 < gexp x.
Hypothesis g_incr : forall x y, x < y -> gexp x < gexp y.

Definition oh (h : heap) (q : qid) : list Q := Model.Sampler.onehot (qlen q) (ksel h q).

(* eval / hard mode, before any algebra on the tensors: every mixture is taken with the one-hot coefficients at the arg-max *)
Theorem mps_forward_raw : forall self h x noise,
  skind_of (l_w self) = PerLayer -> skind_of (l_out self) = PerLayer -> skind_of (l_in self) = PerLayer ->
  l_w self <> l_out self -> l_w self <> l_in self ->
  ready h (l_w self) -> ready h (l_out self) -> fresh h (l_in self) ->
  let qi := l_in self in let qo := l_out self in let qw := l_w self in
  let hw := after_call qw (l_weight self) (sample_alpha h qw noise) in
  snd (mps_forward_canon self h x noise) =
  hmix (oh h qo) (cands qo (convf (l_id self) x (hmix (oh h qw) (cands qw (l_weight self)))
                                  (call_mps_b self (hmix (oh h qi) (scales hw qi)) (hmix (oh h qw) (scales hw qw))))).
Proof.
  intros self h x noise Kw Ko Ki Dwo Dwi Rw Ro Fi. cbv zeta. unfold mps_forward_canon.
  destruct (sample_ready g_pos g_incr h (l_w self) noise Rw) as [Rw1 [Fw1 _]].
  set (h1 := sample_alpha h (l_w self) noise) in *. set (hw := after_call (l_w self) (l_weight self) h1).
  assert (Fiw : fresh hw (l_in self)) by (apply fresh_after_call; apply fresh_other; [intro E; apply Dwi; auto|exact Fi]).
  assert (Fww : fresh hw (l_w self)) by (apply fresh_after_call; exact Fw1).
  assert (Row : ready hw (l_out self)) by (apply ready_after_call; apply ready_other; [intro E; apply Dwo; auto|exact Ro]).
  destruct (sample_ready g_pos g_incr hw (l_out self) noise Row) as [_ [Fo2 _]].
  assert (T : forall hh q, fresh hh q -> th1 hh q = Model.Sampler.onehot (qlen q) (ksel hh q)).
  { intros hh q [_ [L E]]. rewrite E, L. reflexivity. }
  assert (KK : forall q, ksel hw q = ksel h q) by (intro q; unfold ksel, hw, h1; rewrite acol_after_call, acol_sample; reflexivity).
  rewrite (sel_call_pl _ _ _ _ Kw (fresh_len _ _ Fw1)). unfold pl_forward_canon at 1. cbv zeta. fold h1 hw.
  rewrite (effective_scale_pl _ _ Ki (fresh_len _ _ Fiw)), (effective_scale_pl _ _ Kw (fresh_len _ _ Fww)).
  rewrite (sel_call_pl _ _ _ _ Ko (fresh_len _ _ Fo2)). unfold pl_forward_canon. cbv zeta. cbn [snd].
  rewrite (T _ _ Fo2), (T _ _ Fiw), (T _ _ Fww), (T _ _ Fw1). unfold oh.
  assert (K1 : ksel h1 (l_w self) = ksel h (l_w self)) by (unfold ksel, h1; rewrite acol_sample; reflexivity).
  assert (K2 : ksel (sample_alpha hw (l_out self) noise) (l_out self) = ksel h (l_out self)) by (unfold ksel; rewrite acol_sample; apply KK).
  rewrite K1, K2, !KK. reflexivity.
Qed.
End Raw.

Section Elem.
Variable gx : Q -> Q.
Hypothesis gx_pos : forall x, 0 < gx x.
Hypothesis gx_incr : forall x y, x < y -> gx x < gx y.
Variables (pa pw : list nat).            (* candidate precisions: activations / weights *)
Variable clipv : qid -> nat -> Q.        (* the PACT clip value of candidate k of activation selector q *)
Variable m : Q.                          (* max |w| over the weight's channel: MinMaxWeight's symmetric range (- m, m) *)

Definition is_w (q : qid) : bool := match q with QW _ | QWown _ => true | _ => false end.
Definition elem_world : World :=
  mkWorld Q 0 0 Qplus Qmult (fun row v => nth 0%nat row 0 * v) (fun l => hd 0 l) (fun _ v => v) gx (fun _ => PerLayer)
          (fun q => map Z.of_nat (if is_w q then pw else pa))
          (fun q k x => if is_w q then wq_gen (nth k pw 0%nat) (- m) m x true else aq_gen (nth k pa 0%nat) (clipv q k) x true)
          (fun q k _ => if is_w q then wq_scale_gen (nth k pw 0%nat) (- m) m else aq_scale_gen (nth k pa 0%nat) (clipv q k))
          (fun _ x w b => x * w + b)
          (fun _ b sa sw => bq_gen (sa * sw) b true).
Local Instance EW : World := elem_world.

Lemma elem_mix_onehot (h : heap) (q : qid) (f : nat -> Q) : (ksel h q < qlen q)%nat -> hmix (oh h q) (map f (seq 0 (qlen q))) == f (ksel h q).
Proof. intro H. unfold hmix, oh. apply (qmix_onehot (qlen q) (ksel h q) f H). Qed.

(* a selector of generated PACT / min-max quantizers in eval / hard mode: the fake-quantized value of the selected one *)
Theorem elem_selector_eval : forall q h x noise, ready h q ->
  snd (sel_call q h x noise) == qfun q (ksel h q) x.
Proof.
  intros q h x noise R. destruct (sample_ready (W := EW) gx_pos gx_incr h q noise R) as [_ [F1 _]].
  rewrite (sel_call_pl (W := EW) q h x noise eq_refl (fresh_len _ _ F1)). unfold pl_forward_canon. cbv zeta. cbn [snd].
  pose proof (fresh_lt _ _ F1) as Hlt. destruct F1 as [_ [L E]]. rewrite E, L.
  assert (K : Model.Sampler.argmax (acol (sample_alpha h q noise) q) = ksel h q) by (unfold ksel; rewrite acol_sample; reflexivity).
  rewrite K in *. apply (qmix_onehot (qlen q) (ksel h q) (fun k => qfun q k x) Hlt).
Qed.

(* one output element of a searchable layer (activation selectors with PACT, weight selector with min-max quantizers, bias
   quantized with the product of the two effective scales) = the element the exported layer computes with the selected
   generated quantizers and s_a * s_w *)
Theorem elem_layer_export_sound : forall self h he x noise b,
  is_w (l_w self) = true -> is_w (l_out self) = false -> is_w (l_in self) = false -> l_bias self = Some b ->
  ready h (l_w self) -> ready h (l_out self) -> fresh h (l_in self) ->
  let ki := ksel h (l_in self) in let ko := ksel h (l_out self) in let kw := ksel h (l_w self) in
  let wgt := wq_gen (nth kw pw 0%nat) (- m) m (l_weight self) true in
  let s_a := aq_scale_gen (nth ki pa 0%nat) (clipv (l_in self) ki) in
  let s_w := wq_scale_gen (nth kw pw 0%nat) (- m) m in
  snd (conv2d_forward_gen self h x noise) == aq_gen (nth ko pa 0%nat) (clipv (l_out self) ko) (x * wgt + bq_gen (s_a * s_w) b true) true /\
  (forall e, conv2d_export_gen self h = EOne e ->
     snd (qconv2d_forward_gen e he x) = aq_gen (nth ko pa 0%nat) (clipv (l_out self) ko) (x * wgt + bq_gen (s_a * s_w) b true) true).
Proof.
  intros self h he x noise b Ww Wo Wi Hb Rw Ro Fi. cbv zeta.
  assert (Dwo : l_w self <> l_out self) by (intro E; rewrite E in Ww; congruence).
  assert (Dwi : l_w self <> l_in self) by (intro E; rewrite E in Ww; congruence).
  pose proof (ready_lt _ _ Rw) as Lw. pose proof (ready_lt _ _ Ro) as Lo. pose proof (fresh_lt _ _ Fi) as Li. fold (ksel h (l_in self)) in Li.
  split.
  - change (conv2d_forward_gen self h x noise) with (mps_forward_canon self h x noise).
    rewrite (mps_forward_raw (W := EW) gx_pos gx_incr self h x noise eq_refl eq_refl eq_refl Dwo Dwi Rw Ro Fi). cbv zeta.
    unfold cands at 1. rewrite (elem_mix_onehot h (l_out self) _ Lo).
    change (qfun (l_out self) (ksel h (l_out self))) with (fun y => if is_w (l_out self) then wq_gen (nth (ksel h (l_out self)) pw 0%nat) (- m) m y true
                                                                    else aq_gen (nth (ksel h (l_out self)) pa 0%nat) (clipv (l_out self) (ksel h (l_out self))) y true).
    cbv beta. rewrite Wo. apply aq_gen_compat.
    change (convf (l_id self)) with (fun (a w b0 : Q) => a * w + b0). cbv beta.
    unfold cands. rewrite (elem_mix_onehot h (l_w self) _ Lw).
    unfold call_mps_b. rewrite Hb. rewrite mps_bias_forward_gen_canon.
    change (biasq (l_id self) b) with (fun sa sw : Q => bq_gen (sa * sw) b true). cbv beta.
    unfold scales. rewrite (bq_gen_compat _ _ b true (Qmult_comp _ _ (elem_mix_onehot h (l_in self) _ Li) _ _ (elem_mix_onehot h (l_w self) _ Lw))).
    unfold hscale.
    change (qscale (l_in self) (ksel h (l_in self))) with (fun _ : option Q => if is_w (l_in self) then wq_scale_gen (nth (ksel h (l_in self)) pw 0%nat) (- m) m
                                                                               else aq_scale_gen (nth (ksel h (l_in self)) pa 0%nat) (clipv (l_in self) (ksel h (l_in self)))).
    change (qscale (l_w self) (ksel h (l_w self))) with (fun _ : option Q => if is_w (l_w self) then wq_scale_gen (nth (ksel h (l_w self)) pw 0%nat) (- m) m
                                                                             else aq_scale_gen (nth (ksel h (l_w self)) pa 0%nat) (clipv (l_w self) (ksel h (l_w self)))).
    change (qfun (l_w self) (ksel h (l_w self))) with (fun y => if is_w (l_w self) then wq_gen (nth (ksel h (l_w self)) pw 0%nat) (- m) m y true
                                                                else aq_gen (nth (ksel h (l_w self)) pa 0%nat) (clipv (l_w self) (ksel h (l_w self))) y true).
    cbv beta. rewrite Ww, Wi. reflexivity.
  - intros e Ee. destruct (export_gen_canon (W := EW) self h eq_refl) as [E1 _]. rewrite E1 in Ee. inversion Ee; subst e. clear Ee.
    change (qconv2d_forward_gen (exported_canon CConv2d self h) he x) with (q_forward_canon (exported_canon CConv2d self h) he x).
    rewrite q_forward_canon_val. cbv zeta. cbn [snd]. unfold exported_canon. cbn [e_id e_in e_out e_w e_weight].
    rewrite (sel_qobj_in_range _ _ Lw), (sel_qobj_in_range _ _ Lo), (sel_qobj_in_range _ _ Li). cbn [fst snd].
    unfold call_q_b, has_bias, qscale_of. cbn [e_bias e_b fst snd]. rewrite Hb.
    cbn [qfun qscale convf biasq EW elem_world]. rewrite Ww, Wo, Wi. reflexivity.
Qed.
End Elem.
