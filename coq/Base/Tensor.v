(* Vectors and matrices over Q as lists: the vocabulary of the models GENERATED from tensor code (C08: the PIT maskers,
   translator/masks2coq.py) and its index lemmas, for every size.  A matrix is the list of its rows.
   `tab r c f` (the r x c matrix with entries f i j) is the normal form every constructor is rewritten to:
   ones2 / triu / transpose / flipud / the row-appending loop of a `tab` is a `tab`. *)
From Coq Require Import QArith ZArith List Bool Arith Lia Lqa.
Import ListNotations.
Require Import Plinio.Base.Qx.
Local Open Scope nat_scope.

Definition vec := list Q.
Definition mat := list (list Q).

(* ---------------------------------------------------------------- vocabulary *)
Definition tsum (l : vec) : Q := fold_right Qplus 0%Q l.                       (* torch.sum of a 1-D tensor *)
Definition b2q (b : bool) : Q := if b then 1%Q else 0%Q.
Definition q2b (x : Q) : bool := negb (Qeq_bool x 0).                          (* .bool() *)
Definition vmap2 (f : Q -> Q -> Q) (a b : vec) : vec := map (fun p => f (fst p) (snd p)) (combine a b).   (* element-wise a (op) b *)
Definition same_len (a b : vec) : bool := length a =? length b.                (* definedness of an element-wise op *)
Definition vabs (v : vec) : vec := map qabs v.                                 (* torch.abs *)
Definition vflip (v : vec) : vec := rev v.                                     (* torch.flip(v, (0,)) *)
Definition ones (n : nat) : vec := repeat 1%Q n.                               (* torch.ones(n) *)
Definition ones2 (r c : nat) : mat := repeat (ones c) r.                       (* torch.ones((r, c)) *)
Definition enum {A} (l : list A) : list (nat * A) := combine (seq 0 (length l)) l.
Definition triu (m : mat) : mat :=                                             (* torch.triu: entries below the diagonal zeroed *)
  map (fun ir => map (fun jx => if fst ir <=? fst jx then snd jx else 0%Q) (enum (snd ir))) (enum m).
Definition ncols (m : mat) : nat := match m with [] => 0 | r :: _ => length r end.
Definition transpose (m : mat) : mat := map (fun j => map (fun row => nth j row 0%Q) m) (seq 0 (ncols m)).   (* torch.transpose(m, 0, 1) *)
Definition flipud (m : mat) : mat := rev m.                                    (* torch.flipud: rows reversed *)
Definition dot (a b : vec) : Q := tsum (vmap2 Qmult a b).
Definition matvec (m : mat) (v : vec) : vec := map (fun row => dot row v) m.   (* torch.matmul(2-D, 1-D) *)
Definition matvec_ok (m : mat) (v : vec) : bool := forallb (fun row => length row =? length v) m.
Definition vgt (v : vec) (t : Q) : list bool := map (fun x => qlt_bool t x) v. (* v > t *)
Definition bfloat (m : list bool) : vec := map b2q m.                          (* .float() of a bool tensor *)
Definition qint (x : Q) : Z := Z.quot (Qnum x) (Zpos (Qden x)).                (* int(x): truncation towards zero *)
(* itertools.groupby over the elements of a 1-D tensor: maximal runs of equal elements, keyed by their first element *)
Fixpoint groupby (l : vec) : list (Q * vec) :=
  match l with
  | [] => []
  | x :: t => match groupby t with
              | (k, g) :: r => if Qeq_bool x k then (x, x :: g) :: r else (x, [x]) :: (k, g) :: r
              | [] => [(x, [x])]
              end
  end.
Definition max0 (l : list nat) : nat := fold_right Nat.max 0 l.                (* max(iterable, default=0) of non-negative ints *)
Definition tab (r c : nat) (f : nat -> nat -> Q) : mat := map (fun i => map (fun j => f i j) (seq 0 c)) (seq 0 r).

(* ---------------------------------------------------------------- lists *)
Lemma nth_map_seq0 {A} (f : nat -> A) n j d : j < n -> nth j (map f (seq 0 n)) d = f j.
Proof.
  intro H. rewrite (nth_indep _ d (f 0)) by (rewrite map_length, seq_length; exact H).
  rewrite map_nth, seq_nth by exact H. reflexivity.
Qed.

Lemma combine_map_r {A B} (g : A -> B) l : combine l (map g l) = map (fun x => (x, g x)) l.
Proof. induction l as [|x l IH]; [reflexivity|]. cbn. rewrite IH. reflexivity. Qed.

Lemma map_enum_tab {A B} (h : nat * A -> B) (g : nat -> A) n : map h (enum (map g (seq 0 n))) = map (fun i => h (i, g i)) (seq 0 n).
Proof. unfold enum. rewrite map_length, seq_length, combine_map_r, map_map. reflexivity. Qed.

Lemma rev_map_seq {A} (g : nat -> A) n : rev (map g (seq 0 n)) = map (fun i => g (n - 1 - i)) (seq 0 n).
Proof.
  induction n as [|n IH]; [reflexivity|].
  rewrite seq_S at 1. rewrite map_app, rev_app_distr. cbn [map rev app plus]. rewrite IH.
  rewrite <- cons_seq, <- seq_shift. cbn [map]. rewrite map_map. f_equal.
  - f_equal. lia.
  - apply map_ext. intro i. f_equal. lia.
Qed.

Lemma fold_append {A B} (g : B -> A) l a : fold_left (fun acc i => acc ++ [g i]) l a = a ++ map g l.
Proof. revert a. induction l as [|x l IH]; intro a; cbn; [rewrite app_nil_r; reflexivity|]. rewrite IH, <- app_assoc. reflexivity. Qed.

Lemma rev_repeat {A} (x : A) n : rev (repeat x n) = repeat x n.
Proof. induction n as [|n IH]; [reflexivity|]. cbn [repeat rev]. rewrite IH. symmetry. apply repeat_cons. Qed.

Lemma repeat_map_seq {A} (x : A) n : repeat x n = map (fun _ => x) (seq 0 n).
Proof. generalize 0. induction n as [|n IH]; intro a; [reflexivity|]. cbn. f_equal. apply IH. Qed.

(* ---------------------------------------------------------------- tab: normal form of matrices *)
Lemma tab_length r c f : length (tab r c f) = r.
Proof. unfold tab. rewrite map_length, seq_length. reflexivity. Qed.

Lemma tab_row r c f i : i < r -> nth i (tab r c f) [] = map (f i) (seq 0 c).
Proof. intro H. unfold tab. rewrite (nth_map_seq0 (fun i => map (fun j => f i j) (seq 0 c))) by exact H. reflexivity. Qed.

Lemma tab_ext r c f g : (forall i j, i < r -> j < c -> f i j = g i j) -> tab r c f = tab r c g.
Proof.
  intro H. unfold tab. apply map_ext_in. intros i Hi. apply in_seq in Hi.
  apply map_ext_in. intros j Hj. apply in_seq in Hj. apply H; lia.
Qed.

Lemma ones2_tab r c : ones2 r c = tab r c (fun _ _ => 1%Q).
Proof. unfold ones2, ones, tab. rewrite (repeat_map_seq _ r). apply map_ext. intros _. apply repeat_map_seq. Qed.

Lemma triu_tab r c f : triu (tab r c f) = tab r c (fun i j => if i <=? j then f i j else 0%Q).
Proof.
  unfold triu, tab at 1. rewrite map_enum_tab. unfold tab. apply map_ext. intro i. cbn [fst snd].
  rewrite map_enum_tab. reflexivity.
Qed.

Lemma ncols_tab r c f : 1 <= r -> ncols (tab r c f) = c.
Proof. intro H. destruct r as [|r]; [lia|]. unfold tab. rewrite <- cons_seq. cbn [map ncols]. rewrite map_length, seq_length. reflexivity. Qed.

Lemma transpose_tab r c f : 1 <= r -> transpose (tab r c f) = tab c r (fun j i => f i j).
Proof.
  intro H. unfold transpose. rewrite ncols_tab by exact H. unfold tab.
  apply map_ext_in. intros j Hj. apply in_seq in Hj. rewrite map_map.
  apply map_ext. intro i. apply nth_map_seq0. lia.
Qed.

Lemma flipud_tab r c f : flipud (tab r c f) = tab r c (fun i j => f (r - 1 - i) j).
Proof. unfold flipud, tab. apply rev_map_seq. Qed.

Lemma matvec_tab r c f v : matvec (tab r c f) v = map (fun i => dot (map (f i) (seq 0 c)) v) (seq 0 r).
Proof. unfold matvec, tab. rewrite map_map. reflexivity. Qed.

Lemma matvec_ok_tab r c f v : length v = c -> matvec_ok (tab r c f) v = true.
Proof.
  intro H. unfold matvec_ok, tab. apply forallb_forall. intros row Hr. apply in_map_iff in Hr as [i [<- _]].
  rewrite map_length, seq_length, H. apply Nat.eqb_refl.
Qed.

(* the row-appending loop  `for i in range(r): m.append([f i j for j in range(c)])`  builds tab r c f *)
Lemma loop_tab r c f : fold_left (fun acc i => acc ++ [map (fun j => f i j) (seq 0 c)]) (seq 0 r) [] = tab r c f.
Proof. rewrite (fold_append (fun i => map (fun j => f i j) (seq 0 c))). reflexivity. Qed.

(* ---------------------------------------------------------------- element-wise operations: lengths and entries *)
Lemma vmap2_length f a b : length (vmap2 f a b) = Nat.min (length a) (length b).
Proof. unfold vmap2. rewrite map_length, combine_length. reflexivity. Qed.

Lemma combine_nth_lt {A B} (a : list A) (b : list B) i x y : i < length a -> i < length b -> nth i (combine a b) (x, y) = (nth i a x, nth i b y).
Proof.
  revert b i. induction a as [|u a IH]; intros [|v b] i Ha Hb; cbn in Ha, Hb; try lia.
  destruct i; [reflexivity|]. cbn. apply IH; lia.
Qed.

Lemma nth_vmap2 f a b i : i < length a -> i < length b -> nth i (vmap2 f a b) 0%Q = f (nth i a 0%Q) (nth i b 0%Q).
Proof.
  intros Ha Hb. unfold vmap2. set (h := fun p : Q * Q => f (fst p) (snd p)).
  rewrite (nth_indep _ 0%Q (h (0%Q, 0%Q))) by (rewrite map_length, combine_length; lia).
  rewrite (map_nth h), combine_nth_lt by lia. reflexivity.
Qed.

Lemma nth_mapQ (f : Q -> Q) a i : i < length a -> nth i (map f a) 0%Q = f (nth i a 0%Q).
Proof. intro H. rewrite (nth_indep _ 0%Q (f 0%Q)) by (rewrite map_length; exact H). apply map_nth. Qed.

Lemma vabs_length v : length (vabs v) = length v.
Proof. apply map_length. Qed.
Lemma vflip_length v : length (vflip v) = length v.
Proof. apply rev_length. Qed.
Lemma ones_length n : length (ones n) = n.
Proof. apply repeat_length. Qed.
Lemma matvec_length m v : length (matvec m v) = length m.
Proof. apply map_length. Qed.
Lemma vgt_length v t : length (vgt v t) = length v.
Proof. apply map_length. Qed.
Lemma bfloat_length m : length (bfloat m) = length m.
Proof. apply map_length. Qed.

(* ---------------------------------------------------------------- sums, pointwise ==, products with 0/1 rows *)
Lemma tsum_cons x l : tsum (x :: l) = (x + tsum l)%Q.
Proof. reflexivity. Qed.

Lemma tsum_Forall2 a b : Forall2 Qeq a b -> (tsum a == tsum b)%Q.
Proof. induction 1 as [|x y a b Hxy _ IH]; [reflexivity|]. rewrite !tsum_cons, Hxy, IH. reflexivity. Qed.

Lemma Forall2_Qeq_refl a : Forall2 Qeq a a.
Proof. induction a; constructor; [reflexivity|assumption]. Qed.

Lemma Forall2_Qeq_firstn n a b : Forall2 Qeq a b -> Forall2 Qeq (firstn n a) (firstn n b).
Proof. intro H. revert n. induction H as [|x y a b Hxy _ IH]; intro n; destruct n; cbn; constructor; [exact Hxy|apply IH]. Qed.

Lemma Forall2_Qeq_nth a b i : Forall2 Qeq a b -> (nth i a 0 == nth i b 0)%Q.
Proof. intro H. revert i. induction H as [|x y a b Hxy _ IH]; intro i; destruct i; cbn; try reflexivity; [exact Hxy|apply IH]. Qed.

Lemma Forall2_Qeq_length a b : Forall2 Qeq a b -> length a = length b.
Proof. induction 1; cbn; congruence. Qed.

Lemma Forall2_Qeq_of_nth a b : length a = length b -> (forall i, i < length a -> (nth i a 0 == nth i b 0)%Q) -> Forall2 Qeq a b.
Proof.
  revert b. induction a as [|x a IH]; intros [|y b] Hl H; cbn in Hl; try lia; constructor.
  - apply (H 0). cbn. lia.
  - apply IH; [lia|]. intros i Hi. apply (H (S i)). cbn. lia.
Qed.

Lemma vmap2_Forall2 f a a' b b' : (forall x x' y y', (x == x')%Q -> (y == y')%Q -> (f x y == f x' y')%Q) ->
  Forall2 Qeq a a' -> Forall2 Qeq b b' -> Forall2 Qeq (vmap2 f a b) (vmap2 f a' b').
Proof.
  intros Hf Ha. revert b b'. induction Ha as [|x x' a a' Hx _ IH]; intros b b' Hb; [constructor|].
  destruct Hb as [|y y' b b' Hy Hb]; [constructor|]. cbn. constructor; [apply Hf; assumption|apply IH; exact Hb].
Qed.

Lemma dot_Forall2_r a b b' : Forall2 Qeq b b' -> (dot a b == dot a b')%Q.
Proof.
  intro H. unfold dot. apply tsum_Forall2. apply vmap2_Forall2; [|apply Forall2_Qeq_refl|exact H].
  intros x x' y y' Hx Hy. rewrite Hx, Hy. reflexivity.
Qed.

(* a 0/1 row that is 1 exactly on the indices <= t selects the prefix of length t + 1 *)
Lemma dot_cons x a y b : dot (x :: a) (y :: b) = (x * y + dot a b)%Q.
Proof. reflexivity. Qed.
Lemma dot_nil_r a : dot a [] = 0%Q.
Proof. destruct a; reflexivity. Qed.

Lemma dot_prefix_from v a t : (dot (map (fun i => if i <=? t then 1 else 0)%Q (seq a (length v))) v == tsum (firstn (S t - a) v))%Q.
Proof.
  revert a. induction v as [|x v IH]; intro a; [rewrite dot_nil_r; destruct (S t - a); reflexivity|].
  cbn [length seq map]. rewrite dot_cons, IH.
  destruct (Nat.leb_spec a t) as [H|H].
  - replace (S t - a) with (S (S t - S a)) by lia. cbn [firstn]. rewrite tsum_cons. ring.
  - replace (S t - a) with 0 by lia. replace (S t - S a) with 0 by lia. cbn [firstn tsum fold_right]. ring.
Qed.

Lemma dot_prefix v n t : length v = n -> (dot (map (fun i => if i <=? t then 1 else 0)%Q (seq 0 n)) v == tsum (firstn (S t) v))%Q.
Proof. intros <-. rewrite dot_prefix_from. rewrite Nat.sub_0_r. reflexivity. Qed.

(* a row given by a function of the index, against any vector of the same length *)
Lemma dot_tab_from (g : nat -> Q) v a :
  (dot (map g (seq a (length v))) v == tsum (map (fun i => g i * nth (i - a) v 0) (seq a (length v))))%Q.
Proof.
  revert a. induction v as [|x v IH]; intro a; [reflexivity|].
  cbn [length seq map]. rewrite dot_cons, !tsum_cons, IH.
  replace (a - a) with 0 by lia. cbn [nth].
  assert (E : map (fun i => (g i * nth (i - S a) v 0)%Q) (seq (S a) (length v)) = map (fun i => (g i * nth (i - a) (x :: v) 0)%Q) (seq (S a) (length v))).
  { apply map_ext_in. intros i Hi. apply in_seq in Hi. replace (i - a) with (S (i - S a)) by lia. reflexivity. }
  rewrite E. reflexivity.
Qed.

Lemma dot_tab (g : nat -> Q) v n : length v = n -> (dot (map g (seq 0 n)) v == tsum (map (fun i => g i * nth i v 0) (seq 0 n)))%Q.
Proof.
  intros <-. rewrite dot_tab_from. apply tsum_Forall2.
  assert (E : map (fun i => (g i * nth (i - 0) v 0)%Q) (seq 0 (length v)) = map (fun i => (g i * nth i v 0)%Q) (seq 0 (length v))).
  { apply map_ext. intro i. rewrite Nat.sub_0_r. reflexivity. }
  rewrite E. apply Forall2_Qeq_refl.
Qed.

Lemma tsum_map_ext {A} (f g : A -> Q) l : (forall x, In x l -> (f x == g x)%Q) -> (tsum (map f l) == tsum (map g l))%Q.
Proof.
  induction l as [|x l IH]; intro H; [reflexivity|]. cbn [map]. rewrite !tsum_cons, (H x) by (left; reflexivity).
  rewrite IH; [reflexivity|]. intros y Hy. apply H. right. exact Hy.
Qed.

(* ---------------------------------------------------------------- thresholds, 0/1 vectors, int() *)
Lemma qlt_bool_compat t x y : (x == y)%Q -> qlt_bool t x = qlt_bool t y.
Proof.
  intro H. destruct (qlt_bool t x) eqn:E, (qlt_bool t y) eqn:E'; try reflexivity.
  - apply qlt_bool_iff in E. rewrite H in E. apply qlt_bool_iff in E. congruence.
  - apply qlt_bool_iff in E'. rewrite <- H in E'. apply qlt_bool_iff in E'. congruence.
Qed.

Lemma vgt_Forall2 t a b : Forall2 Qeq a b -> vgt a t = vgt b t.
Proof. induction 1 as [|x y a b Hxy _ IH]; [reflexivity|]. unfold vgt in *. cbn [map]. rewrite IH, (qlt_bool_compat t x y Hxy). reflexivity. Qed.

Lemma q2b_b2q b : q2b (b2q b) = b.
Proof. destruct b; reflexivity. Qed.

Lemma map_q2b_bfloat m : map q2b (bfloat m) = m.
Proof. unfold bfloat. rewrite map_map. rewrite <- (map_id m) at 2. apply map_ext. apply q2b_b2q. Qed.

Lemma b2q_mul a b : (b2q a * b2q b)%Q = b2q (a && b).
Proof. destruct a, b; reflexivity. Qed.

Lemma tsum_bfloat m : tsum (bfloat m) = inject_Z (Z.of_nat (length (filter (fun b => b) m))).
Proof.
  induction m as [|b m IH]; [reflexivity|]. unfold bfloat in *. cbn [map filter]. rewrite tsum_cons, IH.
  destruct b; cbn [b2q length]; unfold Qplus, inject_Z; cbn [Qnum Qden]; f_equal; lia.
Qed.

Lemma qint_inject z : qint (inject_Z z) = z.
Proof. unfold qint, inject_Z. cbn [Qnum Qden]. apply Z.quot_1_r. Qed.

Lemma max0_app a b : max0 (a ++ b) = Nat.max (max0 a) (max0 b).
Proof. unfold max0. induction a as [|x a IH]; [reflexivity|]. cbn [app fold_right]. rewrite IH. lia. Qed.
