(* Model of the trainability controls of a PLiNIO NAS model   (C11)

   plinio/methods/dnas_base/dnas.py      train_nas_only / train_net_only / train_net_and_nas
   plinio/methods/{pit/pit,mps/mps,supernet/supernet}.py   named_nas_parameters / named_net_parameters,
                                         train_features / train_rf / train_dilation / discrete_cost /
                                         train_selection setters, update_softmax_options
   plinio/methods/pit/nn/{features,timestep,dilation}_masker.py   (frozen maskers)
   plinio/methods/mps/nn/qtz.py, plinio/methods/supernet/nn/combiner.py   (sampling options)

   The flag [v0] selects the pinned upstream behaviour (true) or the repaired one (false):
   - upstream the frozen masks are registered as trainable tensors that the frozen maskers' setters protect, but
     DNAS.train_* write requires_grad directly over nas_parameters(); repaired: the frozen maskers keep
     their mask as a registered buffer, so it is not a parameter at all;
   - upstream MPSBaseQtz.update_softmax_options re-chooses the sampler from its (possibly None)
     arguments; repaired: the gumbel / disable_sampling choices are stored and only overwritten when
     given. *)
From Coq Require Import ZArith QArith List Bool.
Import ListNotations.
Require Import Plinio.Base.Qx.

(* ---------------------------------------------------------------- samplers *)
Inductive skind := KSm | KGs | KNone.          (* sample_alpha_sm / sample_alpha_gs / sample_alpha_none *)

Record sampler := {
  s_temp : Q; s_hard : bool;
  s_gum : bool; s_dis : bool;                   (* last gumbel / disable_sampling choice *)
  s_kind : skind;                               (* the bound method stored in .sample_alpha *)
  s_upd : bool;                                 (* reached by the model-level update_softmax_options *)
  s_comb : bool }.                              (* SuperNetCombiner: only temperature and hard can be updated *)

Definition choose (dis gum : bool) : skind := if dis then KNone else if gum then KGs else KSm.
Definition oget {A} (o : option A) (d : A) : A := match o with Some x => x | None => d end.

Definition upd_sampler (v0 : bool) (t : option Q) (h g d : option bool) (s : sampler) : sampler :=
  if negb (s_upd s) then s else
  if s_comb s then
    {| s_temp := oget t (s_temp s); s_hard := oget h (s_hard s); s_gum := s_gum s; s_dis := s_dis s;
       s_kind := s_kind s; s_upd := s_upd s; s_comb := s_comb s |}
  else
    let gum' := oget g (s_gum s) in
    let dis' := oget d (s_dis s) in
    {| s_temp := oget t (s_temp s); s_hard := oget h (s_hard s); s_gum := gum'; s_dis := dis';
       s_kind := if v0 then choose (oget d false) (oget g false) else choose dis' gum';
       s_upd := s_upd s; s_comb := s_comb s |}.

(* does the gradient pass from the sampled coefficients back to alpha (training mode)?
   sample_alpha_none: stale coefficients; combiner soft-max + hard: one_hot(argmax), no straight-through *)
Definition sampler_passes (s : sampler) : bool :=
  match s_kind s with
  | KNone => false
  | KSm => negb (s_hard s && s_comb s)
  | KGs => true
  end.

(* ---------------------------------------------------------------- tensors, layers, state *)
Record ptensor := {
  p_id : nat;                 (* object identity: a shared masker / quantizer appears once *)
  p_frozen : bool;            (* mask of a PITFrozen{Features,Timestep,Dilation}Masker *)
  p_reads : bool;             (* loss + cost structurally depend on it (frozen feature maskers read a constant buffer) *)
  p_via : option nat;         (* Some k: it reaches the output only through the sampling of sampler k *)
  p_rg : bool }.              (* requires_grad *)

Definition with_rg (t : ptensor) (b : bool) : ptensor :=
  {| p_id := p_id t; p_frozen := p_frozen t; p_reads := p_reads t; p_via := p_via t; p_rg := b |}.

Record layer := {
  l_feat : option nat; l_rf : option nat; l_dil : option nat;   (* out_features / timestep / dilation masker *)
  l_sel : option nat;                                           (* combiner alpha *)
  l_other : list nat;                                           (* quantizer parameters (MPS) *)
  l_disc : bool }.                                              (* layer.discrete_cost *)

Definition with_disc (l : layer) (b : bool) : layer :=
  {| l_feat := l_feat l; l_rf := l_rf l; l_dil := l_dil l; l_sel := l_sel l; l_other := l_other l; l_disc := b |}.

Record tstate := {
  tens : list ptensor; layers : list layer; samplers : list sampler;
  tr_feat : bool; tr_rf : bool; tr_dil : bool; tr_sel : bool; discrete : bool }.

Definition with_tens (st : tstate) (ts : list ptensor) : tstate :=
  {| tens := ts; layers := layers st; samplers := samplers st; tr_feat := tr_feat st; tr_rf := tr_rf st;
     tr_dil := tr_dil st; tr_sel := tr_sel st; discrete := discrete st |}.

(* ---------------------------------------------------------------- the two parameter groups *)
Definition memb (x : nat) (l : list nat) : bool := existsb (Nat.eqb x) l.

Definition is_param (v0 : bool) (t : ptensor) : bool := v0 || negb (p_frozen t).
(* named_parameters(): registered parameters, each object once *)
Definition param_ids (v0 : bool) (st : tstate) : list nat := map p_id (filter (is_param v0) (tens st)).

Definition oid (o : option nat) : list nat := match o with Some i => [i] | None => [] end.
(* layer.named_nas_parameters(): masker.named_parameters() of each masker in turn *)
Definition layer_ids (l : layer) : list nat := oid (l_feat l) ++ oid (l_rf l) ++ oid (l_dil l) ++ oid (l_sel l) ++ l_other l.

(* `included = set(); ... if param not in included: included.add(param); yield` *)
Fixpoint dedup (seen l : list nat) : list nat :=
  match l with
  | [] => []
  | x :: r => if memb x seen then dedup seen r else x :: dedup (x :: seen) r
  end.

Definition nas_ids (v0 : bool) (st : tstate) : list nat :=
  let ps := param_ids v0 st in dedup [] (filter (fun i => memb i ps) (flat_map layer_ids (layers st))).
(* exclude = set(nas); for p in named_parameters(): if p not in exclude: yield *)
Definition net_ids (v0 : bool) (st : tstate) : list nat :=
  let nas := nas_ids v0 st in filter (fun i => negb (memb i nas)) (param_ids v0 st).

(* ---------------------------------------------------------------- operations *)
Inductive top :=
| TNasOnly | TNetOnly | TNetAndNas
| TSetFeat (b : bool) | TSetRf (b : bool) | TSetDil (b : bool) | TSetSel (b : bool) | TSetDiscrete (b : bool)
| TUpdate (t : option Q) (h g d : option bool)
| TFwdBwd.

(* `for param in group: param.requires_grad = b` *)
Definition set_rg (ids : list nat) (b : bool) (ts : list ptensor) : list ptensor :=
  map (fun t => if memb (p_id t) ids then with_rg t b else t) ts.
(* `layer.<masker>.trainable = b` for every layer: the frozen maskers' setter is `pass` *)
Definition set_rg_nf (ids : list nat) (b : bool) (ts : list ptensor) : list ptensor :=
  map (fun t => if memb (p_id t) ids && negb (p_frozen t) then with_rg t b else t) ts.

Definition sw_ids (sel : layer -> option nat) (st : tstate) : list nat := flat_map (fun l => oid (sel l)) (layers st).

Definition train (v0 : bool) (bnas bnet : bool) (st : tstate) : tstate :=
  with_tens st (set_rg (net_ids v0 st) bnet (set_rg (nas_ids v0 st) bnas (tens st))).

Definition grad_reaches (st : tstate) (t : ptensor) : bool :=
  p_rg t && p_reads t &&
  match p_via t with
  | None => true
  | Some k => match nth_error (samplers st) k with Some s => sampler_passes s | None => true end
  end.

(* observation of forward + (loss + cost).backward(): which tensors have a .grad afterwards *)
Definition obs := list (nat * bool).
Definition fb_obs (st : tstate) : obs := map (fun t => (p_id t, grad_reaches st t)) (tens st).

Definition step (v0 : bool) (st : tstate) (o : top) : tstate * obs :=
  match o with
  | TNasOnly => (train v0 true false st, [])
  | TNetOnly => (train v0 false true st, [])
  | TNetAndNas => (train v0 true true st, [])
  | TSetFeat b => ({| tens := set_rg_nf (sw_ids l_feat st) b (tens st); layers := layers st; samplers := samplers st;
                      tr_feat := b; tr_rf := tr_rf st; tr_dil := tr_dil st; tr_sel := tr_sel st; discrete := discrete st |}, [])
  | TSetRf b => ({| tens := set_rg_nf (sw_ids l_rf st) b (tens st); layers := layers st; samplers := samplers st;
                    tr_feat := tr_feat st; tr_rf := b; tr_dil := tr_dil st; tr_sel := tr_sel st; discrete := discrete st |}, [])
  | TSetDil b => ({| tens := set_rg_nf (sw_ids l_dil st) b (tens st); layers := layers st; samplers := samplers st;
                     tr_feat := tr_feat st; tr_rf := tr_rf st; tr_dil := b; tr_sel := tr_sel st; discrete := discrete st |}, [])
  | TSetSel b => ({| tens := set_rg_nf (sw_ids l_sel st) b (tens st); layers := layers st; samplers := samplers st;
                     tr_feat := tr_feat st; tr_rf := tr_rf st; tr_dil := tr_dil st; tr_sel := b; discrete := discrete st |}, [])
  | TSetDiscrete b => ({| tens := tens st; layers := map (fun l => with_disc l b) (layers st); samplers := samplers st;
                          tr_feat := tr_feat st; tr_rf := tr_rf st; tr_dil := tr_dil st; tr_sel := tr_sel st; discrete := b |}, [])
  | TUpdate t h g d => ({| tens := tens st; layers := layers st; samplers := map (upd_sampler v0 t h g d) (samplers st);
                           tr_feat := tr_feat st; tr_rf := tr_rf st; tr_dil := tr_dil st; tr_sel := tr_sel st; discrete := discrete st |}, [])
  | TFwdBwd => (st, fb_obs st)
  end.

Definition run (v0 : bool) (ops : list top) (st : tstate) : tstate := fold_left (fun s o => fst (step v0 s o)) ops st.

(* the observations made along a run *)
Fixpoint trace (v0 : bool) (ops : list top) (st : tstate) : list obs :=
  match ops with
  | [] => []
  | o :: r => snd (step v0 st o) :: trace v0 r (fst (step v0 st o))
  end.

Definition frozen_ids (st : tstate) : list nat := map p_id (filter p_frozen (tens st)).

(* ---------------------------------------------------------------- well-formed initial states *)
Fixpoint nodupb (l : list nat) : bool := match l with [] => true | x :: r => negb (memb x r) && nodupb r end.
Definition wf_sampler (s : sampler) : bool :=
  s_comb s || match s_kind s, choose (s_dis s) (s_gum s) with
              | KSm, KSm | KGs, KGs | KNone, KNone => true | _, _ => false end.
Definition wfb (st : tstate) : bool :=
  nodupb (map p_id (tens st)) &&
  forallb (fun t => negb (p_frozen t) || negb (p_rg t)) (tens st) &&
  forallb wf_sampler (samplers st).

(* ---------------------------------------------------------------- what the harness evaluates *)
Definition skind_code (k : skind) : Z := match k with KSm => 0 | KGs => 1 | KNone => 2 end.
Definition sampler_view (s : sampler) : (Z * Z) * bool * Z := (qpair (s_temp s), s_hard s, skind_code (s_kind s)).

(* abstract state as the harness observes it: requires_grad per tensor (in state order), the two groups,
   the switches, the per-layer discrete_cost, the samplers *)
Definition view (v0 : bool) (st : tstate) :=
  (map (fun t => (p_id t, p_rg t)) (tens st), (nas_ids v0 st, net_ids v0 st),
   ([tr_feat st; tr_rf st; tr_dil st; tr_sel st; discrete st], map l_disc (layers st)),
   map sampler_view (samplers st)).

Definition run_step (v0 : bool) (st : tstate) (o : top) := let r := step v0 st o in (view v0 (fst r), snd r).
Definition run_view (v0 : bool) (ops : list top) (st : tstate) := view v0 (run v0 ops st).

(* comparison inside Coq: the harness passes what it observed on the real object after the step
   (requires_grad per tensor, switches, per-layer discrete_cost, samplers, grad pattern) and gets one bit back;
   the two groups are compared with those of the initial state (they never change) *)
Fixpoint bools_eqb (a b : list bool) : bool :=
  match a, b with
  | [], [] => true
  | x :: a', y :: b' => Bool.eqb x y && bools_eqb a' b'
  | _, _ => false
  end.
Fixpoint nats_eqb (a b : list nat) : bool :=
  match a, b with
  | [], [] => true
  | x :: a', y :: b' => Nat.eqb x y && nats_eqb a' b'
  | _, _ => false
  end.
Definition sview_eqb (a b : (Z * Z) * bool * Z) : bool :=
  let '((n1, d1), h1, k1) := a in let '((n2, d2), h2, k2) := b in
  Z.eqb n1 n2 && Z.eqb d1 d2 && Bool.eqb h1 h2 && Z.eqb k1 k2.
Fixpoint sviews_eqb (a b : list ((Z * Z) * bool * Z)) : bool :=
  match a, b with
  | [], [] => true
  | x :: a', y :: b' => sview_eqb x y && sviews_eqb a' b'
  | _, _ => false
  end.

Definition check_step (v0 : bool) (st0 : tstate) (path : list top) (o : top)
    (e_rg e_flags e_disc : list bool) (e_samp : list ((Z * Z) * bool * Z)) (e_obs : list bool) : bool :=
  let s1 := run v0 path st0 in
  let r := step v0 s1 o in
  let s2 := fst r in
  bools_eqb (map p_rg (tens s2)) e_rg &&
  nats_eqb (nas_ids v0 s2) (nas_ids v0 st0) && nats_eqb (net_ids v0 s2) (net_ids v0 st0) &&
  bools_eqb [tr_feat s2; tr_rf s2; tr_dil s2; tr_sel s2; discrete s2] e_flags &&
  bools_eqb (map l_disc (layers s2)) e_disc &&
  sviews_eqb (map sampler_view (samplers s2)) e_samp &&
  bools_eqb (map snd (snd r)) e_obs.

Fixpoint bad_from (k : nat) (l : list bool) : list nat :=
  match l with [] => [] | b :: r => if b then bad_from (S k) r else k :: bad_from (S k) r end.
Definition bad_indices (l : list bool) : nat * list nat := (length l, bad_from 0 l).
