(* C19: the model GENERATED from the source of DUCCIO.__call__ (Gen/DuccioGen.v, rewritten by translator/duccio2coq.py
   on every run) computes the hand-written model the theorems are about, and every division it performs on an
   evaluated path has a non-zero divisor on the domain of the property (Coq's x / 0 = 0 must not hide a float inf/nan). *)
From Coq Require Import QArith List Bool ZArith Lqa.
Import ListNotations.
Require Import Plinio.Base.Qx Plinio.Model.Duccio Plinio.Proofs.Duccio Plinio.Gen.DuccioGen.
Local Open Scope Q_scope.

Lemma qle_bool_compat a a' b b' : a == a' -> b == b' -> Qle_bool a b = Qle_bool a' b'.
Proof.
  intros Ha Hb. destruct (Qle_bool a b) eqn:E, (Qle_bool a' b') eqn:E'; try reflexivity.
  - apply Qle_bool_iff in E. rewrite Ha, Hb in E. apply Qle_bool_iff in E. congruence.
  - apply Qle_bool_iff in E'. rewrite <- Ha, <- Hb in E'. apply Qle_bool_iff in E'. congruence.
Qed.
Lemma qlt_bool_compat a a' b b' : a == a' -> b == b' -> qlt_bool a b = qlt_bool a' b'.
Proof. intros Ha Hb. unfold qlt_bool. rewrite (qle_bool_compat b b' a a' Hb Ha). reflexivity. Qed.
Lemma qmin_compat a a' b b' : a == a' -> b == b' -> qmin a b == qmin a' b'.
Proof. intros Ha Hb. unfold qmin. rewrite (qle_bool_compat a a' b b' Ha Hb). destruct (Qle_bool a' b'); assumption. Qed.
Lemma qmax_compat a a' b b' : a == a' -> b == b' -> qmax a b == qmax a' b'.
Proof. intros Ha Hb. unfold qmax. rewrite (qle_bool_compat a a' b b' Ha Hb). destruct (Qle_bool a' b'); assumption. Qed.

Lemma nz x : ~ x == 0 -> negb (Qeq_bool x 0) = true.
Proof. intro H. destruct (Qeq_bool x 0) eqn:E; [|reflexivity]. apply Qeq_bool_iff in E. contradiction. Qed.

Lemma qmin_comm a b : qmin a b == qmin b a.
Proof. destruct (qmin_cases a b) as [[H E]|[H E]], (qmin_cases b a) as [[H' E']|[H' E']]; rewrite E, E'; lra. Qed.
Lemma qmax_comm a b : qmax a b == qmax b a.
Proof. destruct (qmax_cases a b) as [[H E]|[H E]], (qmax_cases b a) as [[H' E']|[H' E']]; rewrite E, E'; lra. Qed.

(* equalities over Q up to min/max: structural where both sides have the same head (operands in either order),
   field arithmetic at the leaves *)
Ltac qeq :=
  first [ reflexivity
        | apply qmin_compat; qeq
        | (etransitivity; [apply qmin_comm|]); apply qmin_compat; qeq
        | apply qmax_compat; qeq
        | (etransitivity; [apply qmax_comm|]); apply qmax_compat; qeq
        | ring
        | unfold Qdiv; ring          (* x / y = x * / y: holds whatever the divisor is *)
        | field; intro; lra
        | match goal with
          | |- (if ?b then _ else _) == (if ?b' then _ else _) =>
              let H := fresh in assert (H : b = b') by (first [reflexivity | apply qlt_bool_compat; qeq | apply qle_bool_compat; qeq]);
              rewrite H; destruct b'; qeq
          | |- ?a + ?b == ?a' + ?b' => first [ apply Qplus_comp; qeq | (etransitivity; [apply Qplus_comm|]); apply Qplus_comp; qeq ]
          | |- ?a * ?b == ?a' * ?b' => first [ apply Qmult_comp; qeq | (etransitivity; [apply Qmult_comm|]); apply Qmult_comp; qeq ]
          end ].
Ltac defined :=
  repeat match goal with
         | |- (if ?b then _ else _) = true => let E := fresh "E" in destruct b eqn:E
         | |- (_ && _)%bool = true => apply andb_true_intro; split
         end;
  try reflexivity;
  repeat match goal with
         | H : qlt_bool _ _ = true |- _ => apply qlt_bool_iff in H
         | H : Qle_bool _ _ = true |- _ => apply Qle_bool_iff in H
         end;
  try (apply nz; intro; unfold Qdiv in *; try change (/ 2) with (1#2) in *; try change (/ 100) with (1#100) in *; lra).

(* ---- lazily derived strength *)
Theorem derive_gen_eq : forall task c t, derive_gen task c t == derive task c t.
Proof. intros. unfold derive_gen, derive. cbn zeta. qeq. Qed.

Theorem derive_gen_defined : forall task c t, derive_ok task c t = true.
Proof. intros. unfold derive_ok. cbn zeta. defined. Qed.

(* ---- one step of the accumulation, and the loop *)
Theorem step_gen_eq : forall e n acc m, step_gen e n acc m == acc + term e n m.
Proof. intros e n acc [[s c] t]. unfold step_gen, term, eff, ramp. cbn zeta. qeq. Qed.

Theorem step_gen_defined : forall e n acc m, ~ n == 0 -> step_ok e n acc m = true.
Proof. intros e n acc [[s c] t] Hn. unfold step_ok. cbn zeta. defined. Qed.

Lemma fold_gen_eq e n : forall ms acc acc', acc == acc' ->
  fold_left (step_gen e n) ms acc == fold_left (fun a m => a + term e n m) ms acc'.
Proof.
  induction ms as [|m ms IH]; intros acc acc' H; cbn [fold_left]; [exact H|].
  apply IH. rewrite step_gen_eq. rewrite H. reflexivity.
Qed.

Theorem duccio_gen_eq : forall ms e n, duccio_gen ms e n == duccio ms e n.
Proof. intros. unfold duccio_gen, duccio. apply fold_gen_eq. reflexivity. Qed.

(* ---- BaseRegularizer *)
Theorem base_gen_eq : forall s c, base_gen s c == base s c.
Proof. intros. unfold base_gen, base. qeq. Qed.
Theorem base_gen_defined : forall s c, base_ok s c = true.
Proof. intros. unfold base_ok. defined. Qed.

(* ---- the theorems of the hand-written model, transported *)
Theorem gen_duccio_nonneg : forall ms e n, 0 < n -> 0 <= e ->
  Forall (fun m => 0 <= fst (fst m)) ms -> 0 <= duccio_gen ms e n.
Proof. intros. rewrite duccio_gen_eq. apply duccio_nonneg; assumption. Qed.

Theorem gen_duccio_zero_iff : forall ms e n, 0 < n -> 0 <= e ->
  Forall (fun m => 0 < fst (fst m)) ms ->
  (duccio_gen ms e n == 0 <-> Forall (fun m => snd (fst m) <= snd m) ms).
Proof. intros. rewrite duccio_gen_eq. apply duccio_zero_iff; assumption. Qed.

Theorem gen_derive_above : forall task c t, 0 < task -> t < c ->
  0 < derive_gen task c t /\ derive_gen task c t * (c - t) == task.
Proof. intros task c t H1 H2. rewrite derive_gen_eq. apply derive_above; assumption. Qed.

Theorem gen_derive_not_above : forall task c t, c <= t -> derive_gen task c t == 0.
Proof. intros task c t H. rewrite derive_gen_eq. rewrite (derive_not_above task c t H). reflexivity. Qed.
