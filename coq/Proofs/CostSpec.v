(* Proofs about the CostSpec lookup model (C15). *)
From Coq Require Import List Bool Arith ZArith Lia Permutation.
Import ListNotations.
Require Import Plinio.Model.CostSpec.

Section Proofs.
Variable F : Type.
Notation entry := (entry F).
Notation outcome := (outcome F).

Definition fallback (best : option F) : outcome :=
  match best with Some f => Found f | None => Default end.

(* what a scan started in state (best, bc) returns, in terms of the two filtered lists *)
Definition scan_result (sat : nat -> bool) (es : list entry) (best : option F) (bc : bool) : outcome :=
  if bc then
    match sat_constrained F sat es with [] => fallback best | _ => Conflict end
  else
    match sat_constrained F sat es with
    | _ :: _ :: _ => Conflict
    | [e] => Found (snd e)
    | [] => match rev (unconstrained F es) with [] => fallback best | e :: _ => Found (snd e) end
    end.

Lemma rev_cons_head : forall (A : Type) (a : A) (l : list A),
  match rev (a :: l) with [] => None | x :: _ => Some x end =
  match rev l with [] => Some a | x :: _ => Some x end.
Proof. intros A a l. cbn [rev]. destruct (rev l); reflexivity. Qed.

Lemma scan_char : forall sat es best bc,
  scan F sat es best bc = scan_result sat es best bc.
Proof.
  intros sat es. induction es as [|[c f] t IH]; intros best bc.
  - unfold scan_result; cbn. destruct bc; reflexivity.
  - destruct c as [k|]; cbn [scan].
    + unfold scan_result, sat_constrained, unconstrained. cbn [filter fst constrained negb].
      fold (sat_constrained F sat t). fold (unconstrained F t).
      destruct (sat k) eqn:Hk.
      * destruct bc; [reflexivity|]. rewrite IH. unfold scan_result.
        destruct (sat_constrained F sat t) as [|e1 l1]; reflexivity.
      * rewrite IH. reflexivity.
    + unfold scan_result, sat_constrained, unconstrained. cbn [filter fst constrained negb].
      fold (sat_constrained F sat t). fold (unconstrained F t).
      destruct bc.
      * rewrite IH. reflexivity.
      * rewrite IH. unfold scan_result.
        destruct (sat_constrained F sat t) as [|e1 [|e2 l]]; try reflexivity.
        cbn [rev].
        destruct (rev (unconstrained F t)) as [|x l']; reflexivity.
Qed.

(* the code implements the documented rule, for every list of entries *)
Lemma scan_rule : forall sat es, scan F sat es None false = rule F sat es.
Proof. intros. rewrite scan_char. reflexivity. Qed.

(* ---- permutation invariance *)
Lemma filter_Permutation : forall (A : Type) (f : A -> bool) (l l' : list A),
  Permutation l l' -> Permutation (filter f l) (filter f l').
Proof.
  intros A f l l' H. induction H as [|x l l' H IH|x y l|l l' l'' H1 IH1 H2 IH2]; cbn [filter].
  - constructor.
  - destruct (f x); [constructor|]; exact IH.
  - destruct (f x), (f y); try apply Permutation_refl; apply perm_swap.
  - eapply Permutation_trans; eassumption.
Qed.

Lemma unconstrained_fst : forall (es : list entry) e, In e (unconstrained F es) -> fst e = None.
Proof.
  intros es e H. apply filter_In in H as [_ H]. destruct (fst e); [discriminate|reflexivity].
Qed.

Lemma unconstrained_short : forall es : list entry,
  NoDup (map fst es) -> length (unconstrained F es) <= 1.
Proof.
  induction es as [|[c f] t IH]; intros Hnd; cbn; [lia|].
  inversion Hnd as [|x l Hnotin Hnd']; subst.
  destruct c as [k|]; cbn.
  - apply IH; exact Hnd'.
  - assert (Hempty : unconstrained F t = []).
    { destruct (unconstrained F t) as [|e l] eqn:E; [reflexivity|exfalso].
      assert (Hin : In e (unconstrained F t)) by (rewrite E; left; reflexivity).
      pose proof (unconstrained_fst _ _ Hin) as Hf.
      apply filter_In in Hin as [Hin _]. apply Hnotin. cbn [fst].
      rewrite <- Hf. apply in_map. exact Hin. }
    fold (unconstrained F t). rewrite Hempty. cbn. lia.
Qed.

Lemma short_perm_eq : forall (A : Type) (l l' : list A),
  length l <= 1 -> Permutation l l' -> l = l'.
Proof.
  intros A l l' Hl Hp. destruct l as [|a [|b l]]; cbn in Hl; try lia.
  - apply Permutation_nil in Hp. congruence.
  - apply Permutation_length_1_inv in Hp. congruence.
Qed.

Lemma rule_perm : forall sat (es es' : list entry),
  NoDup (map fst es) -> Permutation es es' -> rule F sat es = rule F sat es'.
Proof.
  intros sat es es' Hnd Hp. unfold rule.
  assert (Hc : Permutation (sat_constrained F sat es) (sat_constrained F sat es'))
    by (apply filter_Permutation; exact Hp).
  assert (Hu : Permutation (unconstrained F es) (unconstrained F es'))
    by (apply filter_Permutation; exact Hp).
  rewrite <- (short_perm_eq _ _ _ (unconstrained_short es Hnd) Hu).
  destruct (sat_constrained F sat es) as [|e1 [|e2 l]].
  - apply Permutation_nil in Hc. rewrite Hc. reflexivity.
  - apply Permutation_length_1_inv in Hc. rewrite Hc. reflexivity.
  - pose proof (Permutation_length Hc) as Hlen. cbn in Hlen.
    destruct (sat_constrained F sat es') as [|a [|b l']]; cbn in Hlen; try lia. reflexivity.
Qed.

(* ---- the per-type table *)
Lemma entries_setitem_same : forall s ty e, entries F (setitem F s ty e) ty = entries F s ty ++ [e].
Proof.
  induction s as [|[ty' es] t IH]; intros ty e; unfold entries; cbn.
  - rewrite Nat.eqb_refl. reflexivity.
  - destruct (Nat.eqb ty ty') eqn:E; cbn; rewrite E; [reflexivity|]. apply IH.
Qed.

Lemma entries_setitem_other : forall s ty ty' e, ty <> ty' ->
  entries F (setitem F s ty' e) ty = entries F s ty.
Proof.
  induction s as [|[ty0 es] t IH]; intros ty ty' e Hne; unfold entries; cbn.
  - destruct (Nat.eqb ty ty') eqn:E; [apply Nat.eqb_eq in E; contradiction|reflexivity].
  - destruct (Nat.eqb ty' ty0) eqn:E1; cbn.
    + apply Nat.eqb_eq in E1; subst ty0.
      destruct (Nat.eqb ty ty') eqn:E; [apply Nat.eqb_eq in E; contradiction|reflexivity].
    + destruct (Nat.eqb ty ty0); [reflexivity|]. apply IH; exact Hne.
Qed.

Definition regs_of (regs : list (nat * entry)) (ty : nat) : list entry :=
  map snd (filter (fun r => Nat.eqb (fst r) ty) regs).

Lemma entries_fold : forall regs s ty,
  entries F (fold_left (fun s r => setitem F s (fst r) (snd r)) regs s) ty = entries F s ty ++ regs_of regs ty.
Proof.
  induction regs as [|[ty' e] t IH]; intros s ty; cbn [fold_left].
  - unfold regs_of; cbn. rewrite app_nil_r. reflexivity.
  - rewrite IH. unfold regs_of. cbn [filter fst snd].
    destruct (Nat.eqb ty' ty) eqn:E.
    + apply Nat.eqb_eq in E; subst. rewrite entries_setitem_same. cbn [map snd]. rewrite <- app_assoc. reflexivity.
    + rewrite entries_setitem_other; [reflexivity|]. intro H; subst. rewrite Nat.eqb_refl in E. discriminate.
Qed.

Lemma entries_register_all : forall regs ty, entries F (register_all F regs) ty = regs_of regs ty.
Proof. intros. unfold register_all. rewrite entries_fold. reflexivity. Qed.

(* patterns are (layer type, constraint) pairs *)
Definition pattern_of (r : nat * entry) : nat * option nat := (fst r, fst (snd r)).

Lemma regs_of_nodup : forall regs ty, NoDup (map pattern_of regs) -> NoDup (map fst (regs_of regs ty)).
Proof.
  induction regs as [|[ty' [c f]] t IH]; intros ty Hnd; unfold regs_of; cbn [filter fst snd map].
  - constructor.
  - inversion Hnd as [|x l Hnotin Hnd']; subst.
    destruct (Nat.eqb ty' ty) eqn:E; [|apply IH; exact Hnd'].
    apply Nat.eqb_eq in E; subst. cbn [map snd fst]. constructor; [|apply IH; exact Hnd'].
    intro Hin. apply Hnotin. unfold pattern_of at 1; cbn [fst snd].
    apply in_map_iff in Hin as [e [He Hin]]. apply in_map_iff in Hin as [r [Hr Hin]].
    apply filter_In in Hin as [Hin Hty]. apply Nat.eqb_eq in Hty.
    apply in_map_iff. exists r. split; [|exact Hin]. unfold pattern_of. subst. reflexivity.
Qed.

Lemma regs_of_perm : forall regs regs' ty, Permutation regs regs' -> Permutation (regs_of regs ty) (regs_of regs' ty).
Proof. intros. unfold regs_of. apply Permutation_map. apply filter_Permutation. assumption. Qed.

Theorem getitem_rule : forall regs ty sat,
  getitem F (register_all F regs) ty sat = rule F sat (regs_of regs ty).
Proof. intros. unfold getitem. rewrite entries_register_all. apply scan_rule. Qed.

Theorem getitem_perm : forall regs regs' ty sat,
  NoDup (map pattern_of regs) -> Permutation regs regs' ->
  getitem F (register_all F regs) ty sat = getitem F (register_all F regs') ty sat.
Proof.
  intros regs regs' ty sat Hnd Hp. rewrite !getitem_rule.
  apply rule_perm; [apply regs_of_nodup; exact Hnd | apply regs_of_perm; exact Hp].
Qed.

Theorem setitem_other_type : forall s ty ty' e sat, ty <> ty' ->
  getitem F (setitem F s ty' e) ty sat = getitem F s ty sat.
Proof. intros. unfold getitem. rewrite entries_setitem_other by assumption. reflexivity. Qed.

(* Conflict is raised only when two constrained patterns are both satisfied *)
Theorem conflict_iff : forall regs ty sat,
  getitem F (register_all F regs) ty sat = Conflict <-> 2 <= length (sat_constrained F sat (regs_of regs ty)).
Proof.
  intros. rewrite getitem_rule. unfold rule.
  destruct (sat_constrained F sat (regs_of regs ty)) as [|e1 [|e2 l]]; cbn.
  - destruct (rev _); split; intro H; try discriminate; lia.
  - split; intro H; try discriminate; lia.
  - split; intro H; [lia|reflexivity].
Qed.
End Proofs.

(* the upstream code (before the fix) is order dependent: witness *)
Lemma lookup_order_refuted_v0 :
  exists regs regs' ty sat,
    NoDup (map (pattern_of Z) regs) /\ Permutation regs regs' /\
    getitem_v0 Z (register_all Z regs) ty sat <> getitem_v0 Z (register_all Z regs') ty sat.
Proof.
  exists [(1, (Some 0, 10%Z)); (1, (None, 11%Z))], [(1, (None, 11%Z)); (1, (Some 0, 10%Z))], 1, (fun _ => true).
  split; [|split].
  - cbn. constructor; [intros [H|[]]; discriminate|]. constructor; [intros []|]. constructor.
  - apply perm_swap.
  - vm_compute. discriminate.
Qed.
