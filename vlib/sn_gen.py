"""SuperNet network generator shared by C03 and C06 (DESIGN.md §5.1, SuperNet production).

One derivation yields (a) a JSON-able description `desc`, (b) the torch module (`build`), whose forward
interprets a static chain (fx-traceable), (c) the Coq literal of the IR of Model/SuperNet.v (`coq_net`).

Shape discipline: every layer maps (N, C, H, W) -> (N, C, H, W) (so that all branches of a block agree
and a block can be invoked twice), except the optional fixed 'pool2' layer (halves H and W; used to put
the two invocations of a block at different resolutions) and the optional tail Flatten -> Linear.
Weights / inputs are small integers in float64: conv / linear / relu / maxpool arithmetic is exact.

IR ids: every leaf nn.Module gets an integer id (index in desc['names'], the table of qualified names);
functional ops are Fn codes: 0 = F.relu, 1 = y + y (operator.add), 2 = -y (operator.neg).
"""
import random
from .common import Nat, Raw, coq

FN_NAMES = {0: 'relu', 1: 'add', 2: 'neg', 3: 'mul2', 4: 'clamp(method)', 5: 'abs(method)', 6: 'flatten(0,0)(method)', 7: 'F.relu(inplace=True)', 8: 'clamp_(method, in place)', 10: 'add-branch-input(residual)'}
LAYER_KINDS = ['conv1', 'conv3', 'conv3nb', 'dw', 'relu', 'id', 'maxpool', 'bn']


def _rand_layer(rng, allow=('conv1', 'conv3', 'conv3nb', 'dw', 'relu', 'maxpool', 'bn', 'bn')):
    return rng.choice(allow)


def gen_branch(rng, force_kind=None):
    kind = force_kind or rng.choice(['single', 'single', 'seq', 'user', 'userfn', 'userfn', 'identity', 'usermix', 'usermix'])
    if kind == 'single':
        return {'kind': 'single', 'layers': [_rand_layer(rng, ('conv1', 'conv3', 'conv3nb', 'dw'))], 'fn': None}
    if kind == 'identity':
        return {'kind': 'identity', 'layers': ['id'], 'fn': None}
    if kind == 'usermix':
        # user block with non-module ops BETWEEN / BEFORE its layers (functional ops, method calls), optionally a residual
        # connection around the whole branch: conv2(F.relu(conv1(x))), x + conv(conv(x) * 2), conv(x.abs()).clamp(..), ...
        nm = rng.randint(2, 3)
        ops = []
        if rng.random() < 0.35:
            ops.append(['f', rng.choice([0, 2, 5, 6])])           # starts with a non-module op
        for j in range(nm):
            ops.append(['m', _rand_layer(rng, ('conv1', 'conv3', 'dw') if j == 0 else ('conv1', 'conv3', 'conv3nb', 'dw', 'maxpool', 'bn'))])
            if j < nm - 1:
                for _ in range(rng.choice([1, 1, 1, 2, 0])):      # one (sometimes two, sometimes none) op in the middle
                    ops.append(['f', rng.choice([0, 0, 1, 2, 3, 4, 5, 6, 7, 7, 8, 8])])      # 7 / 8: IN-PLACE ops on a layer's output
        if not any(o[0] == 'f' for o in ops[:-1]):
            ops.insert(1, ['f', rng.choice([0, 3, 5])])
        r = rng.random()
        if r < 0.3:
            ops.append(['f', 10])                                 # residual: branch input + branch body
        elif r < 0.5:
            ops.append(['f', rng.choice([0, 4, 6])])
        br = {'kind': 'usermix', 'ops': ops, 'layers': [o[1] for o in ops if o[0] == 'm'], 'fn': ops[-1][1] if ops[-1][0] == 'f' else None}
        # weight tying between two DISTINCT layers of the branch (dec.weight = enc.weight): indices into br['layers']
        same = [(i, j) for i in range(len(br['layers'])) for j in range(i + 1, len(br['layers']))
                if br['layers'][i] == br['layers'][j] and br['layers'][i] in ('conv1', 'conv3', 'conv3nb', 'dw')]
        if not same and rng.random() < 0.3 and br['layers'][0] in ('conv1', 'conv3', 'dw'):
            k = next(i for i, o in enumerate(ops) if o[0] == 'm')
            j = max(i for i, o in enumerate(ops) if o[0] == 'm')
            if j != k:
                ops[j][1] = ops[k][1]
                br['layers'] = [o[1] for o in ops if o[0] == 'm']
                same = [(0, len(br['layers']) - 1)]
        if same and rng.random() < 0.7:
            br['tie'] = list(rng.choice(same))
        return br
    n = rng.randint(2, 3)
    layers = [_rand_layer(rng, ('conv1', 'conv3', 'dw'))] + [_rand_layer(rng) for _ in range(n - 1)]
    if kind == 'seq':
        return {'kind': 'seq', 'layers': layers, 'fn': None}
    if kind == 'user':
        return {'kind': 'user', 'layers': layers, 'fn': None}
    # user block whose forward ends in a functional op; the module list must end in a weight layer or not, both occur
    return {'kind': 'userfn', 'layers': layers[:rng.randint(1, len(layers))], 'fn': rng.choice([0, 0, 1, 2])}


def gen_desc(rng, nblocks=None, nbranches=None, twice=None, tail=None, diffres=False, small=False, fixed_twice=None):
    """small: <= 3 blocks x <= 4 branches (exhaustive winner enumeration); otherwise up to 12 branches."""
    nb = nblocks or rng.randint(1, 3)
    blocks = []
    for b in range(nb):
        k = nbranches[b] if nbranches else (rng.randint(2, 4) if small else rng.choice([2, 3, 5, 11, 12, 12]))
        brs = [gen_branch(rng) for _ in range(k)]
        # guarantee the interesting kinds appear often: a functional-op ending somewhere, an identity
        if rng.random() < 0.5:
            brs[rng.randrange(k)] = gen_branch(rng, 'userfn')
        if rng.random() < 0.3:
            brs[rng.randrange(k)] = gen_branch(rng, 'identity')
        if rng.random() < 0.5:
            brs[rng.randrange(k)] = gen_branch(rng, 'usermix')
        blocks.append({'branches': brs, 'gumbel': rng.random() < 0.35, 'hard': rng.random() < 0.3})
    chain = []
    if rng.random() < 0.7:
        chain.append(['fixed', _rand_layer(rng, ('conv1', 'conv3', 'conv3nb'))])
    use_twice = twice if twice is not None else (rng.random() < 0.5)
    tw = rng.randrange(nb) if use_twice else None
    for b in range(nb):
        chain.append(['block', b])
        if b == tw:
            r = rng.random()
            if diffres:
                chain.append(['fixed', 'pool2'])
            elif r < 0.4:
                chain.append(['fixed', _rand_layer(rng)])
            elif r < 0.6:
                chain.append(['fn', rng.choice([0, 2])])
            chain.append(['block', b])
        r = rng.random()
        if r < 0.45:
            chain.append(['fixed', _rand_layer(rng)])
        elif r < 0.6:
            chain.append(['fn', rng.choice([0, 1, 2])])
    # a FIXED layer (outside the choice blocks) invoked twice in forward: ['fixedref', position of its first use]; with
    # fixed_twice='diffres' a MaxPool2d(2) sits before the second invocation (weight-shared layer on two resolutions).
    # It is appended after all the blocks, so no choice block is re-invoked at another resolution because of it.
    ft = fixed_twice if fixed_twice is not None else rng.choice([None, None, None, 'same', 'diffres'])
    cands = [p for p, it in enumerate(chain) if it[0] == 'fixed' and it[1] in ('conv1', 'conv3', 'conv3nb', 'dw', 'bn', 'relu', 'maxpool')]
    convs = [p for p in cands if chain[p][1] in ('conv1', 'conv3', 'conv3nb', 'dw')]
    if ft and not convs:
        chain.insert(0, ['fixed', rng.choice(['conv3', 'conv1', 'dw'])])
        convs = [0]
    if ft:
        if ft == 'diffres':
            chain.append(['fixed', 'pool2'])
        chain.append(['fixedref', rng.choice(convs)])
    tl = tail if tail is not None else (rng.random() < 0.4)
    if tl:
        chain.append(['fixed', 'flatten'])
        chain.append(['fixed', 'linear'])
    d = {'C': rng.choice([2, 3]), 'H': rng.choice([4, 5]) if not diffres else 4, 'W': rng.choice([4, 6]) if not diffres else 6,
         'blocks': blocks, 'chain': chain, 'wseed': rng.randrange(1 << 30)}
    finish_desc(d)
    return d


def finish_desc(d):
    """derive the table of qualified names (ids) and the IR from blocks + chain"""
    names, types = [], []

    def add(name, kind):
        names.append(name)
        types.append(kind)
        return len(names) - 1
    # fixed layers first (in chain order), then block layers in block / branch order
    ir_fixed = {}
    for pos, it in enumerate(d['chain']):
        if it[0] == 'fixed':
            ir_fixed[pos] = add('fx.p%d' % pos, it[1])
    ir_blocks = []
    for b, blk in enumerate(d['blocks']):
        brs = []
        for i, br in enumerate(blk['branches']):
            base = 'b%d.sn_branches.%d' % (b, i)
            ls = []
            if br['kind'] in ('single', 'identity'):
                ls.append(('M', add(base, br['layers'][0])))
            elif br['kind'] == 'seq':
                for j, l in enumerate(br['layers']):
                    ls.append(('M', add('%s.%d' % (base, j), l)))
            elif br['kind'] == 'usermix':
                j = 0
                for o in br['ops']:
                    if o[0] == 'm':
                        ls.append(('M', add('%s.m%d' % (base, j), o[1])))
                        j += 1
                    else:
                        ls.append(('F', o[1]))
            else:
                for j, l in enumerate(br['layers']):
                    ls.append(('M', add('%s.m%d' % (base, j), l)))
                if br['fn'] is not None:
                    ls.append(('F', br['fn']))
            brs.append(ls)
        ir_blocks.append(brs)
    ir = []
    for pos, it in enumerate(d['chain']):
        if it[0] == 'fixed':
            ir.append(('fixed', ('M', ir_fixed[pos])))
        elif it[0] == 'fixedref':
            ir.append(('fixed', ('M', ir_fixed[it[1]])))
        elif it[0] == 'fn':
            ir.append(('fixed', ('F', it[1])))
        else:
            ir.append(('choice', it[1], ir_blocks[it[1]]))
    d['names'], d['types'], d['ir'] = names, types, ir
    return d


def coq_layer(l):
    return Raw('(Mod %s)' % coq(l[1])) if l[0] == 'M' else Raw('(Fn %s)' % coq(l[1]))


def coq_net(d):
    """Coq literal of type Plinio.Model.SuperNet.net"""
    out = []
    for n in d['ir']:
        if n[0] == 'fixed':
            out.append(Raw('(NFixed %s)' % coq(coq_layer(n[1]))))
        else:
            out.append(Raw('(NChoice %s %s)' % (coq(n[1]), coq([[coq_layer(l) for l in br] for br in n[2]]))))
    return coq(out)


def coq_body(layers):
    """a branch (list of IR layers, code 10 = add the branch input) as a bexp of Model/SuperNet.v"""
    e = 'BIn'
    for l in layers:
        if l[0] == 'F' and l[1] == 10:
            e = '(BBin (0)%%Z %s BIn)' % e
        else:
            e = '(BApp %s %s)' % (coq_layer(l), e)
    return Raw(e)


def coq_gnet(d):
    """Coq literal of type Plinio.Model.SuperNet.gnet (branch bodies as expressions: residuals are BBin nodes)"""
    out = []
    for n in d['ir']:
        if n[0] == 'fixed':
            out.append(Raw('(GFixed %s)' % coq(coq_layer(n[1]))))
        else:
            out.append(Raw('(GChoice %s %s)' % (coq(n[1]), coq([coq_body(br) for br in n[2]]))))
    return coq(out)


def term_layer(d, t):
    return ('M', d['names'][t[1]]) if t[0] == 'Mod' else ('F', t[1])


def term_sequence(d, gnet_term):
    """node sequence (trace order) of an exported gnet as parsed from Coq output"""
    def lin(e):
        if e[0] == 'BIn':
            return []
        if e[0] == 'BApp':
            return lin(e[2]) + [term_layer(d, e[1])]
        if e[0] == 'BBin':
            return lin(e[2]) + lin(e[3]) + [('F', 10 if e[1] == 0 else 'bin%r' % e[1])]
        raise ValueError(e)
    seq = []
    for n in gnet_term:
        if n[0] == 'GFixed':
            seq.append(term_layer(d, n[1]))
        elif n[0] == 'GBody':
            seq += lin(n[1])
        else:
            seq.append(('CHOICE', n[1]))
    return seq


def eval_term(d, model, gnet_term, x, torch):
    """evaluate an exported gnet (parsed Coq term) with the user's own modules"""
    import torch.nn.functional as F

    def ev(e, xin):
        if e[0] == 'BIn':
            return xin
        if e[0] == 'BApp':
            l = e[1]
            return _apply_ir_layer(d, model, ('M', l[1]) if l[0] == 'Mod' else ('F', l[1]), ev(e[2], xin), None, F)
        a, b = ev(e[2], xin), ev(e[3], xin)
        assert e[1] == 0
        return a + b
    for n in gnet_term:
        if n[0] == 'GFixed':
            l = n[1]
            x = _apply_ir_layer(d, model, ('M', l[1]) if l[0] == 'Mod' else ('F', l[1]), x, None, F)
        elif n[0] == 'GBody':
            x = ev(n[1], x)
        else:
            raise ValueError('choice block left in an exported network')
    return x


def invocations(d):
    """block id -> number of call sites"""
    c = {}
    for it in d['chain']:
        if it[0] == 'block':
            c[it[1]] = c.get(it[1], 0) + 1
    return c


def build(d, torch):
    """the user model (float64, integer weights), an integer input, and the example input for tracing"""
    import torch.nn as nn
    import torch.nn.functional as F
    from plinio.methods.supernet import SuperNetModule
    C, H, W = d['C'], d['H'], d['W']
    # spatial size at the tail (after optional pool2 layers)
    npool = sum(1 for it in d['chain'] if it[0] == 'fixed' and it[1] == 'pool2')
    th, tw = H // (2 ** npool), W // (2 ** npool)

    def mk(kind):
        if kind == 'conv1':
            return nn.Conv2d(C, C, 1)
        if kind == 'conv3':
            return nn.Conv2d(C, C, 3, padding=1)
        if kind == 'conv3nb':
            return nn.Conv2d(C, C, 3, padding=1, bias=False)
        if kind == 'dw':
            return nn.Conv2d(C, C, 3, padding=1, groups=C)
        if kind == 'relu':
            return nn.ReLU()
        if kind == 'id':
            return nn.Identity()
        if kind == 'bn':
            return nn.BatchNorm2d(C)
        if kind == 'maxpool':
            return nn.MaxPool2d(3, stride=1, padding=1)
        if kind == 'pool2':
            return nn.MaxPool2d(2)
        if kind == 'flatten':
            return nn.Flatten()
        if kind == 'linear':
            return nn.Linear(C * th * tw, 3)
        raise ValueError(kind)

    def apply_fn(f, y, xin=None):
        if f == 0:
            return F.relu(y)
        if f == 1:
            return y + y
        if f == 2:
            return -y
        if f == 3:
            return y * 2
        if f == 4:
            return y.clamp(-1099511627776, 1099511627776)
        if f == 5:
            return y.abs()
        if f == 6:
            return y.flatten(0, 0)
        if f == 7:
            return F.relu(y, inplace=True)
        if f == 8:
            return y.clamp_(-1099511627776, 1099511627776)
        if f == 10:
            return y + xin
        raise ValueError(f)

    class UserMix(nn.Module):
        def __init__(self, ops):
            super().__init__()
            self.ops = [tuple(o) for o in ops]
            j = 0
            for o in self.ops:
                if o[0] == 'm':
                    setattr(self, 'm%d' % j, mk(o[1]))
                    j += 1

        def forward(self, x):
            y, j = x, 0
            for o in self.ops:
                if o[0] == 'm':
                    y = getattr(self, 'm%d' % j)(y)
                    j += 1
                else:
                    y = apply_fn(o[1], y, x)
            return y

    class UserBlock(nn.Module):
        def __init__(self, layers, fn):
            super().__init__()
            self.n = len(layers)
            self.fn = fn
            for j, l in enumerate(layers):
                setattr(self, 'm%d' % j, mk(l))

        def forward(self, x):
            for j in range(self.n):
                x = getattr(self, 'm%d' % j)(x)
            if self.fn is not None:
                x = apply_fn(self.fn, x)
            return x

    def mk_branch(br):
        if br['kind'] in ('single', 'identity'):
            return mk(br['layers'][0])
        if br['kind'] == 'seq':
            return nn.Sequential(*[mk(l) for l in br['layers']])
        if br['kind'] == 'usermix':
            um = UserMix(br['ops'])
            if br.get('tie'):
                i, j = br['tie']
                getattr(um, 'm%d' % j).weight = getattr(um, 'm%d' % i).weight      # two distinct layers, one weight Parameter
            return um
        return UserBlock(br['layers'], br['fn'])

    class SNNet(nn.Module):
        def __init__(self):
            super().__init__()
            self.chain = [tuple(it) for it in d['chain']]
            self.fx = nn.ModuleDict()
            for pos, it in enumerate(self.chain):
                if it[0] == 'fixed':
                    self.fx['p%d' % pos] = mk(it[1])
            for b, blk in enumerate(d['blocks']):
                setattr(self, 'b%d' % b, SuperNetModule([mk_branch(br) for br in blk['branches']],
                                                        gumbel_softmax=blk['gumbel'], hard_softmax=blk['hard']))

        def forward(self, x):
            for pos, it in enumerate(self.chain):
                if it[0] == 'fixed':
                    x = self.fx['p%d' % pos](x)
                elif it[0] == 'fixedref':
                    x = self.fx['p%d' % it[1]](x)
                elif it[0] == 'fn':
                    x = apply_fn(it[1], x)
                else:
                    x = getattr(self, 'b%d' % it[1])(x)
            return x

    g = torch.Generator().manual_seed(d['wseed'])
    m = SNNet().double()
    # the architectural coefficients stay float32 as in real use (only the layers are float64 for exact integer arithmetic):
    # float32 softmax ties between nearly equal coefficients must remain observable
    for mod in m.modules():
        if type(mod).__name__ == 'SuperNetCombiner':
            mod.alpha.data = mod.alpha.data.float()
            mod.theta_alpha = mod.alpha.data.clone()
    with torch.no_grad():
        for name, p in m.named_parameters():
            if name.endswith('sn_combiner.alpha'):
                continue
            p.copy_(torch.randint(-1, 3, p.shape, generator=g).double())
        # BatchNorm running statistics: non-trivial, so that an extra train-mode forward (which updates them) is visible
        for mod in m.modules():
            if isinstance(mod, nn.BatchNorm2d):
                mod.running_mean.copy_(torch.randint(-2, 3, mod.running_mean.shape, generator=g).double())
                mod.running_var.copy_(torch.randint(1, 5, mod.running_var.shape, generator=g).double() / 2)
    x = torch.randint(-3, 4, (2, C, H, W), generator=g).double()
    ex = torch.zeros(1, C, H, W, dtype=torch.float64)
    return m, x, ex


def _apply_ir_layer(d, model, l, x, xin, F):
    if l[0] == 'M':
        return model.get_submodule(d['names'][l[1]])(x)
    c = l[1]
    if c == 0:
        return F.relu(x)
    if c == 1:
        return x + x
    if c == 2:
        return -x
    if c == 3:
        return x * 2
    if c == 4:
        return x.clamp(-1099511627776, 1099511627776)
    if c == 5:
        return x.abs()
    if c == 6:
        return x.flatten(0, 0)
    if c == 7:
        return F.relu(x)
    if c == 8:
        return x.clamp(-1099511627776, 1099511627776)
    if c == 10:
        return x + xin
    raise ValueError(c)


def eval_chain(d, model, chain, x, torch):
    """evaluate a list of IR layers (('M', id) | ('F', code)) with the modules of `model` (no residual code 10 here)"""
    import torch.nn.functional as F
    for l in chain:
        x = _apply_ir_layer(d, model, l, x, None, F)
    return x


def eval_selection(d, model, win, x, torch):
    """run the fixed layers and, for every block, the branch win[block] with the user's own modules (code 10 = add the
    input of the branch: residual inside a branch)"""
    import torch.nn.functional as F
    for n in d['ir']:
        if n[0] == 'fixed':
            x = _apply_ir_layer(d, model, n[1], x, None, F)
        else:
            xin = x
            for l in n[2][win[n[1]]]:
                x = _apply_ir_layer(d, model, l, x, xin, F)
    return x


def combiners(d, sn):
    """block id -> SuperNetCombiner of the SuperNet wrapper `sn`"""
    return {b: sn.seed.get_submodule('b%d.sn_combiner' % b) for b in range(len(d['blocks']))}


WRITE_METHODS = ('copy', 'data_assign', 'data_copy', 'data_index', 'new_param')


def set_alpha(d, sn, alphas, torch, method='copy'):
    """write the selection coefficients the ways user code does:
    copy        with torch.no_grad(): alpha.copy_(t)
    data_assign alpha.data = t
    data_copy   alpha.data.copy_(t)
    data_index  alpha.data[i] = t[i] for every i
    new_param   combiner.alpha = nn.Parameter(t)   (same requires_grad)"""
    for b, c in combiners(d, sn).items():
        t = torch.tensor(alphas[b], dtype=torch.float32)
        if method == 'copy':
            with torch.no_grad():
                c.alpha.copy_(t)
        elif method == 'data_assign':
            c.alpha.data = t
        elif method == 'data_copy':
            c.alpha.data.copy_(t)
        elif method == 'data_index':
            for i in range(len(alphas[b])):
                c.alpha.data[i] = t[i]
        elif method == 'new_param':
            c.alpha = torch.nn.Parameter(t, requires_grad=c.alpha.requires_grad)
        else:
            raise ValueError(method)


def gen_alpha(rng, n, winner=None, tie=False):
    """float32-exact coefficients with pairwise gaps >= 1/16 (multiples of 1/16, distinct), any sign; `winner` gets the max;
    tie=True repeats the maximum (arg-max must then take the first)"""
    vals = rng.sample(range(-24, 40), n)
    a = [v / 16.0 for v in vals]
    if winner is not None:
        mx = max(range(n), key=lambda i: a[i])
        a[mx], a[winner] = a[winner], a[mx]
    if tie and n >= 2:
        mx = max(range(n), key=lambda i: a[i])
        other = rng.choice([i for i in range(n) if i != mx])
        a[other] = a[mx]
    return a


def f32(x):
    import struct
    return struct.unpack('f', struct.pack('f', x))[0]


def f32_up(x, n):
    """the float32 n ulps above x (x != 0)"""
    import struct
    b = struct.unpack('i', struct.pack('f', x))[0]
    b += n if x > 0 else -n
    return struct.unpack('f', struct.pack('i', b))[0]


NEAR_GAPS = ('1ulp', '2ulp', '4ulp', '1e-6')


def gen_alpha_neartie(rng, k, gap, runner):
    """float32 coefficients whose unique maximum is `gap` (1/2/4 ulps or 1e-6) above a runner-up that sits at an
    EARLIER (runner='earlier') or LATER index; every other coefficient is >= 0.2 below.  float32 softmax may round the
    two to the same value: arg-max of the softmax is then the first of them, arg-max of the raw coefficients is not."""
    base = f32(rng.choice([0.3, 0.7, 1.25, 0.05, 2.5, -0.3, -1.5, 0.1]))
    top = f32_up(base, int(gap[0])) if gap.endswith('ulp') else f32(base + 1e-6)
    assert top > base
    if k < 2:
        return [top], 0
    if runner == 'earlier':
        w = rng.randrange(1, k)
        r = rng.randrange(0, w)
    else:
        w = rng.randrange(0, k - 1)
        r = rng.randrange(w + 1, k)
    a = [f32(base - 0.2 - rng.randrange(0, 32) / 16.0) for _ in range(k)]
    a[w], a[r] = top, base
    return a, w


def graph_sequence(gm, d):
    """the node sequence of an fx GraphModule as IR layers: call_module -> ('M', qualified name), call_function /
    call_method -> ('F', code) (unknown ones -> their name, which never matches the model)"""
    import operator
    import torch
    import torch.nn.functional as F
    fmap = {F.relu: 0, torch.relu: 0, operator.neg: 2, operator.mul: 3}
    mmap = {'clamp': 4, 'abs': 5, 'flatten': 6, 'clamp_': 8}
    seq = []
    for n in gm.graph.nodes:
        if n.op == 'call_module':
            seq.append(('M', str(n.target)))
        elif n.op == 'call_function':
            if n.target is operator.add:
                seq.append(('F', 1 if (len(n.args) == 2 and n.args[0] is n.args[1]) else 10))
            elif n.target in (F.relu, torch.relu) and n.kwargs.get('inplace', False):
                seq.append(('F', 7))
            else:
                seq.append(('F', fmap.get(n.target, str(n.target))))
        elif n.op == 'call_method':
            seq.append(('F', mmap.get(str(n.target), 'method:' + str(n.target))))
    return seq
