"""Python-ast -> Coq translator for the closed-form cost models of plinio/cost (DESIGN.md §C16).

Symbolically executes every cost function registered in a `CostSpec` of the translated modules over a
WHITELIST of syntax and emits terms of the deep embedding `Plinio.Base.Expr.expr`, the guards that the
functions' `assert`s impose, the registration table of every spec and the reflective obligations.
Fail-closed: any construct outside the whitelist raises `Untranslatable` for that function; the
function is then reported (by name, with the reason) as a broken obligation by the check — it is never
silently dropped or approximated.

Whitelisted: reads of `spec[<key>]` for the keys of VARS, tuple unpacking / constant indexing /
`[2:]` slicing of `kernel_size` and `output_shape`, `+ - * / //`, int/float literals (decimal literals
become exact fractions), local assignments, `return`, `assert` of `x in [..]` / `x == c` joined by
`and`, the idiom `1 if spec['_parameters']['bias'] is not None else 0`, `.item()`, `torch.floor`,
`math.floor`, `torch.floor_divide`, `torch.tensor(<x>)`, `float(<x>)`, a conditional on `isinstance(..)` whose
body only coerces (re-assigns a name to the same value), `torch.tensor([<literals>]).mean()`,
nested dict literals of constants indexed twice by terms (look-up table), calls of module-level
functions of plinio/cost (inlined, also across `from .x import f`) and `<Class>.apply(..)` of
`torch.autograd.Function` subclasses (their `forward` is inlined; `backward` is not modelled).
"""
import ast, os, sys
from fractions import Fraction

MODULES = ['params', 'params_no_bias', 'params_bit', 'ops', 'ops_no_bias', 'ops_bit',
           'gap8_latency', 'mpic_latency', 'mpic_energy']
# specs whose depthwise entry must equal the generic one evaluated per group (hardware independent)
HW_INDEPENDENT = ['params', 'params_no_bias', 'params_bit', 'ops', 'ops_no_bias', 'ops_bit']

VARS = {'in_channels': 0, 'in_features': 0, 'out_channels': 1, 'out_features': 1,
        'w_precision': 6, 'in_precision': 7, 'a_precision': 7, 'groups': 9, 'w_theta_alpha': 10}
# straight-through rounding helpers of the HAND-modelled files, pinned to the definitions of Model/CostFns.v:
# (module, class or function, Gallina function of Model/CostFns.v).  Their `forward` is translated with the two
# arguments as EVar 0 / EVar 1 and must be provably equal to the hand definition for all rationals.
PINS = [('ne16_latency', 'FloorDivideSTE', 'floor_divide'), ('ne16_latency', 'ModuloSTE', 'modulo'), ('ne16_latency', 'DivAndCeilSTE', 'div_and_ceil'),
        ('diana_latency', 'FloorSTE', 'floor_ste'), ('diana_latency', '_floor', 'floor_ste'),
        ('gap8_latency', 'FloorSTE', 'floor_ste'), ('gap8_latency', '_floor', 'floor_ste'),
        ('diana_latency', 'GateSTE', 'gate')]
# whole functions of a hand-modelled file that ARE within the whitelist, pinned to their Gallina definition applied to the
# environment entries listed (module, function taking `spec`, Gallina function, argument variables)
SPEC_PINS = [('diana_latency', '_digital_cycles', 'diana_digital_cycles', ('V_cin', 'V_cout', 'V_groups', 'V_k0', 'V_k1', 'V_o2', 'V_o3'))]
V_K0, V_K1, V_O2, V_O3, V_BIAS = 2, 3, 4, 5, 8
NVARS = 11
VAR_NAMES = ['cin', 'cout', 'k0', 'k1', 'o2', 'o3', 'w_prec', 'in_prec', 'bias', 'groups', 'theta']


class Untranslatable(Exception):
    pass


# ----------------------------------------------------------------------------- symbolic values
class Spec:            # the `spec` dict
    pass


class SpecParams:      # spec['_parameters']
    pass


class BiasRef:         # spec['_parameters']['bias']
    pass


class Unknown:         # an entry of output_shape that no cost model may read (batch / channel entry)
    def __init__(self, what):
        self.what = what


class DictSel:         # <dict literal>[term]  waiting for the second index
    def __init__(self, d, idx):
        self.d, self.idx = d, idx


def is_term(v):
    return isinstance(v, tuple) and v and isinstance(v[0], str) and v[0] in ('var', 'const', 'add', 'mul', 'sub', 'div', 'floor', 'lut2', 'gate')


class GeTest:          # the boolean tensor `a >= b`, waiting for .float()
    def __init__(self, a, b):
        self.a, self.b = a, b


def has_gate(t):
    return isinstance(t, tuple) and (t[0] == 'gate' or any(has_gate(x) for x in t[1:] if isinstance(x, tuple)))


def const(x):
    return ('const', Fraction(x))


def binop(op, a, b):
    if not (is_term(a) and is_term(b)):
        raise Untranslatable('arithmetic on a non-numeric value (%s)' % op)
    if a[0] == 'const' and b[0] == 'const':
        x, y = a[1], b[1]
        if op == 'add':
            return const(x + y)
        if op == 'sub':
            return const(x - y)
        if op == 'mul':
            return const(x * y)
        if op == 'div':
            if y == 0:
                raise Untranslatable('division by the constant zero')
            return const(x / y)
    return (op, a, b)


def floor_(a):
    if not is_term(a):
        raise Untranslatable('floor of a non-numeric value')
    if a[0] == 'const':
        return const(a[1].numerator // a[1].denominator)
    return ('floor', a)


# ----------------------------------------------------------------------------- module loading
class Module:
    """one plinio/cost module: its source and what every module-level name is BOUND to when the module has been
    executed — the last top-level statement that binds the name wins, exactly as in Python:
      ('func', FunctionDef) | ('class', ClassDef) | ('import', (sibling module, name)) | ('lib', 'torch'|'math'|..)
      | ('other', line)   anything the translator cannot see through (assignment, absolute import, conditional def...)"""
    def __init__(self, repo, name):
        self.name = name
        self.path = os.path.join(repo, 'plinio', 'cost', name + '.py')
        self.src = open(self.path).read()
        self.tree = ast.parse(self.src)
        self.bind = {}
        self.star = None
        for n in self.tree.body:
            if isinstance(n, ast.FunctionDef):
                self.bind[n.name] = ('func', n)
            elif isinstance(n, ast.ClassDef):
                self.bind[n.name] = ('class', n)
            elif isinstance(n, ast.ImportFrom):
                for a in n.names:
                    if a.name == '*':
                        self.star = n.lineno
                    elif n.level == 1 and n.module:
                        self.bind[a.asname or a.name] = ('import', (n.module, a.name))
                    else:
                        self.bind[a.asname or a.name] = ('other', n.lineno)
            elif isinstance(n, ast.Import):
                for a in n.names:
                    self.bind[a.asname or a.name.split('.')[0]] = ('lib', a.name) if (a.asname or '.' not in a.name) else ('other', n.lineno)
            else:
                for sub in ast.walk(n):       # assignments, conditional / nested definitions, loops, with, try, del ...
                    if isinstance(sub, (ast.FunctionDef, ast.AsyncFunctionDef, ast.ClassDef)):
                        self.bind[sub.name] = ('other', sub.lineno)
                    elif isinstance(sub, ast.Name) and isinstance(sub.ctx, (ast.Store, ast.Del)):
                        self.bind[sub.id] = ('other', sub.lineno)
                    elif isinstance(sub, (ast.Import, ast.ImportFrom)):
                        for a in sub.names:
                            self.bind[a.asname or a.name.split('.')[0]] = ('other', sub.lineno)


class Translator:
    def __init__(self, repo):
        self.repo = repo
        self.mods = {}

    def mod(self, name):
        if name not in self.mods:
            self.mods[name] = Module(self.repo, name)
        return self.mods[name]

    def resolve(self, m, name, want, depth=0):
        """the definition `name` is bound to in module m, following `from .x import name` chains: -> (module, node).
        Fail closed when the binding is anything else than a visible def/class of a plinio/cost module."""
        if m.star is not None:
            raise Untranslatable('%s has a star import (line %d): bindings cannot be resolved' % (m.name, m.star))
        if name not in m.bind:
            raise Untranslatable('%s is not bound in %s' % (name, m.name))
        kind, val = m.bind[name]
        if kind == want:
            return m, val
        if kind == 'import' and depth < 4:
            try:
                m2 = self.mod(val[0])
            except (OSError, SyntaxError) as ex:
                raise Untranslatable('%s imports %s from %s which cannot be read (%s)' % (m.name, name, val[0], type(ex).__name__))
            return self.resolve(m2, val[1], want, depth + 1)
        raise Untranslatable('%s in %s is bound to a %s, not to a visible %s' % (name, m.name, kind if kind != 'other' else 'value the translator cannot see through (line %s)' % val, want))

    def is_lib(self, m, name):
        return m.star is None and m.bind.get(name) == ('lib', name)

    # -- one function
    def translate_function(self, modname, fname):
        """-> (guards, body term).  guards: list of (term, [Fraction])"""
        m, fdef = self.resolve(self.mod(modname), fname, 'func')
        guards = []
        body = self.call_function(m, fdef, [Spec()], guards, depth=0)
        if not is_term(body):
            raise Untranslatable('%s.%s does not return a number' % (modname, fname))
        return guards, body

    def translate_helper(self, modname, name):
        """term of a two-argument helper (autograd Function -> its forward; plain function) over EVar 0, EVar 1"""
        m = self.mod(modname)
        args = [('var', 0), ('var', 1)]
        guards = []
        try:
            cm, cdef = self.resolve(m, name, 'class')
        except Untranslatable:
            cdef = None
        if cdef is not None:
            fwd = [n for n in cdef.body if isinstance(n, ast.FunctionDef) and n.name == 'forward']
            if len(fwd) != 1:
                raise Untranslatable('%s has no forward' % name)
            body = self.call_function(cm, fwd[0], args, guards, 1, skip_first=True)
        else:
            fm, fdef = self.resolve(m, name, 'func')
            body = self.call_function(fm, fdef, args, guards, 1)
        if guards or not is_term(body):
            raise Untranslatable('helper %s.%s is not a plain arithmetic function' % (modname, name))
        return body

    def call_function(self, m, fdef, args, guards, depth, skip_first=False):
        if depth > 8:
            raise Untranslatable('call depth')
        a = fdef.args
        if a.vararg or a.kwarg or a.kwonlyargs or a.posonlyargs:
            raise Untranslatable('unsupported signature of %s' % fdef.name)
        params = [p.arg for p in a.args]
        if skip_first:
            params = params[1:]
        defaults = a.defaults
        env = {}
        if len(args) > len(params):
            raise Untranslatable('too many arguments for %s' % fdef.name)
        for i, p in enumerate(params):
            if i < len(args):
                env[p] = args[i]
            else:
                j = i - (len(params) - len(defaults))
                if j < 0:
                    raise Untranslatable('missing argument %s of %s' % (p, fdef.name))
                env[p] = self.expr(m, defaults[j], {}, guards, depth)
        for st in fdef.body:
            r = self.stmt(m, st, env, guards, depth)
            if r is not None:
                return r[0]
        raise Untranslatable('%s has no return on the straight-line path' % fdef.name)

    def stmt(self, m, st, env, guards, depth):
        if isinstance(st, ast.Expr) and isinstance(st.value, ast.Constant) and isinstance(st.value.value, str):
            return None                                    # docstring
        if isinstance(st, ast.Expr) and isinstance(st.value, ast.Call) and isinstance(st.value.func, ast.Attribute) \
                and isinstance(st.value.func.value, ast.Name) and st.value.func.value.id == 'ctx' and 'ctx' not in env:
            return None                                    # autograd bookkeeping of a Function.forward (ctx.save_for_backward(..))
        if isinstance(st, ast.Return):
            if st.value is None:
                raise Untranslatable('bare return')
            return (self.expr(m, st.value, env, guards, depth),)
        if isinstance(st, ast.Assign):
            if len(st.targets) != 1:
                raise Untranslatable('chained assignment')
            v = self.expr(m, st.value, env, guards, depth)
            t = st.targets[0]
            if isinstance(t, ast.Name):
                env[t.id] = v
            elif isinstance(t, ast.Tuple) and all(isinstance(e, ast.Name) for e in t.elts):
                if not isinstance(v, list) or len(v) != len(t.elts):
                    raise Untranslatable('tuple unpacking of a value that is not a %d-tuple (line %d)' % (len(t.elts), st.lineno))
                for e, x in zip(t.elts, v):
                    env[e.id] = x
            else:
                raise Untranslatable('assignment target (line %d)' % st.lineno)
            return None
        if isinstance(st, ast.Assert):
            self.guard(m, st.test, env, guards, depth)
            return None
        if isinstance(st, ast.If) and not st.orelse and self.is_type_test(st.test):
            # `if not isinstance(x, torch.Tensor): x = torch.tensor(float(x))`: a conditional on the Python TYPE of a
            # value whose body only re-assigns names to the same symbolic value (coercions) is a no-op
            for b in st.body:
                if not (isinstance(b, ast.Assign) and len(b.targets) == 1 and isinstance(b.targets[0], ast.Name) and b.targets[0].id in env):
                    raise Untranslatable('type-test conditional with a body other than coercions (line %d of %s)' % (st.lineno, m.name))
                if self.expr(m, b.value, env, guards, depth) != env[b.targets[0].id]:
                    raise Untranslatable('type-test conditional changes the value of %s (line %d of %s)' % (b.targets[0].id, st.lineno, m.name))
            return None
        raise Untranslatable('statement %s (line %d of %s)' % (type(st).__name__, st.lineno, m.name))

    @staticmethod
    def is_type_test(t):
        if isinstance(t, ast.UnaryOp) and isinstance(t.op, ast.Not):
            t = t.operand
        return isinstance(t, ast.Call) and isinstance(t.func, ast.Name) and t.func.id in ('isinstance', 'hasattr') and len(t.args) == 2 and isinstance(t.args[0], ast.Name)

    def guard(self, m, t, env, guards, depth):
        if isinstance(t, ast.BoolOp) and isinstance(t.op, ast.And):
            for v in t.values:
                self.guard(m, v, env, guards, depth)
            return
        if isinstance(t, ast.Compare) and len(t.ops) == 1:
            left = self.expr(m, t.left, env, guards, depth)
            right = self.expr(m, t.comparators[0], env, guards, depth)
            if isinstance(t.ops[0], ast.In) and is_term(left) and isinstance(right, list) and all(is_term(x) and x[0] == 'const' for x in right):
                guards.append((left, [x[1] for x in right]))
                return
            if isinstance(t.ops[0], ast.Eq) and is_term(left) and is_term(right) and right[0] == 'const':
                guards.append((left, [right[1]]))
                return
        raise Untranslatable('assert condition outside the whitelist (line %d of %s)' % (t.lineno, m.name))

    def lit(self, m, node):
        """exact value of a numeric literal: decimal source text -> Fraction"""
        v = node.value
        if isinstance(v, bool) or not isinstance(v, (int, float)):
            raise Untranslatable('constant %r' % (v,))
        if isinstance(v, int):
            return const(v)
        seg = ast.get_source_segment(m.src, node)
        try:
            return const(Fraction(seg.replace('_', '')))
        except Exception:
            return const(Fraction(repr(v)))

    def expr(self, m, e, env, guards, depth):
        ev = lambda x: self.expr(m, x, env, guards, depth)
        if isinstance(e, ast.Constant):
            if e.value is None:
                return None
            return self.lit(m, e)
        if isinstance(e, ast.Name):
            if e.id in env:
                return env[e.id]
            raise Untranslatable('free name %s (line %d of %s)' % (e.id, e.lineno, m.name))
        if isinstance(e, ast.UnaryOp) and isinstance(e.op, ast.USub):
            return binop('sub', const(0), ev(e.operand))
        if isinstance(e, ast.BinOp):
            ops = {ast.Add: 'add', ast.Sub: 'sub', ast.Mult: 'mul', ast.Div: 'div'}
            a, b = ev(e.left), ev(e.right)
            if isinstance(e.op, ast.FloorDiv):
                return floor_(binop('div', a, b))
            if isinstance(e.op, ast.Mod):            # a % b = a - b * floor(a / b)   (Python / torch semantics for b > 0)
                return binop('sub', a, binop('mul', b, floor_(binop('div', a, b))))
            if type(e.op) in ops:
                return binop(ops[type(e.op)], a, b)
            raise Untranslatable('operator %s (line %d of %s)' % (type(e.op).__name__, e.lineno, m.name))
        if isinstance(e, ast.Compare) and len(e.ops) == 1 and isinstance(e.ops[0], ast.GtE):
            a, b = ev(e.left), ev(e.comparators[0])
            if is_term(a) and is_term(b):
                return GeTest(a, b)
            raise Untranslatable('>= on non-numeric values (line %d of %s)' % (e.lineno, m.name))
        if isinstance(e, (ast.Tuple, ast.List)):
            return [ev(x) for x in e.elts]
        if isinstance(e, ast.Dict):
            d = {}
            for k, v in zip(e.keys, e.values):
                kk = ev(k)
                if not (is_term(kk) and kk[0] == 'const'):
                    raise Untranslatable('dict key is not a numeric literal')
                d[kk[1]] = ev(v)
            return d
        if isinstance(e, ast.IfExp) and self.is_type_test(e.test):
            # `x.item() if isinstance(x, torch.Tensor) else x`: a choice on the Python TYPE between two expressions of
            # the same symbolic value
            a, b = ev(e.body), ev(e.orelse)
            if is_term(a) and a == b:
                return a
            raise Untranslatable('type-test conditional expression whose branches differ (line %d of %s)' % (e.lineno, m.name))
        if isinstance(e, ast.IfExp):
            # 1 if spec['_parameters']['bias'] is not None else 0   (or the mirrored form)
            t = e.test
            if isinstance(t, ast.Compare) and len(t.ops) == 1 and isinstance(t.comparators[0], ast.Constant) and t.comparators[0].value is None \
                    and isinstance(ev(t.left), BiasRef):
                a, b = ev(e.body), ev(e.orelse)
                if isinstance(t.ops[0], ast.Is):
                    a, b = b, a
                elif not isinstance(t.ops[0], ast.IsNot):
                    raise Untranslatable('bias test')
                if a == const(1) and b == const(0):
                    return ('var', V_BIAS)
            raise Untranslatable('conditional expression other than the bias idiom (line %d of %s)' % (e.lineno, m.name))
        if isinstance(e, ast.Subscript):
            base = ev(e.value)
            sl = e.slice
            if isinstance(base, Spec):
                if not (isinstance(sl, ast.Constant) and isinstance(sl.value, str)):
                    raise Untranslatable('spec[...] with a non-literal key')
                k = sl.value
                if k in VARS:
                    return ('var', VARS[k])
                if k == 'kernel_size':
                    return [('var', V_K0), ('var', V_K1)]
                if k == 'output_shape':
                    return [Unknown('output_shape[0]'), Unknown('output_shape[1]'), ('var', V_O2), ('var', V_O3)]
                if k == '_parameters':
                    return SpecParams()
                raise Untranslatable('unknown spec key %r (line %d of %s)' % (k, e.lineno, m.name))
            if isinstance(base, SpecParams):
                if isinstance(sl, ast.Constant) and sl.value == 'bias':
                    return BiasRef()
                raise Untranslatable('spec[_parameters][...] other than bias')
            if isinstance(base, list):
                if isinstance(sl, ast.Constant) and isinstance(sl.value, int) and 0 <= sl.value < len(base):
                    return base[sl.value]
                if isinstance(sl, ast.Slice) and sl.upper is None and sl.step is None and isinstance(sl.lower, ast.Constant) and isinstance(sl.lower.value, int) and sl.lower.value >= 0:
                    return base[sl.lower.value:]
                raise Untranslatable('tuple index outside the whitelist (line %d of %s)' % (e.lineno, m.name))
            if isinstance(base, dict):
                idx = ev(sl)
                if not is_term(idx):
                    raise Untranslatable('table index is not numeric')
                if idx[0] == 'const':
                    if idx[1] not in base:
                        raise Untranslatable('constant key missing from table')
                    return base[idx[1]]
                return DictSel(base, idx)
            if isinstance(base, DictSel):
                idx = ev(sl)
                if not is_term(idx):
                    raise Untranslatable('table index is not numeric')
                rows = []
                keys0 = None
                for k in sorted(base.d):
                    row = base.d[k]
                    if not isinstance(row, dict) or not all(is_term(v) and v[0] == 'const' for v in row.values()):
                        raise Untranslatable('look-up table is not a dict of dicts of constants')
                    ks = sorted(row)
                    if keys0 is None:
                        keys0 = ks
                    elif ks != keys0:
                        raise Untranslatable('look-up table rows have different keys')
                    rows.append((k, [(kk, row[kk][1]) for kk in ks]))
                # indexing a dict with a key it does not have raises: implicit guards
                guards.append((base.idx, sorted(base.d)))
                guards.append((idx, keys0))
                return ('lut2', rows, base.idx, idx)
            raise Untranslatable('subscript of %s (line %d of %s)' % (type(base).__name__, e.lineno, m.name))
        if isinstance(e, ast.Call):
            if e.keywords:
                raise Untranslatable('keyword arguments in a call (line %d of %s)' % (e.lineno, m.name))
            f = e.func
            # (a >= b).float(): the 0/1 gate (only the hand-modelled files use it; pinned to Model/CostFns.gate)
            if isinstance(f, ast.Attribute) and f.attr == 'float' and not e.args:
                v = ev(f.value)
                if isinstance(v, GeTest):
                    return ('gate', v.a, v.b)
                raise Untranslatable('.float() of something that is not a >= comparison (line %d of %s)' % (e.lineno, m.name))
            # x.item()
            if isinstance(f, ast.Attribute) and f.attr == 'item' and not e.args:
                v = ev(f.value)
                if is_term(v):
                    return v
                raise Untranslatable('.item() of a non-number')
            # torch.tensor([...]).mean()
            if isinstance(f, ast.Attribute) and f.attr == 'mean' and not e.args:
                v = ev(f.value)
                if isinstance(v, list) and v and all(is_term(x) and x[0] == 'const' for x in v):
                    return const(sum(x[1] for x in v) / len(v))
                raise Untranslatable('.mean() of something that is not a list of literals')
            if isinstance(f, ast.Attribute) and isinstance(f.value, ast.Name) and f.value.id in ('torch', 'math') and f.value.id not in env:
                if not self.is_lib(m, f.value.id):
                    raise Untranslatable('%s is not the %s library in %s (line %d)' % (f.value.id, f.value.id, m.name, e.lineno))
                args = [ev(x) for x in e.args]
                if f.attr == 'floor' and len(args) == 1:
                    return floor_(args[0])
                if f.attr == 'floor_divide' and f.value.id == 'torch' and len(args) == 2:
                    return floor_(binop('div', args[0], args[1]))
                if f.attr in ('tensor', 'as_tensor') and f.value.id == 'torch' and len(args) == 1:
                    return args[0]
                raise Untranslatable('%s.%s is outside the whitelist (line %d of %s)' % (f.value.id, f.attr, e.lineno, m.name))
            # Class.apply(...)
            if isinstance(f, ast.Attribute) and f.attr == 'apply' and isinstance(f.value, ast.Name):
                cname = f.value.id
                if cname in env:
                    raise Untranslatable('.apply on the local value %s' % cname)
                cm, cdef = self.resolve(m, cname, 'class')
                fwd = [n for n in cdef.body if isinstance(n, ast.FunctionDef) and n.name == 'forward']
                if len(fwd) != 1:
                    raise Untranslatable('%s has no forward' % cname)
                return self.call_function(cm, fwd[0], [ev(x) for x in e.args], guards, depth + 1, skip_first=True)
            # float(x): value-preserving coercion
            if isinstance(f, ast.Name) and f.id == 'float' and len(e.args) == 1 and 'float' not in env and 'float' not in m.bind:
                v = ev(e.args[0])
                if is_term(v):
                    return v
                raise Untranslatable('float() of a non-number')
            # module-level function
            if isinstance(f, ast.Name):
                if f.id in env:
                    raise Untranslatable('call of the local value %s (line %d of %s)' % (f.id, e.lineno, m.name))
                fm, fdef = self.resolve(m, f.id, 'func')
                return self.call_function(fm, fdef, [ev(x) for x in e.args], guards, depth + 1)
            raise Untranslatable('call form outside the whitelist (line %d of %s)' % (e.lineno, m.name))
        raise Untranslatable('expression %s (line %d of %s)' % (type(e).__name__, getattr(e, 'lineno', 0), m.name))

    # -- registration tables
    def specs_of(self, modname):
        """[(spec variable, shared, default_behavior, [(pattern name, function name)])]"""
        m = self.mod(modname)
        specs = {}
        order = []
        for n in m.tree.body:
            if isinstance(n, ast.Assign) and len(n.targets) == 1:
                t, v = n.targets[0], n.value
                if isinstance(t, ast.Name) and isinstance(v, ast.Call) and isinstance(v.func, ast.Name) and v.func.id == 'CostSpec':
                    kw = {k.arg: k.value for k in v.keywords}
                    if v.args or set(kw) - {'shared', 'default_behavior'} or not all(isinstance(x, ast.Constant) for x in kw.values()):
                        raise Untranslatable('CostSpec(...) arguments of %s' % modname)
                    specs[t.id] = {'name': t.id, 'module': modname, 'shared': kw['shared'].value if 'shared' in kw else True,
                                   'default': kw['default_behavior'].value if 'default_behavior' in kw else 'zero', 'entries': []}
                    order.append(t.id)
                elif isinstance(t, ast.Subscript) and isinstance(t.value, ast.Name) and t.value.id in specs:
                    if not (isinstance(t.slice, ast.Name) and isinstance(v, ast.Name)):
                        raise Untranslatable('registration form in %s line %d' % (modname, n.lineno))
                    specs[t.value.id]['entries'].append((t.slice.id, v.id))
        return [specs[k] for k in order]


# ----------------------------------------------------------------------------- whole package
def coq_name(modname, fname):
    return '%s__%s' % (modname, fname.lstrip('_'))


def translate_repo(repo, modules=MODULES):
    """-> {'specs': [...], 'functions': {coq name: {...}}, 'errors': {coq name: reason}}"""
    tr = Translator(repo)
    out = {'specs': [], 'functions': {}, 'errors': {}, 'repo': repo}
    for mod in modules:
        try:
            specs = tr.specs_of(mod)
        except (Untranslatable, OSError, SyntaxError) as ex:
            out['errors']['%s__registration' % mod] = '%s: %s' % (type(ex).__name__, ex)
            continue
        if not specs:
            out['errors']['%s__registration' % mod] = 'no CostSpec found in %s' % mod
        for sp in specs:
            ents = []
            for pat, fname in sp['entries']:
                cn = coq_name(mod, fname)
                if cn not in out['functions'] and cn not in out['errors']:
                    try:
                        guards, body = tr.translate_function(mod, fname)
                        if has_gate(body) or any(has_gate(g) for g, _ in guards):
                            raise Untranslatable('a >= gate in a translated cost function (the Expr embedding has no such node)')
                        out['functions'][cn] = {'module': mod, 'py_name': fname, 'guards': guards, 'body': body}
                    except Untranslatable as ex:
                        out['errors'][cn] = 'untranslatable: %s' % ex
                    except RecursionError:
                        out['errors'][cn] = 'untranslatable: recursion'
                ents.append((pat, fname, cn))
            sp = dict(sp, entries=ents)
            out['specs'].append(sp)
    out['pins'] = {}
    for mod, name, gallina in PINS:
        pn = 'pin__%s__%s' % (mod, name.lstrip('_'))
        try:
            out['pins'][pn] = {'module': mod, 'py_name': name, 'gallina': gallina, 'term': tr.translate_helper(mod, name)}
        except (Untranslatable, OSError, SyntaxError) as ex:
            out['errors'][pn] = 'untranslatable: %s' % ex
        except RecursionError:
            out['errors'][pn] = 'untranslatable: recursion'
    for mod, name, gallina, argvars in SPEC_PINS:
        pn = 'pin__%s__%s' % (mod, name.lstrip('_'))
        try:
            guards, body = tr.translate_function(mod, name)
            if guards:
                raise Untranslatable('%s.%s has asserts' % (mod, name))
            out['pins'][pn] = {'module': mod, 'py_name': name, 'gallina': gallina, 'term': body, 'args': argvars}
        except (Untranslatable, OSError, SyntaxError) as ex:
            out['errors'][pn] = 'untranslatable: %s' % ex
        except RecursionError:
            out['errors'][pn] = 'untranslatable: recursion'
    return out


# ----------------------------------------------------------------------------- exact evaluation in Python (mirror of Expr.eval / run_cost)
def step1(row, x, acc):
    for k, v in row:
        if k <= x:
            acc = v
        else:
            break
    return acc


def step2(rows, a, w):
    acc = []
    for k, row in rows:
        if k <= a:
            acc = row
        else:
            break
    return step1(acc, w, Fraction(0))


def py_eval(t, r):
    tag = t[0]
    if tag == 'var':
        return r[t[1]]
    if tag == 'const':
        return t[1]
    if tag == 'floor':
        v = py_eval(t[1], r)
        return Fraction(v.numerator // v.denominator)
    if tag == 'lut2':
        return step2(t[1], py_eval(t[2], r), py_eval(t[3], r))
    a, b = py_eval(t[1], r), py_eval(t[2], r)
    if tag == 'add':
        return a + b
    if tag == 'sub':
        return a - b
    if tag == 'mul':
        return a * b
    if tag == 'div':
        return a / b if b != 0 else Fraction(0)      # Coq's Q: x / 0 = 0
    raise ValueError(tag)


def py_run(fn, r):
    for g, vals in fn['guards']:
        if py_eval(g, r) not in vals:
            return None
    return py_eval(fn['body'], r)


# ----------------------------------------------------------------------------- Coq output
def q(x):
    return '(%d # %d)' % (x.numerator, x.denominator)


def coq_term(t):
    tag = t[0]
    if tag == 'var':
        return '(EVar %d)' % t[1]
    if tag == 'const':
        return '(EConst %s)' % q(t[1])
    if tag == 'floor':
        return '(EFloor %s)' % coq_term(t[1])
    if tag == 'lut2':
        rows = '; '.join('(%s, [%s])' % (q(k), '; '.join('(%s, %s)' % (q(kk), q(v)) for kk, v in row)) for k, row in t[1])
        return '(ELut2 [%s] %s %s)' % (rows, coq_term(t[2]), coq_term(t[3]))
    return '(%s %s %s)' % ({'add': 'EAdd', 'sub': 'ESub', 'mul': 'EMul', 'div': 'EDiv'}[tag], coq_term(t[1]), coq_term(t[2]))


def gallina_term(t):
    """a term as a Gallina expression over Q and the environment r (used by the pins: no Expr node needed)"""
    tag = t[0]
    if tag == 'var':
        return '(r %d%%nat)' % t[1]
    if tag == 'const':
        return q(t[1])
    if tag == 'floor':
        return '(inject_Z (Qfloor %s))' % gallina_term(t[1])
    if tag == 'gate':
        return '(gate %s %s)' % (gallina_term(t[1]), gallina_term(t[2]))
    if tag in ('add', 'sub', 'mul', 'div'):
        return '(%s %s %s)' % (gallina_term(t[1]), {'add': '+', 'sub': '-', 'mul': '*', 'div': '/'}[tag], gallina_term(t[2]))
    raise Untranslatable('no Gallina form for %s' % tag)


def obligations(res):
    """names of the generated lemmas, in file order: [(lemma name, kind, function/spec)]"""
    obs = []
    for cn in res['functions']:
        obs.append((cn + '_ok', 'okb', cn))
        obs.append((cn + '_pos', 'posb', cn))
    for sp in res['specs']:
        if sp['name'] in HW_INDEPENDENT:
            ent = {p: cn for p, _, cn in sp['entries']}
            for d in ('1d', '2d'):
                g, w = ent.get('Conv%sGeneric' % d), ent.get('Conv%sDW' % d)
                if g in res['functions'] and w in res['functions']:
                    obs.append(('%s_conv%s_dw_eq_generic' % (sp['name'], d), 'dw', (w, g)))
    for pn in res.get('pins', {}):
        obs.append((pn, 'pin', pn))
    return obs


def emit_coq(res, skip=()):
    """text of Gen/CostGen.v.  `skip`: lemma names to leave out (obligations that do not check; the
    check reports them as broken) — the file then still compiles and lists them in a comment."""
    L = []
    L.append('(* GENERATED by /verif/translator/cost2coq.py from plinio/cost/*.py of the tree under test — do not edit.')
    L.append('   One [cfun] per registered cost function, the registration table of every CostSpec, and the')
    L.append('   reflective obligations (okb / posb by vm_compute, depthwise = generic per group by ring). *)')
    L.append('From Coq Require Import QArith Qround List String Ring.')
    L.append('Require Import Plinio.Base.Qx Plinio.Base.Expr Plinio.Model.CostFns.')
    L.append('Import ListNotations.')
    L.append('Open Scope Q_scope.')
    L.append('')
    for cn, err in res['errors'].items():
        L.append('(* NOT TRANSLATED %s: %s *)' % (cn, err.replace('*)', '* )').replace('(*', '( *')))
    for s in skip:
        L.append('(* OBLIGATION DOES NOT CHECK: %s *)' % s)
    L.append('')
    for cn, f in res['functions'].items():
        gs = '; '.join('GIn %s [%s]' % (coq_term(g), '; '.join(q(v) for v in vals)) for g, vals in f['guards'])
        L.append('(* %s.%s *)' % (f['module'], f['py_name']))
        L.append('Definition %s : cfun := {| cf_guards := [%s]; cf_body := %s |}.' % (cn, gs, coq_term(f['body'])))
        if cn + '_ok' not in skip:
            L.append('Lemma %s_ok : okb (cf_body %s) = true.' % (cn, cn))
            L.append('Proof. vm_compute. reflexivity. Qed.')
            L.append('Corollary %s_mono_nonneg : forall r r\', (forall i, 0 <= r i) -> (forall i, r i <= r\' i) ->' % cn)
            L.append('  0 <= eval r (cf_body %s) /\\ eval r (cf_body %s) <= eval r\' (cf_body %s).' % (cn, cn, cn))
            L.append('Proof. exact (expr_mono_nonneg _ %s_ok). Qed.' % cn)
        if cn + '_pos' not in skip:
            L.append('Lemma %s_pos : posb lo_nonempty (cf_body %s) = true.' % (cn, cn))
            L.append('Proof. vm_compute. reflexivity. Qed.')
            L.append('Corollary %s_positive : forall r r\', (forall i, lo_nonempty i <= r i) -> (forall i, r i <= r\' i) ->' % cn)
            L.append('  0 < eval r (cf_body %s) /\\ eval r (cf_body %s) <= eval r\' (cf_body %s).' % (cn, cn, cn))
            L.append('Proof. exact (expr_pos _ _ %s_pos). Qed.' % cn)
        L.append('')
    for name, kind, arg in obligations(res):
        if kind != 'dw' or name in skip:
            continue
        w, g = arg
        L.append('(* a depthwise layer with g groups costs g times the generic formula of one 1->1 group *)')
        L.append('Lemma %s : forall r g,' % name)
        L.append('  eval (upd (upd r V_cin g) V_cout g) (cf_body %s) == g * eval (upd (upd r V_cin 1) V_cout 1) (cf_body %s).' % (w, g))
        L.append('Proof. intros r g. unfold %s, %s. cbn [cf_body eval]. unfold upd, V_cin, V_cout. cbn [Nat.eqb]. ring. Qed.' % (w, g))
        L.append('')
    for pn, pin in res.get('pins', {}).items():
        if pn in skip:
            continue
        L.append('(* %s.%s computes, on ALL rationals, what the hand model Model/CostFns.v says *)' % (pin['module'], pin['py_name']))
        args = ' '.join('(r %s)' % a for a in pin['args']) if 'args' in pin else '(r 0%nat) (r 1%nat)'
        L.append('Lemma %s : forall r : nat -> Q, %s == %s %s.' % (pn, gallina_term(pin['term']), pin['gallina'], args))
        L.append('Proof. intro r. unfold %s, floor_ste, V_cin, V_cout, V_groups, V_k0, V_k1, V_o2, V_o3. cbv zeta. first [reflexivity | ring | field]. Qed.' % pin['gallina'])
        L.append('')
    for sp in res['specs']:
        ents = '; '.join('("%s"%%string, "%s"%%string, %s)' % (p, cn, cn) for p, _, cn in sp['entries'] if cn in res['functions'])
        L.append('Definition spec_%s : list (string * string * cfun) := [%s].' % (sp['name'], ents))
        L.append('Definition spec_%s_shared : bool := %s.' % (sp['name'], 'true' if sp['shared'] else 'false'))
        L.append('Definition spec_%s_default_zero : bool := %s.' % (sp['name'], 'true' if sp['default'] == 'zero' else 'false'))
    L.append('')
    L.append('Definition all_specs : list (string * bool * list (string * string * cfun)) := [%s].'
             % '; '.join('("%s"%%string, spec_%s_shared, spec_%s)' % (sp['name'], sp['name'], sp['name']) for sp in res['specs']))
    L.append('')
    return '\n'.join(L)


if __name__ == '__main__':
    repo = sys.argv[1] if len(sys.argv) > 1 else os.environ.get('VERIF_REPO', '/repo')
    res = translate_repo(repo)
    for k, v in res['errors'].items():
        print('NOT TRANSLATED', k, v, file=sys.stderr)
    sys.stdout.write(emit_coq(res))
