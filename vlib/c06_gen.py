"""C06 — second tie, by translation (DESIGN.md §13, "Second tie, by translation").

translator/sncost2coq.py reads the source of the SuperNet cost composition of the tree under test (SuperNetCombiner.get_cost /
best_layer_index, SuperNet._get_single_cost / _single_cost_fn_map / __init__ / cost_specification.setter, DNAS.get_cost / cost /
_create_cost_fn_map / __init__) and writes coq/Gen/SnCostGen.v; coq/Proofs/SnCostGen.v proves the generated functions equal to
Model/SuperNet.v (`sn_cost`) for every network, specification (single / dictionary), later re-assignment of full_cost /
cost_specification and coefficient values; coq/Proofs/SnCostFwdGen.v composes them with the generated forward pass of the
combiners (Gen/SamplerGen.v, translator/sampler2coq.py) for the hard-selection sentence; Props/C06.v states the
C06_generated_* theorems.  This module is what vlib/c06.py needs:

    rej = c06_gen.regenerate(ctx)                      # BEFORE ctx.build(); None, or why a translator refused the source
    ...
    gvals = ctx.coq_eval_sharded('gcases', c06_gen.IMPORTS, defs, c06_gen.gen_exprs(exprs), shard=150)
    mism += c06_gen.differences(meta, exprs, vals, gvals)   # the generated model next to the hand model, same cases
    ...
    c06_gen.report(ctx, rej, built)                    # 'translator-rejected ... no-failing-input-found'
"""
import os
import re
from fractions import Fraction
from .common import COQ, REPO, write_if_changed
from translator import sncost2coq
from . import c10_gen

GEN_V = os.path.join(COQ, 'Gen', 'SnCostGen.v')
IMPORTS = ['Plinio.Model.SuperNet', 'Plinio.Gen.SnCostGen']
TRANSLATOR = 'translator/sncost2coq.py'
SOURCE = ('plinio/methods/supernet/nn/combiner.py (get_cost, best_layer_index), plinio/methods/supernet/supernet.py (_get_single_cost, '
          '_single_cost_fn_map, __init__, cost_specification.setter), plinio/methods/dnas_base/dnas.py (get_cost, cost, _create_cost_fn_map, __init__)')
WAYS = ('single specification, `cost` property', 'dictionary of specifications, get_cost(name)', 'full_cost flipped after construction',
        'cost_specification re-assigned on the live object, then full_cost flipped')


def regenerate(ctx=None, repo=None):
    """translate the cost composition of the tree under test into Gen/SnCostGen.v (written only when it changed), and the
    samplers into Gen/SamplerGen.v (Props/C06.v composes the two for the hard-selection sentence).
    -> None, or the reason why a translator refused the source (the generated file then fails on purpose)"""
    try:
        text, rej = sncost2coq.translate_repo(repo or REPO), None
    except (sncost2coq.Reject, SyntaxError, OSError, RecursionError) as e:
        rej = '%s: %s' % (type(e).__name__, e)
        text = ('(* %s REFUSED the SuperNet cost composition of the tree under test:\n   %s\n   no model of the current code exists; this file fails on purpose. *)\n'
                'Definition translator_rejected : True := 0.\n' % (TRANSLATOR, rej.replace('*)', '* )').replace('(*', '( *')))
    write_if_changed(GEN_V, text)
    rej10 = c10_gen.regenerate(None, repo)
    if rej is None and rej10:
        rej = 'translator/sampler2coq.py: ' + rej10
    if ctx is not None and rej:
        ctx.notes.append('generated model: the translator refused the source: ' + rej)
    return rej


def status(rej, built):
    """the `generated_model` entry of the evidence file"""
    return {'file': 'coq/Gen/SnCostGen.v (+ coq/Gen/SamplerGen.v for the forward pass)', 'translator': TRANSLATOR + ' (+ translator/sampler2coq.py)', 'source': SOURCE,
            'status': 'refused: ' + rej if rej else
            'regenerated; get_cost(name) proved equal to sn_cost of the hand model for every network, specification, re-assignment of full_cost / cost_specification and coefficients (C06_generated_*)' if built
            else 'regenerated; obligations do not check'}


_RUN = re.compile(r'^\(run_cost (true|false) (true|false) (\S+) (.*?) (net_\d+), run_export_cost ')


def gen_expr(e):
    """the expression of the hand model -> the same case run with the generated functions
    ((run_cost S F tab thetas net, run_export_cost ...) -> run_cost_gen S F tab thetas net); None if it has no counterpart"""
    m = _RUN.match(e)
    if m is None:
        return None
    return 'run_cost_gen %s %s %s %s %s' % m.groups()


def gen_exprs(exprs):
    return [g for g in map(gen_expr, exprs) if g is not None]


def differences(meta, exprs, vals, gvals, limit=3):
    """[(what, network index, setting, hand model value, generated model value)] (the shape of c06.py's mismatch list) for every
    case on which the generated get_cost -- reached in the four ways of run_cost_gen -- is not exactly the hand model's sn_cost"""
    idx = [k for k, e in enumerate(exprs) if gen_expr(e) is not None]
    if len(idx) != len(gvals):
        return [('generated model: %d values for %d cases' % (len(gvals), len(idx)), 0, {}, None, None)]
    out = []
    for k, gv in zip(idx, gvals):
        hand = Fraction(vals[k][0], vals[k][1])
        for way, (n, d) in zip(WAYS, gv):
            got = Fraction(n, d) if d else None
            if got != hand:
                if len(out) < limit:
                    out.append(('generated model (%s) differs from the hand-written model: %s' % (way, gen_expr(exprs[k])[:300]), meta[k][0], meta[k][3], float(hand),
                                'get_cost raises' if got is None else float(got)))
                break
    return out


def report(ctx, rej, built):
    """translator-rejected wording for the final verdict; True if a violation was filed"""
    if built or ctx.violations or not rej:
        return False
    ctx.violation('translator-rejected', {'translator': TRANSLATOR, 'source': SOURCE, 'reason': rej, 'theorems': [o[0] for o in ctx.obligations if not o[1]]},
                  'the source of the SuperNet cost composition is outside the subset the translator accepts (%s): no generated model, the C06_generated_* theorems are not established' % rej[:300], no_input=True)
    return True
