"""C03 — second tie, by translation (DESIGN.md §13.T).

translator/snexport2coq.py reads the source of the SuperNet forward pass and export selection of the tree under test
(SuperNetCombiner.forward / summary, SuperNetModule.forward / __init__, export_graph, convert(.., 'export'), SuperNet.export / summary /
forward) and writes coq/Gen/SnExportGen.v; coq/Proofs/SnExportGen.v proves the generated forward pass under hard selection equal to the
hand model's evaluation of the winning branches / of its exported network, coq/Proofs/SnExportGraphGen.v proves that the generated
export_graph, run on the traced fx graph of any network of Model/SuperNet.v, leaves the graph of the fixed layers and the winners' bodies
(leaf layers, module tree and value of the hand model's g_export); Props/C03.v states the C03_generated_* theorems.  The generated file
builds on Gen/SnCostGen.v (C06: best_layer_index) and Gen/SamplerGen.v (C10: the sampler behind self.sample_alpha()): both are regenerated
here too, through vlib/c06_gen.py (which calls vlib/c10_gen.py).  This module is what vlib/c03.py needs:

    rej = c03_gen.regenerate(ctx)                      # BEFORE ctx.build(); None, or why a translator refused the source
    ...
    gvals = ctx.coq_eval_sharded('gcases', c03_gen.IMPORTS, defs, c03_gen.gen_exprs(exprs), shard=120)
    mism += c03_gen.differences(flat, gvals)           # the generated model next to the hand model, same cases
    ...
    c03_gen.report(ctx, rej, built)                    # 'translator-rejected ... no-failing-input-found'
"""
import os
import re
from .common import COQ, REPO, write_if_changed
from translator import snexport2coq
from . import c06_gen

GEN_V = os.path.join(COQ, 'Gen', 'SnExportGen.v')
IMPORTS = ['Plinio.Model.SuperNet', 'Plinio.Gen.SnExportGen']
TRANSLATOR = 'translator/snexport2coq.py'
SOURCE = ('plinio/methods/supernet/nn/combiner.py (forward, summary; best_layer_index and the samplers through the C06 / C10 translators), '
          'plinio/methods/supernet/nn/module.py (forward, __init__), plinio/methods/supernet/graph.py (export_graph; convert, SuperNetTracer pinned), '
          'plinio/methods/supernet/supernet.py (export, summary, forward)')


def regenerate(ctx=None, repo=None):
    """translate the forward pass / export selection of the tree under test into Gen/SnExportGen.v (written only when it changed), and
    the Gen files it imports: Gen/SnCostGen.v and Gen/SamplerGen.v (vlib/c06_gen.py -> vlib/c10_gen.py).
    -> None, or the reason why a translator refused the source (the generated file concerned then fails on purpose)"""
    try:
        text, rej = snexport2coq.translate_repo(repo or REPO), None
    except (snexport2coq.Reject, SyntaxError, OSError, RecursionError) as e:
        rej = '%s: %s' % (type(e).__name__, ' '.join(str(e).split()))
        text = ('(* %s REFUSED the SuperNet forward pass / export selection of the tree under test:\n   %s\n   no model of the current code exists; this file fails on purpose. *)\n'
                'Definition translator_rejected : True := 0.\n' % (TRANSLATOR, rej.replace('*)', '* )').replace('(*', '( *')))
    write_if_changed(GEN_V, text)
    rej6 = c06_gen.regenerate(None, repo)
    if rej is None and rej6:
        rej = 'imported generated models (translator/sncost2coq.py, translator/sampler2coq.py): ' + rej6
    if ctx is not None and rej:
        ctx.notes.append('generated model: the translator refused the source: ' + rej)
    return rej


def status(rej, built):
    """the `generated_model` entry of the evidence file"""
    return {'file': 'coq/Gen/SnExportGen.v (+ coq/Gen/SnCostGen.v, coq/Gen/SamplerGen.v which it imports)',
            'translator': TRANSLATOR + ' (+ translator/sncost2coq.py, translator/sampler2coq.py)', 'source': SOURCE,
            'status': 'refused: ' + rej if rej else
            ('regenerated; forward pass under hard selection = the hand model on the winning branches = its exported network; export_graph on the traced graph of every '
             'network = the graph of the fixed layers and the arg-max bodies, with the leaf layers / module tree / value of g_export (C03_generated_*)') if built
            else 'regenerated; obligations do not check'}


_RUN = re.compile(r'^run_gexport (.*) (net_\d+)$')


def gen_expr(e):
    """`run_gexport A net_N` of the hand model -> the same case run with the generated functions, next to the hand model in the same shape"""
    m = _RUN.match(e)
    if m is None:
        return None
    return '(run_gexport_gen %s %s, run_gexport_lin %s %s)' % (m.group(1), m.group(2), m.group(1), m.group(2))


def gen_exprs(exprs):
    return [g for g in map(gen_expr, exprs) if g is not None]


WHAT = ('best_layer_index', 'coefficients after the hard forward pass', 'leaf layers of the exported graph', 'module tree of the exported graph')


def differences(flat, gvals, limit=3):
    """[(what, network index, setting, generated model value, hand model value)] (the shape of c03.py's mismatch list) for every case on which
    the generated functions -- best_layer_index, the combiner's hard forward, export_graph on the traced graph, the whole forward pass as a
    term against the hand model's exported network, the definedness predicate -- disagree with the hand-written model"""
    if len(flat) != len(gvals):
        return [('generated model: %d values for %d cases' % (len(gvals), len(flat)), 0, {}, None, None)]
    out = []
    for (ni, _d, st, _o), v in zip(flat, gvals):
        if len(out) >= limit:
            break
        if len(v) != 6:
            out.append(('generated model: unexpected value', ni, st, repr(v)[:200], None))
            continue
        gw, gth, gcodes, gmods, flags, hand = v
        hw, hth, hcodes, hmods = hand
        srt = lambda m: None if m is None else sorted(m[1])
        for what, a, b in zip(WHAT, (gw, gth, gcodes, srt(gmods)), (hw, hth, hcodes, srt(hmods))):
            if a != b:
                out.append(('generated model differs from the hand-written model: ' + what, ni, st, repr(a)[:300], repr(b)[:300]))
                break
        else:
            fwd_ok, defined = flags
            if not fwd_ok:
                out.append(('generated forward pass (hard selection, as a term) differs from the hand model\'s exported network', ni, st, False, True))
            elif not defined:
                out.append(('generated forward pass: definedness predicate false (IndexError on theta_alpha[i] / empty stack)', ni, st, False, True))
    return out


def report(ctx, rej, built):
    """translator-rejected wording for the final verdict; True if a violation was filed"""
    if built or ctx.violations or not rej:
        return False
    ctx.violation('translator-rejected', {'translator': TRANSLATOR, 'source': SOURCE, 'reason': rej, 'theorems': [o[0] for o in ctx.obligations if not o[1]]},
                  'the source of the SuperNet forward pass / export selection is outside the subset the translators accept (%s): no generated model, the C03_generated_* theorems are not established' % rej[:300], no_input=True)
    return True
