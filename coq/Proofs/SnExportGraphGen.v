(* C03: export_graph as GENERATED from the source (Gen/SnExportGen.v: export_step_gen / export_graph_gen, a loop over an abstract
   graph state with the observations and effects of torch.fx as parameters), instantiated with a concrete model of an fx graph
   (nodes with identifiers, argument lists, users computed from the arguments, erase_node refusing a node that still has users,
   eliminate_dead_code as the reverse sweep of torch.fx) on the TRACED graph of an arbitrary network of Model/SuperNet.v. *)
From Coq Require Import QArith ZArith List Bool Arith Lia.
Import ListNotations.
Require Import Plinio.Base.Qx Plinio.Model.SuperNet Plinio.Proofs.SuperNet Plinio.Gen.SnExportGen.
Local Open Scope nat_scope.

(* ------------------------------------------------------------------ identifiers *)
Lemma path_eqb_iff : forall a b, path_eqb a b = true <-> a = b.
Proof.
  induction a as [|x a IH]; intros [|y b]; cbn; try (split; [discriminate|discriminate]); [split; reflexivity|].
  rewrite andb_true_iff, IH, eqb_true_iff. split; [intros [-> ->]; reflexivity|intro H; injection H; auto].
Qed.

Lemma nid_eqb_iff : forall a b, nid_eqb a b = true <-> a = b.
Proof.
  intros [| |k|k j p] [| |k'|k' j' p']; cbn; try (split; [discriminate|discriminate]); try (split; reflexivity).
  - rewrite Nat.eqb_eq. split; [intros ->; reflexivity|intro H; injection H; auto].
  - rewrite !andb_true_iff, !Nat.eqb_eq, path_eqb_iff. split; [intros [[-> ->] ->]; reflexivity|intro H; injection H; auto].
Qed.
Lemma nid_eqb_refl a : nid_eqb a a = true. Proof. apply nid_eqb_iff. reflexivity. Qed.
Lemma nid_eqb_neq a b : a <> b -> nid_eqb a b = false.
Proof. intro H. destruct (nid_eqb a b) eqn:E; [apply nid_eqb_iff in E; contradiction|reflexivity]. Qed.
Lemma nid_eqb_false a b : nid_eqb a b = false -> a <> b.
Proof. intros E H. subst. rewrite nid_eqb_refl in E. discriminate. Qed.
Lemma nid_eqb_sym a b : nid_eqb a b = nid_eqb b a.
Proof. destruct (nid_eqb b a) eqn:E; [apply nid_eqb_iff in E; subst; apply nid_eqb_refl|apply nid_eqb_neq; intro; subst; rewrite nid_eqb_refl in E; discriminate]. Qed.

Lemma nmem_iff : forall x l, nmem x l = true <-> In x l.
Proof.
  intros x l. unfold nmem. rewrite existsb_exists. split.
  - intros [y [Hy E]]. apply nid_eqb_iff in E. subst. exact Hy.
  - intro H. exists x. split; [exact H|apply nid_eqb_refl].
Qed.
Lemma nmem_false : forall x l, nmem x l = false <-> ~ In x l.
Proof. intros x l. rewrite <- nmem_iff. destruct (nmem x l); split; congruence. Qed.

(* position of an identifier in the chain: which segment it belongs to *)
Definition idx_lt (a : nid) (k : nat) : Prop :=
  match a with NIn => True | NOut => False | NComb k' => k' < k | NN k' _ _ => k' < k end.
Definition idx_ge (a : nid) (k : nat) : Prop :=
  match a with NIn => False | NOut => False | NComb k' => k <= k' | NN k' _ _ => k <= k' end.
Lemma idx_lt_mono a k k' : idx_lt a k -> k <= k' -> idx_lt a k'.
Proof. destruct a; cbn; lia. Qed.
Lemma idx_ge_mono a k k' : idx_ge a k -> k' <= k -> idx_ge a k'.
Proof. destruct a; cbn; lia. Qed.
Lemma idx_lt_ge a k : idx_lt a k -> idx_ge a k -> False.
Proof. destruct a; cbn; lia. Qed.

(* paths: a proper descendant's path is never the path itself, the two subtrees are apart *)
Lemma path_ext_neq : forall (r p : list bool), r <> [] -> r ++ p <> p.
Proof.
  intros r p Hr E. apply (f_equal (@length bool)) in E. rewrite app_length in E. destruct r; [congruence|cbn in E; lia].
Qed.
Lemma path_sub_apart : forall (r r' p : list bool) (b b' : bool), b <> b' -> r ++ b :: p <> r' ++ b' :: p.
Proof.
  intros r r' p b b' Hb E.
  change (r ++ b :: p) with (r ++ [b] ++ p) in E. change (r' ++ b' :: p) with (r' ++ [b'] ++ p) in E.
  rewrite !app_assoc in E. apply app_inv_tail in E. apply app_inj_tail in E. destruct E as [_ E]. contradiction.
Qed.

(* ------------------------------------------------------------------ what tracing produces: identifiers, arguments, operations *)
Definition in_body (k j : nat) (p : list bool) (a : nid) : Prop := exists r, a = NN k j (r ++ p).
Definition below_body (k j : nat) (p : list bool) (a : nid) : Prop := exists r, r <> [] /\ a = NN k j (r ++ p).
Definition plain_op (m : fxnode) : bool := match f_op m with FLayer _ | FBin _ => true | _ => false end.

Lemma bout_cases : forall k j inp p e, (e = BIn /\ bout k j inp p e = inp) \/ (e <> BIn /\ bout k j inp p e = NN k j p).
Proof. intros k j inp p [|l e|op a b]; cbn; [left; auto|right; split; [discriminate|reflexivity]|right; split; [discriminate|reflexivity]]. Qed.

Lemma below_sub : forall k j p b a, a = NN k j (b :: p) \/ below_body k j (b :: p) a -> below_body k j p a.
Proof.
  intros k j p b a [->|[r [Hr ->]]].
  - exists [b]. split; [discriminate|reflexivity].
  - exists (r ++ [b]). split; [destruct r; discriminate|]. rewrite <- app_assoc. reflexivity.
Qed.

Lemma tr_body_ids : forall e k j inp p m, In m (tr_body k j inp p e) -> in_body k j p (f_id m).
Proof.
  induction e as [|l e IH|op a IHa b IHb]; intros k j inp p m H; cbn [tr_body] in H.
  - destruct H.
  - apply in_app_or in H. destruct H as [H|[<-|[]]].
    + destruct (IH _ _ _ _ _ H) as [r ->]. exists (r ++ [false]). rewrite <- app_assoc. reflexivity.
    + exists []. reflexivity.
  - apply in_app_or in H. destruct H as [H|H]; [|apply in_app_or in H; destruct H as [H|[<-|[]]]].
    + destruct (IHa _ _ _ _ _ H) as [r ->]. exists (r ++ [false]). rewrite <- app_assoc. reflexivity.
    + destruct (IHb _ _ _ _ _ H) as [r ->]. exists (r ++ [true]). rewrite <- app_assoc. reflexivity.
    + exists []. reflexivity.
Qed.

Lemma bout_arg : forall k j inp p b e, bout k j inp (b :: p) e = inp \/ below_body k j p (bout k j inp (b :: p) e).
Proof.
  intros. destruct (bout_cases k j inp (b :: p) e) as [[_ ->]|[_ ->]]; [left; reflexivity|right].
  apply (below_sub k j p b). left. reflexivity.
Qed.

Lemma tr_body_args : forall e k j inp p m a, In m (tr_body k j inp p e) -> In a (f_args m) -> a = inp \/ below_body k j p a.
Proof.
  induction e as [|l e IH|op x IHa y IHb]; intros k j inp p m a H Ha; cbn [tr_body] in H.
  - destruct H.
  - apply in_app_or in H. destruct H as [H|[<-|[]]].
    + destruct (IH _ _ _ _ _ _ H Ha) as [->|Hb]; [left; reflexivity|right; apply (below_sub k j p false); right; exact Hb].
    + cbn [f_args] in Ha. destruct Ha as [<-|[]]. apply bout_arg.
  - apply in_app_or in H. destruct H as [H|H]; [|apply in_app_or in H; destruct H as [H|[<-|[]]]].
    + destruct (IHa _ _ _ _ _ _ H Ha) as [->|Hb]; [left; reflexivity|right; apply (below_sub k j p false); right; exact Hb].
    + destruct (IHb _ _ _ _ _ _ H Ha) as [->|Hb]; [left; reflexivity|right; apply (below_sub k j p true); right; exact Hb].
    + cbn [f_args] in Ha. destruct Ha as [<-|[<-|[]]]; apply bout_arg.
Qed.

Lemma tr_body_ops : forall e k j inp p m, In m (tr_body k j inp p e) -> plain_op m = true.
Proof.
  induction e as [|l e IH|op a IHa b IHb]; intros k j inp p m H; cbn [tr_body] in H.
  - destruct H.
  - apply in_app_or in H. destruct H as [H|[<-|[]]]; [eapply IH; exact H|reflexivity].
  - apply in_app_or in H. destruct H as [H|H]; [eapply IHa; exact H|].
    apply in_app_or in H. destruct H as [H|[<-|[]]]; [eapply IHb; exact H|reflexivity].
Qed.

(* a body that is not just its input: the root is the last node, it is the only one with the path of the body, and some node
   reads the input *)
Lemma tr_body_root : forall e k j inp p, e <> BIn ->
  exists front m, tr_body k j inp p e = front ++ [m] /\ f_id m = NN k j p /\
                  (forall x, In x front -> below_body k j p (f_id x)).
Proof.
  intros [|l e|op a b] k j inp p H; [congruence| |]; cbn [tr_body].
  - exists (tr_body k j inp (false :: p) e), (mkFx (NN k j p) (FLayer l) [bout k j inp (false :: p) e]).
    split; [reflexivity|]. split; [reflexivity|]. intros x Hx. apply tr_body_ids in Hx. destruct Hx as [r ->].
    apply (below_sub k j p false). destruct r as [|c r]; [left; reflexivity|right; exists (c :: r); split; [discriminate|reflexivity]].
  - exists (tr_body k j inp (false :: p) a ++ tr_body k j inp (true :: p) b),
           (mkFx (NN k j p) (FBin op) [bout k j inp (false :: p) a; bout k j inp (true :: p) b]).
    split; [rewrite <- app_assoc; reflexivity|]. split; [reflexivity|]. intros x Hx. apply in_app_or in Hx.
    destruct Hx as [Hx|Hx]; apply tr_body_ids in Hx; destruct Hx as [r ->].
    + apply (below_sub k j p false). destruct r as [|c r]; [left; reflexivity|right; exists (c :: r); split; [discriminate|reflexivity]].
    + apply (below_sub k j p true). destruct r as [|c r]; [left; reflexivity|right; exists (c :: r); split; [discriminate|reflexivity]].
Qed.

Lemma tr_body_reads_input : forall e k j inp p, e <> BIn -> exists m, In m (tr_body k j inp p e) /\ In inp (f_args m).
Proof.
  induction e as [|l e IH|op a IHa b IHb]; intros k j inp p H; [congruence| |]; cbn [tr_body].
  - destruct (bout_cases k j inp (false :: p) e) as [[_ Eo]|[Hne _]].
    + eexists. split; [apply in_or_app; right; left; reflexivity|]. cbn [f_args]. rewrite Eo. left. reflexivity.
    + destruct (IH k j inp (false :: p) Hne) as [m [Hm Ha]]. exists m. split; [apply in_or_app; left; exact Hm|exact Ha].
  - destruct (bout_cases k j inp (false :: p) a) as [[_ Eo]|[Hne _]].
    + eexists. split; [apply in_or_app; right; apply in_or_app; right; left; reflexivity|]. cbn [f_args]. rewrite Eo. left. reflexivity.
    + destruct (IHa k j inp (false :: p) Hne) as [m [Hm Ha]]. exists m. split; [apply in_or_app; left; exact Hm|exact Ha].
Qed.

(* the branches of one block *)
Lemma tr_branches_in : forall brs k inp j m, In m (fst (tr_branches k inp j brs)) ->
  exists i e, nth_error brs i = Some e /\ In m (tr_body k (j + i) inp [] e).
Proof.
  induction brs as [|e brs IH]; intros k inp j m H; cbn [tr_branches] in H; [destruct H|].
  destruct (tr_branches k inp (S j) brs) as [ns os] eqn:E. cbn [fst] in H. apply in_app_or in H. destruct H as [H|H].
  - exists 0, e. split; [reflexivity|]. rewrite Nat.add_0_r. exact H.
  - specialize (IH k inp (S j) m). rewrite E in IH. destruct (IH H) as [i [e' [Hn Hm]]].
    exists (S i), e'. split; [exact Hn|]. replace (j + S i) with (S j + i) by lia. exact Hm.
Qed.

Lemma tr_branches_outs : forall brs k inp j i e, nth_error brs i = Some e ->
  nth_error (snd (tr_branches k inp j brs)) i = Some (bout k (j + i) inp [] e).
Proof.
  induction brs as [|e0 brs IH]; intros k inp j i e H; [destruct i; discriminate|]. cbn [tr_branches].
  destruct (tr_branches k inp (S j) brs) as [ns os] eqn:E. cbn [snd]. destruct i as [|i]; cbn in H |- *.
  - injection H as <-. rewrite Nat.add_0_r. reflexivity.
  - specialize (IH k inp (S j) i e H). rewrite E in IH. cbn [snd] in IH. rewrite IH. f_equal. f_equal. lia.
Qed.

Lemma tr_branches_outs_length : forall brs k inp j, length (snd (tr_branches k inp j brs)) = length brs.
Proof.
  induction brs as [|e brs IH]; intros k inp j; [reflexivity|]. cbn [tr_branches]. specialize (IH k inp (S j)).
  destruct (tr_branches k inp (S j) brs) as [ns os]. cbn [snd length] in *. rewrite IH. reflexivity.
Qed.

Lemma tr_branches_out_in : forall brs k inp j o, In o (snd (tr_branches k inp j brs)) ->
  exists i e, nth_error brs i = Some e /\ o = bout k (j + i) inp [] e.
Proof.
  intros brs k inp j o H. apply In_nth_error in H. destruct H as [i Hi].
  assert (Hlt : i < length brs) by (rewrite <- (tr_branches_outs_length brs k inp j); apply nth_error_Some; congruence).
  destruct (nth_error brs i) as [e|] eqn:E; [|apply nth_error_None in E; lia].
  exists i, e. split; [exact E|]. rewrite (tr_branches_outs brs k inp j i e E) in Hi. congruence.
Qed.

(* ------------------------------------------------------------------ segments of the chain *)
Definition id_seg (k : nat) (a : nid) : Prop := match a with NN k' _ _ | NComb k' => k' = k | _ => False end.
Lemma in_body_seg k j p a : in_body k j p a -> id_seg k a. Proof. intros [r ->]. reflexivity. Qed.
Lemma below_body_seg k j p a : below_body k j p a -> id_seg k a. Proof. intros [r [_ ->]]. reflexivity. Qed.
Lemma id_seg_ge k a : id_seg k a -> idx_ge a k. Proof. destruct a; cbn; lia. Qed.
Lemma bout_seg : forall k j inp p e, bout k j inp p e = inp \/ id_seg k (bout k j inp p e).
Proof. intros. destruct (bout_cases k j inp p e) as [[_ ->]|[_ ->]]; [left|right]; reflexivity. Qed.

Definition comb_at (m : fxnode) : Prop := match f_op m with FComb _ => exists k, f_id m = NComb k | _ => True end.
Lemma plain_comb_at m : plain_op m = true -> comb_at m.
Proof. unfold plain_op, comb_at. destruct (f_op m); try discriminate; auto. Qed.

Ltac br_facts brs k inp j ns os E :=
  destruct (tr_branches k inp j brs) as [ns os] eqn:E;
  pose proof (tr_branches_in brs k inp j) as Hbin; pose proof (tr_branches_out_in brs k inp j) as Hbout;
  rewrite E in Hbin, Hbout; cbn [fst snd] in Hbin, Hbout.

Lemma tr_node_in : forall md k inp n m, In m (fst (tr_node md k inp n)) ->
  id_seg k (f_id m) /\ (forall a, In a (f_args m) -> a = inp \/ id_seg k a) /\ comb_at m.
Proof.
  intros md k inp [l|e|b brs] m H; cbn [tr_node] in H.
  - cbn [fst] in H. destruct H as [<-|[]]. cbn. split; [reflexivity|]. split; [intros a [<-|[]]; left; reflexivity|exact I].
  - cbn [fst] in H. split; [eapply in_body_seg, tr_body_ids; exact H|]. split; [|apply plain_comb_at; eapply tr_body_ops; exact H].
    intros a Ha. destruct (tr_body_args _ _ _ _ _ _ _ H Ha) as [->|Hb]; [left; reflexivity|right; eapply below_body_seg; exact Hb].
  - assert (Hbody : forall i e, In m (tr_body k i inp [] e) ->
              id_seg k (f_id m) /\ (forall a, In a (f_args m) -> a = inp \/ id_seg k a) /\ comb_at m).
    { intros i e Hm. split; [eapply in_body_seg, tr_body_ids; exact Hm|]. split; [|apply plain_comb_at; eapply tr_body_ops; exact Hm].
      intros a Ha. destruct (tr_body_args _ _ _ _ _ _ _ Hm Ha) as [->|Hb]; [left; reflexivity|right; eapply below_body_seg; exact Hb]. }
    destruct md as [|win|win].
    + br_facts brs k inp 0 ns os E. cbn [fst] in H. apply in_app_or in H. destruct H as [H|[<-|[]]].
      * destruct (Hbin m H) as [i [e [_ Hm]]]. eapply Hbody; exact Hm.
      * cbn. split; [reflexivity|]. split; [|exists k; reflexivity].
        intros a Ha. destruct (Hbout a Ha) as [i [e [_ ->]]]. apply bout_seg.
    + br_facts brs k inp 0 ns os E. cbn [fst] in H. apply filter_In in H. destruct H as [H _].
      destruct (Hbin m H) as [i [e [_ Hm]]]. eapply Hbody; exact Hm.
    + destruct (nth_error brs (win b)) as [e|]; cbn [fst] in H; [eapply Hbody; exact H|destruct H].
Qed.

Lemma tr_node_out : forall md k inp n, snd (tr_node md k inp n) = inp \/ id_seg k (snd (tr_node md k inp n)).
Proof.
  intros md k inp [l|e|b brs]; cbn [tr_node snd]; [right; reflexivity|apply bout_seg|].
  destruct md as [|win|win].
  - destruct (tr_branches k inp 0 brs). right. reflexivity.
  - br_facts brs k inp 0 ns os E. cbn [snd]. destruct (nth_in_or_default (win b) os inp) as [Hi|Hd]; [|left; exact Hd].
    destruct (Hbout _ Hi) as [i [e [_ ->]]]. apply bout_seg.
  - destruct (nth_error brs (win b)); cbn [snd]; [apply bout_seg|left; reflexivity].
Qed.

Lemma idx_ge_S a k : idx_ge a (S k) -> idx_ge a k. Proof. destruct a; cbn; lia. Qed.

Lemma tr_net_out : forall md g k inp, snd (tr_net md k inp g) = inp \/ idx_ge (snd (tr_net md k inp g)) k.
Proof.
  induction g as [|n g IH]; intros k inp; cbn [tr_net]; [left; reflexivity|].
  destruct (tr_node md k inp n) as [a o] eqn:En. specialize (IH (S k) o).
  destruct (tr_net md (S k) o g) as [b o'] eqn:Er. cbn [snd] in *.
  destruct IH as [->|H]; [|right; apply idx_ge_S, H].
  pose proof (tr_node_out md k inp n) as Ho. rewrite En in Ho. cbn [snd] in Ho.
  destruct Ho as [->|Ho]; [left; reflexivity|right; apply id_seg_ge, Ho].
Qed.

Lemma tr_net_in : forall md g k inp m, In m (fst (tr_net md k inp g)) ->
  idx_ge (f_id m) k /\ (forall a, In a (f_args m) -> a = inp \/ idx_ge a k) /\ comb_at m.
Proof.
  induction g as [|n g IH]; intros k inp m H; cbn [tr_net] in H; [destruct H|].
  destruct (tr_node md k inp n) as [a o] eqn:En. specialize (IH (S k) o m).
  destruct (tr_net md (S k) o g) as [b o'] eqn:Er. cbn [fst] in *. apply in_app_or in H. destruct H as [H|H].
  - pose proof (tr_node_in md k inp n m) as Hn. rewrite En in Hn. destruct (Hn H) as (Hi & Ha & Hc).
    split; [apply id_seg_ge, Hi|]. split; [|exact Hc]. intros x Hx. destruct (Ha x Hx) as [->|Hs]; [left; reflexivity|right; apply id_seg_ge, Hs].
  - destruct (IH H) as (Hi & Ha & Hc). split; [apply idx_ge_S, Hi|]. split; [|exact Hc].
    intros x Hx. destruct (Ha x Hx) as [->|Hs]; [|right; apply idx_ge_S, Hs].
    pose proof (tr_node_out md k inp n) as Ho. rewrite En in Ho. cbn [snd] in Ho.
    destruct Ho as [->|Ho]; [left; reflexivity|right; apply id_seg_ge, Ho].
Qed.

(* ------------------------------------------------------------------ the fx operations on node lists *)
Definition rauw1 (n b : nid) (m : fxnode) : fxnode :=
  mkFx (f_id m) (f_op m) (map (fun a => if nid_eqb a n then b else a) (f_args m)).
Definition clear1 (n : nid) (m : fxnode) : fxnode := if nid_eqb (f_id m) n then mkFx (f_id m) (f_op m) [] else m.
Definition keep1 (n : nid) (m : fxnode) : bool := negb (nid_eqb (f_id m) n).
Definition notin (D : list nid) (m : fxnode) : bool := negb (nmem (f_id m) D).
Definition no_users (n : nid) (l : list fxnode) : Prop := forall m, In m l -> uses n m = false.

Lemma users_zero : forall n l, no_users n l -> length (filter (uses n) l) = 0.
Proof.
  intros n l H. induction l as [|m l IH]; [reflexivity|]. cbn [filter]. rewrite (H m) by (left; reflexivity).
  apply IH. intros x Hx. apply H. right. exact Hx.
Qed.
Lemma users_pos : forall n l m, In m l -> uses n m = true -> length (filter (uses n) l) <> 0.
Proof.
  intros n l m Hin Hu E. assert (Hf : In m (filter (uses n) l)) by (apply filter_In; auto).
  destruct (filter (uses n) l); [destruct Hf|discriminate].
Qed.
Lemma no_users_app : forall n a b, no_users n a -> no_users n b -> no_users n (a ++ b).
Proof. intros n a b Ha Hb m Hm. apply in_app_or in Hm. destruct Hm; auto. Qed.
Lemma no_users_args : forall n l, (forall m a, In m l -> In a (f_args m) -> a <> n) -> no_users n l.
Proof. intros n l H m Hm. unfold uses. apply nmem_false. intro Hin. apply (H m n Hm Hin). reflexivity. Qed.

Lemma map_id_on {A} (f : A -> A) l : (forall x, In x l -> f x = x) -> map f l = l.
Proof. induction l as [|x l IH]; intro H; cbn; [reflexivity|]. rewrite H by (left; reflexivity). f_equal. apply IH. intros; apply H; right; assumption. Qed.
Lemma filter_all {A} (f : A -> bool) l : (forall x, In x l -> f x = true) -> filter f l = l.
Proof. induction l as [|x l IH]; intro H; cbn; [reflexivity|]. rewrite H by (left; reflexivity). f_equal. apply IH. intros; apply H; right; assumption. Qed.
Lemma filter_filter {A} (f g : A -> bool) l : filter f (filter g l) = filter (fun x => g x && f x) l.
Proof. induction l as [|x l IH]; cbn; [reflexivity|]. destruct (g x); cbn; [destruct (f x); rewrite IH; reflexivity|exact IH]. Qed.

Lemma rauw1_id : forall n b m, (forall a, In a (f_args m) -> a <> n) -> rauw1 n b m = m.
Proof.
  intros n b [i o args] H. unfold rauw1. cbn [f_id f_op f_args] in *. f_equal. apply map_id_on. intros a Ha.
  rewrite nid_eqb_neq by (apply H; exact Ha). reflexivity.
Qed.
Lemma clear1_id : forall n m, f_id m <> n -> clear1 n m = m.
Proof. intros n m H. unfold clear1. rewrite nid_eqb_neq by exact H. reflexivity. Qed.
Lemma keep1_true : forall n m, f_id m <> n -> keep1 n m = true.
Proof. intros n m H. unfold keep1. rewrite nid_eqb_neq by exact H. reflexivity. Qed.

(* erasing a node whose arguments were cleared just before *)
Lemma filter_keep_clear : forall n l, filter (keep1 n) (map (clear1 n) l) = filter (keep1 n) l.
Proof.
  intros n l. induction l as [|m l IH]; [reflexivity|]. cbn [map filter].
  assert (Hk : keep1 n (clear1 n m) = keep1 n m).
  { unfold clear1, keep1. destruct (nid_eqb (f_id m) n) eqn:E; cbn [f_id]; rewrite E; reflexivity. }
  rewrite Hk. destruct (keep1 n m) eqn:E; [|exact IH].
  rewrite clear1_id by (unfold keep1 in E; apply negb_true_iff in E; apply nid_eqb_false, E). f_equal. exact IH.
Qed.
Lemma no_users_clear : forall n o l, no_users n l -> no_users n (map (clear1 o) l).
Proof.
  intros n o l H m Hm. apply in_map_iff in Hm. destruct Hm as [x [<- Hx]]. unfold clear1.
  destruct (nid_eqb (f_id x) o); [reflexivity|apply H, Hx].
Qed.
Lemma no_users_filter : forall n f l, no_users n l -> no_users n (filter f l).
Proof. intros n f l H m Hm. apply filter_In in Hm. apply H, Hm. Qed.

Lemma notin_app : forall D o m, notin (D ++ [o]) m = notin D m && keep1 o m.
Proof. intros. unfold notin, keep1, nmem. rewrite existsb_app. cbn [existsb]. rewrite orb_false_r, negb_orb. reflexivity. Qed.
Lemma notin_nil : forall m, notin [] m = true. Proof. reflexivity. Qed.
Lemma notin_true : forall D m, (forall d, In d D -> f_id m <> d) -> notin D m = true.
Proof. intros D m H. unfold notin. apply negb_true_iff, nmem_false. intro Hin. apply (H _ Hin). reflexivity. Qed.

Lemma fold_opt_app {A B} (f : A -> B -> option A) : forall l1 l2 a,
  fold_opt f (l1 ++ l2) a = match fold_opt f l1 a with Some a' => fold_opt f l2 a' | None => None end.
Proof. induction l1 as [|b l1 IH]; intros l2 a; cbn; [reflexivity|]. destruct (f a b); [apply IH|reflexivity]. Qed.
Lemma fold_opt_ext {A B} (f g : A -> B -> option A) : (forall a b, f a b = g a b) -> forall l a, fold_opt f l a = fold_opt g l a.
Proof. intros H l. induction l as [|b l IH]; intro a; cbn; [reflexivity|]. rewrite H. destruct (g a b); [apply IH|reflexivity]. Qed.

Lemma find_skip : forall (l1 : list fxnode) m l2 t, (forall x, In x l1 -> f_id x <> t) -> f_id m = t ->
  find (fun x => nid_eqb (f_id x) t) (l1 ++ m :: l2) = Some m.
Proof.
  induction l1 as [|x l1 IH]; intros m l2 t H Hm; cbn [app find].
  - rewrite Hm, nid_eqb_refl. reflexivity.
  - rewrite nid_eqb_neq by (apply H; left; reflexivity). apply IH; [intros; apply H; right; assumption|exact Hm].
Qed.

(* ------------------------------------------------------------------ the generated loop on this graph model *)
Definition istep : fxg -> nid -> option fxg :=
  export_step_gen fxg nid nid_eqb fx_is_combiner fx_comb_alpha fx_args fx_users fx_rauw fx_clear fx_erase fx_dce fx_delete_unused.

(* a node that is not a combiner: nothing happens *)
Lemma istep_noop : forall s n, (forall k, n <> NComb k) -> (forall m, In m (g_nodes s) -> comb_at m) -> istep s n = Some s.
Proof.
  intros s n Hn Hc. unfold istep, export_step_gen. cbv zeta.
  assert (E : fx_is_combiner s n = false).
  { unfold fx_is_combiner, fx_find. destruct (find (fun m => nid_eqb (f_id m) n) (g_nodes s)) as [m|] eqn:F; [|reflexivity].
    apply find_some in F. destruct F as [Hin Hid]. apply nid_eqb_iff in Hid. specialize (Hc m Hin). unfold comb_at in Hc.
    destruct (f_op m); try reflexivity. destruct Hc as [k Hk]. exfalso. apply (Hn k). congruence. }
  rewrite E. reflexivity.
Qed.

Lemma fold_noop : forall ids s, (forall n, In n ids -> forall k, n <> NComb k) -> (forall m, In m (g_nodes s) -> comb_at m) ->
  fold_opt istep ids s = Some s.
Proof.
  induction ids as [|n ids IH]; intros s Hn Hc; cbn [fold_opt]; [reflexivity|].
  rewrite istep_noop; [|apply Hn; left; reflexivity|exact Hc]. apply IH; [intros; apply Hn; right; assumption|exact Hc].
Qed.

(* the inner loop over the branch outputs, in a normal form *)
Definition inner_spec (best : nid) (s : fxg) (ni : nid) : option fxg :=
  if negb (nid_eqb ni best) && Nat.eqb (fx_users s ni) 0 then fx_erase ni (fx_clear ni s) else Some s.

Lemma inner_fold : forall mt al best k L0 os D,
  (forall o, In o os -> o = best \/ (is_root k o = true /\ no_users o L0) \/
                        (is_root k o = false /\ exists m, In m L0 /\ uses o m = true /\ (f_id m = best \/ is_root k (f_id m) = false))) ->
  (forall d, In d D -> d <> best /\ is_root k d = true) ->
  fold_opt (inner_spec best) os (mkG (filter (notin D) L0) mt al) =
  Some (mkG (filter (notin (D ++ erased_roots k best os)) L0) mt al).
Proof.
  intros mt al best k L0. induction os as [|o os IH]; intros D Ho HD; cbn [fold_opt erased_roots filter].
  - rewrite app_nil_r. reflexivity.
  - assert (Hos : forall o', In o' os -> o' = best \/ (is_root k o' = true /\ no_users o' L0) \/
                        (is_root k o' = false /\ exists m, In m L0 /\ uses o' m = true /\ (f_id m = best \/ is_root k (f_id m) = false)))
      by (intros; apply Ho; right; assumption).
    unfold inner_spec at 1. destruct (Ho o (or_introl eq_refl)) as [->|[[Hr Hu]|[Hr [m [Hm [Hum Hid]]]]]].
    + rewrite nid_eqb_refl. cbn [negb andb]. apply IH; assumption.
    + destruct (nid_eqb o best) eqn:Eb; cbn [negb andb].
      * apply IH; assumption.
      * unfold fx_users. cbn [g_nodes]. rewrite users_zero by (apply no_users_filter, Hu). cbn [Nat.eqb].
        unfold fx_erase, fx_clear, fx_users, with_nodes. cbn [g_nodes g_modtree g_alpha].
        rewrite users_zero by (apply no_users_clear, no_users_filter, Hu). cbn [Nat.eqb].
        change (fun m0 : fxnode => negb (nid_eqb (f_id m0) o)) with (keep1 o).
        change (fun m0 : fxnode => if nid_eqb (f_id m0) o then mkFx (f_id m0) (f_op m0) [] else m0) with (clear1 o).
        rewrite filter_keep_clear, filter_filter, Hr. cbn [andb].
        rewrite (filter_ext _ (notin (D ++ [o]))) by (intro x; symmetry; apply notin_app).
        rewrite (IH (D ++ [o])); [rewrite <- app_assoc; reflexivity|exact Hos|].
        intros d Hd. apply in_app_or in Hd. destruct Hd as [Hd|[<-|[]]]; [apply HD, Hd|]. split; [apply nid_eqb_false, Eb|exact Hr].
    + rewrite Hr, andb_false_r.
      assert (Hpos : Nat.eqb (fx_users (mkG (filter (notin D) L0) mt al) o) 0 = false).
      { apply Nat.eqb_neq. unfold fx_users. cbn [g_nodes]. apply (users_pos o _ m); [|exact Hum].
        apply filter_In. split; [exact Hm|]. apply notin_true. intros d Hd E. destruct (HD d Hd) as [Hnb Hrd].
        destruct Hid as [Hid|Hid]; [congruence|]. rewrite E in Hid. congruence. }
      rewrite Hpos, andb_false_r. apply IH; assumption.
Qed.

(* replace_all_uses_with(NComb k -> best) on the part of the graph that comes after the block *)
Section Rauw.
Variable k : nat.
Variable best : nid.
Definition sb (a : nid) : nid := if nid_eqb a (NComb k) then best else a.

Lemma rauw_bout : forall k' j inp p e, sb (bout k' j inp p e) = bout k' j (sb inp) p e.
Proof. intros k' j inp p [|l e|op a b]; reflexivity. Qed.

Lemma rauw_body : forall e k' j inp p, map (rauw1 (NComb k) best) (tr_body k' j inp p e) = tr_body k' j (sb inp) p e.
Proof.
  induction e as [|l e IH|op a IHa b IHb]; intros k' j inp p; cbn [tr_body]; [reflexivity| |].
  - rewrite map_app, IH. cbn [map]. unfold rauw1 at 1. cbn [f_id f_op f_args map]. fold (sb (bout k' j inp (false :: p) e)).
    rewrite rauw_bout. reflexivity.
  - rewrite !map_app, IHa, IHb. cbn [map]. unfold rauw1 at 1. cbn [f_id f_op f_args map].
    fold (sb (bout k' j inp (false :: p) a)). fold (sb (bout k' j inp (true :: p) b)). rewrite !rauw_bout. reflexivity.
Qed.

Lemma rauw_branches : forall brs k' inp j,
  map (rauw1 (NComb k) best) (fst (tr_branches k' inp j brs)) = fst (tr_branches k' (sb inp) j brs) /\
  map sb (snd (tr_branches k' inp j brs)) = snd (tr_branches k' (sb inp) j brs).
Proof.
  induction brs as [|e brs IH]; intros k' inp j; cbn [tr_branches]; [split; reflexivity|].
  destruct (IH k' inp (S j)) as [H1 H2].
  destruct (tr_branches k' inp (S j) brs) as [ns os]. destruct (tr_branches k' (sb inp) (S j) brs) as [ns' os'].
  cbn [fst snd] in *. split; [rewrite map_app, rauw_body, H1; reflexivity|cbn [map]; rewrite rauw_bout, H2; reflexivity].
Qed.

Lemma rauw_node : forall n k' inp, k < k' ->
  map (rauw1 (NComb k) best) (fst (tr_node MFull k' inp n)) = fst (tr_node MFull k' (sb inp) n) /\
  sb (snd (tr_node MFull k' inp n)) = snd (tr_node MFull k' (sb inp) n).
Proof.
  intros [l|e|b brs] k' inp Hk; cbn [tr_node].
  - cbn [fst snd map]. split; reflexivity.
  - cbn [fst snd]. split; [apply rauw_body|apply rauw_bout].
  - destruct (rauw_branches brs k' inp 0) as [H1 H2].
    destruct (tr_branches k' inp 0 brs) as [ns os]. destruct (tr_branches k' (sb inp) 0 brs) as [ns' os'].
    cbn [fst snd] in *. split.
    + rewrite map_app, H1. cbn [map]. unfold rauw1 at 1. cbn [f_id f_op f_args]. fold sb. rewrite H2. reflexivity.
    + unfold sb. cbn [nid_eqb]. replace (Nat.eqb k' k) with false by (symmetry; apply Nat.eqb_neq; lia). reflexivity.
Qed.

Lemma rauw_net : forall g k' inp, k < k' ->
  map (rauw1 (NComb k) best) (fst (tr_net MFull k' inp g)) = fst (tr_net MFull k' (sb inp) g) /\
  sb (snd (tr_net MFull k' inp g)) = snd (tr_net MFull k' (sb inp) g).
Proof.
  induction g as [|n g IH]; intros k' inp Hk; cbn [tr_net]; [split; reflexivity|].
  destruct (rauw_node n k' inp Hk) as [H1 H2].
  destruct (tr_node MFull k' inp n) as [a o]. destruct (tr_node MFull k' (sb inp) n) as [a' o']. cbn [fst snd] in H1, H2. subst a' o'.
  destruct (IH (S k') o) as [H3 H4]; [lia|].
  destruct (tr_net MFull (S k') o g) as [c o2]. destruct (tr_net MFull (S k') (sb o) g) as [c' o2']. cbn [fst snd] in *.
  split; [rewrite map_app, H3; reflexivity|exact H4].
Qed.
End Rauw.

(* ------------------------------------------------------------------ one combiner: the body of the loop of export_graph *)
Definition outn (o : nid) : fxnode := mkFx NOut FOut [o].
Definition pre_ok (k : nat) (pre : list fxnode) : Prop :=
  forall m, In m pre -> idx_lt (f_id m) k /\ (forall a, In a (f_args m) -> idx_lt a k) /\ comb_at m.

Lemma idx_lt_not_seg a k : idx_lt a k -> id_seg k a -> False.
Proof. destruct a; cbn; lia. Qed.
Lemma is_root_seg k a : is_root k a = true -> id_seg k a.
Proof. destruct a as [| | |k' j [|x p]]; cbn; try discriminate. apply Nat.eqb_eq. Qed.

Lemma inner_fold0 : forall mt al best k L0 os,
  (forall o, In o os -> o = best \/ (is_root k o = true /\ no_users o L0) \/
                        (is_root k o = false /\ exists m, In m L0 /\ uses o m = true /\ (f_id m = best \/ is_root k (f_id m) = false))) ->
  fold_opt (inner_spec best) os (mkG L0 mt al) = Some (mkG (filter (notin (erased_roots k best os)) L0) mt al).
Proof.
  intros mt al best k L0 os H. rewrite <- (filter_all (notin []) L0) at 1 by (intros; reflexivity).
  rewrite (inner_fold mt al best k L0 os [] H); [reflexivity|intros d []].
Qed.

Lemma tr_branches_incl : forall brs k inp j i e m, nth_error brs i = Some e -> In m (tr_body k (j + i) inp [] e) ->
  In m (fst (tr_branches k inp j brs)).
Proof.
  induction brs as [|e0 brs IH]; intros k inp j i e m H Hm; [destruct i; discriminate|]. cbn [tr_branches].
  specialize (IH k inp (S j)). destruct (tr_branches k inp (S j) brs) as [ns os]. cbn [fst] in *. apply in_or_app.
  destruct i as [|i]; cbn in H.
  - injection H as <-. rewrite Nat.add_0_r in Hm. left. exact Hm.
  - right. apply (IH i e m H). replace (S j + i) with (j + S i) by lia. exact Hm.
Qed.
Lemma idx_lt_not_root a k : idx_lt a k -> is_root k a = false.
Proof. destruct a as [| | |k' j [|x p]]; cbn; try reflexivity. intro H. apply Nat.eqb_neq. lia. Qed.
Lemma erased_roots_root : forall k best os d, In d (erased_roots k best os) -> is_root k d = true /\ d <> best.
Proof. intros k best os d H. apply filter_In in H. destruct H as [_ H]. apply andb_true_iff in H. destruct H as [H1 H2]. split; [exact H2|]. apply negb_true_iff in H1. apply nid_eqb_false, H1. Qed.

Section CombStep.
Variables (mt : list Z) (al : Z -> list Q) (win : Z -> nat) (b : Z) (brs : list bexp) (r : gnet) (k : nat) (inp : nid) (pre : list fxnode).
Hypothesis Hwin : win b = CG.comb_best_layer_index_gen (al b).
Hypothesis Hlt : win b < length brs.
Hypothesis Hinp : idx_lt inp k.
Hypothesis Hpre : pre_ok k pre.

Let ns := fst (tr_branches k inp 0 brs).
Let os := snd (tr_branches k inp 0 brs).
Let best := nth (win b) os inp.
Let comb := mkFx (NComb k) (FComb b) os.
Let rest := fst (tr_net MFull (S k) (NComb k) r).
Let o := snd (tr_net MFull (S k) (NComb k) r).
Let rest' := fst (tr_net MFull (S k) best r).
Let o' := snd (tr_net MFull (S k) best r).

Lemma cs_ns : forall m, In m ns -> exists i e, nth_error brs i = Some e /\ In m (tr_body k i inp [] e).
Proof. intros m H. destruct (tr_branches_in brs k inp 0 m H) as [i [e [H1 H2]]]. exists i, e. split; assumption. Qed.
Lemma cs_os : forall x, In x os -> exists i e, nth_error brs i = Some e /\ x = bout k i inp [] e.
Proof. intros x H. destruct (tr_branches_out_in brs k inp 0 x H) as [i [e [H1 H2]]]. exists i, e. split; assumption. Qed.
Lemma cs_best_nth : nth_error os (win b) = Some best.
Proof. apply nth_error_nth'. unfold os. rewrite tr_branches_outs_length. exact Hlt. Qed.
Lemma cs_best : exists e, nth_error brs (win b) = Some e /\ best = bout k (win b) inp [] e.
Proof.
  destruct (nth_error brs (win b)) as [e|] eqn:E; [|apply nth_error_None in E; lia]. exists e. split; [reflexivity|].
  pose proof (tr_branches_outs brs k inp 0 (win b) e E) as H. fold os in H. rewrite cs_best_nth in H. cbn in H. congruence.
Qed.
Lemma cs_inp_ne : forall k', k <= k' -> inp <> NComb k'.
Proof. intros k' Hk E. rewrite E in Hinp. cbn in Hinp. lia. Qed.
Lemma cs_best_ne : best <> NComb k.
Proof.
  destruct cs_best as [e [_ ->]]. destruct (bout_cases k (win b) inp [] e) as [[_ ->]|[_ ->]]; [apply cs_inp_ne; lia|discriminate].
Qed.
Lemma cs_best_lt : idx_lt best (S k).
Proof.
  destruct cs_best as [e [_ ->]]. destruct (bout_cases k (win b) inp [] e) as [[_ ->]|[_ ->]]; [eapply idx_lt_mono; [exact Hinp|lia]|cbn; lia].
Qed.
Lemma cs_ns_args : forall m a, In m ns -> In a (f_args m) -> a = inp \/ exists i p, p <> [] /\ a = NN k i p.
Proof.
  intros m a Hm Ha. destruct (cs_ns m Hm) as [i [e [_ Hb]]]. destruct (tr_body_args _ _ _ _ _ _ _ Hb Ha) as [->|[p [Hp ->]]]; [left; reflexivity|].
  right. exists i, (p ++ []). split; [destruct p; [congruence|discriminate]|reflexivity].
Qed.
Lemma cs_ns_ids : forall m, In m ns -> exists i p, f_id m = NN k i p.
Proof. intros m Hm. destruct (cs_ns m Hm) as [i [e [_ Hb]]]. destruct (tr_body_ids _ _ _ _ _ _ Hb) as [p ->]. exists i, (p ++ []). reflexivity. Qed.
Lemma cs_os_form : forall x, In x os -> x = inp \/ exists i, x = NN k i [].
Proof. intros x H. destruct (cs_os x H) as [i [e [_ ->]]]. destruct (bout_cases k i inp [] e) as [[_ ->]|[_ ->]]; [left; reflexivity|right; exists i; reflexivity]. Qed.

Lemma cs_rest'_in : forall m, In m rest' -> idx_ge (f_id m) (S k) /\ (forall a, In a (f_args m) -> a = best \/ idx_ge a (S k)) /\ comb_at m.
Proof. intros m H. apply (tr_net_in MFull r (S k) best m H). Qed.
Lemma cs_o' : o' = best \/ idx_ge o' (S k).
Proof. apply tr_net_out. Qed.

Let L := pre ++ (ns ++ [comb]) ++ rest ++ [outn o].

Lemma cs_find : fx_find (mkG L mt al) (NComb k) = Some comb.
Proof.
  unfold fx_find, L. cbn [g_nodes]. rewrite <- app_assoc. cbn [app]. rewrite app_assoc. apply find_skip; [|reflexivity].
  intros x Hx. apply in_app_or in Hx. destruct Hx as [Hx|Hx].
  - destruct (Hpre x Hx) as [Hi _]. intro E. rewrite E in Hi. cbn in Hi. lia.
  - destruct (cs_ns_ids x Hx) as [i [p ->]]. discriminate.
Qed.

Lemma cs_rauw : fx_rauw (NComb k) best (mkG L mt al) = mkG (pre ++ (ns ++ [comb]) ++ rest' ++ [outn o']) mt al.
Proof.
  unfold fx_rauw, with_nodes, L. cbn [g_nodes g_modtree g_alpha]. f_equal.
  change (fun m => mkFx (f_id m) (f_op m) (map (fun a => if nid_eqb a (NComb k) then best else a) (f_args m))) with (rauw1 (NComb k) best).
  destruct (rauw_net k best r (S k) (NComb k)) as [R1 R2]; [lia|].
  assert (Esb : sb k best (NComb k) = best) by (unfold sb; rewrite nid_eqb_refl; reflexivity). rewrite Esb in R1, R2.
  rewrite !map_app. f_equal; [|f_equal; [f_equal|f_equal]].
  - apply map_id_on. intros m Hm. apply rauw1_id. intros a Ha E. destruct (Hpre m Hm) as (_ & Hargs & _).
    specialize (Hargs a Ha). rewrite E in Hargs. cbn in Hargs. lia.
  - apply map_id_on. intros m Hm. apply rauw1_id. intros a Ha E.
    destruct (cs_ns_args m a Hm Ha) as [->|[i [p [_ ->]]]]; [apply (cs_inp_ne k (le_n k) E)|discriminate].
  - cbn [map]. f_equal. apply rauw1_id. cbn [f_args comb]. intros a Ha E.
    destruct (cs_os_form a Ha) as [->|[i ->]]; [apply (cs_inp_ne k (le_n k) E)|discriminate].
  - exact R1.
  - cbn [map]. unfold rauw1, outn. cbn [f_id f_op f_args map]. fold (sb k best o). unfold o. rewrite R2. reflexivity.
Qed.

Let comb0 := mkFx (NComb k) (FComb b) [].
Lemma cs_clear : fx_clear (NComb k) (mkG (pre ++ (ns ++ [comb]) ++ rest' ++ [outn o']) mt al) =
                 mkG (pre ++ (ns ++ [comb0]) ++ rest' ++ [outn o']) mt al.
Proof.
  unfold fx_clear, with_nodes. cbn [g_nodes g_modtree g_alpha]. f_equal.
  change (fun m => if nid_eqb (f_id m) (NComb k) then mkFx (f_id m) (f_op m) [] else m) with (clear1 (NComb k)).
  rewrite !map_app. f_equal; [|f_equal; [f_equal|f_equal]].
  - apply map_id_on. intros m Hm. apply clear1_id. destruct (Hpre m Hm) as [Hi _]. intro E. rewrite E in Hi. cbn in Hi. lia.
  - apply map_id_on. intros m Hm. apply clear1_id. destruct (cs_ns_ids m Hm) as [i [p ->]]. discriminate.
  - cbn [map]. unfold clear1. cbn [f_id comb]. rewrite nid_eqb_refl. reflexivity.
  - apply map_id_on. intros m Hm. apply clear1_id. destruct (cs_rest'_in m Hm) as [Hi _]. intro E. rewrite E in Hi. cbn in Hi. lia.
Qed.

Lemma cs_no_users_comb : no_users (NComb k) (pre ++ (ns ++ [comb0]) ++ rest' ++ [outn o']).
Proof.
  repeat apply no_users_app; apply no_users_args; intros m a Hm Ha E; subst a.
  - destruct (Hpre m Hm) as (_ & Hargs & _). specialize (Hargs _ Ha). cbn in Hargs. lia.
  - destruct (cs_ns_args m _ Hm Ha) as [E|[i [p [_ E]]]]; [symmetry in E; apply (cs_inp_ne k (le_n k) E)|discriminate].
  - destruct Hm as [<-|[]]. destruct Ha.
  - destruct (cs_rest'_in m Hm) as (_ & Hargs & _). destruct (Hargs _ Ha) as [E|Hg]; [symmetry in E; apply (cs_best_ne E)|cbn in Hg; lia].
  - destruct Hm as [<-|[]]. destruct Ha as [E|[]]. destruct cs_o' as [E'|Hg]; [apply cs_best_ne; congruence|rewrite E in Hg; cbn in Hg; lia].
Qed.

Lemma cs_erase : fx_erase (NComb k) (mkG (pre ++ (ns ++ [comb0]) ++ rest' ++ [outn o']) mt al) =
                 Some (mkG (pre ++ ns ++ rest' ++ [outn o']) mt al).
Proof.
  unfold fx_erase, fx_users, with_nodes. cbn [g_nodes g_modtree g_alpha]. rewrite users_zero by apply cs_no_users_comb. cbn [Nat.eqb].
  f_equal. f_equal. change (fun m => negb (nid_eqb (f_id m) (NComb k))) with (keep1 (NComb k)).
  rewrite !filter_app. f_equal; [|f_equal; [|f_equal]].
  - apply filter_all. intros m Hm. apply keep1_true. destruct (Hpre m Hm) as [Hi _]. intro E. rewrite E in Hi. cbn in Hi. lia.
  - cbn [filter]. unfold keep1 at 2. cbn [f_id comb0]. rewrite nid_eqb_refl. cbn [negb]. rewrite app_nil_r.
    apply filter_all. intros m Hm. apply keep1_true. destruct (cs_ns_ids m Hm) as [i [p ->]]. discriminate.
  - apply filter_all. intros m Hm. apply keep1_true. destruct (cs_rest'_in m Hm) as [Hi _]. intro E. rewrite E in Hi. cbn in Hi. lia.
Qed.

Lemma cs_inner : fold_opt (inner_spec best) os (mkG (pre ++ ns ++ rest' ++ [outn o']) mt al) =
                 Some (mkG (pre ++ filter (notin (erased_roots k best os)) ns ++ rest' ++ [outn o']) mt al).
Proof.
  rewrite (inner_fold0 mt al best k).
  - f_equal. f_equal. rewrite !filter_app. f_equal; [|f_equal; f_equal].
    + apply filter_all. intros m Hm. apply notin_true. intros d Hd E. destruct (erased_roots_root _ _ _ _ Hd) as [Hr _].
      destruct (Hpre m Hm) as [Hi _]. rewrite E in Hi. rewrite (idx_lt_not_root _ _ Hi) in Hr. discriminate.
    + apply filter_all. intros m Hm. apply notin_true. intros d Hd E. destruct (erased_roots_root _ _ _ _ Hd) as [Hr _].
      destruct (cs_rest'_in m Hm) as [Hi _]. rewrite E in Hi. apply is_root_seg in Hr. destruct d; cbn in *; lia.
    + cbn [filter]. rewrite notin_true; [reflexivity|]. intros d Hd E. destruct (erased_roots_root _ _ _ _ Hd) as [Hr _].
      cbn [outn f_id] in E. subst d. discriminate.
  - intros x Hx. destruct (cs_os x Hx) as [i [e [Hn ->]]]. destruct (bout_cases k i inp [] e) as [[He Eo]|[He Eo]]; rewrite Eo.
    + destruct (nid_eqb inp best) eqn:Eb; [left; apply nid_eqb_iff, Eb|]. right. right.
      split; [apply idx_lt_not_root, Hinp|]. destruct cs_best as [ew [Hnw Ebest]].
      destruct (bout_cases k (win b) inp [] ew) as [[_ Eo']|[Hew Eo']].
      { exfalso. apply nid_eqb_false in Eb. apply Eb. congruence. }
      destruct (tr_body_reads_input ew k (win b) inp [] Hew) as [m [Hm Ha]]. exists m.
      split; [apply in_or_app; right; apply in_or_app; left; apply (tr_branches_incl brs k inp 0 (win b) ew m Hnw Hm)|].
      split; [apply nmem_iff, Ha|]. destruct (tr_body_ids _ _ _ _ _ _ Hm) as [p Hid]. rewrite Hid. rewrite app_nil_r.
      destruct p as [|c p]; [left; congruence|right; reflexivity].
    + destruct (nid_eqb (NN k i []) best) eqn:Eb; [left; apply nid_eqb_iff, Eb|]. right. left.
      split; [cbn; apply Nat.eqb_refl|]. apply nid_eqb_false in Eb.
      repeat apply no_users_app; apply no_users_args; intros m a Hm Ha E; subst a.
      * destruct (Hpre m Hm) as (_ & Hargs & _). specialize (Hargs _ Ha). cbn in Hargs. lia.
      * destruct (cs_ns_args m _ Hm Ha) as [E|[i' [p [Hp E]]]]; [rewrite <- E in Hinp; cbn in Hinp; lia|]. injection E as _ E. congruence.
      * destruct (cs_rest'_in m Hm) as (_ & Hargs & _). destruct (Hargs _ Ha) as [E|Hg]; [congruence|cbn in Hg; lia].
      * destruct Hm as [<-|[]]. destruct Ha as [E|[]]. destruct cs_o' as [E'|Hg]; [congruence|rewrite E in Hg; cbn in Hg; lia].
Qed.

Theorem cs_step : istep (mkG L mt al) (NComb k) =
  Some (mkG (pre ++ filter (notin (erased_roots k best os)) ns ++ rest' ++ [outn o']) mt al).
Proof.
  unfold istep, export_step_gen. cbv zeta. unfold fx_is_combiner, fx_comb_alpha, fx_args. rewrite cs_find. cbn [f_op f_args comb g_alpha].
  rewrite <- Hwin, cs_best_nth. rewrite cs_rauw, cs_clear, cs_erase.
  rewrite (fold_opt_ext _ (inner_spec best)).
  - rewrite cs_inner. reflexivity.
  - (* the test of the inner loop, however it is phrased: case analysis on `ni is best` and on the number of users *)
    intros s ni. unfold inner_spec. destruct (nid_eqb ni best); destruct (fx_users s ni) as [|u];
      cbn [negb andb orb Nat.eqb Nat.ltb Nat.leb]; try reflexivity; destruct (fx_erase ni (fx_clear ni s)); reflexivity.
Qed.
End CombStep.

(* ------------------------------------------------------------------ the whole loop: every combiner, left to right *)
Lemma tr_net_cons : forall md k inp n g,
  fst (tr_net md k inp (n :: g)) = fst (tr_node md k inp n) ++ fst (tr_net md (S k) (snd (tr_node md k inp n)) g) /\
  snd (tr_net md k inp (n :: g)) = snd (tr_net md (S k) (snd (tr_node md k inp n)) g).
Proof.
  intros. cbn [tr_net]. destruct (tr_node md k inp n) as [a o]. cbn [snd]. destruct (tr_net md (S k) o g) as [c o']. split; reflexivity.
Qed.

Lemma tr_node_out_lt : forall md k inp n, idx_lt inp k -> idx_lt (snd (tr_node md k inp n)) (S k).
Proof.
  intros md k inp n H. destruct (tr_node_out md k inp n) as [->|Hs]; [eapply idx_lt_mono; [exact H|lia]|].
  destruct (snd (tr_node md k inp n)); cbn in *; try contradiction; lia.
Qed.

Lemma pre_ok_extend : forall md k inp n pre, idx_lt inp k -> pre_ok k pre -> pre_ok (S k) (pre ++ fst (tr_node md k inp n)).
Proof.
  intros md k inp n pre Hi Hp m Hm. apply in_app_or in Hm. destruct Hm as [Hm|Hm].
  - destruct (Hp m Hm) as (H1 & H2 & H3). split; [eapply idx_lt_mono; [exact H1|lia]|]. split; [|exact H3].
    intros a Ha. eapply idx_lt_mono; [apply H2, Ha|lia].
  - destruct (tr_node_in md k inp n m Hm) as (H1 & H2 & H3).
    assert (Hseg : forall a, id_seg k a -> idx_lt a (S k)) by (intros a Ha; destruct a; cbn in *; try contradiction; lia).
    split; [apply Hseg, H1|]. split; [|exact H3]. intros a Ha. destruct (H2 a Ha) as [->|Hs]; [eapply idx_lt_mono; [exact Hi|lia]|apply Hseg, Hs].
Qed.

Section Loop.
Variables (mt : list Z) (al : Z -> list Q) (win : Z -> nat).
Hypothesis Hwin : forall b, win b = CG.comb_best_layer_index_gen (al b).

Lemma state_comb_at : forall md k inp g pre o, pre_ok k pre ->
  forall m, In m (g_nodes (mkG (pre ++ fst (tr_net md k inp g) ++ [outn o]) mt al)) -> comb_at m.
Proof.
  intros md k inp g pre o Hp m Hm. cbn [g_nodes] in Hm. apply in_app_or in Hm. destruct Hm as [Hm|Hm]; [apply (Hp m Hm)|].
  apply in_app_or in Hm. destruct Hm as [Hm|[<-|[]]]; [apply (tr_net_in md g k inp m Hm)|exact I].
Qed.

Lemma loop_net : forall g k inp pre, g_winners_ok win g -> idx_lt inp k -> pre_ok k pre ->
  fold_opt istep (map f_id (fst (tr_net MFull k inp g)))
    (mkG (pre ++ fst (tr_net MFull k inp g) ++ [outn (snd (tr_net MFull k inp g))]) mt al) =
  Some (mkG (pre ++ fst (tr_net (MHalf win) k inp g) ++ [outn (snd (tr_net (MHalf win) k inp g))]) mt al).
Proof.
  induction g as [|n g IH]; intros k inp pre Hw Hi Hp; [reflexivity|].
  assert (Hw' : g_winners_ok win g) by (intros b brs Hin; apply (Hw b brs); right; exact Hin).
  destruct (tr_net_cons MFull k inp n g) as [E1 E2]. destruct (tr_net_cons (MHalf win) k inp n g) as [E3 E4].
  assert (Hplain : forall a o, tr_node MFull k inp n = (a, o) -> tr_node (MHalf win) k inp n = (a, o) ->
            (forall x, In x a -> forall k', f_id x <> NComb k') ->
            fold_opt istep (map f_id (fst (tr_net MFull k inp (n :: g))))
              (mkG (pre ++ fst (tr_net MFull k inp (n :: g)) ++ [outn (snd (tr_net MFull k inp (n :: g)))]) mt al) =
            Some (mkG (pre ++ fst (tr_net (MHalf win) k inp (n :: g)) ++ [outn (snd (tr_net (MHalf win) k inp (n :: g)))]) mt al)).
  { intros a o Ef Eh Hids. rewrite E1, E2, E3, E4, Ef, Eh. cbn [fst snd]. rewrite map_app, fold_opt_app.
    assert (Ho : idx_lt o (S k)) by (pose proof (tr_node_out_lt MFull k inp n Hi) as H; rewrite Ef in H; exact H).
    assert (Hp' : pre_ok (S k) (pre ++ a)) by (pose proof (pre_ok_extend MFull k inp n pre Hi Hp) as H; rewrite Ef in H; exact H).
    rewrite fold_noop.
    - rewrite <- !app_assoc. rewrite (app_assoc pre a), (app_assoc pre a). apply IH; assumption.
    - intros x Hx k'. apply in_map_iff in Hx. destruct Hx as [y [<- Hy]]. apply Hids, Hy.
    - intros m Hm. cbn [g_nodes] in Hm. rewrite <- app_assoc in Hm. rewrite (app_assoc pre a) in Hm.
      apply (state_comb_at MFull (S k) o g (pre ++ a) _ Hp' m Hm). }
  destruct n as [l|e|b brs].
  - apply (Hplain _ _ eq_refl eq_refl). intros x [<-|[]] k'. discriminate.
  - apply (Hplain _ _ eq_refl eq_refl). intros x Hx k'. destruct (tr_body_ids _ _ _ _ _ _ Hx) as [p ->]. discriminate.
  - clear Hplain. rewrite E1, E2, E3, E4. cbn [tr_node].
    destruct (tr_branches k inp 0 brs) as [ns os] eqn:Eb. cbn [fst snd].
    assert (Hns : ns = fst (tr_branches k inp 0 brs)) by (rewrite Eb; reflexivity).
    assert (Hos : os = snd (tr_branches k inp 0 brs)) by (rewrite Eb; reflexivity).
    assert (Hlt : win b < length brs) by (apply (Hw b brs); left; reflexivity).
    rewrite map_app, fold_opt_app. rewrite map_app, fold_opt_app. rewrite fold_noop.
    + cbn [map fold_opt].
      pose proof (cs_step mt al win b brs g k inp pre (Hwin b) Hlt Hi Hp) as Hs. rewrite <- Hns, <- Hos in Hs.
      rewrite <- app_assoc. cbn [f_id]. rewrite Hs. clear Hs.
      set (best := nth (win b) os inp).
      assert (Hb : idx_lt best (S k)) by (subst best; rewrite Hos; eapply cs_best_lt; eauto).
      assert (Hp' : pre_ok (S k) (pre ++ filter (notin (erased_roots k best os)) ns)).
      { pose proof (pre_ok_extend (MHalf win) k inp (GChoice b brs) pre Hi Hp) as H. cbn [tr_node] in H. rewrite Eb in H. exact H. }
      assert (Eids : map f_id (fst (tr_net MFull (S k) (NComb k) g)) = map f_id (fst (tr_net MFull (S k) best g))).
      { destruct (rauw_net k best g (S k) (NComb k)) as [R1 _]; [lia|]. unfold sb in R1. rewrite nid_eqb_refl in R1.
        rewrite <- R1, map_map. reflexivity. }
      rewrite Eids. rewrite (app_assoc pre). specialize (IH (S k) best _ Hw' Hb Hp'). rewrite IH. rewrite <- !app_assoc. reflexivity.
    + intros x Hx k'. apply in_map_iff in Hx. destruct Hx as [y [<- Hy]]. rewrite Hns in Hy.
      destruct (tr_branches_in brs k inp 0 y Hy) as [i [e [_ Hb]]]. destruct (tr_body_ids _ _ _ _ _ _ Hb) as [p ->]. discriminate.
    + intros m Hm. pose proof (state_comb_at MFull k inp (GChoice b brs :: g) pre (snd (tr_net MFull k inp (GChoice b brs :: g))) Hp m) as H.
      apply H. rewrite E1, E2. cbn [tr_node]. rewrite Eb. cbn [fst snd]. exact Hm.
Qed.
End Loop.

(* ------------------------------------------------------------------ eliminate_dead_code on the graph the loop leaves *)
Definition refs (acc : list fxnode) : list nid := flat_map f_args acc.
Lemma refs_app a b : refs (a ++ b) = refs a ++ refs b. Proof. apply flat_map_app. Qed.
Lemma used_iff : forall i acc, existsb (uses i) acc = true <-> In i (refs acc).
Proof.
  intros i acc. rewrite existsb_exists. unfold refs. rewrite in_flat_map. split; intros [m [Hm H]]; exists m; (split; [exact Hm|]); apply nmem_iff; exact H.
Qed.
Lemma used_false : forall i acc, ~ In i (refs acc) -> existsb (uses i) acc = false.
Proof. intros i acc H. destruct (existsb (uses i) acc) eqn:E; [apply used_iff in E; contradiction|reflexivity]. Qed.

Lemma dce_app : forall acc a b, dce_acc acc (a ++ b) = dce_acc (dce_acc acc b) a.
Proof. intros. unfold dce_acc. apply fold_right_app. Qed.
Lemma dce_one_kept : forall acc m, In (f_id m) (refs acc) -> dce_acc acc [m] = m :: acc.
Proof. intros acc m H. cbn. apply used_iff in H. rewrite H, orb_true_r. reflexivity. Qed.
Lemma plain_not_impure m : plain_op m = true -> impure m = false.
Proof. unfold plain_op, impure. destruct (f_op m); congruence. Qed.
Lemma dce_drop : forall l acc, (forall m, In m l -> impure m = false /\ ~ In (f_id m) (refs acc)) -> dce_acc acc l = acc.
Proof.
  induction l as [|m l IH]; intros acc H; [reflexivity|]. cbn [dce_acc fold_right]. fold (dce_acc acc l).
  rewrite IH by (intros; apply H; right; assumption). destruct (H m (or_introl eq_refl)) as [Hi Hu].
  rewrite Hi, (used_false _ _ Hu). reflexivity.
Qed.

(* a body whose root is needed is kept entirely *)
Lemma body_kept : forall e k j inp p acc, (e <> BIn -> In (NN k j p) (refs acc)) ->
  dce_acc acc (tr_body k j inp p e) = tr_body k j inp p e ++ acc.
Proof.
  induction e as [|l e IH|op a IHa b IHb]; intros k j inp p acc H; cbn [tr_body]; [reflexivity| |].
  - rewrite dce_app, dce_one_kept by (apply H; discriminate). rewrite IH; [rewrite <- app_assoc; reflexivity|].
    intro He. cbn [refs flat_map f_args app]. left. destruct (bout_cases k j inp (false :: p) e) as [[? _]|[_ ->]]; [contradiction|reflexivity].
  - rewrite dce_app, dce_app, dce_one_kept by (apply H; discriminate). rewrite IHb.
    + rewrite IHa; [rewrite <- !app_assoc; reflexivity|]. intro He. rewrite refs_app. apply in_or_app. right.
      cbn [refs flat_map f_args app]. left. destruct (bout_cases k j inp (false :: p) a) as [[? _]|[_ ->]]; [contradiction|reflexivity].
    + intro He. cbn [refs flat_map f_args app]. right. left.
      destruct (bout_cases k j inp (true :: p) b) as [[? _]|[_ ->]]; [contradiction|reflexivity].
Qed.

(* the winner's nodes among the branches of one block *)
Fixpoint winner_nodes (k : nat) (inp : nid) (w j : nat) (brs : list bexp) : list fxnode :=
  match brs with [] => [] | e :: r => (if Nat.eqb j w then tr_body k j inp [] e else []) ++ winner_nodes k inp w (S j) r end.
Lemma winner_nodes_gt : forall brs k inp w j, w < j -> winner_nodes k inp w j brs = [].
Proof.
  induction brs as [|e brs IH]; intros k inp w j H; [reflexivity|]. cbn [winner_nodes].
  replace (Nat.eqb j w) with false by (symmetry; apply Nat.eqb_neq; lia). rewrite IH by lia. reflexivity.
Qed.
Lemma winner_nodes_eq : forall brs k inp w j e, j <= w -> nth_error brs (w - j) = Some e ->
  winner_nodes k inp w j brs = tr_body k w inp [] e.
Proof.
  induction brs as [|e0 brs IH]; intros k inp w j e Hj H; [destruct (w - j); discriminate|]. cbn [winner_nodes].
  destruct (Nat.eqb_spec j w) as [->|Hne].
  - rewrite Nat.sub_diag in H. injection H as <-. rewrite winner_nodes_gt by lia. apply app_nil_r.
  - cbn [app]. apply IH; [lia|]. replace (w - j) with (S (w - S j)) in H by lia. exact H.
Qed.
Lemma winner_nodes_in : forall brs k inp w j m, In m (winner_nodes k inp w j brs) -> exists e, In m (tr_body k w inp [] e).
Proof.
  induction brs as [|e brs IH]; intros k inp w j m H; [destruct H|]. cbn [winner_nodes] in H. apply in_app_or in H. destruct H as [H|H].
  - destruct (Nat.eqb_spec j w) as [->|]; [exists e; exact H|destruct H].
  - eapply IH; exact H.
Qed.

Section DceBlock.
Variables (k : nat) (inp best : nid) (w : nat) (D : list nid).
Hypothesis Hinp : idx_lt inp k.
Hypothesis HD : forall d, In d D -> is_root k d = true /\ d <> best.
Definition blk_ext (acc : list fxnode) : Prop :=
  forall a, In a (refs acc) -> a = inp \/ (exists p, a = NN k w p) \/ idx_ge a (S k).

Lemma dce_block : forall brs j acc,
  (forall i e, nth_error brs i = Some e -> j + i = w -> best = bout k w inp [] e) ->
  blk_ext acc -> In best (refs acc) ->
  dce_acc acc (filter (notin D) (fst (tr_branches k inp j brs))) = winner_nodes k inp w j brs ++ acc.
Proof.
  induction brs as [|e brs IH]; intros j acc Hb Hacc Href; [reflexivity|]. cbn [tr_branches winner_nodes].
  specialize (IH (S j) acc). destruct (tr_branches k inp (S j) brs) as [ns os]. cbn [fst] in *.
  rewrite filter_app, dce_app, IH; [|intros i e' Hn Hi; apply (Hb (S i) e' Hn); lia|exact Hacc|exact Href]. clear IH.
  set (acc1 := winner_nodes k inp w (S j) brs ++ acc).
  assert (Hacc1 : blk_ext acc1).
  { intros a Ha. unfold acc1 in Ha. rewrite refs_app in Ha. apply in_app_or in Ha. destruct Ha as [Ha|Ha]; [|apply Hacc, Ha].
    unfold refs in Ha. apply in_flat_map in Ha. destruct Ha as [m [Hm Ha]]. destruct (winner_nodes_in _ _ _ _ _ _ Hm) as [e' Hm'].
    destruct (tr_body_args _ _ _ _ _ _ _ Hm' Ha) as [->|[p [_ ->]]]; [left; reflexivity|right; left; eexists; reflexivity]. }
  destruct (Nat.eqb_spec j w) as [->|Hne].
  - assert (Eb : best = bout k w inp [] e) by (apply (Hb 0 e eq_refl); lia).
    rewrite filter_all.
    + rewrite body_kept; [unfold acc1; rewrite app_assoc; reflexivity|]. intro He. unfold acc1. rewrite refs_app. apply in_or_app. right.
      destruct (bout_cases k w inp [] e) as [[? _]|[_ Eo]]; [contradiction|]. rewrite <- Eo, <- Eb. exact Href.
    + intros m Hm. apply notin_true. intros d Hd E. destruct (HD d Hd) as [Hr Hnb].
      destruct (tr_body_ids _ _ _ _ _ _ Hm) as [p Hid]. rewrite app_nil_r in Hid. rewrite Hid in E. subst d.
      destruct p as [|c p]; [|discriminate Hr]. apply Hnb. rewrite Eb.
      destruct (bout_cases k w inp [] e) as [[-> _]|[_ ->]]; [destruct Hm|reflexivity].
  - cbn [app]. apply dce_drop. intros m Hm. apply filter_In in Hm. destruct Hm as [Hm _]. split.
    + apply plain_not_impure. eapply tr_body_ops; exact Hm.
    + destruct (tr_body_ids _ _ _ _ _ _ Hm) as [p ->]. intro Hin. destruct (Hacc1 _ Hin) as [E|[[p' E]|Hg]].
      * rewrite <- E in Hinp. cbn in Hinp. lia.
      * injection E as E _. contradiction.
      * cbn in Hg. lia.
Qed.
End DceBlock.

Section DceNet.
Variable win : Z -> nat.

Lemma half_exp_node_out : forall k inp n, (forall b brs, n = GChoice b brs -> win b < length brs) ->
  snd (tr_node (MHalf win) k inp n) = snd (tr_node (MExp win) k inp n).
Proof.
  intros k inp [l|e|b brs] H; [reflexivity|reflexivity|]. cbn [tr_node]. specialize (H b brs eq_refl).
  destruct (nth_error brs (win b)) as [e|] eqn:E; [|apply nth_error_None in E; lia].
  pose proof (tr_branches_outs brs k inp 0 (win b) e E) as Ho. destruct (tr_branches k inp 0 brs) as [ns os]. cbn [snd] in *.
  apply nth_error_nth with (d := inp) in Ho. exact Ho.
Qed.

Lemma half_exp_out : forall g k inp, g_winners_ok win g -> snd (tr_net (MHalf win) k inp g) = snd (tr_net (MExp win) k inp g).
Proof.
  induction g as [|n g IH]; intros k inp Hw; [reflexivity|].
  destruct (tr_net_cons (MHalf win) k inp n g) as [_ E1]. destruct (tr_net_cons (MExp win) k inp n g) as [_ E2]. rewrite E1, E2.
  rewrite half_exp_node_out by (intros b brs ->; apply (Hw b brs); left; reflexivity).
  apply IH. intros b brs Hin. apply (Hw b brs). right. exact Hin.
Qed.

(* the exported graph reads its input: whoever needs the output of a part of the chain needs its input *)
Lemma exp_node_reads_input : forall k inp n X, In (snd (tr_node (MExp win) k inp n)) (refs X) ->
  In inp (refs (fst (tr_node (MExp win) k inp n) ++ X)).
Proof.
  assert (Hbody : forall k j inp e X, In (bout k j inp [] e) (refs X) -> In inp (refs (tr_body k j inp [] e ++ X))).
  { intros k j inp e X H. rewrite refs_app. apply in_or_app. destruct (bout_cases k j inp [] e) as [[-> Eo]|[He _]].
    - right. exact H.
    - left. destruct (tr_body_reads_input e k j inp [] He) as [m [Hm Ha]]. unfold refs. apply in_flat_map. exists m. split; assumption. }
  intros k inp [l|e|b brs] X H; cbn [tr_node fst snd] in *.
  - cbn. left. reflexivity.
  - apply Hbody, H.
  - destruct (nth_error brs (win b)); cbn [fst snd] in *; [apply Hbody, H|exact H].
Qed.

Lemma exp_net_reads_input : forall g k inp X, In (snd (tr_net (MExp win) k inp g)) (refs X) ->
  In inp (refs (fst (tr_net (MExp win) k inp g) ++ X)).
Proof.
  induction g as [|n g IH]; intros k inp X H; [exact H|].
  destruct (tr_net_cons (MExp win) k inp n g) as [E1 E2]. rewrite E1. rewrite E2 in H. rewrite <- app_assoc.
  apply exp_node_reads_input. apply IH. exact H.
Qed.

Definition ext_ok (acc : list fxnode) (o : nid) (K : nat) : Prop := forall a, In a (refs acc) -> a = o \/ idx_ge a K.

Lemma dce_node : forall k inp n acc, idx_lt inp k -> (forall b brs, n = GChoice b brs -> win b < length brs) ->
  In (snd (tr_node (MExp win) k inp n)) (refs acc) -> ext_ok acc (snd (tr_node (MExp win) k inp n)) (S k) ->
  dce_acc acc (fst (tr_node (MHalf win) k inp n)) = fst (tr_node (MExp win) k inp n) ++ acc.
Proof.
  intros k inp [l|e|b brs] acc Hi Hw Ho Hext.
  - cbn [tr_node fst snd] in *. apply dce_one_kept. exact Ho.
  - cbn [tr_node fst snd] in *. apply body_kept. intro He. destruct (bout_cases k 0 inp [] e) as [[? _]|[_ Eo]]; [contradiction|].
    rewrite <- Eo. exact Ho.
  - specialize (Hw b brs eq_refl). cbn [tr_node] in *.
    destruct (nth_error brs (win b)) as [ew|] eqn:E; [|apply nth_error_None in E; lia]. cbn [fst snd] in *.
    pose proof (tr_branches_outs brs k inp 0 (win b) ew E) as Hon. destruct (tr_branches k inp 0 brs) as [ns os] eqn:Eb. cbn [fst snd] in *.
    apply nth_error_nth with (d := inp) in Hon. cbn [Nat.add] in Hon. set (best := nth (win b) os inp) in *.
    assert (Hns : ns = fst (tr_branches k inp 0 brs)) by (rewrite Eb; reflexivity). rewrite Hns.
    change (fun m : fxnode => negb (nmem (f_id m) (erased_roots k best os))) with (notin (erased_roots k best os)).
    rewrite (dce_block k inp best (win b) (erased_roots k best os) Hi).
    + rewrite (winner_nodes_eq brs k inp (win b) 0 ew); [reflexivity|lia|rewrite Nat.sub_0_r; exact E].
    + intros d Hd. apply (erased_roots_root _ _ _ _ Hd).
    + intros i e' Hn Hiw. cbn in Hiw. subst i. rewrite E in Hn. injection Hn as <-. exact Hon.
    + intros a Ha. destruct (Hext a Ha) as [->|Hg]; [|right; right; exact Hg].
      destruct (bout_cases k (win b) inp [] ew) as [[_ ->]|[_ ->]]; [left; reflexivity|right; left; eexists; reflexivity].
    + rewrite Hon. exact Ho.
Qed.

Lemma dce_half : forall g k inp acc, g_winners_ok win g -> idx_lt inp k ->
  In (snd (tr_net (MExp win) k inp g)) (refs acc) -> ext_ok acc (snd (tr_net (MExp win) k inp g)) (k + length g) ->
  dce_acc acc (fst (tr_net (MHalf win) k inp g)) = fst (tr_net (MExp win) k inp g) ++ acc.
Proof.
  induction g as [|n g IH]; intros k inp acc Hw Hi Ho Hext; [reflexivity|].
  assert (Hw' : g_winners_ok win g) by (intros b brs Hin; apply (Hw b brs); right; exact Hin).
  assert (Hwn : forall b brs, n = GChoice b brs -> win b < length brs) by (intros b brs ->; apply (Hw b brs); left; reflexivity).
  destruct (tr_net_cons (MHalf win) k inp n g) as [E1 _]. destruct (tr_net_cons (MExp win) k inp n g) as [E3 E4].
  rewrite E1, E3. rewrite E4 in Ho, Hext. rewrite (half_exp_node_out k inp n Hwn).
  set (o1 := snd (tr_node (MExp win) k inp n)) in *.
  assert (Ho1 : idx_lt o1 (S k)) by (apply tr_node_out_lt, Hi).
  rewrite dce_app. rewrite (IH (S k) o1 acc Hw' Ho1 Ho); [|intros a Ha; destruct (Hext a Ha) as [->|Hg]; [left; reflexivity|right; cbn [length] in Hg; eapply idx_ge_mono; [exact Hg|lia]]].
  rewrite <- app_assoc. apply dce_node; [exact Hi|exact Hwn| |].
  - apply exp_net_reads_input, Ho.
  - intros a Ha. rewrite refs_app in Ha. apply in_app_or in Ha. destruct Ha as [Ha|Ha].
    + unfold refs in Ha. apply in_flat_map in Ha. destruct Ha as [m [Hm Ha]].
      destruct (tr_net_in (MExp win) g (S k) o1 m Hm) as (_ & Hargs & _). apply Hargs, Ha.
    + destruct (Hext a Ha) as [->|Hg]; [apply tr_net_out|right; cbn [length] in Hg; eapply idx_ge_mono; [exact Hg|lia]].
Qed.
End DceNet.

(* ------------------------------------------------------------------ export_graph on the traced SuperNet *)
Lemma trace_nodes_eq : forall md g,
  trace_nodes md g = mkFx NIn FIn [] :: fst (tr_net md 0 NIn g) ++ [outn (snd (tr_net md 0 NIn g))].
Proof. intros. unfold trace_nodes. destruct (tr_net md 0 NIn g). reflexivity. Qed.

Theorem gen_export_traced : forall alphas g,
  let win := fun b => CG.comb_best_layer_index_gen (alphas b) in
  g_winners_ok win g ->
  export_traced_gen alphas g = Some (fx_delete_unused (trace_with (MExp win) alphas g)).
Proof.
  intros alphas g win Hw. unfold export_traced_gen, sn_export_call_gen, convert_export_gen, export_graph_gen, trace, trace_with. cbv zeta.
  change (export_step_gen fxg nid nid_eqb fx_is_combiner fx_comb_alpha fx_args fx_users fx_rauw fx_clear fx_erase fx_dce fx_delete_unused) with istep.
  cbn [g_nodes]. rewrite !trace_nodes_eq. set (mt := zuniq (g_mods g)).
  assert (Hpre : pre_ok 0 [mkFx NIn FIn []]).
  { intros m [<-|[]]. cbn. split; [exact I|]. split; [intros a []|exact I]. }
  cbn [map fold_opt]. rewrite map_app, istep_noop; [|discriminate|].
  2:{ intros m Hm. apply (state_comb_at mt alphas MFull 0 NIn g [mkFx NIn FIn []] _ Hpre m Hm). }
  rewrite fold_opt_app.
  pose proof (loop_net mt alphas win (fun b => eq_refl) g 0 NIn [mkFx NIn FIn []] Hw I Hpre) as HL. cbn [app] in HL. rewrite HL. clear HL.
  cbn [map fold_opt]. rewrite istep_noop; [|discriminate|].
  2:{ intros m Hm. apply (state_comb_at mt alphas (MHalf win) 0 NIn g [mkFx NIn FIn []] _ Hpre m Hm). }
  cbv zeta. f_equal. unfold fx_delete_unused, fx_dce, with_nodes. cbn [g_nodes g_modtree g_alpha].
  assert (Ed : dce_acc [] (mkFx NIn FIn [] :: fst (tr_net (MHalf win) 0 NIn g) ++ [outn (snd (tr_net (MHalf win) 0 NIn g))]) =
               mkFx NIn FIn [] :: fst (tr_net (MExp win) 0 NIn g) ++ [outn (snd (tr_net (MExp win) 0 NIn g))]).
  { rewrite (half_exp_out win g 0 NIn Hw). set (o' := snd (tr_net (MExp win) 0 NIn g)).
    change (mkFx NIn FIn [] :: fst (tr_net (MHalf win) 0 NIn g) ++ [outn o']) with ([mkFx NIn FIn []] ++ fst (tr_net (MHalf win) 0 NIn g) ++ [outn o']).
    rewrite dce_app, dce_app. change (dce_acc [] [outn o']) with [outn o'].
    rewrite (dce_half win g 0 NIn [outn o'] Hw I); [reflexivity|cbn; left; reflexivity|].
    intros a Ha. cbn in Ha. destruct Ha as [<-|[]]. left. reflexivity. }
  rewrite Ed. reflexivity.
Qed.

(* ------------------------------------------------------------------ what the exported graph contains *)
Definition nodes_layers (l : list fxnode) : list layer :=
  flat_map (fun m => match f_op m with FLayer l => [l] | FBin op => [Fn (100 + op)] | _ => [] end) l.
Lemma nodes_layers_app a b : nodes_layers (a ++ b) = nodes_layers a ++ nodes_layers b. Proof. apply flat_map_app. Qed.

Lemma body_nodes_layers : forall e k j inp p, nodes_layers (tr_body k j inp p e) = body_layers e.
Proof.
  induction e as [|l e IH|op a IHa b IHb]; intros k j inp p; cbn [tr_body body_layers]; [reflexivity| |].
  - rewrite nodes_layers_app, IH. reflexivity.
  - rewrite !nodes_layers_app, IHa, IHb. reflexivity.
Qed.

Lemma fixed_layers_app : forall a b, fixed_layers (a ++ b) = fixed_layers a ++ fixed_layers b.
Proof. intros. unfold fixed_layers. apply flat_map_app. Qed.

Lemma exp_net_layers : forall win g k inp, g_winners_ok win g ->
  nodes_layers (fst (tr_net (MExp win) k inp g)) = fixed_layers (g_flatten (flat_map (g_expand win) g)).
Proof.
  induction g as [|n g IH]; intros k inp Hw; [reflexivity|].
  destruct (tr_net_cons (MExp win) k inp n g) as [E1 _]. rewrite E1, nodes_layers_app. cbn [flat_map].
  unfold g_flatten in *. rewrite flat_map_app, fixed_layers_app.
  rewrite IH by (intros b brs Hin; apply (Hw b brs); right; exact Hin). f_equal.
  destruct n as [l|e|b brs]; cbn [tr_node fst g_expand flat_map g_flatten_node app].
  - reflexivity.
  - rewrite app_nil_r, fixed_layers_map. apply body_nodes_layers.
  - assert (Hlt : win b < length brs) by (apply (Hw b brs); left; reflexivity).
    destruct (nth_error brs (win b)) as [ew|] eqn:E; [|apply nth_error_None in E; lia]. cbn [fst].
    rewrite (nth_error_nth _ _ BIn E), app_nil_r, fixed_layers_map. apply body_nodes_layers.
Qed.

Lemma exp_net_plain : forall win g k inp m, In m (fst (tr_net (MExp win) k inp g)) -> plain_op m = true.
Proof.
  induction g as [|n g IH]; intros k inp m H; [destruct H|].
  destruct (tr_net_cons (MExp win) k inp n g) as [E1 _]. rewrite E1 in H. apply in_app_or in H. destruct H as [H|H]; [|eapply IH; exact H].
  destruct n as [l|e|b brs]; cbn [tr_node fst] in H.
  - destruct H as [<-|[]]. reflexivity.
  - eapply tr_body_ops; exact H.
  - destruct (nth_error brs (win b)); cbn [fst] in H; [eapply tr_body_ops; exact H|destruct H].
Qed.

Lemma zuniq_acc_iff : forall l s x, In x (zuniq_acc s l) <-> In x l /\ zmem x s = false.
Proof.
  induction l as [|y l IH]; intros s x; cbn [zuniq_acc]; [split; [intros []|intros [[] _]]|].
  destruct (zmem y s) eqn:E.
  - rewrite IH. split; [intros [H1 H2]; split; [right; exact H1|exact H2]|].
    intros [[->|H1] H2]; [congruence|split; assumption].
  - cbn [In]. rewrite IH. cbn [zmem]. split.
    + intros [->|[H1 H2]]; [split; [left; reflexivity|exact E]|]. apply orb_false_iff in H2. destruct H2 as [_ H2]. split; [right; exact H1|exact H2].
    + intros [[->|H1] H2]; [left; reflexivity|]. destruct (Z.eqb_spec x y) as [->|Hne]; [left; reflexivity|right].
      split; [exact H1|]. apply orb_false_iff. split; [reflexivity|exact H2].
Qed.
Lemma zuniq_iff : forall l x, In x (zuniq l) <-> In x l.
Proof. intros. unfold zuniq. rewrite zuniq_acc_iff. cbn. split; [intros [H _]; exact H|intro H; split; [exact H|reflexivity]]. Qed.

Lemma fx_called_iff : forall l i, fx_called l i = true <-> In (Mod i) (nodes_layers l).
Proof.
  intros l i. unfold fx_called, nodes_layers. rewrite existsb_exists, in_flat_map. split; intros [m [Hm H]]; exists m; (split; [exact Hm|]).
  - destruct (f_op m) as [|[j|c]| | |]; try discriminate. apply Z.eqb_eq in H. subst. left. reflexivity.
  - destruct (f_op m) as [|[j|c]| | |]; cbn in H; try (destruct H as [H|[]]; try discriminate); try contradiction.
    injection H as ->. apply Z.eqb_refl.
Qed.

Lemma graph_layers_nodes s : graph_layers s = nodes_layers (g_nodes s). Proof. reflexivity. Qed.
Definition nodes_combs (l : list fxnode) : list Z := flat_map (fun m => match f_op m with FComb b => [b] | _ => [] end) l.
Lemma graph_combs_nodes s : graph_combs s = nodes_combs (g_nodes s). Proof. reflexivity. Qed.
Lemma nodes_combs_plain : forall l, (forall m, In m l -> plain_op m = true) -> nodes_combs l = [].
Proof.
  induction l as [|m l IH]; intro H; [reflexivity|]. cbn [nodes_combs flat_map]. fold (nodes_combs l).
  rewrite IH by (intros; apply H; right; assumption). specialize (H m (or_introl eq_refl)). unfold plain_op in H.
  destruct (f_op m); try discriminate; reflexivity.
Qed.

(* the graph export_graph leaves: its layer nodes are, in order, the fixed layers and the layers of the winning branches -- the leaf
   view of the hand model's exported network; no combiner is left; the module tree keeps exactly the modules still called *)
Theorem gen_export_structure : forall alphas g e,
  let win := fun b => CG.comb_best_layer_index_gen (alphas b) in
  g_export win g = Some e ->
  exists s, export_traced_gen alphas g = Some s /\
    graph_layers s = fixed_layers (g_flatten e) /\ graph_combs s = [] /\
    (forall i, In i (g_modtree s) <-> In i (g_mods g) /\ In (Mod i) (fixed_layers (g_flatten e))).
Proof.
  intros alphas g e win He.
  assert (Hw : g_winners_ok win g) by (apply g_export_succeeds_iff; congruence).
  rewrite (g_export_some g win Hw) in He. injection He as <-.
  exists (fx_delete_unused (trace_with (MExp win) alphas g)). split; [apply gen_export_traced, Hw|].
  assert (EN : g_nodes (fx_delete_unused (trace_with (MExp win) alphas g)) =
               [mkFx NIn FIn []] ++ fst (tr_net (MExp win) 0 NIn g) ++ [outn (snd (tr_net (MExp win) 0 NIn g))]).
  { unfold fx_delete_unused, trace_with. cbn [g_nodes]. apply trace_nodes_eq. }
  assert (EL : nodes_layers (g_nodes (fx_delete_unused (trace_with (MExp win) alphas g))) = fixed_layers (g_flatten (flat_map (g_expand win) g))).
  { rewrite EN, !nodes_layers_app. cbn [nodes_layers flat_map f_op outn app]. rewrite app_nil_r. apply exp_net_layers, Hw. }
  split; [rewrite graph_layers_nodes; exact EL|]. split.
  - rewrite graph_combs_nodes, EN. unfold nodes_combs. rewrite !flat_map_app. cbn [flat_map f_op outn app]. rewrite app_nil_r.
    apply nodes_combs_plain. apply exp_net_plain.
  - intro i. unfold fx_delete_unused at 1. cbn [g_modtree]. rewrite filter_In. unfold trace_with at 1. cbn [g_modtree].
    rewrite zuniq_iff, fx_called_iff. unfold trace_with at 1. cbn [g_nodes].
    change (trace_nodes (MExp win) g) with (g_nodes (fx_delete_unused (trace_with (MExp win) alphas g))). rewrite EL. reflexivity.
Qed.

(* ------------------------------------------------------------------ what the graphs compute (every interpretation of the layers) *)
Definition denote (md : tmode) (n : gnode) : gnode :=
  match md, n with MExp win, GChoice b brs => GBody (nth (win b) brs BIn) | _, _ => n end.
Lemma denote_full : forall g, map (denote MFull) g = g.
Proof. induction g as [|n g IH]; cbn; [reflexivity|]. rewrite IH. destruct n; reflexivity. Qed.
Lemma denote_exp : forall win g, map (denote (MExp win)) g = flat_map (g_expand win) g.
Proof. intros win. induction g as [|n g IH]; cbn [map flat_map]; [reflexivity|]. rewrite IH. destruct n; reflexivity. Qed.

Section Sem.
Context {T : Type}.
Variables (apply : layer -> T -> T) (bin : Z -> T -> T -> T) (mix : list Q -> list T -> T) (theta : Z -> list Q) (x0 : T).
Notation run := (fx_run apply bin mix theta x0).

Lemma run_app : forall a b env, run (a ++ b) env = run b (run a env).
Proof. intros. unfold fx_run. apply fold_left_app. Qed.
Lemma upd_same : forall (env : nid -> T) i v, upd_env env i v i = v.
Proof. intros. unfold upd_env. rewrite nid_eqb_refl. reflexivity. Qed.
Lemma upd_other : forall (env : nid -> T) i v j, j <> i -> upd_env env i v j = env j.
Proof. intros. unfold upd_env. rewrite nid_eqb_neq by assumption. reflexivity. Qed.

Lemma sem_body : forall e k j inp p env, (forall r, inp <> NN k j (r ++ p)) ->
  run (tr_body k j inp p e) env (bout k j inp p e) = eval_body apply bin e (env inp) /\
  (forall a, (forall r, a <> NN k j (r ++ p)) -> run (tr_body k j inp p e) env a = env a).
Proof.
  induction e as [|l e IH|op a IHa b IHb]; intros k j inp p env Hinp; cbn [tr_body bout eval_body].
  - split; [reflexivity|intros; reflexivity].
  - assert (Hsub : forall c r, inp <> NN k j (r ++ c :: p)).
    { intros c r. change (r ++ c :: p) with (r ++ [c] ++ p). rewrite app_assoc. apply Hinp. }
    destruct (IH k j inp (false :: p) env (Hsub false)) as [V F].
    rewrite run_app. cbn [fx_run fold_left f_id]. unfold fx_node_val at 1. cbn [f_op f_args]. rewrite V. split.
    + apply upd_same.
    + intros x Hx. rewrite upd_other by (apply (Hx [])). apply F. intro r. change (r ++ false :: p) with (r ++ [false] ++ p).
      rewrite app_assoc. apply Hx.
  - assert (Hsub : forall c r, inp <> NN k j (r ++ c :: p)).
    { intros c r. change (r ++ c :: p) with (r ++ [c] ++ p). rewrite app_assoc. apply Hinp. }
    destruct (IHa k j inp (false :: p) env (Hsub false)) as [Va Fa].
    destruct (IHb k j inp (true :: p) (run (tr_body k j inp (false :: p) a) env) (Hsub true)) as [Vb Fb].
    rewrite !run_app. cbn [fx_run fold_left f_id]. unfold fx_node_val at 1. cbn [f_op f_args].
    rewrite Vb. rewrite (Fa inp) by apply (Hsub false).
    assert (Eoa : run (tr_body k j inp (true :: p) b) (run (tr_body k j inp (false :: p) a) env) (bout k j inp (false :: p) a) =
                  eval_body apply bin a (env inp)).
    { rewrite <- Va. apply Fb. intro r. destruct (bout_cases k j inp (false :: p) a) as [[_ ->]|[_ ->]]; [apply (Hsub true)|].
      intro E. injection E as E. apply (path_sub_apart [] r p false true); [discriminate|exact E]. }
    rewrite Eoa. split.
    + apply upd_same.
    + intros x Hx. rewrite upd_other by (apply (Hx [])). rewrite Fb, Fa; [reflexivity| |].
      * intro r. change (r ++ false :: p) with (r ++ [false] ++ p). rewrite app_assoc. apply Hx.
      * intro r. change (r ++ true :: p) with (r ++ [true] ++ p). rewrite app_assoc. apply Hx.
Qed.

Lemma sem_branches : forall brs k inp j env, (forall j' r, inp <> NN k j' r) ->
  map (run (fst (tr_branches k inp j brs)) env) (snd (tr_branches k inp j brs)) = map (fun e => eval_body apply bin e (env inp)) brs /\
  (forall a, (forall j' r, j <= j' -> a <> NN k j' r) -> run (fst (tr_branches k inp j brs)) env a = env a).
Proof.
  induction brs as [|e brs IH]; intros k inp j env Hinp; cbn [tr_branches].
  - split; [reflexivity|intros; reflexivity].
  - destruct (sem_body e k j inp [] env (fun r => Hinp j (r ++ []))) as [V F].
    specialize (IH k inp (S j) (run (tr_body k j inp [] e) env) Hinp).
    destruct (tr_branches k inp (S j) brs) as [ns os]. cbn [fst snd] in *. destruct IH as [Vr Fr].
    rewrite run_app. cbn [map]. split.
    + f_equal.
      * rewrite Fr; [exact V|]. intros j' r Hj. destruct (bout_cases k j inp [] e) as [[_ ->]|[_ ->]]; [apply Hinp|].
        intro E. injection E as E _. lia.
      * rewrite Vr. rewrite (F inp) by (intro r; apply Hinp). reflexivity.
    + intros a Ha. rewrite Fr by (intros j' r Hj; apply Ha; lia). apply F. intro r. apply Ha. lia.
Qed.

Lemma idx_lt_not_nn : forall a k, idx_lt a k -> forall j r, a <> NN k j r.
Proof. intros a k H j r E. subst a. cbn in H. lia. Qed.

Lemma sem_node : forall md n k inp env, idx_lt inp k ->
  (forall win b brs, md = MExp win -> n = GChoice b brs -> win b < length brs) -> (forall win, md <> MHalf win) ->
  run (fst (tr_node md k inp n)) env (snd (tr_node md k inp n)) = g_eval_node apply bin mix theta (denote md n) (env inp) /\
  (forall a, idx_lt a k -> run (fst (tr_node md k inp n)) env a = env a).
Proof.
  intros md n k inp env Hi Hw Hmd.
  assert (Hbody : forall j e, run (tr_body k j inp [] e) env (bout k j inp [] e) = eval_body apply bin e (env inp) /\
                               (forall a, idx_lt a k -> run (tr_body k j inp [] e) env a = env a)).
  { intros j e. destruct (sem_body e k j inp [] env (fun r => idx_lt_not_nn inp k Hi j (r ++ []))) as [V F].
    split; [exact V|]. intros a Ha. apply F. intro r. apply (idx_lt_not_nn a k Ha). }
  destruct n as [l|e|b brs].
  - assert (E : denote md (GFixed l) = GFixed l) by (destruct md; reflexivity). rewrite E. cbn [tr_node fst snd fx_run fold_left f_id g_eval_node].
    unfold fx_node_val. cbn [f_op f_args]. split; [apply upd_same|]. intros a Ha. apply upd_other. apply (idx_lt_not_nn a k Ha).
  - assert (E : denote md (GBody e) = GBody e) by (destruct md; reflexivity). rewrite E. cbn [tr_node fst snd g_eval_node]. apply Hbody.
  - destruct md as [|win|win]; [| exfalso; apply (Hmd win); reflexivity |].
    + cbn [tr_node denote g_eval_node].
      destruct (sem_branches brs k inp 0 env (idx_lt_not_nn inp k Hi)) as [V F].
      destruct (tr_branches k inp 0 brs) as [ns os]. cbn [fst snd] in *. rewrite run_app. cbn [fx_run fold_left f_id].
      unfold fx_node_val at 1. cbn [f_op f_args]. split.
      * rewrite upd_same, V. reflexivity.
      * intros a Ha. rewrite upd_other by (intro E; subst a; cbn in Ha; lia). apply F. intros j' r _. apply (idx_lt_not_nn a k Ha).
    + specialize (Hw win b brs eq_refl eq_refl). cbn [tr_node denote g_eval_node].
      destruct (nth_error brs (win b)) as [ew|] eqn:E; [|apply nth_error_None in E; lia]. cbn [fst snd].
      rewrite (nth_error_nth _ _ BIn E). apply Hbody.
Qed.

Lemma sem_net : forall md g k inp env, idx_lt inp k ->
  (forall win, md = MExp win -> g_winners_ok win g) -> (forall win, md <> MHalf win) ->
  run (fst (tr_net md k inp g)) env (snd (tr_net md k inp g)) = g_eval apply bin mix theta (map (denote md) g) (env inp) /\
  (forall a, idx_lt a k -> run (fst (tr_net md k inp g)) env a = env a).
Proof.
  induction g as [|n g IH]; intros k inp env Hi Hw Hmd.
  - cbn. split; [reflexivity|intros; reflexivity].
  - destruct (tr_net_cons md k inp n g) as [E1 E2]. rewrite E1, E2, run_app.
    destruct (sem_node md n k inp env Hi) as [V F]; [intros win b brs -> ->; apply (Hw win eq_refl b brs); left; reflexivity|exact Hmd|].
    destruct (IH (S k) (snd (tr_node md k inp n)) (run (fst (tr_node md k inp n)) env)) as [V' F'];
      [apply tr_node_out_lt, Hi|intros win ->; intros b brs Hin; apply (Hw win eq_refl b brs); right; exact Hin|exact Hmd|].
    rewrite V', V. split; [reflexivity|]. intros a Ha. rewrite F' by (eapply idx_lt_mono; [exact Ha|lia]). apply F, Ha.
Qed.
End Sem.

Theorem trace_semantics : forall (T : Type) (apply : layer -> T -> T) (bin : Z -> T -> T -> T) (mix : list Q -> list T -> T) theta md alphas g x,
  (forall win, md = MExp win -> g_winners_ok win g) -> (forall win, md <> MHalf win) ->
  fx_eval apply bin mix theta (trace_with md alphas g) x = g_eval apply bin mix theta (map (denote md) g) x.
Proof.
  intros T apply bin mix theta md alphas g x Hw Hmd. unfold fx_eval, trace_with. cbn [g_nodes]. rewrite trace_nodes_eq.
  change (mkFx NIn FIn [] :: ?a ++ ?b) with ([mkFx NIn FIn []] ++ a ++ b).
  rewrite !run_app. cbn [fx_run fold_left f_id outn]. unfold fx_node_val at 1 3. cbn [f_op f_args].
  rewrite upd_same. unfold fx_node_val, outn. cbn [f_op f_args].
  destruct (sem_net apply bin mix theta x md g 0 NIn (upd_env (fun _ => x) NIn x) I Hw Hmd) as [V _].
  rewrite V. rewrite upd_same. reflexivity.
Qed.

Lemma g_eval_plain : forall (T : Type) (apply : layer -> T -> T) (bin : Z -> T -> T -> T) (mix : list Q -> list T -> T) th th' g x,
  g_is_plain g = true -> g_eval apply bin mix th g x = g_eval apply bin mix th' g x.
Proof.
  intros T apply bin mix th th'. induction g as [|n g IH]; intros x H; [reflexivity|]. cbn [g_is_plain forallb] in H.
  apply andb_true_iff in H. destruct H as [Hn Hg]. cbn [g_eval fold_left]. destruct n; [| |discriminate]; cbn [g_eval_node]; apply IH, Hg.
Qed.

(* the graph export_graph leaves computes, for EVERY interpretation of the layers, the binary ops and the combiner, what the hand model's
   exported network computes; the traced graph computes what the hand model's SuperNet computes *)
Theorem gen_export_semantics : forall (T : Type) (apply : layer -> T -> T) (bin : Z -> T -> T -> T) (mix : list Q -> list T -> T) theta th' alphas g e x,
  let win := fun b => CG.comb_best_layer_index_gen (alphas b) in
  g_export win g = Some e ->
  exists s, export_traced_gen alphas g = Some s /\
            fx_eval apply bin mix theta s x = g_eval apply bin mix th' e x /\
            fx_eval apply bin mix theta (trace alphas g) x = g_eval apply bin mix theta g x.
Proof.
  intros T apply bin mix theta th' alphas g e x win He.
  assert (Hw : g_winners_ok win g) by (apply g_export_succeeds_iff; congruence).
  destruct (g_export_tree g win e He) as [Hplain _].
  exists (fx_delete_unused (trace_with (MExp win) alphas g)). split; [apply gen_export_traced, Hw|]. split.
  - change (fx_eval apply bin mix theta (fx_delete_unused (trace_with (MExp win) alphas g)) x) with
           (fx_eval apply bin mix theta (trace_with (MExp win) alphas g) x).
    rewrite trace_semantics; [|intros w E; injection E as <-; exact Hw|discriminate].
    rewrite denote_exp. rewrite (g_export_some g win Hw) in He. injection He as <-. apply g_eval_plain, Hplain.
  - unfold trace. rewrite trace_semantics; [rewrite denote_full; reflexivity|discriminate|discriminate].
Qed.
