(* Model of plinio/regularizers/duccio.py and base_regularizer.py   (C19) *)
From Coq Require Import QArith List ZArith.
Import ListNotations.
Require Import Plinio.Base.Qx.
Local Open Scope Q_scope.

(* eff_strength = min(strength/100 + epoch * (strength*99/100) / (n_epochs / 2), strength) *)
Definition ramp (s e n : Q) : Q := s / 100 + (e * (s * 99 / 100)) / (n / 2).
Definition eff (s e n : Q) : Q := qmin (ramp s e n) s.

(* one metric: (final strength, cost, target) *)
Definition term (e n : Q) (m : Q * Q * Q) : Q :=
  let '(s, c, t) := m in eff s e n * qmax 0 (c - t).

(* cost = 0; for ... : cost += eff * max(0, cost_i - target_i) *)
Definition duccio (ms : list (Q * Q * Q)) (e n : Q) : Q :=
  fold_left (fun acc m => acc + term e n m) ms 0.

(* lazy initialisation of the final strengths from the task loss.
   upstream:  max(0, task_loss / (cost - target))       -- float division: inf (or nan) at cost = target
   now    :   max(0, task_loss / (cost - target)) if cost - target > 0 else 0 *)
Inductive fval := Fin (q : Q) | Inf | NaN.
Definition derive_v0 (task c t : Q) : fval :=
  if Qeq_bool c t then (if Qeq_bool task 0 then NaN else if Qle_bool 0 task then Inf else Fin 0)
  else Fin (qmax 0 (task / (c - t))).
Definition derive (task c t : Q) : Q :=
  if qlt_bool 0 (c - t) then qmax 0 (task / (c - t)) else 0.

(* BaseRegularizer:  model.get_cost(name) * strength *)
Definition base (s c : Q) : Q := c * s.

(* correspondence helpers *)
Definition run_duccio (ms : list (Q * Q * Q)) (e n : Z) : Z * Z := qpair (duccio ms (inject_Z e) (inject_Z n)).
Definition run_derive (task c t : Q) : Z * Z := qpair (derive task c t).
Definition run_eff (s : Q) (e n : Z) : Z * Z := qpair (eff s (inject_Z e) (inject_Z n)).

(* targets may be +inf (a metric that can never be penalised): (strength, cost, Some target | None) ;
   relu(cost - inf) = relu(-inf) = 0 *)
Definition term_opt (e n : Q) (m : Q * Q * option Q) : Q :=
  let '(s, c, t) := m in match t with Some t' => eff s e n * qmax 0 (c - t') | None => 0 end.
Definition duccio_opt (ms : list (Q * Q * option Q)) (e n : Q) : Q :=
  fold_left (fun acc m => acc + term_opt e n m) ms 0.
Definition finite_part (ms : list (Q * Q * option Q)) : list (Q * Q * Q) :=
  flat_map (fun m => let '(s, c, t) := m in match t with Some t' => [(s, c, t')] | None => [] end) ms.
Definition run_duccio_opt (ms : list (Q * Q * option Q)) (e n : Z) : Z * Z := qpair (duccio_opt ms (inject_Z e) (inject_Z n)).
