(* C05 — MPS cost equals the exact bit-cost of the selected precision assignment.
   Statements only (model: Model/MpsCost.v, proofs: Proofs/MpsCost.v).  All quantities are rationals;
   precision lists, coefficient vectors and cost tables are lists of any length; the cost function `cf`
   of C05_mps_cost_onehot is arbitrary.  `modified_vars true` is the repaired get_modified_vars;
   `modified_vars false` the unchanged one (Linear written under the convolution key names). *)
From Coq Require Import String List Arith Bool QArith Lia.
Import ListNotations.
Require Import Plinio.Base.Qx Plinio.Model.MpsNet Plinio.Model.MpsCost Plinio.Proofs.MpsCost Plinio.Model.MpsCostNet Plinio.Proofs.MpsCostNet.
Open Scope Q_scope.

(* sum_ij tin_i tw_j m_ij with one-hot tin, tw = m[ki][kw], for every table *)
Theorem C05_table_cost_onehot : forall m ki kw nw, (ki < length m)%nat -> length (nth ki m []) = nw -> (kw < nw)%nat ->
  table_cost m (onehotQ ki (length m)) (onehotQ kw nw) == nth kw (nth ki m []) 0.
Proof. exact table_cost_onehot. Qed.

(* eval / hard mode, per-layer search: the layer cost is cost_fn at the selected (input, weight) precisions *)
Theorem C05_mps_cost_onehot : forall (cf : spec -> Q) v pin pw ki kw, (ki < length pin)%nat -> (kw < length pw)%nat ->
  layer_cost cf v pin (onehotQ ki (length pin)) pw (onehotQ kw (length pw))
  == entry cf v (nth ki pin 0) (nth kw pw 0) 1.
Proof. exact mps_cost_onehot. Qed.

(* weight-size metric: (number of weights, with effective input / output features) x selected weight bits *)
Theorem C05_params_bit_exact : forall t cin cout kh kw oh ow ein eout pin pw ki kw', (ki < length pin)%nat -> (kw' < length pw)%nat ->
  layer_cost (params_bit t) (modified_vars true t (static_vars t cin cout kh kw oh ow) ein eout)
             pin (onehotQ ki (length pin)) pw (onehotQ kw' (length pw))
  == weights_of t kh kw ein eout * nth kw' pw 0.
Proof. exact params_bit_exact. Qed.

(* bit-operations: MACs x weight bits x input bits *)
Theorem C05_ops_bit_exact : forall t cin cout kh kw oh ow ein eout pin pw ki kw', (ki < length pin)%nat -> (kw' < length pw)%nat ->
  layer_cost (ops_bit t) (modified_vars true t (static_vars t cin cout kh kw oh ow) ein eout)
             pin (onehotQ ki (length pin)) pw (onehotQ kw' (length pw))
  == macs_of t kh kw oh ow ein eout * nth kw' pw 0 * nth ki pin 0.
Proof. exact ops_bit_exact. Qed.

(* the cost function is shown the effective feature counts under the PyTorch names of the layer type *)
Theorem C05_spec_keys_by_type : forall t st ein eout,
  lookup (in_key t) (modified_vars true t st ein eout) = Some ein /\
  lookup (out_key t) (modified_vars true t st ein eout) = Some eout.
Proof. exact spec_keys_by_type. Qed.

(* unchanged tree: true for convolutions, false for Linear *)
Theorem C05_spec_keys_conv_unchanged : forall fixed t st ein eout, t <> LLin ->
  lookup (in_key t) (modified_vars fixed t st ein eout) = Some ein /\
  lookup (out_key t) (modified_vars fixed t st ein eout) = Some eout.
Proof. exact spec_keys_conv_any. Qed.
Theorem C05_spec_keys_linear_unchanged_refuted : exists st ein eout,
  lookup (in_key LLin) (modified_vars false LLin st ein eout) <> Some ein /\
  lookup (out_key LLin) (modified_vars false LLin st ein eout) <> Some eout.
Proof. exact spec_keys_linear_refuted. Qed.

(* pruning channels of a producer lowers the cost of its consumer whatever its type *)
Theorem C05_producer_pruning_lowers_consumer : forall t cin cout kh kw oh ow ein ein' eout ip wp tw, t <> LDw ->
  0 < kh -> 0 < kw -> 0 < oh -> 0 < ow -> 0 < eout -> 0 < wp -> 0 < ip -> ein' < ein ->
  entry (params_bit t) (modified_vars true t (static_vars t cin cout kh kw oh ow) ein' eout) ip wp tw
  < entry (params_bit t) (modified_vars true t (static_vars t cin cout kh kw oh ow) ein eout) ip wp tw /\
  entry (ops_bit t) (modified_vars true t (static_vars t cin cout kh kw oh ow) ein' eout) ip wp tw
  < entry (ops_bit t) (modified_vars true t (static_vars t cin cout kh kw oh ow) ein eout) ip wp tw.
Proof. exact producer_pruning_lowers_consumer. Qed.
Theorem C05_producer_pruning_linear_unchanged_refuted : exists cin cout ein ein' eout ip wp tw,
  ein' < ein /\
  entry (params_bit LLin) (modified_vars false LLin (static_vars LLin cin cout 1 1 1 1) ein' eout) ip wp tw
  == entry (params_bit LLin) (modified_vars false LLin (static_vars LLin cin cout 1 1 1 1) ein eout) ip wp tw.
Proof. exact producer_pruning_linear_refuted. Qed.

(* per-channel weight search, eval / hard mode: ns_j channels selected precision pw_j, C channels in all.
   What the code computes, for every effective output count eout it is given: *)
Theorem C05_perchannel_cost_formula : forall cin cout kh kw oh ow ein eout C pin pw ns ki, (ki < length pin)%nat -> ~ C == 0 ->
  layer_cost (params_bit LConv) (modified_vars true LConv (static_vars LConv cin cout kh kw oh ow) ein eout)
             pin (onehotQ ki (length pin)) pw (map (fun n => n / C) ns)
  == eout / C * (kh * kw * ein * dot ns pw).
Proof. exact perchannel_cost_formula. Qed.
(* exact without the 0-bit row (eout = C): sum over channels of (weights of the channel) x its bits *)
Theorem C05_perchannel_exact_nozero : forall cin cout kh kw oh ow ein C pin pw ns ki, (ki < length pin)%nat -> ~ C == 0 ->
  layer_cost (params_bit LConv) (modified_vars true LConv (static_vars LConv cin cout kh kw oh ow) ein C)
             pin (onehotQ ki (length pin)) pw (map (fun n => n / C) ns)
  == kh * kw * ein * dot ns pw.
Proof. exact perchannel_exact_nozero. Qed.
(* FULL STATEMENT (property): with the 0-bit row the cost is still kh*kw*ein*dot ns pw.  Not true of the
   code: with n0 pruned channels it returns that value scaled by (C - n0)/C (open finding) *)
Theorem C05_perchannel_zero_scaled : forall cin cout kh kw oh ow ein C n0 pin pw ns ki, (ki < length pin)%nat -> ~ C == 0 ->
  layer_cost (params_bit LConv) (modified_vars true LConv (static_vars LConv cin cout kh kw oh ow) ein (C - n0))
             pin (onehotQ ki (length pin)) pw (map (fun n => n / C) ns)
  == (C - n0) / C * (kh * kw * ein * dot ns pw).
Proof. exact perchannel_zero_scaled. Qed.
Theorem C05_perchannel_zero_refuted : exists cin cout kh kw ein C n0 pin pw ns ki,
  (ki < length pin)%nat /\ nth 0 pw 1 == 0 /\ nth 0 ns 0 == n0 /\ qsum ns == C /\
  ~ layer_cost (params_bit LConv) (modified_vars true LConv (static_vars LConv cin cout kh kw 1 1) ein (C - n0))
             pin (onehotQ ki (length pin)) pw (map (fun n => n / C) ns)
    == kh * kw * ein * dot ns pw.
Proof. exact perchannel_zero_refuted. Qed.

(* non-vacuity: a 3x3 conv 8 -> 16 on a 4x4 map whose producer lost 3 channels, precisions (2,4,8) x (8,2,4) *)
Example C05_example :
  layer_cost (params_bit LConv) (modified_vars true LConv (static_vars LConv 8 16 3 3 4 4) 5 16) [2; 4; 8] (onehotQ 1 3) [8; 2; 4] (onehotQ 2 3) == 3 * 3 * 5 * 16 * 4 /\
  layer_cost (ops_bit LLin) (modified_vars true LLin (static_vars LLin 8 4 1 1 1 1) 5 4) [2; 4; 8] (onehotQ 1 3) [8; 2; 4] (onehotQ 0 3) == 5 * 4 * 8 * 4 /\
  layer_cost (ops_bit LLin) (modified_vars false LLin (static_vars LLin 8 4 1 1 1 1) 5 4) [2; 4; 8] (onehotQ 1 3) [8; 2; 4] (onehotQ 0 3) == 8 * 4 * 8 * 4.
Proof. repeat split; vm_compute; reflexivity. Qed.

(* ------------------------------------------------------------------ network level (Model/MpsCostNet.v)
   mps_net_cost = sum over the nodes of the IR of the layer costs, the effective input features of every layer
   being propagated over the node list the way the code does it (intended = false) or by alive-channel masks
   (intended = true).  All statements: every node list, every coefficient table. *)

(* per-layer search, one-hot coefficients in every layer: network cost = sum of own weights x selected bits *)
Theorem C05_net_cost_params_exact : forall net lays intended ki kw, onehot_layers net lays ki kw ->
  mps_net_cost net lays params_bit intended
  == qsum (map (node_bits (fun t kh kw' _ _ ein eout => weights_of t kh kw' ein eout) net lays intended ki kw false) (seq 0 (length net))).
Proof. exact net_cost_params_exact. Qed.
Theorem C05_net_cost_ops_exact : forall net lays intended ki kw, onehot_layers net lays ki kw ->
  mps_net_cost net lays ops_bit intended
  == qsum (map (node_bits (fun t kh kw' oh ow ein eout => macs_of t kh kw' oh ow ein eout) net lays intended ki kw true) (seq 0 (length net))).
Proof. exact net_cost_ops_exact. Qed.
(* per-channel search without the 0-bit option: sum over layers of (weights per channel) x sum_j channels_j x bits_j *)
Theorem C05_net_cost_params_exact_perchannel : forall net lays intended ki, perchannel_layers net lays ki ->
  mps_net_cost net lays params_bit intended == qsum (map (node_pc net lays intended ki false) (seq 0 (length net))).
Proof. exact net_cost_params_exact_perchannel. Qed.
Theorem C05_net_cost_ops_exact_perchannel : forall net lays intended ki, perchannel_layers net lays ki ->
  mps_net_cost net lays ops_bit intended == qsum (map (node_pc net lays intended ki true) (seq 0 (length net))).
Proof. exact net_cost_ops_exact_perchannel. Qed.

(* what the code shows a consumer reached from the features-defining layer p through ReLU / pooling / flatten
   (`feeds`, multiplier m): m x (own effective output features of p) *)
Theorem C05_ein_feeds : forall net lays i nd s p m, wf net = true ->
  nth_error net i = Some nd -> first_src nd = Some s -> feeds net p s m ->
  ein_of net lays false s == m * own_out net lays p.
Proof. exact ein_feeds. Qed.
(* hence pruning channels of p lowers what any consumer is shown, and its params_bit / ops_bit entries *)
Theorem C05_net_producer_pruning_lowers_consumer : forall net lays lays' i nd s p m, wf net = true ->
  nth_error net i = Some nd -> first_src nd = Some s -> feeds net p s m -> 0 < m ->
  own_out net lays' p < own_out net lays p ->
  ein_of net lays' false s < ein_of net lays false s.
Proof. exact net_producer_pruning_lowers_consumer. Qed.
Theorem C05_net_producer_pruning_lowers_consumer_cost : forall net lays lays' i nd s p m t cin cout kh kw oh ow eout ip wp tw,
  wf net = true -> nth_error net i = Some nd -> first_src nd = Some s -> feeds net p s m -> 0 < m ->
  own_out net lays' p < own_out net lays p -> t <> LDw ->
  0 < kh -> 0 < kw -> 0 < oh -> 0 < ow -> 0 < eout -> 0 < wp -> 0 < ip ->
  entry (params_bit t) (modified_vars true t (static_vars t cin cout kh kw oh ow) (ein_of net lays' false s) eout) ip wp tw
  < entry (params_bit t) (modified_vars true t (static_vars t cin cout kh kw oh ow) (ein_of net lays false s) eout) ip wp tw /\
  entry (ops_bit t) (modified_vars true t (static_vars t cin cout kh kw oh ow) (ein_of net lays' false s) eout) ip wp tw
  < entry (ops_bit t) (modified_vars true t (static_vars t cin cout kh kw oh ow) (ein_of net lays false s) eout) ip wp tw.
Proof. exact net_producer_pruning_lowers_consumer_cost. Qed.
(* FULL STATEMENT (property): the same for chains through a depthwise layer.  Refuted for the code as it is (the
   guard of `feeds` excludes exactly these chains): a depthwise layer with its own selector, or in the network-input
   group, prunes channels but its consumer is shown the same count; the mask propagation (intended) lowers it *)
Theorem C05_net_pruning_behind_depthwise_refuted : exists net lays lays' dw c s,
  wf net = true /\ nth_error net dw = Some (NDw s c) /\
  own_out net lays' dw < own_out net lays dw /\
  ein_of net lays' false dw == ein_of net lays false dw /\
  ein_of net lays' true dw < ein_of net lays true dw.
Proof. exact net_pruning_behind_depthwise_refuted. Qed.
Theorem C05_net_pruning_input_group_refuted : exists net lays lays' dw c s,
  wf net = true /\ nth_error net dw = Some (NDw s c) /\ nth_error net s = Some (NIn c) /\
  own_out net lays' dw < own_out net lays dw /\
  ein_of net lays' false dw == ein_of net lays false dw /\
  ein_of net lays' true dw < ein_of net lays true dw.
Proof. exact net_pruning_input_group_refuted. Qed.

(* a module invoked several times: per-invocation specs (ops_bit, latency) sum over the call sites, each with its own
   output shape; without repeated invocations shared and per-invocation sums coincide *)
Theorem C05_net_cost_per_invocation : forall net lays cf intended,
  mps_net_cost_sh net lays false cf intended = mps_net_cost net lays cf intended.
Proof. exact net_cost_per_invocation. Qed.
Theorem C05_net_cost_shared_no_reuse : forall net lays cf intended shared,
  (forall i, l_reuse (lay_at lays i) = false) ->
  mps_net_cost_sh net lays shared cf intended == mps_net_cost net lays cf intended.
Proof. exact net_cost_shared_no_reuse. Qed.

(* non-vacuity, network level: conv 3->4 (3x3, 4x4 map) -> relu -> flatten(16) -> linear 64->2, per-layer search,
   selected (in, w) bits (8, 4) and (8, 2): 3*3*3*4*4 + 64*2*2 *)
Example C05_net_example :
  let l1 := mkLay [3; 3; 4; 4] [2; 8] (onehotQ 1 2) [4; 8] false (onehotQ 0 2) [] None false in
  let l2 := mkLay [1; 1; 1; 1] [2; 8] (onehotQ 1 2) [2; 4] false (onehotQ 0 2) [] None false in
  let net := [NIn 3; NConv 0 3 4; NProp 1; NFlat 2 16; NLin 3 64 2] in
  mps_net_cost net [no_lay; l1; no_lay; no_lay; l2] params_bit false == 3 * 3 * 3 * 4 * 4 + 64 * 2 * 2 /\
  onehot_layers net [no_lay; l1; no_lay; no_lay; l2] (fun _ => 1%nat) (fun _ => 0%nat) /\
  feeds net 1 3 (1 * inject_Z 16).
Proof.
  intros l1 l2 net. split; [vm_compute; reflexivity|split].
  - intros i nd t E T. destruct i as [|[|[|[|[|k]]]]]; simpl in E; try (destruct k; discriminate);
      inversion E; subst; simpl in T; try discriminate; vm_compute; repeat split; try reflexivity; lia.
  - change (inject_Z 16) with (inject_Z (Z.of_nat 16)). eapply feeds_flat; [reflexivity|]. eapply feeds_prop; [reflexivity|].
    eapply feeds_here; [reflexivity|]. left. reflexivity.
Qed.

Print Assumptions C05_table_cost_onehot.
Print Assumptions C05_mps_cost_onehot.
Print Assumptions C05_params_bit_exact.
Print Assumptions C05_ops_bit_exact.
Print Assumptions C05_spec_keys_by_type.
Print Assumptions C05_spec_keys_conv_unchanged.
Print Assumptions C05_spec_keys_linear_unchanged_refuted.
Print Assumptions C05_producer_pruning_lowers_consumer.
Print Assumptions C05_producer_pruning_linear_unchanged_refuted.
Print Assumptions C05_perchannel_cost_formula.
Print Assumptions C05_perchannel_exact_nozero.
Print Assumptions C05_perchannel_zero_scaled.
Print Assumptions C05_perchannel_zero_refuted.
Print Assumptions C05_net_cost_params_exact.
Print Assumptions C05_net_cost_ops_exact.
Print Assumptions C05_net_cost_params_exact_perchannel.
Print Assumptions C05_net_cost_ops_exact_perchannel.
Print Assumptions C05_ein_feeds.
Print Assumptions C05_net_producer_pruning_lowers_consumer.
Print Assumptions C05_net_producer_pruning_lowers_consumer_cost.
Print Assumptions C05_net_pruning_behind_depthwise_refuted.
Print Assumptions C05_net_pruning_input_group_refuted.
Print Assumptions C05_net_cost_per_invocation.
Print Assumptions C05_net_cost_shared_no_reuse.
