(* C10 — What is evaluated, what is reported and what is exported are the same choice.
   Statements only (proofs: Proofs/Sampler.v; model: Model/Sampler.v).
   exp is abstract: EVERY g : Q -> Q that is positive and strictly increasing (visible premises Gpos,
   Gincr; no axiom).  Coefficients are lists of columns (one column per decision: the single vector of a
   per-layer selector / SuperNet combiner, one column per channel of a per-channel selector); all lengths,
   all rational coefficients without ties, all positive rational temperatures, EVERY Gumbel noise
   vector, all option updates, all op sequences (induction over list sop). *)
From Coq Require Import QArith ZArith List Bool.
Import ListNotations.
Require Import Plinio.Base.Qx Plinio.Model.Sampler Plinio.Proofs.Sampler.
Require Import Plinio.Gen.SamplerGen Plinio.Proofs.SamplerGen.
Open Scope Q_scope.

Definition Gpos (g : Q -> Q) : Prop := forall x, 0 < g x.
Definition Gincr (g : Q -> Q) : Prop := forall x y, x < y -> g x < g y.

(* softmax with temperature is a probability vector (per column for matrices: see C10_invariant) —
   for every temperature, also T <= 0 *)
Theorem C10_softmax_prob : forall g, Gpos g -> forall T a, a <> [] ->
  Forall (fun x => 0 <= x) (softmax g T a) /\ qsum (softmax g T a) == 1.
Proof. exact softmax_prob. Qed.

Theorem C10_argmax_softmax : forall g, Gpos g -> Gincr g -> forall T a, 0 < T -> a <> [] -> tie_free a ->
  argmax (softmax g T a) = argmax a.
Proof. exact argmax_softmax. Qed.

(* STEArgmax / one_hot(argmax) of the softmax is the one-hot at the largest RAW coefficient *)
Theorem C10_ste_onehot_at_argmax : forall g, Gpos g -> Gincr g -> forall T a, 0 < T -> a <> [] -> tie_free a ->
  ste (softmax g T a) = onehot (length a) (argmax a).
Proof. exact ste_onehot_at_argmax. Qed.

Theorem C10_onehot_prob : forall n k, (k < n)%nat ->
  Forall (fun x => 0 <= x) (onehot n k) /\ qsum (onehot n k) == 1.
Proof. exact onehot_prob. Qed.

(* Gumbel: for EVERY noise vector (any length, any values) and every temperature *)
Theorem C10_gumbel_prob : forall g, Gpos g -> forall T hd a noise, a <> [] ->
  Forall (fun x => 0 <= x) (gumbel_softmax g T hd a noise) /\ qsum (gumbel_softmax g T hd a noise) == 1.
Proof. exact gumbel_prob. Qed.

Theorem C10_gumbel_hard_onehot : forall g T a noise, a <> [] ->
  gumbel_softmax g T true a noise = onehot (length a) (argmax (softmax g T (addn a noise))) /\
  (argmax (softmax g T (addn a noise)) < length a)%nat.
Proof. exact gumbel_hard_onehot. Qed.

Theorem C10_gumbel_hard_at_perturbed_argmax : forall g, Gpos g -> Gincr g -> forall T a noise,
  0 < T -> a <> [] -> tie_free (addn a noise) ->
  gumbel_softmax g T true a noise = onehot (length a) (argmax (addn a noise)).
Proof. exact gumbel_hard_at_perturbed_argmax. Qed.

(* THE INVARIANT over all op sequences.  `wf` = positive temperature, non-empty tie-free columns; `wf_op` =
   the same for the values an op installs.  all_forwards_ok: for EVERY forward pass in the sequence that
   runs with sampling enabled (disabled = false) and inside `covered c k s`, i.e.
       k = KMps  \/  comb_eval_argmax c = true  \/  training s = true  \/  hard s = true
   (everything except the SuperNet combiner of the pinned code in eval mode with soft selection: open
   finding, refuted below), post_ok holds for the theta_alpha it leaves:
     - every column is a probability vector,
     - not training, or hard and not Gumbel  ->  theta = one-hot at argmax alpha (per column),
     - hard -> every column is a one-hot (Gumbel in training included). *)
Theorem C10_invariant_all_sequences : forall g, Gpos g -> Gincr g -> forall c k ops s,
  wf s -> Forall wf_op ops -> all_forwards_ok g c k s ops.
Proof. exact invariant_all_sequences. Qed.

Theorem C10_invariant_after_run : forall g, Gpos g -> Gincr g -> forall c k ops s s1 noise s2,
  wf s -> Forall wf_op ops -> run g c k s ops = Some s1 -> step g c k s1 (SForward noise) = Some s2 ->
  disabled s1 = false ->
  (k = KMps \/ comb_eval_argmax c = true \/ training s1 = true \/ hard s1 = true) ->
  Forall (fun v => Forall (fun x => 0 <= x) v /\ qsum v == 1) (theta s2) /\
  ((training s1 = false \/ (hard s1 = true /\ gumbel s1 = false)) ->
     theta s2 = map (fun a => onehot (length a) (argmax a)) (alpha s1)) /\
  (hard s1 = true -> Forall is_onehot (theta s2)).
Proof. exact invariant_after_run. Qed.

(* a SuperNet combiner can never have its sampling disabled *)
Theorem C10_combiner_never_disabled : forall g c ops s s', disabled s = false ->
  run g c KComb s ops = Some s' -> disabled s' = false.
Proof. exact comb_never_disabled. Qed.

(* summary()/export() pick `selected alpha` = arg-max of the raw coefficients of every column; without
   Gumbel noise that is where the largest evaluated coefficient is (also for the pinned combiner) ... *)
Theorem C10_selected_is_argmax : forall g, Gpos g -> Gincr g -> forall c k s noise, wf s ->
  disabled s = false -> (gumbel s = false \/ training s = false) ->
  map argmax (sample g c k s noise) = selected (alpha s).
Proof. exact selected_is_argmax. Qed.

(* ... and in eval mode / hard non-Gumbel training the evaluated coefficients are exactly its one-hot *)
Theorem C10_selected_onehot : forall g, Gpos g -> Gincr g -> forall c k s noise, covered c k s -> wf s ->
  disabled s = false -> (training s = false \/ (hard s = true /\ gumbel s = false)) ->
  sample g c k s noise = map (fun col => onehot (length col) (argmax col)) (alpha s) /\
  selected (alpha s) = map argmax (alpha s).
Proof. exact selected_onehot. Qed.

(* a one-hot mixture IS the selected alternative *)
Theorem C10_onehot_mix : forall n k fs, length fs = n -> dot (onehot n k) fs == nth k fs 0.
Proof. exact onehot_mix. Qed.

(* --- where the unchanged code violates the property (witnesses inside the proofs) *)
(* pinned SuperNetCombiner (comb_eval_argmax = false): eval mode + soft selection evaluates a mixture
   (open finding; the one-line repair breaks an unedited unit test, see KNOWN_FINDINGS.json) *)
Theorem C10_combiner_eval_soft_refuted : forall g, Gpos g -> exists s noise,
  wf s /\ disabled s = false /\ training s = false /\ hard s = false /\
  ~ post_ok s (sample g (mkCfg false false) KComb s noise).
Proof. exact comb_upstream_eval_soft_refuted. Qed.

(* disable_sampling=True (open finding): a forward pass leaves the stale coefficients, also in eval mode;
   this is why the invariant carries the guard `disabled s = false` *)
Theorem C10_disabled_eval_stale_refuted : forall g, Gpos g -> forall c, exists s ops s1 noise s2,
  wf s /\ Forall wf_op ops /\ run g c KMps s ops = Some s1 /\ step g c KMps s1 (SForward noise) = Some s2 /\
  training s1 = false /\ disabled s1 = true /\ ~ post_ok s1 (theta s2).
Proof. exact disabled_eval_stale_refuted. Qed.

(* --- the hypotheses are satisfiable: a concrete positive, strictly increasing g and concrete runs *)
Example C10_g_exists : Gpos gsur /\ Gincr gsur.
Proof. split; [exact gsur_pos|exact gsur_incr]. Qed.

Example C10_example_softmax :
  let a := [3#10; -(1#2); 1] in
  tie_free a /\ map Qred (softmax gsur (1#2) a) = [16#51; 5#51; 10#17] /\ argmax (softmax gsur (1#2) a) = 2%nat.
Proof.
  cbv zeta. split; [|split; vm_compute; reflexivity].
  repeat constructor; cbv; discriminate.
Qed.

Example C10_example_sequence :
  let s0 := mkS false false false 1 true [[3#10; -(1#2); 1]; [2; 1; 0]] [[1; 1; 1]; [1; 1; 1]] in
  let ops := [SUpdate (Some (1#2)) (Some true) (Some true) None; SForward [[0; 5; 0]; []];
              SOptStep [[0; 1; 2]; [5; 4; 3]]; SUpdate None (Some false) None None; SEval; SForward []] in
  wf s0 /\ Forall wf_op ops /\
  option_map theta (run gsur (mkCfg false false) KMps s0 ops) = Some [[0; 0; 1]; [1; 0; 0]] /\
  option_map theta (run gsur (mkCfg false false) KMps s0 (firstn 2 ops)) = Some [[0; 1; 0]; [1; 0; 0]].
Proof.
  cbv zeta. split; [|split; [|split; vm_compute; reflexivity]].
  - split; [reflexivity|]. repeat constructor; try discriminate; cbv; discriminate.
  - repeat constructor; try discriminate; cbv; discriminate.
Qed.

(* ------------------------------------------------------------------------------------------------------------------
   The same sentences about the code AS IT IS NOW.  Gen/SamplerGen.v is rewritten on every run by
   translator/sampler2coq.py from the source of STEArgmax.forward, MPSBaseQtz.sample_alpha_sm / _gs / _none,
   update_softmax_options, __init__, SuperNetCombiner.sample_alpha_sm / _gs, __init__ and SuperNet.update_softmax_options
   (statement by statement; `gobj` = the model's sampler + the NAME of the function bound to self.sample_alpha).
   Proofs/SamplerGen.v proves the generated functions equal to the hand-written model for the configuration
   mkCfg true false of the current tree (None keeps an option; the combiner's soft-max sampler ignores self.training);
   a change of the samplers changes the generated text and these theorems stop checking unless the new code computes
   the same functions.  Trusted: F.gumbel_softmax = the model's gumbel_softmax of an explicit noise (the translator
   cannot see the noise torch draws), F.softmax(x, dim=0) = exp(x_i)/sum_j exp(x_j) per column, torch.argmax = first
   maximum, `self.sample_alpha()` = call of the method whose name is bound (see the translator's docstring). *)

(* STEArgmax.forward is the one-hot at the arg-max of every column *)
Theorem C10_generated_ste_is_model : forall x, ste_argmax_gen x = map ste x.
Proof. exact ste_argmax_gen_eq. Qed.

(* the three samplers of an MPS selector and the two of a SuperNet combiner leave in theta_alpha what the model's
   sample_sm / sample_gs compute (and touch nothing else; b = whatever function is bound) *)
Theorem C10_generated_mps_sample_sm_is_model : forall g c s b,
  mps_sample_alpha_sm_gen g (mkO s b) = mkO (set_theta s (sample_sm g c KMps s)) b.
Proof. exact mps_sample_sm_gen_eq. Qed.
Theorem C10_generated_mps_sample_gs_is_model : forall g c s b noise,
  mps_sample_alpha_gs_gen g (mkO s b) noise = mkO (set_theta s (sample_gs g c KMps s noise)) b.
Proof. exact mps_sample_gs_gen_eq. Qed.
Theorem C10_generated_mps_sample_none_is_model : forall s b,
  mps_sample_alpha_none_gen (mkO s b) = mkO (set_theta s (theta s)) b.
Proof. exact mps_sample_none_gen_eq. Qed.
Theorem C10_generated_comb_sample_sm_is_model : forall g keep s b,
  comb_sample_alpha_sm_gen g (mkO s b) = mkO (set_theta s (sample_sm g (mkCfg keep false) KComb s)) b.
Proof. exact comb_sample_sm_gen_eq. Qed.
Theorem C10_generated_comb_sample_gs_is_model : forall g keep s b noise,
  comb_sample_alpha_gs_gen g (mkO s b) noise = mkO (set_theta s (sample_gs g (mkCfg keep false) KComb s noise)) b.
Proof. exact comb_sample_gs_gen_eq. Qed.

(* `self.sample_alpha()` at the head of forward: the bound function is the one the model's flags select
   (embed s = the object whose options are s and whose bound function is sampler_name s) *)
Theorem C10_generated_forward_is_model : forall g k s noise, (k = KComb -> disabled s = false) ->
  forward_gen g k (embed s) noise = embed (set_theta s (sample g (mkCfg true false) k s noise)).
Proof. exact forward_gen_eq. Qed.

(* MPSBaseQtz.update_softmax_options is the SUpdate step with keep_opts = true, and it binds the function the model
   derives from the flags, whatever was bound before; SuperNet.update_softmax_options on a combiner likewise *)
Theorem C10_generated_mps_update_is_model : forall g c s b t h gm d,
  Some (mps_update_softmax_options_gen (mkO s b) t h gm d) =
  option_map embed (step g (mkCfg true c) KMps s (SUpdate t h gm d)).
Proof. exact mps_update_gen_eq. Qed.
Theorem C10_generated_comb_update_is_model : forall g c s t h,
  Some (comb_update_softmax_options_gen (embed s) t h) = option_map embed (step g c KComb s (SUpdate t h None None)).
Proof. exact comb_update_gen_eq. Qed.

(* the constructors' option wiring *)
Theorem C10_generated_mps_init_is_model : forall s0 b0 T h gm d,
  mps_init_gen (mkO s0 b0) T h gm d = embed (mkS h gm d T (training s0) (alpha s0) (theta s0)).
Proof. exact mps_init_gen_eq. Qed.
Theorem C10_generated_comb_init_is_model : forall s0 b0 gm h,
  let o := comb_init_gen (mkO s0 b0) gm h in
  bound o = sampler_name (mkS h gm false 1 (training s0) (alpha s0) (alpha s0)) /\
  hard (core o) = h /\ temp (core o) = 1 /\ alpha (core o) = alpha s0 /\ theta (core o) = alpha s0 /\
  training (core o) = training s0.
Proof. exact comb_init_gen_eq. Qed.

(* every op sequence: update_softmax_options / forward executed by the generated functions (train / eval / optimizer step
   replace one field) = the model's run *)
Theorem C10_generated_run_is_model : forall g k ops s, (k = KComb -> disabled s = false) ->
  gen_run g k (embed s) ops = option_map embed (run g (mkCfg true false) k s ops).
Proof. exact gen_run_eq. Qed.

(* --- the sentences of the property, on the generated code.  One forward pass with sampling enabled, outside the open
   finding (an MPS selector, or a combiner that is training or hard): every column of theta_alpha is a probability
   vector; eval mode or hard non-Gumbel training: the one-hot at argmax(alpha); hard: a one-hot *)
Theorem C10_generated_forward_post : forall g, Gpos g -> Gincr g -> forall k s noise,
  (k = KMps \/ training s = true \/ hard s = true) -> wf s -> disabled s = false ->
  let th := theta (core (forward_gen g k (embed s) noise)) in
  Forall (fun v => Forall (fun x => 0 <= x) v /\ qsum v == 1) th /\
  ((training s = false \/ (hard s = true /\ gumbel s = false)) ->
     th = map (fun a => onehot (length a) (argmax a)) (alpha s)) /\
  (hard s = true -> Forall is_onehot th).
Proof. exact gen_forward_post_ok. Qed.

(* ... after EVERY sequence of option updates, mode switches, optimizer steps and forward passes *)
Theorem C10_generated_invariant_after_run : forall g, Gpos g -> Gincr g -> forall k ops s o1 noise o2,
  wf s -> Forall wf_op ops -> (k = KComb -> disabled s = false) ->
  gen_run g k (embed s) ops = Some o1 -> gen_step g k o1 (SForward noise) = Some o2 ->
  disabled (core o1) = false ->
  (k = KMps \/ training (core o1) = true \/ hard (core o1) = true) ->
  Forall (fun v => Forall (fun x => 0 <= x) v /\ qsum v == 1) (theta (core o2)) /\
  ((training (core o1) = false \/ (hard (core o1) = true /\ gumbel (core o1) = false)) ->
     theta (core o2) = map (fun a => onehot (length a) (argmax a)) (alpha (core o1))) /\
  (hard (core o1) = true -> Forall is_onehot (theta (core o2))).
Proof. exact gen_invariant_after_run. Qed.

(* what summary()/export() choose = arg-max of the raw coefficients = where the largest evaluated coefficient is when no
   noise is involved; in eval mode / hard non-Gumbel training the evaluated coefficients are exactly its one-hot *)
Theorem C10_generated_selected_is_argmax : forall g, Gpos g -> Gincr g -> forall k s noise, wf s ->
  disabled s = false -> (gumbel s = false \/ training s = false) ->
  map argmax (theta (core (forward_gen g k (embed s) noise))) = selected (alpha s).
Proof. exact gen_selected_is_argmax. Qed.
Theorem C10_generated_selected_onehot : forall g, Gpos g -> Gincr g -> forall k s noise,
  (k = KMps \/ training s = true \/ hard s = true) -> wf s -> disabled s = false ->
  (training s = false \/ (hard s = true /\ gumbel s = false)) ->
  theta (core (forward_gen g k (embed s) noise)) = map (fun col => onehot (length col) (argmax col)) (alpha s) /\
  selected (alpha s) = map argmax (alpha s).
Proof. exact gen_selected_onehot. Qed.

(* --- the open findings are behaviours of the generated code too (KNOWN_FINDINGS.json, left open on purpose) *)
Theorem C10_generated_combiner_eval_soft_refuted : forall g, Gpos g -> exists s noise,
  wf s /\ disabled s = false /\ training s = false /\ hard s = false /\
  ~ post_ok s (theta (core (comb_forward_gen g (embed s) noise))).
Proof. exact gen_comb_eval_soft_refuted. Qed.
Theorem C10_generated_disabled_eval_stale_refuted : forall g, Gpos g -> exists s ops o1 noise o2,
  wf s /\ Forall wf_op ops /\ gen_run g KMps (embed s) ops = Some o1 /\ gen_step g KMps o1 (SForward noise) = Some o2 /\
  training (core o1) = false /\ disabled (core o1) = true /\ ~ post_ok (core o1) (theta (core o2)).
Proof. exact gen_disabled_eval_stale_refuted. Qed.
(* a selector constructed with disable_sampling=True keeps whatever theta_alpha held (torch.ones: not a probability
   vector) through every forward pass *)
Theorem C10_generated_disabled_ctor_keeps_initial_theta : forall g s0 b0 T h gm noise,
  theta (core (mps_forward_gen g (mps_init_gen (mkO s0 b0) T h gm true) noise)) = theta s0.
Proof. exact gen_disabled_ctor_keeps_initial_theta. Qed.

(* non-vacuity: the generated functions run on the 6-op sequence of C10_example_sequence *)
Example C10_generated_example_sequence :
  let s0 := mkS false false false 1 true [[3#10; -(1#2); 1]; [2; 1; 0]] [[1; 1; 1]; [1; 1; 1]] in
  let ops := [SUpdate (Some (1#2)) (Some true) (Some true) None; SForward [[0; 5; 0]; []];
              SOptStep [[0; 1; 2]; [5; 4; 3]]; SUpdate None (Some false) None None; SEval; SForward []] in
  option_map (fun o => (theta (core o), bound o)) (gen_run gsur KMps (embed s0) ops) = Some ([[0; 0; 1]; [1; 0; 0]], 1%Z) /\
  option_map (fun o => theta (core o)) (gen_run gsur KMps (embed s0) (firstn 2 ops)) = Some [[0; 1; 0]; [1; 0; 0]].
Proof. cbv zeta. split; vm_compute; reflexivity. Qed.


Print Assumptions C10_softmax_prob.
Print Assumptions C10_argmax_softmax.
Print Assumptions C10_ste_onehot_at_argmax.
Print Assumptions C10_onehot_prob.
Print Assumptions C10_gumbel_prob.
Print Assumptions C10_gumbel_hard_onehot.
Print Assumptions C10_gumbel_hard_at_perturbed_argmax.
Print Assumptions C10_invariant_all_sequences.
Print Assumptions C10_invariant_after_run.
Print Assumptions C10_combiner_never_disabled.
Print Assumptions C10_selected_is_argmax.
Print Assumptions C10_selected_onehot.
Print Assumptions C10_onehot_mix.
Print Assumptions C10_combiner_eval_soft_refuted.
Print Assumptions C10_disabled_eval_stale_refuted.
Print Assumptions C10_generated_ste_is_model.
Print Assumptions C10_generated_mps_sample_sm_is_model.
Print Assumptions C10_generated_mps_sample_gs_is_model.
Print Assumptions C10_generated_mps_sample_none_is_model.
Print Assumptions C10_generated_comb_sample_sm_is_model.
Print Assumptions C10_generated_comb_sample_gs_is_model.
Print Assumptions C10_generated_forward_is_model.
Print Assumptions C10_generated_mps_update_is_model.
Print Assumptions C10_generated_comb_update_is_model.
Print Assumptions C10_generated_mps_init_is_model.
Print Assumptions C10_generated_comb_init_is_model.
Print Assumptions C10_generated_run_is_model.
Print Assumptions C10_generated_forward_post.
Print Assumptions C10_generated_invariant_after_run.
Print Assumptions C10_generated_selected_is_argmax.
Print Assumptions C10_generated_selected_onehot.
Print Assumptions C10_generated_combiner_eval_soft_refuted.
Print Assumptions C10_generated_disabled_eval_stale_refuted.
Print Assumptions C10_generated_disabled_ctor_keeps_initial_theta.
