(* C04: the model GENERATED from the source of the PIT cost composition (Gen/PitCostGen.v, rewritten by
   translator/pitcost2coq.py on every run: PIT._get_single_cost / _single_cost_fn_map / the cost_specification setter /
   __init__, DNAS.get_cost / cost / _create_cost_fn_map, get_modified_vars / out_features_eff / out_features_opt /
   in_features_opt / k_eff / kernel_size_opt / _generate_norm_constants / the constructor arguments of export of the three
   PIT layers) computes what the hand-written model (Model/PitCost.v over Model/Masks.v) says, up to equality of rationals,
   and never divides by zero / reads a missing key.  These are the obligations that tie Props/C04.v to the code as it is now. *)
From Coq Require Import QArith Qround ZArith List Bool Arith Lia Lqa Setoid Morphisms.
Import ListNotations.
Require Import Plinio.Base.Qx Plinio.Model.Masks Plinio.Proofs.Masks Plinio.Model.PitCost Plinio.Proofs.PitCost Plinio.Gen.PitCostGen.
Local Open Scope nat_scope.

(* ================================================================ lists and rationals *)
Lemma fold_left_snoc_map {A B} (f : A -> B) : forall (l : list A) (a : list B),
  fold_left (fun acc x => acc ++ [f x]) l a = a ++ map f l.
Proof. induction l as [|x l IH]; intro a; cbn; [rewrite app_nil_r; reflexivity|]. rewrite IH, <- app_assoc. reflexivity. Qed.

Lemma fold_left_ext {A B} (f g : A -> B -> A) l : (forall a x, In x l -> f a x = g a x) -> forall a, fold_left f l a = fold_left g l a.
Proof. induction l as [|x l IH]; intros H a; cbn; [reflexivity|]. rewrite H by (left; reflexivity). apply IH. intros; apply H; right; assumption. Qed.

Lemma fold_left_count (c : nat -> bool) l : forall k,
  fold_left (fun k p => k + (if c p then 0 else 1)) l k = k + length (filter (fun p => negb (c p)) l).
Proof. induction l as [|x l IH]; intro k; cbn [fold_left filter]; [cbn; lia|]. rewrite IH. destruct (c x); cbn [negb length]; lia. Qed.

Lemma fold_left_count' (f : nat -> nat -> nat) (c : nat -> bool) l : (forall k p, f k p = k + (if c p then 0 else 1)) ->
  forall k, fold_left f l k = k + length (filter (fun p => negb (c p)) l).
Proof. intros H k. rewrite <- fold_left_count. apply fold_left_ext. intros; apply H. Qed.

Lemma filter_compl_length {A} (c : A -> bool) l : length (filter c l) + length (filter (fun p => negb (c p)) l) = length l.
Proof. induction l as [|x l IH]; [reflexivity|]. cbn [filter]. destruct (c x); cbn [negb length]; lia. Qed.

Lemma rev_map_seq {A} (f : nat -> A) K : rev (map f (seq 0 K)) = map (fun t => f (K - 1 - t)) (seq 0 K).
Proof.
  induction K as [|K IH]; [reflexivity|].
  rewrite seq_S at 1. rewrite map_app, rev_app_distr. cbn [map rev app plus]. rewrite IH.
  cbn [seq map]. f_equal; [f_equal; lia|]. rewrite <- seq_shift, map_map. apply map_ext_in. intros t Ht. apply in_seq in Ht. f_equal. lia.
Qed.

Lemma fold_left_inv {A B} (P : A -> Prop) (f : A -> B -> A) l : (forall a x, In x l -> P a -> P (f a x)) -> forall a, P a -> P (fold_left f l a).
Proof. induction l as [|x l IH]; intros H a Ha; cbn; [exact Ha|]. apply IH; [intros; apply H; [right|]; assumption|]. apply H; [left; reflexivity|exact Ha]. Qed.

Definition b2q (b : bool) : Q := if b then 1%Q else 0%Q.

Lemma binarize_half l : binarize l (1 # 2) = map b2q (map bin l).
Proof. unfold binarize. rewrite map_map. reflexivity. Qed.

Lemma qsum_b2q l : (qsum (map b2q l) == nq (count_true l))%Q.
Proof.
  induction l as [|b l IH]; [reflexivity|]. cbn [map]. rewrite qsum_cons, IH. unfold count_true. cbn [filter].
  destruct b; cbn [b2q length]; [rewrite nq_S|]; ring.
Qed.

Lemma tint_nq q n : (q == nq n)%Q -> tint q = n.
Proof. intros H. unfold tint. rewrite (Qfloor_comp _ _ H). unfold nq. rewrite Qfloor_Z. apply Nat2Z.id. Qed.

Lemma qsum_Forall2 a b : Forall2 Qeq a b -> (qsum a == qsum b)%Q.
Proof. induction 1 as [|x y a b Hxy H IH]; [reflexivity|]. rewrite !qsum_cons, Hxy, IH. reflexivity. Qed.

Lemma qmul3_length a b : length (qmul3 a b) = Nat.min (length a) (length b).
Proof. unfold qmul3. rewrite map_length, combine_length. reflexivity. Qed.

Lemma nth_qmul3 a b i : (nth i (qmul3 a b) 0 == nth i a 0 * nth i b 0)%Q.
Proof.
  unfold qmul3. revert b i. induction a as [|x a IH]; intros b i.
  - cbn. destruct i; cbn; ring.
  - destruct b as [|y b]; [cbn; destruct i; cbn; ring|]. destruct i as [|i]; cbn [combine map nth fst snd]; [reflexivity|apply IH].
Qed.

Lemma list_qeq_ext a b : length a = length b -> (forall i, (nth i a 0 == nth i b 0)%Q) -> Forall2 Qeq a b.
Proof.
  revert b. induction a as [|x a IH]; intros [|y b] Hl H; try discriminate; constructor.
  - exact (H 0).
  - apply IH; [cbn in Hl; lia|]. intro i. exact (H (S i)).
Qed.

Lemma Forall2_Qeq_nth a b i : Forall2 Qeq a b -> (nth i a 0 == nth i b 0)%Q.
Proof. apply nth_Forall2_Qeq. Qed.

Lemma Forall2_Qeq_length a b : Forall2 Qeq a b -> length a = length b.
Proof. induction 1; cbn; congruence. Qed.

(* a sum that is accumulated from the left *)
Lemma fold_left_qsum {A} (f : Q -> A -> Q) (g : A -> Q) l :
  (forall c x, In x l -> (f c x == c + g x)%Q) -> (forall c c' x, (c == c')%Q -> (f c x == f c' x)%Q) ->
  forall a, (fold_left f l a == a + qsum (map g l))%Q.
Proof.
  induction l as [|x l IH]; intros H Hp a; cbn [fold_left map]; [rewrite qsum_nil; ring|].
  rewrite qsum_cons. rewrite IH by (intros; try apply H; try apply Hp; try (right; assumption); assumption).
  rewrite H by (left; reflexivity). ring.
Qed.

Lemma qsum_flat_map {A B} (f : B -> Q) (g : A -> list B) l :
  (qsum (map f (flat_map g l)) == qsum (map (fun x => qsum (map f (g x))) l))%Q.
Proof. induction l as [|x l IH]; [reflexivity|]. cbn [flat_map map]. rewrite map_app, qsum_app, qsum_cons, IH. reflexivity. Qed.

Lemma Qeq_bool_nq a b : Qeq_bool (nq a) (nq b) = Nat.eqb a b.
Proof.
  destruct (Nat.eqb a b) eqn:E.
  - apply Nat.eqb_eq in E. subst. apply Qeq_bool_iff. reflexivity.
  - apply Nat.eqb_neq in E. destruct (Qeq_bool (nq a) (nq b)) eqn:F; [|reflexivity].
    apply Qeq_bool_iff in F. unfold nq, Qeq in F. cbn in F. lia.
Qed.

Lemma nq_nonzero n : 1 <= n -> negb (Qeq_bool (nq n) 0) = true.
Proof. intros H. change 0%Q with (nq 0). rewrite Qeq_bool_nq. destruct n; [lia|reflexivity]. Qed.

Lemma nq_div n : 1 <= n -> (1 / nq n)%Q = (1 # Pos.of_nat n)%Q.
Proof.
  intros H. destruct n as [|n]; [lia|]. rewrite <- Pos.of_nat_succ.
  unfold Qdiv, Qmult, Qinv, nq, inject_Z. cbn [Qnum Qden Z.of_nat]. reflexivity.
Qed.

(* ================================================================ the three layers: features *)
Ltac thr := unfold conv1d_binarization_threshold, conv2d_binarization_threshold, linear_binarization_threshold in *.

Definition fmask_spec (o : gobj) (d : bool) : list Q := if d then map b2q (feat_mask (snd o)) else theta_a (snd o).

Lemma conv1d_fmask E o d : conv1d__features_mask_gen E o d = fmask_spec o d.
Proof. unfold conv1d__features_mask_gen, fmask_spec, masker_alpha_theta, feat_mask. thr. cbn zeta. destruct d; [apply binarize_half|reflexivity]. Qed.
Lemma conv2d_fmask E o d : conv2d__features_mask_gen E o d = fmask_spec o d.
Proof. unfold conv2d__features_mask_gen, fmask_spec, masker_alpha_theta, feat_mask. thr. cbn zeta. destruct d; [apply binarize_half|reflexivity]. Qed.
Lemma linear_fmask E o d : linear__features_mask_gen E o d = fmask_spec o d.
Proof. unfold linear__features_mask_gen, fmask_spec, masker_alpha_theta, feat_mask. thr. cbn zeta. destruct d; [apply binarize_half|reflexivity]. Qed.

Definition eff_spec (E : genv) (o : gobj) : Q := if e_disc E then nq (out_opt (snd o)) else qsum (theta_a (snd o)).

Lemma qsum_fmask o d : (qsum (fmask_spec o d) == if d then nq (out_opt (snd o)) else qsum (theta_a (snd o)))%Q.
Proof. unfold fmask_spec, out_opt. destruct d; [apply qsum_b2q|reflexivity]. Qed.

Lemma layer_eff E o : (layer_out_features_eff E o == eff_spec E o)%Q.
Proof.
  unfold layer_out_features_eff, eff_spec, conv1d_out_features_eff_gen, conv2d_out_features_eff_gen, linear_out_features_eff_gen, tsum.
  cbn zeta. destruct (kind_of o); rewrite ?conv1d_fmask, ?conv2d_fmask, ?linear_fmask; apply qsum_fmask.
Qed.

Lemma layer_fmask E o : layer_features_mask E o = map b2q (feat_mask (snd o)).
Proof.
  unfold layer_features_mask, conv1d_features_mask_gen, conv2d_features_mask_gen, linear_features_mask_gen. cbn zeta.
  destruct (kind_of o); rewrite ?conv1d_fmask, ?conv2d_fmask, ?linear_fmask; reflexivity.
Qed.

Lemma out_opt_gen E o :
  conv1d_out_features_opt_gen E o = out_opt (snd o) /\ conv2d_out_features_opt_gen E o = out_opt (snd o) /\ linear_out_features_opt_gen E o = out_opt (snd o).
Proof.
  unfold conv1d_out_features_opt_gen, conv2d_out_features_opt_gen, linear_out_features_opt_gen,
         conv1d_features_mask_gen, conv2d_features_mask_gen, linear_features_mask_gen, tsum. cbn zeta.
  rewrite conv1d_fmask, conv2d_fmask, linear_fmask. repeat split; apply tint_nq; apply (qsum_fmask o true).
Qed.

(* ================================================================ PITConv1d: normalisation constants, time mask, k_eff *)
Lemma norm_constants E o :
  conv1d__generate_norm_constants_gen E o = (beta_norm (ksize (fst o)), gamma_norm (ksize (fst o))).
Proof.
  unfold conv1d__generate_norm_constants_gen, tflip, masker_gamma_len, a_kernel_size0. cbn zeta.
  set (K := ksize (fst o)). set (L := gamma_len K). f_equal.
  - unfold beta_norm. rewrite rev_map_seq. apply map_ext_in. intros t Ht. apply in_seq in Ht.
    replace (K - (K - 1 - t)) with (S t) by lia. apply nq_div. lia.
  - unfold gamma_norm. rewrite fold_left_snoc_map. cbn [app]. rewrite rev_map_seq. apply map_ext_in. intros j Hj. fold L.
    set (i := K - 1 - j).
    rewrite (fold_left_count' _ (fun p => Nat.eqb (i mod 2 ^ p) 0)) by (intros a p; destruct (Nat.eqb (i mod 2 ^ p) 0); reflexivity). cbn [plus].
    pose proof (filter_compl_length (fun p => Nat.eqb (i mod 2 ^ p) 0) (seq 0 L)) as Hc. rewrite seq_length in Hc.
    replace (L - length (filter (fun p => negb (Nat.eqb (i mod 2 ^ p) 0)) (seq 0 L)))
      with (length (filter (fun p => Nat.eqb (i mod 2 ^ p) 0) (seq 0 L))) by lia.
    apply nq_div. apply comb_count_pos, gamma_len_pos.
Qed.

Theorem norm_constants_defined E o : conv1d__generate_norm_constants_ok E o = true.
Proof.
  unfold conv1d__generate_norm_constants_ok, masker_gamma_len, a_kernel_size0. cbn zeta.
  set (K := ksize (fst o)). set (L := gamma_len K).
  match goal with |- context [fold_left ?f (seq 0 K) (?a, true)] => set (F := f); set (a0 := a) end.
  assert (HF : snd (fold_left F (seq 0 K) (a0, true)) = true).
  { apply (fold_left_inv (fun s => snd s = true)); [|reflexivity].
    intros [g ok] i _ Hs. cbn [snd] in Hs. subst ok. unfold F. cbn [snd andb].
    rewrite (fold_left_count' _ (fun p => Nat.eqb (i mod 2 ^ p) 0)) by (intros a p; destruct (Nat.eqb (i mod 2 ^ p) 0); reflexivity). cbn [plus].
    pose proof (filter_compl_length (fun p => Nat.eqb (i mod 2 ^ p) 0) (seq 0 L)) as Hc. rewrite seq_length in Hc.
    pose proof (comb_count_pos L i (gamma_len_pos K)) as Hp. fold L in Hp.
    apply andb_true_intro. split; [apply Nat.leb_le; lia|apply nq_nonzero; lia]. }
  destruct (fold_left F (seq 0 K) (a0, true)) as [g ok]. cbn [snd] in HF. subst ok. rewrite andb_true_r.
  apply forallb_forall. intros i Hi. apply in_seq in Hi.
  apply andb_true_intro. split; [apply Nat.leb_le; lia|apply nq_nonzero; lia].
Qed.

Lemma qsum_qmul3_comm a b : (qsum (qmul3 a b) == qsum (qmul3 b a))%Q.
Proof.
  apply qsum_Forall2, list_qeq_ext; [rewrite !qmul3_length; lia|]. intro i. rewrite !nth_qmul3. ring.
Qed.

Lemma disc_time a b :
  (qsum (qmul3 (binarize a (1 # 2)) (binarize b (1 # 2))) == nq (count_true (map (fun p => bin (fst p) && bin (snd p)) (combine a b))))%Q.
Proof.
  unfold qmul3, binarize, count_true. revert b. induction a as [|x a IH]; intros [|y b]; try reflexivity.
  cbn [map combine filter fst snd]. rewrite qsum_cons, IH. fold (bin x) (bin y).
  destruct (bin x), (bin y); cbn [andb length]; rewrite ?nq_S; ring.
Qed.

Definition ko (o : gobj) : nat := kernel_size_opt true (ksize (fst o)) (m_beta (snd o)) (m_gamma (snd o)).
Definition kc (o : gobj) : Q := k_eff_cont true (ksize (fst o)) (m_beta (snd o)) (m_gamma (snd o)).

Lemma time_mask_disc E o : (qsum (conv1d__time_mask_gen E o true) == nq (ko o))%Q.
Proof.
  unfold conv1d__time_mask_gen, ko, kernel_size_opt, time_mask, masker_beta_theta, masker_gamma_theta, a_kernel_size0, tmul. thr. cbn beta iota zeta.
  first [apply disc_time | rewrite qsum_qmul3_comm; apply disc_time].
Qed.

Lemma time_mask_cont E o : (qsum (conv1d__time_mask_gen E o false) == kc o)%Q.
Proof.
  unfold conv1d__time_mask_gen, kc, k_eff_cont, masker_beta_theta, masker_gamma_theta, a_kernel_size0, tmul. cbn beta iota zeta.
  rewrite norm_constants. cbn [fst snd].
  apply qsum_Forall2, list_qeq_ext; [rewrite !qmul3_length; lia|]. intro i. rewrite !nth_qmul3. ring.
Qed.

Definition keff_spec (E : genv) (o : gobj) : Q := if e_disc E then nq (ko o) else kc o.

Lemma conv1d_keff E o : (conv1d_k_eff_gen E o == keff_spec E o)%Q.
Proof. unfold conv1d_k_eff_gen, keff_spec, tsum. cbn zeta. destruct (e_disc E); [apply time_mask_disc|apply time_mask_cont]. Qed.

Lemma conv1d_kopt E o : conv1d_kernel_size_opt_gen E o = [ko o].
Proof. unfold conv1d_kernel_size_opt_gen, conv1d_time_mask_gen, tsum. cbn zeta. f_equal. apply tint_nq, time_mask_disc. Qed.

Lemma time_mask_defined E o d : conv1d__time_mask_ok E o d = true.
Proof. unfold conv1d__time_mask_ok. cbn beta iota zeta. destruct d; [reflexivity|]. rewrite !norm_constants_defined. reflexivity. Qed.

(* ================================================================ calculators *)
Lemma conv1d_eff E o : (conv1d_out_features_eff_gen E o == eff_spec E o)%Q.
Proof. unfold conv1d_out_features_eff_gen, eff_spec, tsum. cbn zeta. rewrite conv1d_fmask. apply qsum_fmask. Qed.
Lemma conv2d_eff E o : (conv2d_out_features_eff_gen E o == eff_spec E o)%Q.
Proof. unfold conv2d_out_features_eff_gen, eff_spec, tsum. cbn zeta. rewrite conv2d_fmask. apply qsum_fmask. Qed.
Lemma linear_eff E o : (linear_out_features_eff_gen E o == eff_spec E o)%Q.
Proof. unfold linear_out_features_eff_gen, eff_spec, tsum. cbn zeta. rewrite linear_fmask. apply qsum_fmask. Qed.

Lemma b2q_flat l mult : flat_map (fun b => repeat b mult) (map b2q l) = map b2q (flat_map (fun b => repeat b mult) l).
Proof. induction l as [|b l IH]; [reflexivity|]. cbn [map flat_map]. rewrite IH, map_app, map_repeat'. reflexivity. Qed.

Lemma gcalc_mask_eq E c : gcalc_mask E c = map b2q (calc_mask (e_ms E) c).
Proof.
  induction c as [n|i|p m IH|l IH] using calc_ind2; cbn [gcalc_mask calc_mask].
  - symmetry. apply (map_repeat' b2q true n).
  - apply layer_fmask.
  - rewrite IH. apply b2q_flat.
  - induction IH as [|c t Hc Ht IHt]; [reflexivity|]. rewrite Hc, IHt, map_app. reflexivity.
Qed.

Definition feat_spec (E : genv) (c : calc) : Q := if e_disc E then nq (calc_count (e_ms E) c) else calc_feat (e_ms E) c.

Lemma gcalc_features_eq E c : (gcalc_features E c == feat_spec E c)%Q.
Proof.
  unfold feat_spec. induction c as [n|i|p m IH|l IH] using calc_ind2; cbn [gcalc_features calc_count calc_feat].
  - destruct (e_disc E); reflexivity.
  - rewrite layer_eff. reflexivity.
  - rewrite IH. destruct (e_disc E); [rewrite nq_mult|]; reflexivity.
  - induction IH as [|c t Hc Ht IHt]; [destruct (e_disc E); reflexivity|]. rewrite Hc, IHt. destruct (e_disc E); [rewrite nq_plus|]; reflexivity.
Qed.

Lemma in_opt_gen E o :
  let n := count_true (calc_mask (e_ms E) (l_calc (fst o))) in
  conv1d_in_features_opt_gen E o = n /\ conv2d_in_features_opt_gen E o = n /\ linear_in_features_opt_gen E o = n.
Proof.
  unfold conv1d_in_features_opt_gen, conv2d_in_features_opt_gen, linear_in_features_opt_gen, tsum, a_calc. cbn zeta.
  rewrite gcalc_mask_eq. repeat split; apply tint_nq, qsum_b2q.
Qed.

(* ================================================================ get_modified_vars + shapes_dict = pit_hp *)
Theorem get_modified_vars_is_pit_hp E l m site :
  hp_eq (shapes_update (layer_get_modified_vars E (l, m)) site) (pit_hp (e_ms E) (e_disc E) l m site).
Proof.
  unfold layer_get_modified_vars, conv1d_get_modified_vars_gen, conv2d_get_modified_vars_gen, linear_get_modified_vars_gen,
         kind_of, shapes_update, set_in, set_out, set_k, set_dilation, vars_of, static_hp, a_calc, pit_hp, hp_eq. cbn zeta. cbn [fst snd].
  destruct (l_kind l); cbn [h_in h_out h_k h_groups h_bias h_oshape]; repeat split;
    try (rewrite gcalc_features_eq; unfold feat_spec; destruct (e_disc E); reflexivity);
    try (rewrite ?conv1d_eff, ?conv2d_eff, ?linear_eff; unfold eff_spec; cbn [snd]; destruct (e_disc E); reflexivity);
    try apply Forall2_Qeq_refl.
  constructor; [|constructor]. rewrite conv1d_keff. unfold keff_spec, ko, kc. cbn [fst snd]. destruct (e_disc E); reflexivity.
Qed.

Theorem get_modified_vars_defined E o : layer_get_modified_vars_ok E o = true.
Proof.
  unfold layer_get_modified_vars_ok, conv1d_get_modified_vars_ok, conv2d_get_modified_vars_ok, linear_get_modified_vars_ok,
         conv1d_out_features_eff_ok, conv2d_out_features_eff_ok, linear_out_features_eff_ok, conv1d_k_eff_ok,
         conv1d__features_mask_ok, conv2d__features_mask_ok, linear__features_mask_ok. cbn zeta.
  destruct (kind_of o); rewrite ?time_mask_defined; reflexivity.
Qed.

(* ================================================================ what export hands to the constructors = export_layer *)
Theorem layer_export_is_export_layer net ms d l m : layer_export (mkEnv net ms d) (l, m) = export_layer ms l m.
Proof.
  unfold layer_export, export_layer, is_pit_module, kind_of. cbn [fst snd]. destruct (l_search l); [|reflexivity].
  set (E := mkEnv net ms d).
  destruct (in_opt_gen E (l, m)) as (I1 & I2 & I3). destruct (out_opt_gen E (l, m)) as (O1 & O2 & O3). cbn [fst snd e_ms E] in *.
  unfold conv1d_export_gen, conv2d_export_gen, linear_export_gen, a_groups, a_in, a_out, a_ks, a_bias, static_dw, dwc. cbn zeta. cbn [fst snd].
  rewrite I1, I2, I3, O1, O2, O3, conv1d_kopt, negb_involutive. unfold ko. cbn [fst snd].
  rewrite ?(Nat.eqb_sym (l_groups l) (l_cin l)), ?(Nat.eqb_sym (l_groups l) (l_cout l)).
  destruct (Nat.eqb (l_cin l) (l_groups l)), (Nat.eqb (l_cout l) (l_groups l)); destruct (l_kind l); reflexivity.
Qed.

Theorem export_net_gen_is_export_net net ms : export_net_gen net ms = export_net net ms.
Proof. unfold export_net_gen, export_net. apply map_ext. intros [l m]. apply layer_export_is_export_layer. Qed.

(* ================================================================ the wrapper: which function costs which layer *)
Definition G (c : cspec) (lm : gobj) : hp -> Q := glookup c (kind_of lm) (vars_of lm).
Definition objd (self : gpit) (k : nat) : gobj := nth k (combine (p_net self) (p_ms self)) (dlayer, dmask).

Lemma enumerate_In {A} (l : list A) d : forall k i x, In (i, x) (enumerate_from k l) -> k <= i /\ nth (i - k) l d = x /\ i - k < length l.
Proof.
  induction l as [|y l IH]; intros k i x H; [destruct H|]. cbn [enumerate_from] in H. destruct H as [H|H].
  - inversion H; subst. rewrite Nat.sub_diag. cbn. repeat split; lia.
  - apply IH in H. destruct H as (H1 & H2 & H3). replace (i - k) with (S (i - S k)) by lia. cbn [nth length]. repeat split; [lia|exact H2|lia].
Qed.

Lemma map_snd_enumerate {A} (l : list A) : forall k, map snd (enumerate_from k l) = l.
Proof. induction l as [|y l IH]; intro k; [reflexivity|]. cbn. f_equal. apply IH. Qed.

Lemma objs_objd self i lm : In (i, lm) (p_objs self) -> lm = objd self i.
Proof. intros H. apply (enumerate_In _ (dlayer, dmask)) in H. destruct H as (_ & H & _). rewrite Nat.sub_0_r in H. symmetry. exact H. Qed.

(* the lookup is on the STATIC attributes: conv_dw_constraint on vars(layer) *)
Lemma G_static c l m : G c (l, m) = s_fn c (l_kind l) (static_dw l).
Proof.
  unfold G, glookup, kind_of, vars_of, dw_constraint_on, static_dw, static_hp, dwc. cbn [fst snd h_in h_out h_groups].
  rewrite !Qeq_bool_nq. destruct (l_kind l); reflexivity.
Qed.

Lemma build_map (key : leaf -> nat) (val : leaf -> hp -> Q) (V : nat -> hp -> Q) U :
  (forall tr, In tr U -> val tr = V (key tr)) ->
  forall m0 k, fold_left (fun m tr => fnmap_set m (key tr) (val tr)) U m0 k = if existsb (fun tr => Nat.eqb (key tr) k) U then Some (V k) else m0 k.
Proof.
  induction U as [|tr U IH]; intros H m0 k; [reflexivity|]. cbn [fold_left existsb].
  rewrite IH by (intros; apply H; right; assumption). destruct (existsb (fun tr0 => Nat.eqb (key tr0) k) U); [rewrite orb_true_r; reflexivity|].
  rewrite orb_false_r. unfold fnmap_set. rewrite Nat.eqb_sym. destruct (Nat.eqb (key tr) k) eqn:E; [|reflexivity].
  apply Nat.eqb_eq in E. rewrite H by (left; reflexivity). rewrite E. reflexivity.
Qed.

Lemma In_firstn {A} (x : A) n l : In x (firstn n l) -> In x l.
Proof. revert l. induction n as [|n IH]; intros [|y l] H; cbn in *; try contradiction. destruct H; [left|right; apply IH]; assumption. Qed.

Lemma unique_In self i s lm : In (i, s, lm) (unique_leaf_modules self) -> In (i, lm) (p_objs self) /\ In s (l_sites (fst lm)).
Proof.
  unfold unique_leaf_modules. intros H. apply in_flat_map in H. destruct H as [[i' lm'] [Hin H]]. cbn [fst snd] in H.
  apply in_map_iff in H. destruct H as [s' [E Hs]]. inversion E; subst. split; [exact Hin|]. eapply In_firstn; eassumption.
Qed.

Theorem single_map_spec self c i lm : In (i, lm) (p_objs self) -> l_sites (fst lm) <> [] ->
  pit__single_cost_fn_map_gen self c i = Some (G c lm).
Proof.
  intros Hin Hs. unfold pit__single_cost_fn_map_gen. cbn zeta.
  rewrite (fold_left_ext _ (fun m tr => fnmap_set m (fst (fst tr)) (G c (snd tr))))
    by (intros a [[k s] o] _; cbn [fst snd]; unfold G, orig_kind_of, kind_of; destruct (is_pit_module o); reflexivity).
  rewrite (build_map (fun tr => fst (fst tr)) (fun tr => G c (snd tr)) (fun k => G c (objd self k))).
  - assert (Hex : existsb (fun tr : leaf => Nat.eqb (fst (fst tr)) i) (unique_leaf_modules self) = true).
    { apply existsb_exists. destruct (l_sites (fst lm)) as [|s rest] eqn:Es; [contradiction|].
      exists (i, s, lm). split; [|cbn; apply Nat.eqb_refl]. unfold unique_leaf_modules. apply in_flat_map. exists (i, lm). split; [exact Hin|].
      cbn [fst snd]. rewrite Es. left. reflexivity. }
    rewrite Hex, (objs_objd self i lm Hin). reflexivity.
  - intros [[k s] o] Htr. cbn [fst snd]. apply unique_In in Htr. destruct Htr as [Ho _]. rewrite (objs_objd self k o Ho). reflexivity.
Qed.

(* ================================================================ _get_single_cost = pit_cost *)
Definition sitesf (shared : bool) (lm : gobj) : list (list nat) := if shared then firstn 1 (l_sites (fst lm)) else l_sites (fst lm).
Definition target (self : gpit) (shared : bool) : list leaf :=
  flat_map (fun io => map (fun s => (fst io, s, snd io)) (sitesf shared (snd io))) (p_objs self).
Definition site_term (self : gpit) (spec : cspec) (tr : leaf) : Q :=
  let lm := snd tr in let s := snd (fst tr) in
  if is_pit_module lm then G spec lm (shapes_update (layer_get_modified_vars (env_of self) lm) s)
  else if p_full self then G spec lm (shapes_update (vars_of lm) s) else 0%Q.
Definition map_ok (self : gpit) (spec : cspec) (fmap : fnmap) : Prop :=
  forall i lm, In (i, lm) (p_objs self) -> l_sites (fst lm) <> [] -> fmap i = Some (G spec lm).

Lemma target_In self shared i s lm : In (i, s, lm) (target self shared) -> In (i, lm) (p_objs self) /\ In s (sitesf shared lm) /\ l_sites (fst lm) <> [].
Proof.
  unfold target. intros H. apply in_flat_map in H. destruct H as [[i' lm'] [Hin H]]. cbn [fst snd] in H.
  apply in_map_iff in H. destruct H as [s' [E Hs]]. inversion E; subst. repeat split; [exact Hin|exact Hs|].
  unfold sitesf in Hs. intro Hn. rewrite Hn in Hs. destruct shared; cbn in Hs; contradiction.
Qed.

Lemma target_list self spec : (if s_shared spec then unique_leaf_modules self else leaf_modules self) = target self (s_shared spec).
Proof. unfold target, sitesf, unique_leaf_modules, leaf_modules. destruct (s_shared spec); reflexivity. Qed.

Lemma layer_sum self spec l m : spec_proper spec ->
  (qsum (map (fun s => site_term self spec (0%nat, s, (l, m))) (sitesf (s_shared spec) (l, m))) ==
   if counted (p_full self) l then pit_layer_cost spec (p_ms self) (p_disc self) l m else 0%Q)%Q.
Proof.
  intros Hp. unfold site_term, counted, pit_layer_cost, sites_of, sitesf, is_pit_module. cbn [fst snd]. rewrite G_static.
  destruct (l_search l) eqn:Hs; cbn [orb].
  - apply qsum_map_ext. intros s _. apply Hp. apply (get_modified_vars_is_pit_hp (env_of self) l m s).
  - destruct (p_full self).
    + apply qsum_map_ext. intros s _. reflexivity.
    + apply qsum_map_zero. intros; reflexivity.
Qed.

Theorem get_single_cost_is_pit_cost self spec fmap : spec_proper spec -> map_ok self spec fmap ->
  (pit__get_single_cost_gen self spec fmap == pit_cost spec (p_net self) (p_ms self) (p_disc self) (p_full self))%Q.
Proof.
  intros Hp Hm. unfold pit__get_single_cost_gen. cbn zeta. rewrite target_list.
  rewrite (fold_left_qsum _ (site_term self spec)).
  - unfold target. rewrite qsum_flat_map. unfold pit_cost, p_objs.
    rewrite <- (map_snd_enumerate (combine (p_net self) (p_ms self)) 0) at 2. rewrite map_map.
    change (nq 0) with 0%Q. rewrite Qplus_0_l. apply qsum_map_ext. intros [i [l m]] _. cbn [fst snd]. rewrite map_map.
    rewrite <- (layer_sum self spec l m Hp). apply qsum_map_ext. intros s _. reflexivity.
  - intros c [[i s] lm] Hin. apply target_In in Hin. destruct Hin as (Ho & _ & Hs).
    unfold site_term, fnmap_get. cbn [fst snd]. rewrite (Hm i lm Ho Hs).
    destruct (is_pit_module lm), (p_full self); cbn [negb]; cbn beta iota zeta; ring.
  - intros c c' [[i s] lm] Hc. destruct (is_pit_module lm), (p_full self); cbn [negb]; cbn beta iota zeta; rewrite Hc; reflexivity.
Qed.

Theorem get_single_cost_defined self spec fmap : map_ok self spec fmap -> pit__get_single_cost_ok self spec fmap = true.
Proof.
  intros Hm. unfold pit__get_single_cost_ok. cbn zeta. rewrite target_list.
  match goal with |- (let '(_, ok) := fold_left ?f ?l ?a in ok) = true => set (F := f); assert (H : snd (fold_left F l a) = true) end.
  { apply (fold_left_inv (fun s => snd s = true)); [|reflexivity].
    intros [c ok] [[i s] lm] Hin Hs. cbn [snd] in Hs. subst ok. apply target_In in Hin. destruct Hin as (Ho & _ & Hne).
    unfold F, fnmap_has. cbn [snd andb]. rewrite (Hm i lm Ho Hne), get_modified_vars_defined.
    destruct (is_pit_module lm), (p_full self); reflexivity. }
  destruct (fold_left F _ _) as [c ok]. exact H.
Qed.

(* ================================================================ the plumbing: one specification or a dictionary of them *)
Lemma map_ok_single self0 self c : p_net self0 = p_net self -> p_ms self0 = p_ms self -> map_ok self c (pit__single_cost_fn_map_gen self0 c).
Proof. intros Hn Hm i lm Hin Hs. apply single_map_spec; [|exact Hs]. unfold p_objs in *. rewrite Hn, Hm. exact Hin. Qed.

Definition dstep (f : cspec -> fnmap) (md : list (nat * fnmap)) (e : nat * cspec) : list (nat * fnmap) := mdict_set md (fst e) (f (snd e)).

Lemma mdict_fold_other f d n : ~ In n (map fst d) -> forall acc,
  mdict_get (fold_left (dstep f) d acc) n = mdict_get acc n /\ mdict_has (fold_left (dstep f) d acc) n = mdict_has acc n.
Proof.
  induction d as [|[n1 c1] d IH]; intros Hn acc; [split; reflexivity|]. cbn [fold_left]. cbn [map fst In] in Hn.
  destruct (IH (fun H => Hn (or_intror H)) (dstep f acc (n1, c1))) as [E1 E2]. rewrite E1, E2.
  unfold dstep, mdict_set, mdict_get, mdict_has. cbn [find existsb fst snd].
  assert (E : Nat.eqb n1 n = false) by (apply Nat.eqb_neq; intro; apply Hn; left; assumption). rewrite E. split; reflexivity.
Qed.

Lemma mdict_build f d : NoDup (map fst d) -> forall acc n c, In (n, c) d ->
  mdict_get (fold_left (dstep f) d acc) n = f c /\ mdict_has (fold_left (dstep f) d acc) n = true.
Proof.
  induction d as [|[n1 c1] d IH]; intros Hd acc n c Hin; [destruct Hin|]. cbn [map fst] in Hd. inversion Hd as [|? ? Hn1 Hd']; subst.
  cbn [fold_left]. destruct Hin as [E|Hin].
  - inversion E; subst. destruct (mdict_fold_other f d n Hn1 (dstep f acc (n, c))) as [E1 E2]. rewrite E1, E2.
    unfold dstep, mdict_set, mdict_get, mdict_has. cbn [find existsb fst snd]. rewrite Nat.eqb_refl. split; reflexivity.
  - apply IH; assumption.
Qed.

Lemma create_one self c : p_spec self = GOne c -> dnas__create_cost_fn_map_gen self = MOne (pit__single_cost_fn_map_gen self c).
Proof. intros E. unfold dnas__create_cost_fn_map_gen. rewrite E. cbn [is_dict is_one as_dict as_one]. cbn beta iota zeta. reflexivity. Qed.

Lemma create_dict self d : p_spec self = GDict d ->
  dnas__create_cost_fn_map_gen self = MDict (fold_left (dstep (pit__single_cost_fn_map_gen self)) d mdict_empty).
Proof.
  intros E. unfold dnas__create_cost_fn_map_gen. rewrite E. cbn [is_dict is_one as_dict as_one]. cbn beta iota zeta. unfold sdict_items. f_equal.
  apply fold_left_ext. intros a [n c] _. reflexivity.
Qed.

(* the maps stored in the wrapper are the ones built from its specification for its leaf modules *)
Definition wired (self : gpit) : Prop :=
  match p_spec self, p_map self with
  | GOne c, MOne m => map_ok self c m
  | GDict d, MDict md => NoDup (map fst d) -> forall n c, In (n, c) d -> mdict_has md n = true /\ map_ok self c (mdict_get md n)
  | _, _ => False
  end.

Lemma wired_of_create self0 self : p_net self0 = p_net self -> p_ms self0 = p_ms self -> p_spec self0 = p_spec self ->
  p_map self = dnas__create_cost_fn_map_gen self0 -> wired self.
Proof.
  intros Hn Hm Hs Hmap. unfold wired. rewrite Hmap. destruct (p_spec self) as [c|d] eqn:E.
  - rewrite (create_one self0 c Hs). apply map_ok_single; assumption.
  - rewrite (create_dict self0 d Hs). intros Hd n c Hin.
    destruct (mdict_build (pit__single_cost_fn_map_gen self0) d Hd mdict_empty n c Hin) as [E1 E2]. rewrite E1, E2.
    split; [reflexivity|apply map_ok_single; assumption].
Qed.

Theorem init_wired s0 net ms cost d full : wired (pit_init_gen s0 (net, ms) cost d full).
Proof. unfold pit_init_gen. cbn zeta. eapply wired_of_create; reflexivity. Qed.

Theorem init_fields s0 net ms cost d full : let self := pit_init_gen s0 (net, ms) cost d full in
  p_net self = net /\ p_ms self = ms /\ p_disc self = d /\ p_full self = full /\ p_spec self = cost.
Proof. unfold pit_init_gen, dnas_init_gen. cbn. repeat split. Qed.

Theorem setter_wired self cs : wired (pit_set_cost_specification_gen self cs).
Proof. unfold pit_set_cost_specification_gen. cbn zeta. eapply wired_of_create; reflexivity. Qed.

Theorem setter_fields self cs : let self' := pit_set_cost_specification_gen self cs in
  p_net self' = p_net self /\ p_ms self' = p_ms self /\ p_disc self' = p_disc self /\ p_full self' = p_full self /\ p_spec self' = cs.
Proof. unfold pit_set_cost_specification_gen. cbn. repeat split. Qed.

(* pit.full_cost = b / pit.discrete_cost = b after construction keep the wiring *)
Lemma wired_flags self b : wired self -> wired (with_full self b) /\ wired (with_disc self b).
Proof. intros H. split; exact H. Qed.

Definition cost_of (self : gpit) (c : cspec) : Q := pit_cost c (p_net self) (p_ms self) (p_disc self) (p_full self).

Theorem get_cost_one self c : wired self -> p_spec self = GOne c -> spec_proper c ->
  (dnas_get_cost_gen self None == cost_of self c)%Q /\ (dnas_cost_gen self == cost_of self c)%Q /\
  dnas_get_cost_ok self None = true /\ dnas_cost_ok self = true.
Proof.
  intros Hw Hs Hp. unfold wired in Hw. rewrite Hs in Hw. destruct (p_map self) as [m|md] eqn:Em; [|contradiction].
  assert (A : (dnas_get_cost_gen self None == cost_of self c)%Q).
  { unfold dnas_get_cost_gen. cbn beta iota zeta. rewrite Hs, Em. cbn [as_one as_mone]. apply get_single_cost_is_pit_cost; assumption. }
  assert (B : dnas_get_cost_ok self None = true).
  { unfold dnas_get_cost_ok. cbn beta iota zeta. rewrite Hs, Em. cbn [as_one as_mone is_one is_mone andb]. apply get_single_cost_defined. exact Hw. }
  repeat split; try assumption; unfold dnas_cost_gen, dnas_cost_ok; cbn zeta; assumption.
Qed.

Lemma sdict_get_In d n c : NoDup (map fst d) -> In (n, c) d -> sdict_get d n = c /\ sdict_has d n = true.
Proof.
  unfold sdict_get, sdict_has. induction d as [|[n1 c1] d IH]; intros Hd Hin; [destruct Hin|]. cbn [map fst] in Hd. inversion Hd as [|? ? Hn1 Hd']; subst.
  cbn [find existsb fst snd]. destruct Hin as [E|Hin].
  - inversion E; subst. rewrite Nat.eqb_refl. split; reflexivity.
  - assert (E : Nat.eqb n1 n = false). { apply Nat.eqb_neq. intro; subst. apply Hn1. apply in_map_iff. exists (n, c). split; [reflexivity|exact Hin]. }
    rewrite E. apply IH; assumption.
Qed.

Theorem get_cost_dict self d n c : wired self -> p_spec self = GDict d -> NoDup (map fst d) -> In (n, c) d -> spec_proper c ->
  (dnas_get_cost_gen self (Some n) == cost_of self c)%Q /\ dnas_get_cost_ok self (Some n) = true.
Proof.
  intros Hw Hs Hd Hin Hp. unfold wired in Hw. rewrite Hs in Hw. destruct (p_map self) as [m|md] eqn:Em; [contradiction|].
  destruct (Hw Hd n c Hin) as [Hh Hm]. destruct (sdict_get_In d n c Hd Hin) as [G1 G2]. split.
  - unfold dnas_get_cost_gen. cbn beta iota zeta. rewrite Hs, Em. cbn [as_dict as_mdict as_mone]. rewrite G1. apply get_single_cost_is_pit_cost; assumption.
  - unfold dnas_get_cost_ok. cbn beta iota zeta. rewrite Hs, Em. cbn [as_dict as_mdict as_mone is_dict is_mdict is_mone andb]. rewrite G1, G2, Hh.
    cbn [andb]. apply get_single_cost_defined. exact Hm.
Qed.

(* ================================================================ the sentences of C04 on the generated model *)
Theorem gen_cost1_is_model spec net ms d full : spec_proper spec ->
  (gen_cost1 net ms spec d full == pit_cost spec net ms d full)%Q /\ dnas_cost_ok (gen_wrapper net ms (GOne spec) d full) = true.
Proof.
  intros Hp. unfold gen_cost1, gen_wrapper.
  destruct (get_cost_one _ spec (init_wired pit_blank net ms (GOne spec) d full)) as (_ & A & _ & B); [|exact Hp|].
  - apply init_fields.
  - split; [|exact B]. rewrite A. unfold cost_of. destruct (init_fields pit_blank net ms (GOne spec) d full) as (E1 & E2 & E3 & E4 & _).
    rewrite E1, E2, E3, E4. reflexivity.
Qed.

Theorem gen_dict_cost_is_model dct n spec net ms d full : NoDup (map fst dct) -> In (n, spec) dct -> spec_proper spec ->
  let self := gen_wrapper net ms (GDict dct) d full in
  (dnas_get_cost_gen self (Some n) == pit_cost spec net ms d full)%Q /\ dnas_get_cost_ok self (Some n) = true.
Proof.
  intros Hd Hin Hp. cbn zeta. unfold gen_wrapper.
  destruct (get_cost_dict _ dct n spec (init_wired pit_blank net ms (GDict dct) d full)) as (A & B); try assumption; [apply init_fields|].
  split; [|exact B]. rewrite A. unfold cost_of. destruct (init_fields pit_blank net ms (GDict dct) d full) as (E1 & E2 & E3 & E4 & _).
  rewrite E1, E2, E3, E4. reflexivity.
Qed.

(* pit.cost_specification = spec on ANY wrapper, whatever its masks are at that time and whatever it held before *)
Theorem gen_respecified self spec : spec_proper spec ->
  let self' := pit_set_cost_specification_gen self (GOne spec) in
  (dnas_cost_gen self' == pit_cost spec (p_net self) (p_ms self) (p_disc self) (p_full self))%Q /\ dnas_cost_ok self' = true.
Proof.
  intros Hp. cbn zeta. destruct (get_cost_one _ spec (setter_wired self (GOne spec))) as (_ & A & _ & B); [apply setter_fields|exact Hp|].
  split; [|exact B]. rewrite A. unfold cost_of. destruct (setter_fields self (GOne spec)) as (E1 & E2 & E3 & E4 & _). rewrite E1, E2, E3, E4. reflexivity.
Qed.

(* pit.full_cost = b / pit.discrete_cost = b after construction: the same maps, the new flags *)
Theorem gen_flags_after_construction spec net ms d full d' full' : spec_proper spec ->
  let self := with_disc (with_full (gen_wrapper net ms (GOne spec) d full) full') d' in
  (dnas_cost_gen self == pit_cost spec net ms d' full')%Q /\ dnas_cost_ok self = true.
Proof.
  intros Hp. cbn zeta. set (W := gen_wrapper net ms (GOne spec) d full).
  assert (Hw : wired (with_disc (with_full W full') d')).
  { apply wired_flags. apply wired_flags. apply init_wired. }
  destruct (get_cost_one _ spec Hw) as (_ & A & _ & B); [reflexivity|exact Hp|]. split; [|exact B]. rewrite A. reflexivity.
Qed.

Theorem gen_cost_discrete_eq_export spec net ms full : spec_proper spec -> groups_blind spec -> dw_consistent net ms -> no_degenerate net ms ->
  (gen_cost1 net ms spec true full == plain_cost spec full (export_net_gen net ms))%Q.
Proof.
  intros Hp Hg Hc Hd. rewrite (proj1 (gen_cost1_is_model spec net ms true full Hp)), export_net_gen_is_export_net.
  rewrite (cost_discrete_eq_export spec net ms full Hg Hc Hd). reflexivity.
Qed.

Theorem gen_cost_discrete_eq_export_insensitive spec net ms full : spec_proper spec -> groups_blind spec -> dw_insensitive spec ->
  wf_net net -> dw_consistent net ms -> (gen_cost1 net ms spec true full == plain_cost spec full (export_net_gen net ms))%Q.
Proof.
  intros Hp Hg Hi Hw Hc. rewrite (proj1 (gen_cost1_is_model spec net ms true full Hp)), export_net_gen_is_export_net.
  apply cost_discrete_eq_export_insensitive; assumption.
Qed.

Theorem gen_dw_degenerate_refuted : exists net ms, wf_net net /\ dw_consistent net ms /\ masks_nonempty net ms /\
  ~ (gen_cost1 net ms gap8_spec true false == plain_cost gap8_spec false (export_net_gen net ms))%Q.
Proof.
  destruct dw_degenerate_refuted as (net & ms & H1 & H2 & H3 & H4). exists net, ms. repeat split; try assumption.
  intro H. apply H4. rewrite <- (proj1 (gen_cost1_is_model gap8_spec net ms true false proper_gap8)), <- export_net_gen_is_export_net. exact H.
Qed.

Theorem gen_params_is_numel net ms full : wf_net net -> dw_consistent net ms -> masks_nonempty net ms ->
  (gen_cost1 net ms params_spec true full == nq (numel_net full (export_net_gen net ms)))%Q.
Proof.
  intros. rewrite (proj1 (gen_cost1_is_model params_spec net ms true full proper_params)), export_net_gen_is_export_net. apply params_is_numel; assumption.
Qed.

Theorem gen_cost_open_eq_original spec net ms d full : spec_proper spec -> Forall (wf_open net) net -> Forall2 open_mask net ms ->
  (gen_cost1 net ms spec d full == plain_cost spec full net)%Q.
Proof. intros Hp Hw Hm. rewrite (proj1 (gen_cost1_is_model spec net ms d full Hp)). apply cost_open_eq_original; assumption. Qed.

Theorem gen_full_cost_adds_fixed spec net ms d : spec_proper spec -> length ms = length net ->
  (gen_cost1 net ms spec d true == gen_cost1 net ms spec d false + fixed_cost spec net)%Q.
Proof. intros Hp Hl. rewrite !(proj1 (gen_cost1_is_model spec net ms d _ Hp)). apply full_cost_adds_fixed. exact Hl. Qed.

Lemma one_layer spec l m ms d : (pit_cost spec [l] (m :: ms) d true == pit_layer_cost spec (m :: ms) d l m)%Q.
Proof. unfold pit_cost, counted. cbn [combine map fst snd]. rewrite orb_true_r, qsum_cons, qsum_nil. ring. Qed.

Theorem gen_shared_counts_once spec ms d l m s rest : spec_proper spec -> s_shared spec = true -> l_sites l = s :: rest ->
  (gen_cost1 [l] (m :: ms) spec d true == site_cost spec (m :: ms) d l m s)%Q.
Proof. intros Hp Hs E. rewrite (proj1 (gen_cost1_is_model spec _ _ d true Hp)), one_layer. apply (shared_counts_once spec _ d l m s rest Hs E). Qed.

Theorem gen_per_invocation_counts_each spec ms d l m : spec_proper spec -> s_shared spec = false ->
  (gen_cost1 [l] (m :: ms) spec d true == qsum (map (site_cost spec (m :: ms) d l m) (l_sites l)))%Q.
Proof. intros Hp Hs. rewrite (proj1 (gen_cost1_is_model spec _ _ d true Hp)), one_layer, (per_invocation_counts_each spec _ d l m Hs). reflexivity. Qed.

Theorem gen_invoked_twice spec ms d l m s : spec_proper spec -> l_sites l = [s; s] ->
  (gen_cost1 [l] (m :: ms) spec d true == (if s_shared spec then 1 else 2) * site_cost spec (m :: ms) d l m s)%Q.
Proof. intros Hp E. rewrite (proj1 (gen_cost1_is_model spec _ _ d true Hp)), one_layer. apply invoked_twice. exact E. Qed.

(* all masks open: the generated continuous / discrete effective kernel size is K for every K >= 1 *)
Theorem gen_k_eff_open E l m K : 1 <= K -> ksize l = K -> m_beta m = repeat 1%Q K -> m_gamma m = repeat 1%Q (gamma_len K) ->
  (conv1d_k_eff_gen E (l, m) == nq K)%Q /\ conv1d_kernel_size_opt_gen E (l, m) = [K].
Proof.
  intros HK Hk Hb Hg. rewrite conv1d_keff, conv1d_kopt. unfold keff_spec, ko, kc. cbn [fst snd]. rewrite Hk, Hb, Hg, (k_opt_open K HK).
  split; [|reflexivity]. destruct (e_disc E); [reflexivity|apply k_eff_open; exact HK].
Qed.

Theorem cost_fn_of_a_layer self c i lm : In (i, lm) (p_objs self) -> l_sites (fst lm) <> [] ->
  pit__single_cost_fn_map_gen self c i = Some (s_fn c (l_kind (fst lm)) (static_dw (fst lm))).
Proof. destruct lm as [l m]. intros H1 H2. rewrite (single_map_spec self c i (l, m) H1 H2), G_static. reflexivity. Qed.

Theorem norm_constants_model_and_defined E o :
  conv1d__generate_norm_constants_gen E o = (beta_norm (ksize (fst o)), gamma_norm (ksize (fst o))) /\
  conv1d__generate_norm_constants_ok E o = true.
Proof. split; [apply norm_constants|apply norm_constants_defined]. Qed.
