"""C12 — cost is a differentiable, monotone function of the architecture only (DESIGN.md §C12).

Theorems: coq/Props/C12.v over coq/Model/CostGrad.v (+ Model/Masks.v): PIT continuous cost for every cost function
that is non-negative and monotone on non-negative sizes (instantiated for the params / ops formulas and GAP8):
non-negative, monotone in the magnitude of every mask parameter, independent of the keep-alive elements, equal to the
cost of the original model when every mask is open; forward-mode derivative over dual numbers (sign, zero at zero,
strictly positive for non keep-alive elements); MPS / SuperNet mixtures affine in each coefficient vector; ODiMO
reduction between min and max branch latency.

The bulk of this property is OBSERVATION of autograd on the implementation (differentiability is not proved):
 (a) PIT: grammar architectures (vlib/gen_arch.py), every applicable built-in spec (params, ops, params_no_bias,
     ops_no_bias, gap8_latency on 2-D nets) as one dictionary specification + one single specification, seeded dyadic
     mask values.  Oracle on the implementation: cost finite and >= 0; autograd.grad w.r.t. the trainable NAS
     parameters finite, of the sign of the element and non-zero for every non keep-alive element whose increase
     raises the cost; no gradient to any network weight; cost unchanged by weight perturbation / other input batches /
     train-eval; ordered pairs of |parameter| vectors; keep-alive elements without influence; all masks open ==
     cost of the original model computed from the layer shapes.  Correspondence (float64): cost value and every
     partial derivative vs `run_std` / `run_gap8` (dual numbers) evaluated by vm_compute, relative 2^-20.
 (b) SuperNet / MPS / ODiMO_MPS: small fixed models, every applicable spec, single + dictionary specification, seeded
     coefficients: same oracle sentences; model: mix_cost / mps_layer_cost / wavg on the sampled coefficients and the
     branch costs read from the implementation, d cost / d theta == branch cost; the value / gradient sentences are
     evaluated again after observer calls (forward -> export()/summary()/get_cost -> cost -> autograd.grad).
 (a2) PIT with full_cost=True, excluded cost-bearing layers (fixed layers of the model), metrics read in seeded orders,
     every metric against its single-specification wrapper, the original-model cost and the model.
"""
import json, traceback, math
from .common import *
from . import c12_pit as cp
from . import c12_mix as cm
from . import c04_gen
from .c04_gen import regenerate      # setup.sh regenerates Gen/PitCostGen.v through this name (Props/C12gen.v bridges it to Model/CostGrad.v)

STYLES = ['rand', 'zeros', 'small', 'big', 'rand']


def _mix_jobs(seed, quick):
    jobs = []
    n = 2 if quick else 8
    for k in range(n):
        s = seed * 1009 + k
        jobs += [('sn', s, 'S0', k % 2 == 1), ('sn', s + 500, 'S1', k % 2 == 0), ('sn', s + 900, 'S2', k % 2 == 0),
                 ('mps', s, 'M0', k % 2 == 1), ('mps', s + 500, 'M1', k % 2 == 0),
                 ('odimo', s, 'M0', k % 2 == 1), ('odimo', s + 500, 'M1', k % 2 == 0),
                 # per-channel MPS with the 0-bit precision (residual model: a fully pruned branch), SuperNet with hard Gumbel sampling
                 ('mps0', s, 'M2', True), ('mps0', s + 500, ['M0', 'M1'][k % 2], True),
                 ('sng', s, 'S0', k % 2 == 1), ('sng', s + 500, 'S1', k % 2 == 0), ('sng', s + 900, 'S2', True)]
    return jobs


def _vkey(k):
    """violation key: failing sentence + spec, e.g. 'PIT:open-masks-cost-differs-from-original:ops'"""
    return k


def run(ctx):
    torch = setup_torch()
    # second tie, by composition: the PIT cost GENERATED from the source on this run (C04's translator) is proved equal to the
    # cost of Model/CostGrad.v on every network and every mask (Proofs/CostGradBridge.v), so the value / monotonicity / gradient
    # sentences of Props/C12.v are restated about the code as it is now in Props/C12gen.v
    gen_rejected = c04_gen.regenerate(ctx)
    built = ctx.build(extra_props=['C12gen'])
    ctx.extra['generated_model'] = {'file': 'coq/Gen/PitCostGen.v', 'translator': c04_gen.TRANSLATOR, 'source': c04_gen.SOURCE, 'bridge': 'coq/Proofs/CostGradBridge.v (to_costgrad, to_std, to_g8)',
                                    'status': ('refused: ' + gen_rejected) if gen_rejected else 'regenerated; the generated continuous PIT cost equals Model/CostGrad.pit_cost on every network and mask (C12_generated_*)' if built else 'regenerated; obligations do not check'}
    npit = 40 if ctx.quick else 360
    ctx.rule = ('(a) PIT: grammar architectures (1-D causal and 2-D; conv/depthwise/residual/concat/pool/flatten/linear heads) x all applicable built-in specs as a dictionary '
                '+ one single specification; trainable mask parameters seeded with dyadic values (styles rand / with exact zeros / small / big); per network: value, autograd '
                'gradient of every trainable element, +1 magnitude bump of every element, weight perturbation, other input batch + eval mode, one raised and one lowered '
                'parameter vector, all masks +-1, discrete_cost=True both set later on the wrapper and given to the constructor of a second wrapper (cost on the binarized masks, PITBinarizer straight-through): finite, non-negative, the two agree, gradients finite / none to weights / of the sign of the element and non-zero for every trainable non keep-alive element whose +1 magnitude bump raises the step-wise metric, and the continuous cost is back after discrete_cost=False; trainability switches (train_net_only / train_nas_only / train_net_and_nas / train_features|rf|dilation := False) applied at random with cost and gradients of the still-trainable parameters unchanged (one persists through the float64 comparison with the model); under every switch, and on a wrapper CONSTRUCTED with train_features / train_rf / train_dilation = False, the two weight sentences are evaluated on exactly net_parameters() after train_net_only() / train_net_and_nas() (no gradient, perturbation changes no cost), every metric identical on wrappers traced with input_example of 1 and of 2..8 samples, the cost specification re-assigned (same dict, dict -> single -> dict, single wrappers) while the masks are away from 1 and compared with a fresh wrapper carrying identical masks and, re-opened, with the original model, the metrics re-read in two other orders; (a2) the same with full_cost=True and 1-2 cost-bearing layers excluded by name (costed with their static sizes), one single-specification wrapper per metric; (b) fixed SuperNet (S0, S1, S2 = Linear layers on (N, T, F) inputs) / MPS (M0, M1; per-layer and per-channel) / ODiMO_MPS (defaults) models with seeded coefficients, each also traced with input_example of 1 and of 2..8 samples; the cost right after construction (value; whether it back-propagates is recorded), value and gradients again after forward -> export() / summary() / get_cost / export()+summary() / update_softmax_options(same options) / update_softmax_options(annealed temperature) without a forward in between; MPS (hard_softmax=True and eval()) / ODiMO (eval()) with one-hot sampled coefficients, seeded and extreme (a precision chosen by no channel): finite cost and gradients for every spec; per-channel MPS with the 0-bit precision (0, 2, 4, 8) incl. a residual model whose branch convolution is pruned channel by channel up to completely, under soft / hard / eval sampling: finite non-negative cost, finite gradients, value == sum theta_in * mean(theta_w) * cost_fn; SuperNet with gumbel_softmax=True + hard_softmax=True in training mode, 10 draws: cost == sum theta_i cost_i, d cost / d theta_i == cost_i, d cost / d alpha == straight-through reference. '
                'non-trivial = at least one searchable layer and one trainable non keep-alive parameter element; distinct = distinct (architecture, parameter values) / (model, seed)')
    from concurrent.futures import ProcessPoolExecutor
    import multiprocessing as mp
    nfull = 16 if ctx.quick else 120
    pjobs = [(ctx.seed * 100003 + i, STYLES[i % len(STYLES)]) for i in range(npit)]
    pjobs += [(ctx.seed * 100003 + 50000 + i, STYLES[i % len(STYLES)], True) for i in range(nfull)]    # full_cost=True + excluded layers
    mjobs = _mix_jobs(ctx.seed, ctx.quick)
    with ProcessPoolExecutor(max_workers=min(NPROC, 12), mp_context=mp.get_context('fork')) as ex:
        fm = [ex.submit(cm.mix_worker, j) for j in mjobs]
        nets = list(ex.map(cp.pit_worker, pjobs, chunksize=2))
        mixes = [f.result() for f in fm]

    fails = []
    # ---------------- (a) PIT oracle results
    skipped = 0
    for o in nets:
        if o['skip']:
            skipped += 1
            ctx.dist['pit-skipped:' + o['skip']] += 1
            continue
        ctx.case(('pit', o['arch'], o.get('full'), o.get('excluded'), json.dumps(o.get('params', {}), sort_keys=True)), nontrivial=o.get('n_nas', 0) > 0, kind='pit%s:%dd:%s' % ('-full-cost' if o.get('full') else '', o['dim'], o['style']),
                 sample={'arch': o['arch'], 'style': o['style'], 'cost': {k: {q: v.get(q) for q in ('value', 'hi', 'lo', 'open', 'orig')} for k, v in o['specs'].items()}} if o['seed'] % 13 == 0 else None)
        for prod in o['productions']:
            ctx.dist['prod:' + prod] += 1
        if o.get('topo'):
            ctx.dist['topology:' + o['topo']] += 1
        for key, info in o['fails']:
            fails.append(('PIT:' + key, {'kind': 'pit', 'seed': o['seed'], 'style': o['style'], 'full': o.get('full', False), 'arch': o['arch']}, {'detail': info, 'trace': o.get('trace')}))
    ctx.extra['pit_networks'] = len(nets) - skipped
    # ---------------- (b) mixtures
    for o in mixes:
        ctx.case((o.get('kind', o['method']), o['model'], o['seed']), nontrivial=True, kind='%s:%s' % (o.get('kind') or o['method'], o['model']),
                 sample={'method': o['method'], 'model': o['model'], 'cost': {k: v.get('value') for k, v in o['specs'].items()}} if o['seed'] % 7 == 0 else None)
        for w_, rg in (o.get('fresh_requires_grad') or {}).items():
            ctx.dist['cost-right-after-construction-%s:%s' % ('back-propagates' if rg else 'is-a-constant-until-the-first-forward', o.get('kind') or o['method'])] += 1
        if o.get('sign_opposed'):
            ctx.dist['gradient-non-zero-but-opposed-to-finite-difference:%s' % o.get('kind', o['method'])] += len(o['sign_opposed'])
        for r in o.get('observer_raised', []):
            ctx.dist['observer-raised:%s:%s' % (o['method'], r.split(':')[0])] += 1
        for key, info in o['fails']:
            args = {'kind': o.get('kind') or {'SuperNet': 'sn', 'MPS': 'mps', 'ODiMO_MPS': 'odimo'}[o['method']], 'seed': o['seed'], 'model': o['model'],
                    'flag': o.get('full_cost', o.get('per_channel', o.get('as_dict')))}
            fails.append(('%s' % key if key.startswith('exception:') else '%s:%s' % (o['method'], key), args, {'detail': info, 'trace': o.get('trace')}))
    ctx.extra['mixture_models'] = len(mixes)

    for key, c, d in fails:
        ctx.violation(key, {'case': c, 'observed': d}, '%s on the implementation: case %s observed %s' % (key, json.dumps(c, default=jdefault)[:200], json.dumps(d.get('detail'), default=jdefault)[:400]))

    # ---------------- model evaluation in Coq
    mism = []
    model_ok = built
    ngrad = 0
    nsm = 0
    if built:
        try:
            exprs, refs = [], []
            for o in nets:
                if o['skip']:
                    continue
                for which, S in o['specs'].items():
                    if 'coq' not in S:
                        continue
                    exprs.append(('run_gap8 ' if which == 'gap8_latency' else 'run_std ') + S['coq'])
                    refs.append((o, which, S))
            vals = ctx.coq_eval_sharded('pit', ['Plinio.Model.Masks', 'Plinio.Model.CostGrad'], '', exprs, shard=40) if exprs else []
            for (o, which, S), v in zip(refs, vals):
                (cn, cd, (on, od), grads) = v
                mval, morig = Fraction(cn, cd), Fraction(on, od)
                case = {'kind': 'pit', 'seed': o['seed'], 'style': o['style'], 'full': o.get('full', False), 'excluded': o.get('excluded'), 'arch': o['arch'], 'spec': which}
                ctx.corr += 2
                if not close(S['value64'], mval):
                    mism.append((case, {'what': 'cost value', 'impl': S['value64'], 'model': float(mval)}))
                if morig != Fraction(S['orig']):
                    mism.append((case, {'what': 'cost of the original model', 'harness_from_shapes': S['orig'], 'model': float(morig)}))
                # gradient: pids in the order of all_pids; a tensor = a consecutive block of pids
                acc = {}
                pos = 0
                for ent, ln in zip(S['pids'], S['lens']):
                    blk = [Fraction(a, b) for a, b in grads[pos:pos + ln]]
                    pos += ln
                    if ent['trainable']:
                        a = acc.setdefault(ent['tensor'], [Fraction(0)] * ln)
                        for i in range(ln):
                            a[i] += blk[i]
                        acc[ent['tensor']] = a
                done = set()
                for ent in S['pids']:
                    if not ent['trainable'] or ent['tensor'] in done:
                        continue
                    done.add(ent['tensor'])
                    for i, (gi, mi) in enumerate(zip(ent['grad'], acc[ent['tensor']])):
                        ctx.corr += 1
                        ngrad += 1
                        if not close(gi, mi):
                            mism.append((case, {'what': 'd cost / d parameter', 'pid': ent['pid'], 'index': i, 'impl_autograd': gi, 'model_dual': float(mi)}))
            # mixtures
            exprs, refs = [], []
            fr = lambda l: coq([Fraction(x) for x in l])
            for o in mixes:
                for e in o.get('mix', []):
                    exprs.append('run_mix %s %s' % (fr(e['theta']), fr(e['branch_cost'])))
                    refs.append(('sn', o, e))
                for e in o.get('mps', []):
                    exprs.append('run_mps %s %s %s' % (fr(e['thin']), fr(e['thw']), '[' + '; '.join(fr(r) for r in e['c']) + ']'))
                    refs.append(('mps', o, e))
                for e in o.get('odimo', []):
                    exprs.append('run_wavg %s %s' % (fr(e['weights']), fr(e['costs'])))
                    refs.append(('odimo', o, e))
            vals = ctx.coq_eval_sharded('mix', ['Plinio.Model.Masks', 'Plinio.Model.CostGrad'], '', exprs, shard=200) if exprs else []
            # d cost / d alpha THROUGH the softmax: autograd vs the dual-number quotient rule of the model (run_sm_grad);
            # weights w_k = exp((alpha_k - max)/T) and the derivative of exp at alpha_j, gp = w_j / T, are computed by the harness
            sexprs, srefs = [], []
            for kind, o, e in refs:
                if kind == 'odimo' or e.get('dcost_dalpha') is None:
                    continue
                if kind == 'sn':
                    cols, gcols, cj, div = [e['alpha']], [e['dcost_dalpha']], e['branch_cost'], 1
                else:
                    cols, gcols = e['alpha'], e['dcost_dalpha']
                    cj = [sum(ti * row[j] for ti, row in zip(e['thin'], e['c'])) for j in range(len(e['thw']))]
                    div = len(cols)
                for col, gcol in zip(cols, gcols):
                    mx = max(col)
                    w = [Fraction(math.exp((a - mx) / e['T'])) for a in col]
                    for j in range(len(col)):
                        sexprs.append('run_sm_grad %s %s %s %s' % (coq(w), fr(cj), coq(Nat(j)), coq(w[j] / Fraction(e['T']))))
                        srefs.append((kind, o, e, j, gcol[j], div, max(abs(v) for v in gcol), max(abs(float(c)) for c in cj)))
            svals = ctx.coq_eval_sharded('smgrad', ['Plinio.Model.Masks', 'Plinio.Model.CostGrad'], '', sexprs, shard=400) if sexprs else []
            for (kind, o, e, j, gi, div, scale, cmax), v in zip(srefs, svals):
                mult = sum(1 for (k2, o2, e2) in refs if o2 is o and k2 == kind and e2.get('spec') == e.get('spec') and e2.get('comb', e2.get('layer')) == e.get('comb', e.get('layer')))
                mv = Fraction(v[0], v[1]) * mult / div
                ctx.corr += 1
                nsm += 1
                # the implementation forms (c_j - cost) in float32: its absolute error scales with the branch costs, not with the gradient
                if abs(Fraction(gi) - mv) > Fraction(2.0 ** -14) * max(1, abs(mv), Fraction(scale)) + Fraction(2.0 ** -17) * Fraction(cmax):
                    mism.append(({'kind': kind, 'seed': o['seed'], 'model': o['model'], 'spec': e.get('spec'), 'layer': e.get('comb', e.get('layer'))},
                                 {'what': 'd cost / d alpha_j through the softmax', 'j': j, 'impl_autograd': gi, 'model_dual': float(mv)}))
            tot = {}
            for (kind, o, e), v in zip(refs, vals):
                mv = Fraction(v[0], v[1])
                case = {'kind': kind, 'seed': o['seed'], 'model': o['model'], 'spec': e.get('spec', 'diana_latency'), 'layer': e.get('comb', e.get('layer'))}
                key = (id(o), e.get('spec', 'diana_latency'))
                tot[key] = tot.get(key, Fraction(0)) + mv
                if kind == 'odimo':
                    ctx.corr += 1
                    if not close(e['reduction'], mv, 2.0 ** -18):
                        mism.append((case, {'what': 'parallel-accelerator reduction of one layer', 'impl': e['reduction'], 'model': float(mv)}))
                else:
                    # derivative w.r.t. the sampled coefficients == branch cost (mix_cost_affine / mps_layer_cost_affine_w)
                    if kind == 'sn':
                        exp, got = e['branch_cost'], e['dcost_dtheta']
                    else:
                        exp = [sum(ti * row[j] for ti, row in zip(e['thin'], e['c'])) for j in range(len(e['thw']))]
                        got = e['dcost_dthw']
                    # a module invoked several times under a non-shared spec is counted once per invocation
                    mult = sum(1 for (k2, o2, e2) in refs if o2 is o and k2 == kind and e2.get('spec') == e.get('spec') and e2.get('comb', e2.get('layer')) == e.get('comb', e.get('layer')))
                    for g, x in zip(got or [], exp):
                        ctx.corr += 1
                        if not close(g, Fraction(x) * mult, 2.0 ** -18):
                            mism.append((case, {'what': 'd cost / d theta_i vs branch cost', 'impl_autograd': got, 'branch_costs': exp, 'invocations': mult}))
                            break
            for o in mixes:
                for which, S in o['specs'].items():
                    key = (id(o), which)
                    if key not in tot or (o['method'] == 'MPS' and which not in cm.AFFINE_MPS):
                        continue
                    ctx.corr += 1
                    mv = tot[key] + Fraction(S.get('const', 0.0))
                    if not close(S['value'], mv, 2.0 ** -18):
                        mism.append(({'kind': o['method'], 'seed': o['seed'], 'model': o['model'], 'spec': which}, {'what': 'total cost vs sum of the mixture costs of the model', 'impl': S['value'], 'model': float(mv)}))
        except RuntimeError as ex:
            model_ok = False
            ctx.notes.append('model evaluation failed: ' + str(ex)[-1500:])
    ctx.extra['model_impl_mismatches'] = len(mism)
    ctx.extra['gradient_elements_compared'] = ngrad
    ctx.extra['softmax_gradient_elements_compared'] = nsm
    ctx.assumptions += ['differentiability is observed through torch.autograd, not proved; the model derivative is forward-mode AD over Q with torch.abs\' = sign (0 at 0) and straight-through estimators = 1',
                        'PIT cost is evaluated in float64 for the comparison with the model (2^-20 relative), in float32 (library default) for the oracle sentences',
                        'MPS/SuperNet/ODiMO: branch costs and sampled coefficients are inputs of the model (read from the implementation); exp of the ODiMO softmax is computed by the harness']

    if not ctx.violations:   # a printed KNOWN-FINDING must not hide a broken proof / model / correspondence
        if not built and gen_rejected:
            ctx.violation('translator-rejected', {'translator': c04_gen.TRANSLATOR, 'source': c04_gen.SOURCE, 'reason': gen_rejected, 'theorems': [o[0] for o in ctx.obligations if not o[1]]},
                          'the source of the PIT cost composition is outside the subset the translator accepts (%s): no generated model, the C12_generated_* theorems are not established' % gen_rejected[:300], no_input=True)
        elif not built:
            ctx.violation('proof-broken', {'theorems': [o[0] for o in ctx.obligations if not o[1]], 'log': getattr(ctx, 'broken_log', '')[-3000:]}, 'Props/C12.v no longer checks', no_input=True)
        elif not model_ok:
            ctx.violation('model-eval-broken', {'notes': ctx.notes}, 'the model could not be evaluated', no_input=True)
        elif mism:
            c, d = mism[0]
            ctx.violation('correspondence-broken', {'case': c, 'difference': d, 'n_mismatches': len(mism), 'correspondence': 'Model/CostGrad.v (run_std / run_gap8 / run_mix / run_mps / run_wavg) vs model.cost + torch.autograd.grad'},
                          'model and implementation disagree on %d observations (first: %s %s) but the property oracle found no failing input' % (len(mism), json.dumps(c, default=jdefault)[:200], json.dumps(d, default=jdefault)[:300]), no_input=True)


def replay(r):
    torch = setup_torch()
    print(json.dumps({k: v for k, v in r.items() if k not in ('observed',)}, indent=1, default=jdefault)[:2500])
    c = r.get('case', {})
    if c.get('kind') == 'pit' and 'seed' in c:
        o = cp.pit_case(torch, c['seed'], c['style'], c.get('full', False))
        print('replayed on the implementation: cost', {k: v.get('value') for k, v in o['specs'].items()})
        print('required: finite non-negative cost, gradients only to the mask parameters (sign of the element, non-zero where the cost rises), independent of weights/inputs, '
              'monotone in |parameter|, open masks == original cost')
        print('failing sentences:', json.dumps(o['fails'], default=jdefault)[:3000], o.get('trace', ''))
        return 0 if not o['fails'] else 1
    if c.get('kind') in ('sn', 'sng', 'mps', 'mps0', 'odimo', 'SuperNet', 'MPS', 'ODiMO_MPS') and 'seed' in c and 'flag' in c:
        kind = {'SuperNet': 'sn', 'MPS': 'mps', 'ODiMO_MPS': 'odimo'}.get(c['kind'], c['kind'])
        o = cm.mix_worker((kind, c['seed'], c['model'], c['flag']))
        print('replayed on the implementation: cost', {k: v.get('value') for k, v in o['specs'].items()})
        print('required: the cost can be evaluated for every applicable built-in spec, is finite and non-negative, gradients reach the coefficients that raise it and no weight')
        print('failing sentences:', json.dumps(o['fails'], default=jdefault)[:3000], o.get('trace', ''))
        return 0 if not o['fails'] else 1
    print('no implementation-level case in this replay file (proof / correspondence failure): re-run ./check C12')
    return 1
