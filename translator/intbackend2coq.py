"""Translator: plinio/methods/mps/quant/backends/{utils.py, match/nn/{conv2d,linear}.py, maupiti/nn/{conv2d,linear,module}.py}
            ->  coq/Gen/IntBackendGen.v   (C14)

Reads the ARITHMETIC of the integer backends of the tree under test with `ast` and emits Gallina over the vocabulary of
Model/IntBackend.v (Z for integer quantities, Q for float quantities, nat for loop indices / bit widths):

  utils.binary_search                       -> binary_search_fuel (the recursion, on a fuel; None = fuel exhausted),
                                               binary_search_gen / binary_search_ok (value / "the recursion ends")
  <Class>._integer_approximation  (x4)      -> approx_<class> .. s_w s_x s_y int_bias : option (list Z * nat) * bool
                                               the three loops of the code as fold_left over range / dict items, the dicts
                                               as insertion-ordered association lists, float('inf') as None, torch.tensor(None)
                                               (raises) as None; second component = definedness (every division has a
                                               non-zero divisor, every 2**e a non-negative e, every dict / list read hits, every
                                               binary_search call ends)
  <Class>.__init__ + forward + properties   -> layer_<class> has_bias last .. int_bias scale sumw shift acc : Q * bool
                                               zero_point_<class>, add_bias_<class>, pad_<class> (MAUPITI Conv2d)
      one OUTPUT ELEMENT of one channel at a time: `acc` stands for the element of F.conv2d / F.linear (input, self.weight,
      None, ...) [for MAUPITI on the padded, offset-signed input], int_bias for the channel's element of
      b_quantizer(bias, s_x, s_w) in integer mode, scale / shift for the results of _integer_approximation, sumw for the
      channel's torch.sum(self.weight, ...).  __init__ is executed symbolically on each of the four paths
      (bias present?, output layer?) and forward is evaluated on the attributes it left; reading an attribute that the
      path did not set is refused.

Wiring is pinned structurally (fail closed): the statements of __init__ that are not arithmetic (quantizer calls, the order
"quantize the weights, THEN read w_quantizer.scale", what is handed to _integer_approximation, views), the arguments of
F.conv2d / F.linear / ConstantPad2d, the decorators of the properties, the signature defaults, the imports of binary_search,
and every other method / module-level definition of the five files (compared with the text recorded below).

Trusted reading conventions: a float tensor that holds integers is an integer (Z), float arithmetic is exact rational
arithmetic (the check's float policy handles float32 rounding); element-wise tensor expressions are read one element at a
time (broadcast scalars stay scalars); `.view/.clone/.detach/.cpu/.item/cast/torch.tensor(x)` are the identity; `len`, `sum`,
`abs`, `any`, list `append`, dict `[]`, `keys`, `items` are the Python built-ins (dict = insertion ordered); a `range`
variable is a nat; `2 ** -e` is 1 / 2^e; int `//` is floor division.

Fail closed: everything outside the subset raises Reject.
"""
import ast
import os
from fractions import Fraction


class Reject(Exception):
    pass


def _d(n):
    try:
        return ast.unparse(n)[:200]
    except Exception:
        return ast.dump(n)[:200]


def conj(*xs):
    xs = [x for x in xs if x != 'true']
    if not xs:
        return 'true'
    out = xs[0]
    for x in xs[1:]:
        out = '(%s && %s)' % (out, x)
    return out


def _strip(stmts):
    return [s for s in stmts if not (isinstance(s, ast.Expr) and isinstance(s.value, ast.Constant) and isinstance(s.value.value, str))]


# ------------------------------------------------------------------------------------------------ types
# 'Z' 'Q' 'N' 'B' | ('K', python number) literal | 'L:<t>' list | 'D:<t>' dict nat -> t | 'O:<t>' option | '?' unknown element
def is_list(t):
    return isinstance(t, str) and t.startswith('L:')


def is_dict(t):
    return isinstance(t, str) and t.startswith('D:')


def is_opt(t):
    return isinstance(t, str) and t.startswith('O:')


def elem(t):
    return t[2:]


def unify(a, b, what):
    """types of one variable at two assignments"""
    if a == b:
        return a
    if a is None:
        return b
    if b is None:
        return a
    if isinstance(a, str) and isinstance(b, str) and a[:2] == b[:2] and a[:2] in ('L:', 'D:', 'O:'):
        return a[:2] + unify(elem(a), elem(b), what)
    if a == '?':
        return b
    if b == '?':
        return a
    raise Reject('%s is used at two types (%s, %s)' % (what, a, b))


def coqty(t):
    if t == 'Z':
        return 'Z'
    if t == 'Q':
        return 'Q'
    if t == 'N':
        return 'nat'
    if t == 'B':
        return 'bool'
    if is_list(t):
        return '(list %s)' % coqty(elem(t))
    if is_dict(t):
        return '(list (nat * %s))' % coqty(elem(t))
    if is_opt(t):
        return '(option %s)' % coqty(elem(t))
    return '_'


def dflt(t):
    if t == 'Z':
        return '0%Z'
    if t == 'Q':
        return '0'
    if t == 'N':
        return '0%nat'
    if is_list(t) or is_dict(t):
        return '[]'
    raise Reject('no default value at type %s' % (t,))


def lit(v, want):
    if isinstance(v, bool) or not isinstance(v, (int, float)):
        raise Reject('constant %r' % (v,))
    if want == 'Z':
        if not isinstance(v, int):
            raise Reject('float constant %r where an integer is expected' % v)
        return '%d%%Z' % v if v >= 0 else '(%d)%%Z' % v
    if want == 'N':
        if not isinstance(v, int) or v < 0:
            raise Reject('constant %r where a natural number is expected' % v)
        return '%d%%nat' % v
    f = Fraction(repr(v)) if isinstance(v, float) else Fraction(v)
    return '%d' % f.numerator if f.denominator == 1 and f >= 0 else '(%d # %d)' % (f.numerator, f.denominator)


def to_Q(tm, t):
    if isinstance(t, tuple):
        return lit(t[1], 'Q')
    if t == 'Q':
        return tm
    if t == 'Z':
        return '(inject_Z %s)' % tm
    if t == 'N':
        return '(inject_Z (Z.of_nat %s))' % tm
    raise Reject('a %s where a number is expected: %s' % (t, tm))


def to_Z(tm, t):
    if isinstance(t, tuple):
        return lit(t[1], 'Z')
    if t == 'Z':
        return tm
    if t == 'N':
        return '(Z.of_nat %s)' % tm
    raise Reject('a %s where an integer is expected: %s' % (t, tm))


def is_int(t):
    return t in ('Z', 'N') or (isinstance(t, tuple) and isinstance(t[1], int) and not isinstance(t[1], bool))


def is_num(t):
    return t in ('Z', 'N', 'Q') or isinstance(t, tuple)


IDENT_METHODS = ('clone', 'detach', 'cpu', 'item')
RESERVED = {'st', 'it', 'v', 'ok', 'rec', 'fuel', 'at', 'in', 'end', 'fun', 'let', 'match', 'with', 'if', 'then', 'else', 'as', 'return', 'fix', 'forall',
            'exists', 'Type', 'Prop', 'Set', 'mod', 'using', 'where', 'cofix', 'struct'}


# ------------------------------------------------------------------------------------------------ expressions
class Env:
    """names -> (coq term, type); `self.<attr>` under the key 'self.<attr>'; types are flow-insensitive per function"""

    def __init__(self, binds, funs=None, hook=None):
        self.b = dict(binds)
        self.funs = funs or {}
        self.hook = hook                  # dotted name not bound here -> (term, type, ok) | None   (properties)

    def copy(self):
        e = Env(self.b, self.funs, self.hook)
        return e

    def get(self, key):
        if key not in self.b:
            raise Reject('%s is not defined here' % key)
        return self.b[key]

    def set(self, key, term, t):
        if key in self.b:
            t = unify(self.b[key][1], t, key)
        self.b[key] = (term, t)
        return t


def _key(n):
    """x | x.a | x.a.b : the dotted name"""
    if isinstance(n, ast.Name):
        return n.id
    if isinstance(n, ast.Attribute):
        b = _key(n.value)
        return None if b is None else b + '.' + n.attr
    return None


def _is_torch(n, names):
    return isinstance(n, ast.Call) and isinstance(n.func, ast.Attribute) and isinstance(n.func.value, ast.Name) and n.func.value.id == 'torch' and n.func.attr in names


def tensor_names(n, env):
    """names of list-typed variables read element-wise by the expression (through torch.tensor(..) and identity methods)"""
    out = []
    for x in ast.walk(n):
        k = _key(x)
        if k is not None and k in env.b and is_list(env.b[k][1]) and k not in out:
            out.append(k)
    return out


def ex(n, env):
    """-> (term, type, ok)"""
    if isinstance(n, ast.Constant):
        if n.value is None:
            return 'None', 'O:?', 'true'
        if isinstance(n.value, bool) or not isinstance(n.value, (int, float)):
            raise Reject('constant %r' % (n.value,))
        return None, ('K', n.value), 'true'
    k = _key(n)
    if k is not None:
        if k not in env.b and env.hook is not None:
            r = env.hook(k)
            if r is not None:
                return r
        tm, t = env.get(k)
        if t == '#bool':
            raise Reject('%s is a flag, not a number' % k)
        return tm, t, 'true'
    if isinstance(n, ast.Call):
        f = n.func
        # identity wrappers
        if isinstance(f, ast.Attribute) and f.attr in IDENT_METHODS and not n.args and not n.keywords:
            return ex(f.value, env)
        if isinstance(f, ast.Attribute) and f.attr == 'view' and not n.keywords:
            return ex(f.value, env)
        if isinstance(f, ast.Name) and f.id == 'cast' and len(n.args) == 2 and not n.keywords:
            return ex(n.args[1], env)
        if _is_torch(n, ('tensor',)) and len(n.args) == 1 and all(kw.arg == 'device' for kw in n.keywords):
            a = n.args[0]
            if isinstance(a, ast.List) and len(a.elts) == 1:       # torch.tensor([x, ]) : a one-element tensor is its element
                a = a.elts[0]
            return ex(a, env)
        if _is_torch(n, ('zeros',)):
            return None, ('K', 0), 'true'
        if isinstance(f, ast.Name) and f.id == 'float' and len(n.args) == 1 and isinstance(n.args[0], ast.Constant) and n.args[0].value == 'inf':
            return 'None', 'O:Q', 'true'
        if isinstance(f, ast.Name) and f.id == 'abs' and len(n.args) == 1 and not n.keywords:
            a, t, o = ex(n.args[0], env)
            if is_int(t):
                return '(Z.abs %s)' % to_Z(a, t), 'Z', o
            return '(qabs %s)' % to_Q(a, t), 'Q', o
        if isinstance(f, ast.Name) and f.id == 'len' and len(n.args) == 1 and not n.keywords:
            a, t, o = ex(n.args[0], env)
            if not is_list(t):
                raise Reject('len of a %s' % (t,))
            return '(length %s)' % a, 'N', o
        if isinstance(f, ast.Name) and f.id == 'sum' and len(n.args) == 1 and not n.keywords:
            a, t, o = ex(n.args[0], env)
            if t != 'L:Q':
                raise Reject('sum of a %s' % (t,))
            return '(psum %s)' % a, 'Q', o
        if isinstance(f, ast.Name) and f.id == 'any' and len(n.args) == 1 and not n.keywords:
            return elementwise(n.args[0], env, 'existsb')
        if isinstance(f, ast.Name) and f.id in env.funs and not n.keywords:
            return env.funs[f.id]([ex(a, env) for a in n.args])
        if _is_torch(n, ('floor',)) and len(n.args) == 1 and not n.keywords:
            a, t, o = ex(n.args[0], env)
            return '(inject_Z (Qfloor %s))' % to_Q(a, t), 'Q', o
        if _is_torch(n, ('clip', 'clamp')) and len(n.args) == 3 and not n.keywords:
            (a, ta, oa), (b, tb, ob), (c, tc, oc) = [ex(x, env) for x in n.args]
            return '(qmin (qmax %s %s) %s)' % (to_Q(a, ta), to_Q(b, tb), to_Q(c, tc)), 'Q', conj(oa, ob, oc)
        if _is_torch(n, ('logical_or', 'logical_and')) and len(n.args) == 2 and not n.keywords:
            (a, ta, oa), (b, tb, ob) = ex(n.args[0], env), ex(n.args[1], env)
            if ta != 'B' or tb != 'B':
                raise Reject('logical_or of non-booleans')
            return '(%s %s %s)' % ('orb' if n.func.attr == 'logical_or' else 'andb', a, b), 'B', conj(oa, ob)
        raise Reject('call ' + _d(n))
    if isinstance(n, ast.Subscript):
        a, t, o = ex(n.value, env)
        i, ti, oi = ex(n.slice, env)
        if is_list(t):
            if ti != 'N':
                raise Reject('list index that is not a range variable: ' + _d(n))
            return '(nth %s %s %s)' % (i, a, dflt(elem(t))), elem(t), conj(o, oi, '(%s <? length %s)%%nat' % (i, a))
        if is_dict(t):
            if ti != 'N':
                raise Reject('dict key that is not a natural number: ' + _d(n))
            return '(dict_get %s %s %s)' % (a, i, dflt(elem(t))), elem(t), conj(o, oi, '(dict_has %s %s)' % (a, i))
        raise Reject('subscript of a %s: %s' % (t, _d(n)))
    if isinstance(n, ast.UnaryOp) and isinstance(n.op, ast.USub):
        a, t, o = ex(n.operand, env)
        if isinstance(t, tuple):
            return None, ('K', -t[1]), o
        if is_int(t):
            return '(- %s)%%Z' % to_Z(a, t), 'Z', o
        return '(- %s)' % to_Q(a, t), 'Q', o
    if isinstance(n, ast.UnaryOp) and isinstance(n.op, ast.Not):
        a, t, o = ex(n.operand, env)
        if t != 'B':
            raise Reject('not of a %s' % (t,))
        return '(negb %s)' % a, 'B', o
    if isinstance(n, ast.BoolOp):
        parts = [ex(v, env) for v in n.values]
        if any(p[1] != 'B' for p in parts):
            raise Reject('and/or of non-booleans: ' + _d(n))
        if any(p[2] != 'true' for p in parts[1:]):
            raise Reject('a lazily evaluated operand can fail: ' + _d(n))
        out = parts[0][0]
        for p in parts[1:]:
            out = '(%s %s %s)' % ('andb' if isinstance(n.op, ast.And) else 'orb', out, p[0])
        return out, 'B', parts[0][2]
    if isinstance(n, ast.Compare) and len(n.ops) == 1:
        op = n.ops[0]
        if isinstance(op, (ast.NotIn, ast.In)):
            c = n.comparators[0]
            if isinstance(c, ast.Call) and isinstance(c.func, ast.Attribute) and c.func.attr == 'keys' and not c.args:
                c = c.func.value
            d, td, od = ex(c, env)
            a, ta, oa = ex(n.left, env)
            if not is_dict(td) or ta != 'N':
                raise Reject('membership test ' + _d(n))
            tm = '(dict_has %s %s)' % (d, a)
            return (tm if isinstance(op, ast.In) else '(negb %s)' % tm), 'B', conj(oa, od)
        (a, ta, oa), (b, tb, ob) = ex(n.left, env), ex(n.comparators[0], env)
        if tb == 'O:Q' and is_num(ta) and isinstance(op, ast.Lt):            # x < m where m may be float('inf')
            return '(lt_inf %s %s)' % (to_Q(a, ta), b), 'B', conj(oa, ob)
        if not (is_num(ta) and is_num(tb)):
            raise Reject('comparison ' + _d(n))
        if is_int(ta) and is_int(tb):
            a, b = to_Z(a, ta), to_Z(b, tb)
            tm = {ast.Eq: '(%s =? %s)%%Z', ast.NotEq: '(negb (%s =? %s)%%Z)', ast.Lt: '(%s <? %s)%%Z', ast.LtE: '(%s <=? %s)%%Z'}
            if type(op) in tm:
                return tm[type(op)] % (a, b), 'B', conj(oa, ob)
            if isinstance(op, ast.Gt):
                return '(%s <? %s)%%Z' % (b, a), 'B', conj(oa, ob)
            if isinstance(op, ast.GtE):
                return '(%s <=? %s)%%Z' % (b, a), 'B', conj(oa, ob)
        else:
            a, b = to_Q(a, ta), to_Q(b, tb)
            tm = {ast.Eq: '(Qeq_bool %s %s)', ast.NotEq: '(negb (Qeq_bool %s %s))', ast.Lt: '(qlt_bool %s %s)', ast.LtE: '(Qle_bool %s %s)'}
            if type(op) in tm:
                return tm[type(op)] % (a, b), 'B', conj(oa, ob)
            if isinstance(op, ast.Gt):
                return '(qlt_bool %s %s)' % (b, a), 'B', conj(oa, ob)
            if isinstance(op, ast.GtE):
                return '(Qle_bool %s %s)' % (b, a), 'B', conj(oa, ob)
        raise Reject('comparison ' + _d(n))
    if isinstance(n, ast.BinOp):
        if isinstance(n.op, ast.Pow):
            b, tb, ob = ex(n.left, env)
            if tb != ('K', 2):
                raise Reject('power with a base other than 2: ' + _d(n))
            if isinstance(n.right, ast.UnaryOp) and isinstance(n.right.op, ast.USub):
                e, te, oe = ex(n.right.operand, env)
                if te != 'N':
                    raise Reject('2 ** -e with e not a range variable: ' + _d(n))
                return '(1 / inject_Z (2 ^ Z.of_nat %s))' % e, 'Q', conj(oe, '(negb (Qeq_bool (inject_Z (2 ^ Z.of_nat %s)) 0))' % e)
            e, te, oe = ex(n.right, env)
            if not is_int(te):
                raise Reject('2 ** (a float): ' + _d(n))
            if isinstance(te, tuple):
                if te[1] < 0:
                    raise Reject('2 ** negative constant')
                return '(2 ^ %d)%%Z' % te[1], 'Z', oe
            if te == 'N':
                return '(2 ^ Z.of_nat %s)%%Z' % e, 'Z', oe
            return '(2 ^ %s)%%Z' % e, 'Z', conj(oe, '(0 <=? %s)%%Z' % e)      # 2 ** negative int is a float in Python, 0 in Coq
        (a, ta, oa), (b, tb, ob) = ex(n.left, env), ex(n.right, env)
        if not (is_num(ta) and is_num(tb)):
            raise Reject('arithmetic on %s, %s: %s' % (ta, tb, _d(n)))
        if isinstance(n.op, ast.FloorDiv):
            if not (is_int(ta) and is_int(tb)):
                raise Reject('// on floats: ' + _d(n))
            nz = 'true' if (isinstance(tb, tuple) and tb[1] != 0) else '(negb (%s =? 0)%%Z)' % to_Z(b, tb)
            return '(%s / %s)%%Z' % (to_Z(a, ta), to_Z(b, tb)), 'Z', conj(oa, ob, nz)
        if isinstance(n.op, ast.Div):
            nz = 'true' if (isinstance(tb, tuple) and tb[1] != 0) else '(negb (Qeq_bool %s 0))' % to_Q(b, tb)
            return '(%s / %s)' % (to_Q(a, ta), to_Q(b, tb)), 'Q', conj(oa, ob, nz)
        if isinstance(n.op, (ast.Add, ast.Sub, ast.Mult)):
            o = {ast.Add: '+', ast.Sub: '-', ast.Mult: '*'}[type(n.op)]
            if isinstance(ta, tuple) and isinstance(tb, tuple):
                v = {'+': ta[1] + tb[1], '-': ta[1] - tb[1], '*': ta[1] * tb[1]}[o]
                return None, ('K', v), 'true'
            if is_int(ta) and is_int(tb):
                return '(%s %s %s)%%Z' % (to_Z(a, ta), o, to_Z(b, tb)), 'Z', conj(oa, ob)
            return '(%s %s %s)' % (to_Q(a, ta), o, to_Q(b, tb)), 'Q', conj(oa, ob)
    raise Reject('expression ' + _d(n))


def elementwise(n, env, head='map'):
    """an element-wise tensor expression over one or two list variables -> map / existsb over (the combination of) them"""
    names = tensor_names(n, env)
    if not names or len(names) > 2:
        raise Reject('element-wise expression over %d tensors: %s' % (len(names), _d(n)))
    for x in ast.walk(n):
        if isinstance(x, ast.Subscript) or (isinstance(x, ast.Call) and isinstance(x.func, ast.Name) and x.func.id in ('len', 'sum', 'any')):
            raise Reject('indexing / reduction inside an element-wise expression: ' + _d(n))
    e2 = env.copy()
    if len(names) == 1:
        t0 = elem(env.b[names[0]][1])
        e2.b[names[0]] = ('v', t0)
        body, tb, ob = ex(n, e2)
        src = env.b[names[0]][0]
        fun = '(fun v => %s)'
    else:
        e2.b[names[0]] = ('(fst v)', elem(env.b[names[0]][1]))
        e2.b[names[1]] = ('(snd v)', elem(env.b[names[1]][1]))
        body, tb, ob = ex(n, e2)
        src = '(combine %s %s)' % (env.b[names[0]][0], env.b[names[1]][0])
        fun = '(fun v => %s)'
    if isinstance(tb, tuple):
        raise Reject('constant element-wise expression')
    okt = 'true' if ob == 'true' else '(forallb (fun v => %s) %s)' % (ob, src)
    if head == 'existsb':
        if tb != 'B':
            raise Reject('any() of non-booleans')
        return '(existsb %s %s)' % (fun % body, src), 'B', okt
    return '(map %s %s)' % (fun % body, src), 'L:' + tb, okt


def value(n, env):
    """right-hand side of an assignment: scalar expression, or element-wise tensor expression, or [] / {}"""
    if isinstance(n, ast.List) and not n.elts:
        return '[]', 'L:?', 'true'
    if isinstance(n, ast.Dict) and not n.keys:
        return '[]', 'D:?', 'true'
    names = tensor_names(n, env)
    scalar_ctx = any(isinstance(x, ast.Subscript) or (isinstance(x, ast.Call) and isinstance(x.func, ast.Name) and x.func.id in ('len', 'sum', 'any'))
                     for x in ast.walk(n))
    whole = _key(_unwrap(n)) is not None
    if names and not scalar_ctx and not whole:
        return elementwise(n, env)
    return ex(n, env)


def _unwrap(n):
    while True:
        if isinstance(n, ast.Call) and isinstance(n.func, ast.Attribute) and n.func.attr in IDENT_METHODS + ('view',):
            n = n.func.value
        elif _is_torch(n, ('tensor',)) and len(n.args) == 1:
            n = n.args[0]
        elif isinstance(n, ast.Call) and isinstance(n.func, ast.Name) and n.func.id == 'cast' and len(n.args) == 2:
            n = n.args[1]
        else:
            return n


# ------------------------------------------------------------------------------------------------ statements with loops (state passing)
def assigned(stmts):
    out = []
    for s in stmts:
        if isinstance(s, ast.Assign):
            for t in s.targets:
                for e in (t.elts if isinstance(t, ast.Tuple) else [t]):
                    if isinstance(e, ast.Name):
                        out.append(e.id)
                    elif isinstance(e, ast.Subscript) and isinstance(e.value, ast.Name):
                        out.append(e.value.id)
        elif isinstance(s, ast.Expr) and isinstance(s.value, ast.Call) and isinstance(s.value.func, ast.Attribute) and s.value.func.attr == 'append':
            b = s.value.func.value
            if isinstance(b, ast.Subscript):
                b = b.value
            if isinstance(b, ast.Name):
                out.append(b.id)
        elif isinstance(s, (ast.For, ast.If)):
            out += assigned(s.body) + assigned(s.orelse)
            if isinstance(s, ast.For):
                for e in (s.target.elts if isinstance(s.target, ast.Tuple) else [s.target]):
                    out.append(e.id)
    return out


def reads(stmts):
    return {x.id for s in stmts for x in ast.walk(s) if isinstance(x, ast.Name) and isinstance(x.ctx, ast.Load)}


def exposed(stmts, after):
    """names read by the statements (or afterwards) before these statements bind them"""
    live = set(after)
    for s in reversed(stmts):
        if isinstance(s, ast.For):
            tg = {e.id for e in (s.target.elts if isinstance(s.target, ast.Tuple) else [s.target]) if isinstance(e, ast.Name)}
            live = (live - tg) | reads([ast.Expr(value=s.iter)]) | (exposed(s.body, set()) - tg)
        elif isinstance(s, ast.Assign) and all(isinstance(t, ast.Name) for t in s.targets):
            live = (live - {t.id for t in s.targets}) | reads([ast.Expr(value=s.value)])
        else:
            live = live | reads([s])
    return live


class Lift:
    def __init__(self, prefix):
        self.prefix, self.n, self.defs = prefix, 0, []


class Block:
    """statement list -> `let ... in` lines; `ok` is a let-bound boolean threaded through every statement"""

    def __init__(self, env, skip_names=(), lift=None):
        self.env = env
        self.skip = set(skip_names)          # assignments to these names are ignored (device)
        self.lines = []
        self.lift = lift                     # loops become definitions of their own (<prefix>_L<k>_body, <prefix>_L<k>)

    def emit(self, pad, pat, tm):
        self.lines.append('%slet %s := %s in' % (pad, pat, tm))

    def okstep(self, pad, o):
        if o != 'true':
            self.emit(pad, 'ok', '(ok && %s)' % o)

    def bind(self, pad, name, tm, t):
        if isinstance(t, tuple):
            raise Reject('%s is bound to a bare constant; its type is not determined' % name)
        if name in RESERVED:
            raise Reject('the name %s is reserved' % name)
        old = self.env.b.get(name)
        if old is not None and is_opt(old[1]) and not is_opt(t):       # x = None / float('inf') earlier: an optional value
            t = 'O:' + unify(elem(old[1]), t, name)
            tm = '(Some %s)' % tm
        self.env.set(name, name, t)
        self.emit(pad, name, tm)

    def state(self, names):
        names = list(names) + ['ok']
        return '(%s)' % ', '.join(names), "'(%s)" % ', '.join(names)

    def run(self, stmts, ind, after_reads):
        pad = '  ' * ind
        stmts = _strip(stmts)
        for k, s in enumerate(stmts):
            rest_reads = exposed(stmts[k + 1:], after_reads)
            if isinstance(s, ast.Assign) and len(s.targets) == 1:
                t = s.targets[0]
                if isinstance(t, ast.Name):
                    if t.id in self.skip:
                        continue
                    tm, ty, o = value(s.value, self.env)
                    self.okstep(pad, o)
                    if isinstance(ty, tuple):
                        raise Reject('%s = %s: the type of a bare constant is not determined' % (t.id, _d(s.value)))
                    self.bind(pad, t.id, tm, ty)
                    continue
                if isinstance(t, ast.Tuple) and isinstance(s.value, ast.Tuple) and len(t.elts) == len(s.value.elts) and all(isinstance(e, ast.Name) for e in t.elts):
                    names = [e.id for e in t.elts]
                    if reads([ast.Expr(value=s.value)]) & set(names):
                        raise Reject('simultaneous assignment reads one of its targets')
                    for nm, v in zip(names, s.value.elts):
                        tm, ty, o = value(v, self.env)
                        self.okstep(pad, o)
                        self.bind(pad, nm, tm, ty)
                    continue
                if isinstance(t, ast.Subscript) and isinstance(t.value, ast.Name):      # d[k] = e
                    d, td = self.env.get(t.value.id)
                    kk, tk, okk = ex(t.slice, self.env)
                    tm, ty, o = value(s.value, self.env)
                    if not is_dict(td) or tk != 'N':
                        raise Reject('item assignment ' + _d(s))
                    self.okstep(pad, conj(okk, o))
                    if isinstance(ty, tuple):
                        raise Reject('dict item bound to a bare constant')
                    self.env.set(t.value.id, t.value.id, 'D:' + ty)
                    self.emit(pad, t.value.id, '(dict_set %s %s %s)' % (d, kk, tm))
                    continue
                raise Reject('assignment ' + _d(s))
            if isinstance(s, ast.Expr) and isinstance(s.value, ast.Call) and isinstance(s.value.func, ast.Attribute) and s.value.func.attr == 'append' \
                    and len(s.value.args) == 1 and not s.value.keywords:
                b = s.value.func.value
                tm, ty, o = ex(s.value.args[0], self.env)
                if isinstance(ty, tuple):
                    raise Reject('append of a bare constant')
                if isinstance(b, ast.Name):
                    l, tl = self.env.get(b.id)
                    if not is_list(tl):
                        raise Reject('append to a %s' % (tl,))
                    self.okstep(pad, o)
                    self.env.set(b.id, b.id, 'L:' + ty)
                    self.emit(pad, b.id, '(%s ++ [%s])' % (l, tm))
                    continue
                if isinstance(b, ast.Subscript) and isinstance(b.value, ast.Name):
                    d, td = self.env.get(b.value.id)
                    kk, tk, okk = ex(b.slice, self.env)
                    if not is_dict(td) or tk != 'N':
                        raise Reject('append to ' + _d(b))
                    self.okstep(pad, conj(okk, o, '(dict_has %s %s)' % (d, kk)))
                    self.env.set(b.value.id, b.value.id, 'D:L:' + ty)
                    self.emit(pad, b.value.id, '(dict_set %s %s (dict_get %s %s [] ++ [%s]))' % (d, kk, d, kk, tm))
                    continue
                raise Reject('append ' + _d(s))
            if isinstance(s, ast.If) and not s.orelse:
                c, tc, oc = ex(s.test, self.env)
                if tc != 'B':
                    raise Reject('test ' + _d(s.test))
                self.okstep(pad, oc)
                vs = [v for v in dict.fromkeys(assigned(s.body)) if v not in self.skip]
                for v in vs:
                    if v not in self.env.b:
                        raise Reject('%s is assigned in a one-armed if and undefined before' % v)
                tup, pat = self.state(vs)
                inner = Block(self.env, self.skip, self.lift)
                inner.run(s.body, ind + 1, rest_reads)
                self.lines.append('%slet %s := (if %s then' % (pad, pat, c))
                self.lines += inner.lines
                self.lines.append('%s  %s else %s) in' % (pad, tup, tup))
                continue
            if isinstance(s, ast.For) and not s.orelse:
                body = _strip(s.body)
                for x in ast.walk(s):
                    if isinstance(x, (ast.Break, ast.Continue, ast.While, ast.Try, ast.With, ast.Return)):
                        raise Reject('%s inside a loop' % type(x).__name__)
                it = s.iter
                if isinstance(it, ast.Call) and isinstance(it.func, ast.Name) and it.func.id == 'range' and len(it.args) == 1 and isinstance(s.target, ast.Name):
                    n_, tn, on = ex(it.args[0], self.env)
                    if tn != 'N':
                        raise Reject('range of something that is not a natural number: ' + _d(it))
                    self.okstep(pad, on)
                    loopvars = [s.target.id]
                    src = '(seq 0 %s)' % n_
                    pat_it = s.target.id
                    binds = {s.target.id: (s.target.id, 'N')}
                elif isinstance(it, ast.Call) and isinstance(it.func, ast.Attribute) and it.func.attr == 'items' and not it.args and isinstance(it.func.value, ast.Name) \
                        and isinstance(s.target, ast.Tuple) and len(s.target.elts) == 2 and all(isinstance(e, ast.Name) for e in s.target.elts):
                    d, td = self.env.get(it.func.value.id)
                    if not is_dict(td):
                        raise Reject('items() of a %s' % (td,))
                    if it.func.value.id in assigned(body):
                        raise Reject('a dict is changed while it is iterated')
                    loopvars = [e.id for e in s.target.elts]
                    src = d
                    pat_it = "'(%s, %s)" % tuple(loopvars)
                    binds = {loopvars[0]: (loopvars[0], 'N'), loopvars[1]: (loopvars[1], elem(td))}
                else:
                    raise Reject('loop ' + _d(s.iter))
                for v in loopvars:
                    if v in self.env.b:
                        raise Reject('loop variable %s shadows a variable' % v)
                mod = [v for v in dict.fromkeys(assigned(body)) if v in self.env.b and v not in loopvars and v not in self.skip]
                local = [v for v in dict.fromkeys(assigned(body)) if v not in self.env.b and v not in self.skip]
                leak = (set(local) | set(loopvars)) & rest_reads
                if leak:
                    raise Reject('variables local to a loop are read after it: %s' % sorted(leak))
                tup, pat = self.state(mod)
                self.lift.n += 1
                lname = '%s_L%d' % (self.lift.prefix, self.lift.n)
                inner = Block(self.env, self.skip, self.lift)
                for v, (tm, ty) in binds.items():
                    inner.env.b[v] = (tm, ty)
                # free variables of the loop (read in it, defined before it, not part of its state), by their Coq terms
                rd = set()
                for x in ast.walk(s):
                    kx = _key(x)
                    if kx is not None and kx in self.env.b and kx not in binds:
                        rd.add(kx)
                fvt = {}
                for kx in sorted(rd):
                    if kx not in mod and self.env.b[kx][0] not in mod and self.env.b[kx][0] != 'ok':
                        fvt.setdefault(self.env.b[kx][0], self.env.b[kx][1])
                fv = list(fvt)
                for x in fv:
                    if not x.isidentifier():
                        raise Reject('free variable of a loop is not a name: ' + x)
                fvb = ' '.join('(%s : %s)' % (x, coqty(fvt[x])) for x in fv)
                inner.run(body, 1, set(mod) | exposed(body, set()) | rest_reads)
                for v in list(binds) + local:
                    self.env.b.pop(v, None)
                fvs = ' '.join(fv)
                d = ['Definition %s_body %s (st : _) (%s : _) :=' % (lname, fvb, 'it' if pat_it.startswith("'") else pat_it), '  let %s := st in' % pat]
                if pat_it.startswith("'"):
                    d.append('  let %s := it in' % pat_it)
                d += inner.lines
                d.append('  %s.' % tup)
                d.append('Definition %s %s %s :=' % (lname, fvb, ' '.join(mod + ['ok'])))
                d.append('  fold_left (%s_body %s) %s %s.' % (lname, fvs, src, tup))
                self.lift.defs.append('\n'.join(d))
                self.lines.append('%slet %s := %s %s %s in' % (pad, pat, lname, fvs, ' '.join(mod + ['ok'])))
                continue
            raise Reject('statement ' + _d(s))


# ------------------------------------------------------------------------------------------------ utils.binary_search
def translate_binary_search(src):
    tree = ast.parse(src)
    fns = [n for n in tree.body if isinstance(n, ast.FunctionDef)]
    others = [n for n in tree.body if not isinstance(n, ast.FunctionDef) and not (isinstance(n, ast.Expr) and isinstance(n.value, ast.Constant))]
    if [f.name for f in fns] != ['binary_search'] or others:
        raise Reject('utils.py: expected exactly one definition, binary_search; found %s' % ([f.name for f in fns] + [type(o).__name__ for o in others]))
    fn = fns[0]
    a = fn.args
    if [x.arg for x in a.args] != ['div', 'low', 'high', 'x'] or a.defaults or a.vararg or a.kwarg or a.kwonlyargs or fn.decorator_list:
        raise Reject('binary_search signature')
    env0 = Env({'div': ('div', 'Q'), 'low': ('low', 'Z'), 'high': ('high', 'Z'), 'x': ('x', 'Q')})

    def rec_call(args):
        if len(args) != 4:
            raise Reject('binary_search call with %d arguments' % len(args))
        (d, td, od), (l, tl, ol), (h, th, oh), (x, tx, ox) = args
        if conj(od, ol, oh, ox) != 'true':
            raise Reject('an argument of the recursive call can fail')
        return '(rec %s %s %s %s)' % (to_Q(d, td), to_Z(l, tl), to_Z(h, th), to_Q(x, tx)), 'R', 'true'
    env0.funs = {'binary_search': rec_call}

    def body(stmts, env, ind):
        """statements ending in a return on every path -> option Z term (None = fuel exhausted / an undefined operation)"""
        pad = '  ' * ind
        stmts = _strip(stmts)
        if not stmts:
            raise Reject('binary_search: a path does not return')
        s, rest = stmts[0], stmts[1:]
        if isinstance(s, ast.Return) and s.value is not None:
            tm, t, o = ex(s.value, env)
            if t == 'R':
                return pad + tm
            v = 'Some %s' % to_Z(tm, t)
            return pad + (v if o == 'true' else 'if %s then %s else None' % (o, v))
        if isinstance(s, ast.Assign) and len(s.targets) == 1 and isinstance(s.targets[0], ast.Name):
            nm = s.targets[0].id
            if nm in ('div', 'low', 'high', 'x', 'rec', 'fuel'):
                raise Reject('binary_search re-binds ' + nm)
            tm, t, o = ex(s.value, env)
            if t == 'R' or isinstance(t, tuple):
                raise Reject('binary_search: assignment ' + _d(s))
            e2 = env.copy()
            e2.set(nm, nm, t)
            inner = pad + 'let %s := %s in\n' % (nm, tm) + body(rest, e2, ind)
            return inner if o == 'true' else pad + 'if %s then\n%s\n%selse None' % (o, inner, pad)
        if isinstance(s, ast.If):
            c, tc, oc = ex(s.test, env)
            if tc != 'B' or oc != 'true':
                raise Reject('binary_search: test ' + _d(s.test))
            els = _strip(s.orelse)
            a_ = body(s.body + ([] if _returns(s.body) else rest), env, ind + 1)
            b_ = body((els if els else []) + ([] if (els and _returns(els)) else rest), env, ind + 1)
            return '%sif %s then\n%s\n%selse\n%s' % (pad, c, a_, pad, b_)
        raise Reject('binary_search: statement ' + _d(s))

    txt = body(fn.body, env0, 1)
    return ('(* utils.binary_search: the recursion of the code on a fuel; a recursive call costs one unit *)\n'
            'Fixpoint binary_search_fuel (fuel : nat) (div : Q) (low high : Z) (x : Q) {struct fuel} : option Z :=\n'
            '  let rec := match fuel with O => fun _ _ _ _ => None | S fuel\' => binary_search_fuel fuel\' end in\n' + txt + '.\n'
            'Definition binary_search_gen (div : Q) (low high : Z) (x : Q) : Z :=\n'
            '  match binary_search_fuel (bs_fuel low high) div low high x with Some r => r | None => low end.\n'
            'Definition binary_search_ok (div : Q) (low high : Z) (x : Q) : bool :=\n'
            '  match binary_search_fuel (bs_fuel low high) div low high x with Some _ => true | None => false end.\n')


def _returns(stmts):
    stmts = _strip(stmts)
    if not stmts:
        return False
    s = stmts[-1]
    if isinstance(s, ast.Return):
        return True
    if isinstance(s, ast.If):
        return _returns(s.body) and _returns(s.orelse)
    return False


def bs_call(args):
    if len(args) != 4:
        raise Reject('binary_search call with %d arguments' % len(args))
    (d, td, od), (l, tl, ol), (h, th, oh), (x, tx, ox) = args
    if not is_int(tl) or not is_int(th):
        raise Reject('binary_search with float bounds')
    a = '%s %s %s %s' % (to_Q(d, td), to_Z(l, tl), to_Z(h, th), to_Q(x, tx))
    return '(binary_search_gen %s)' % a, 'Z', conj(od, ol, oh, ox, '(binary_search_ok %s)' % a)


# ------------------------------------------------------------------------------------------------ _integer_approximation
def _find(tree, cls, fn=None):
    for n in tree.body:
        if isinstance(n, ast.ClassDef) and n.name == cls:
            if fn is None:
                return n
            for m in n.body:
                if isinstance(m, ast.FunctionDef) and m.name == fn:
                    return m
    raise Reject('%s.%s not found' % (cls, fn))


def translate_approx(cls, name, backend):
    fn = _find_in(cls, '_integer_approximation')
    a = fn.args
    if [x.arg for x in a.args] != ['self', 's_w', 's_x', 's_y', 'int_bias'] or a.defaults or a.vararg or a.kwarg or a.kwonlyargs or fn.decorator_list:
        raise Reject('%s._integer_approximation signature' % cls.name)
    binds = {'s_w': ('s_w', 'L:Q'), 's_x': ('s_x', 'Q'), 's_y': ('s_y', 'Q'), 'int_bias': ('int_bias', 'L:Z')}
    params = '(s_w : list Q) (s_x s_y : Q) (int_bias : list Z)'
    if backend == 'match':
        binds['self.scale_bit'] = ('scale_bit', 'N')
        binds['self.shift_pos'] = ('shift_pos', 'N')
        params = '(scale_bit shift_pos : nat) ' + params
    env = Env(binds, {'binary_search': bs_call})
    body = _strip(fn.body)
    if not body or not isinstance(body[-1], ast.Return):
        raise Reject('%s._integer_approximation does not end with a return' % cls.name)
    for x in ast.walk(fn):
        if isinstance(x, ast.Return) and x is not body[-1]:
            raise Reject('early return in _integer_approximation')
    pre = []
    stmts = []
    for s in body[:-1]:
        # SCALE_BIT = 16 : a local natural-number constant
        if isinstance(s, ast.Assign) and len(s.targets) == 1 and isinstance(s.targets[0], ast.Name) and isinstance(s.value, ast.Constant) \
                and isinstance(s.value.value, int) and not isinstance(s.value.value, bool) and s.value.value >= 0 and s.targets[0].id.isupper():
            nm = s.targets[0].id
            if nm in env.b:
                raise Reject('constant %s bound twice' % nm)
            env.b[nm] = (nm, 'N')
            pre.append('  let %s := %d%%nat in' % (nm, s.value.value))
            continue
        stmts.append(s)
    lift = Lift(name)
    blk = Block(env, skip_names=('device',), lift=lift)
    for s in stmts:
        # device = target.device  (no arithmetic)
        if isinstance(s, ast.Assign) and isinstance(s.targets[0], ast.Name) and s.targets[0].id == 'device':
            if not (isinstance(s.value, ast.Attribute) and s.value.attr == 'device'):
                raise Reject('device = ' + _d(s.value))
    stmts = [s for s in stmts if not (isinstance(s, ast.Assign) and isinstance(s.targets[0], ast.Name) and s.targets[0].id == 'device')]
    ret = body[-1].value
    blk.run(stmts, 1, reads([ast.Expr(value=ret)]))
    if not (isinstance(ret, ast.Tuple) and len(ret.elts) == 2):
        raise Reject('_integer_approximation does not return a pair')
    (s_, ts, os_), (h_, th, oh) = ex(ret.elts[0], env), ex(ret.elts[1], env)
    if ts != 'O:L:Z' or th != 'O:N' or conj(os_, oh) != 'true':
        raise Reject('_integer_approximation returns (%s, %s); expected tensors built from the selected scale list / shift (None when nothing is admissible)' % (ts, th))
    return ('\n'.join(lift.defs) + '\nDefinition %s %s : option (list Z * nat) * bool :=\n  let ok := true in\n' % (name, params)
            + '\n'.join(pre + blk.lines) + '\n  (opt_pair %s %s, ok).\n' % (s_, h_))


def _find_in(cls, fn):
    for m in cls.body:
        if isinstance(m, ast.FunctionDef) and m.name == fn:
            return m
    raise Reject('%s.%s not found' % (cls.name, fn))


# ------------------------------------------------------------------------------------------------ the layers: __init__ + properties + forward, per path
class Layer:
    """one integer layer class read on one path (has_bias, last)"""
    LAST_ATTR = {'MATCHConv2d': 'skip_requant', 'MAUPITIConv2d': 'skip_requant', 'MATCHLinear': 'last_layer', 'MAUPITILinear': 'last_layer'}

    def __init__(self, cls, backend, kind, has_bias, last):
        self.cls, self.backend, self.kind, self.has_bias, self.last = cls, backend, kind, has_bias, last
        self.m = 'conv' if kind == 'conv' else 'linear'
        self.oc = 'self.out_channels' if kind == 'conv' else 'self.out_features'
        self.view = '(1, self.out_channels, 1, 1)' if kind == 'conv' else '(1, self.out_features)'
        self.flags = set()
        self.props = {m.name: m for m in cls.body if isinstance(m, ast.FunctionDef) and any(isinstance(d, ast.Name) and d.id == 'property' for d in m.decorator_list)}
        self.in_prop = []
        self.oks = []
        self.env = Env({'self.in_quantizer.precision': ('p_in', 'N'), 'self.out_quantizer.precision': ('p_out', 'N')}, hook=self.prop)

    # ---- properties (clip_inf, clip_sup, in_offset): evaluated on the path
    def prop(self, key):
        if not key.startswith('self.') or key[5:] not in self.props or key[5:] == 'device':
            return None
        name = key[5:]
        if name in self.in_prop:
            raise Reject('property %s is recursive' % name)
        fn = self.props[name]
        if [a.arg for a in fn.args.args] != ['self'] or len(fn.decorator_list) != 1:
            raise Reject('property %s: signature / decorators' % name)
        self.in_prop.append(name)
        try:
            return self.prop_body(_strip(fn.body), name)
        finally:
            self.in_prop.pop()

    def prop_body(self, stmts, name):
        for k, s in enumerate(stmts):
            if isinstance(s, ast.Return) and s.value is not None:
                v = s.value
                if not (_is_torch(v, ('tensor',)) and len(v.args) == 1 and [kw.arg for kw in v.keywords] == ['device'] and ast.unparse(v.keywords[0].value) == 'self.device'):
                    raise Reject('property %s does not return torch.tensor(<value>, device=self.device): %s' % (name, _d(v)))
                return ex(v.args[0], self.env)
            if isinstance(s, ast.If):
                c = self.test(s.test)
                return self.prop_body(_strip(s.body if c else s.orelse) + stmts[k + 1:], name)
            raise Reject('property %s: statement %s' % (name, _d(s)))
        raise Reject('property %s does not return on this path' % name)

    # ---- tests that are decided by the path
    def test(self, n):
        if isinstance(n, ast.UnaryOp) and isinstance(n.op, ast.Not):
            return not self.test(n.operand)
        t = ast.unparse(n)
        if t in ('%s.bias is not None' % self.m, 'self.bias is not None'):
            return self.has_bias
        if t in ('%s.bias is None' % self.m, 'self.bias is None'):
            return not self.has_bias
        if t == 'type(self.out_quantizer) != DummyQuantizer':
            return not self.last
        if t == 'type(self.out_quantizer) == DummyQuantizer':
            return self.last
        if t == 'self.' + self.LAST_ATTR[self.cls.name]:
            v = self.env.b.get(t)
            if v is None or v[1] != '#bool':
                raise Reject('%s is read before __init__ sets it' % t)
            return v[0]
        raise Reject('test that the path (bias present?, output layer?) does not decide: ' + t)

    def need(self, *fl):
        for f in fl:
            if f not in self.flags:
                raise Reject('%s: step "%s" has not happened before this statement' % (self.cls.name, f))

    # ---- __init__
    def wiring(self, s):
        """statements of __init__ that are not arithmetic: recognised by their text, with their effect on the symbolic state"""
        t = ast.unparse(s)
        m, oc, last_attr = self.m, self.oc, 'self.' + self.LAST_ATTR[self.cls.name]
        if t in ('self.in_quantizer = in_quantizer', 'self.out_quantizer = out_quantizer', 'self.w_quantizer = w_quantizer'):
            self.flags.add(t.split(' = ')[0])
            return True
        if self.backend == 'match' and t in ('self.scale_bit = scale_bit', 'self.shift_pos = shift_pos'):
            self.flags.add(t.split(' = ')[0])
            return True
        if t == 'if self.bias is not None:\n    self.b_quantizer = cast(Quantizer, b_quantizer)\nelse:\n    self.b_quantizer = lambda *args: None':
            self.flags.add('self.b_quantizer')
            return True
        if t == 'self.w_quantizer.dequantize = False':
            self.need('self.w_quantizer')
            self.flags.add('weight quantizer in integer mode')
            return True
        if t == 'int_weight = self.w_quantizer(%s.weight)' % m:
            self.need('weight quantizer in integer mode')
            self.flags.add('weights quantized')
            return True
        if t == 'int_weight = cast(torch.Tensor, int_weight)':
            self.need('weights quantized')
            return True
        if t == 'self.weight.copy_(int_weight)':
            self.need('weights quantized')
            self.flags.add('integer weights stored')
            return True
        if t == 'self.s_w = self.w_quantizer.scale':
            self.need('weights quantized')                  # the weight scale is refreshed by the call that quantizes the weights
            self.flags.add('s_w')
            return True
        if t == 'self.s_x = self.in_quantizer.scale':
            self.need('self.in_quantizer')
            self.flags.add('s_x')
            return True
        if t == 'self.s_y = self.out_quantizer.scale':
            if self.last:
                raise Reject('the output layer reads out_quantizer.scale')
            self.need('self.out_quantizer')
            self.flags.add('s_y')
            return True
        if t == 'self.s_y = torch.tensor(1.0, device=self.device)':
            if not self.last:
                raise Reject('s_y = 1 on a layer that is not the output layer')
            self.flags.add('s_y')
            return True
        if t in (last_attr + ' = False', last_attr + ' = True'):
            v = t.endswith('True')
            if v != self.last:
                raise Reject('%s on the wrong branch' % t)
            self.env.b[last_attr] = (v, '#bool')
            return True
        if t == 'self.b_quantizer.dequantize = False':
            self.need('self.b_quantizer')
            self.flags.add('bias quantizer in integer mode')
            return True
        if t == 'int_bias = self.b_quantizer(%s.bias, self.s_x, self.s_w)' % m:
            self.need('bias quantizer in integer mode', 's_x', 's_w')
            if not self.has_bias or 'int_bias' in self.env.b:
                raise Reject('bias quantized on a path without bias / twice')
            self.env.b['int_bias'] = ('int_bias', 'Z')
            self.flags.add('int_bias is the quantized bias')
            return True
        if t == 'int_bias = cast(torch.Tensor, int_bias)':
            self.need('int_bias is the quantized bias')
            return True
        if t == 'int_bias = torch.zeros(%s, device=self.device)' % oc:
            if self.has_bias or 'int_bias' in self.env.b:
                raise Reject('zero bias on a path with bias')
            self.env.b['int_bias'] = ('0%Z', 'Z')
            self.flags.add('int_bias is the quantized bias')
            return True
        if t == 'self.scale, self.shift = self._integer_approximation(self.s_w, self.s_x, self.s_y, int_bias)':
            self.need('s_w', 's_x', 's_y', 'int_bias is the quantized bias', 'integer weights stored')
            if self.env.b['int_bias'][0] not in ('int_bias', '0%Z'):
                raise Reject('_integer_approximation is handed a bias that is not the quantized bias')
            self.env.b['self.scale'] = ('scale', 'Z')
            self.env.b['self.shift'] = ('shift', 'N')
            self.flags.add('scale/shift')
            return True
        if t == 'self.bias = cast(torch.Tensor, self.bias)':
            return True
        if t == 'self.bias.copy_(int_bias)':
            if not self.has_bias:
                raise Reject('bias copied on a path without bias')
            self.env.b['self.bias'] = self.env.get('int_bias')
            return True
        return False

    def run_init(self, stmts):
        for s in _strip(stmts):
            if isinstance(s, ast.With):
                if ast.unparse(s.items[0].context_expr) != 'torch.no_grad()' or len(s.items) != 1 or s.items[0].optional_vars is not None:
                    raise Reject('with ' + _d(s.items[0].context_expr))
                self.run_init(s.body)
                continue
            if self.wiring(s):
                continue
            if isinstance(s, ast.If):
                self.run_init(s.body if self.test(s.test) else s.orelse)
                continue
            if isinstance(s, ast.Assign) and len(s.targets) == 1:
                k = _key(s.targets[0])
                if k in ('int_bias', 'self.add_bias', 'self._zero_point', 'self.scale'):
                    self.need('scale/shift')
                    v = self.subst_sumw(s.value)
                    tm, ty, o = ex(v, self.env)
                    if isinstance(ty, tuple):
                        tm, ty = to_Q(tm, ty), 'Q'
                    self.oks.append(o)
                    self.env.b[k] = (tm, ty)
                    if k == 'int_bias':
                        self.flags.discard('int_bias is the quantized bias')
                    continue
            raise Reject('%s.__init__: statement not in the subset: %s' % (self.cls.name, _d(s)))

    def subst_sumw(self, n):
        """torch.sum(self.weight, dim=<all but the output channel>).view(..) -> the channel's weight sum"""
        want = 'torch.sum(self.weight, dim=(1, 2, 3))' if self.kind == 'conv' else 'torch.sum(self.weight, dim=1)'
        lay = self

        class T(ast.NodeTransformer):
            def visit_Call(self, c):
                if _is_torch(c, ('sum',)):
                    if ast.unparse(c) != want:
                        raise Reject('weight sum is not %s: %s' % (want, _d(c)))
                    lay.need('integer weights stored')
                    return ast.Name(id='__sumw', ctx=ast.Load())
                return self.generic_visit(c)
        import copy
        return T().visit(copy.deepcopy(n))

    # ---- forward
    def run_forward(self, fn):
        if [a.arg for a in fn.args.args] != ['self', 'input'] or fn.decorator_list:
            raise Reject('%s.forward signature' % self.cls.name)
        env = self.env
        padded = [False]

        def rhs(v):
            t = ast.unparse(v)
            if self.kind == 'conv' and self.backend == 'match' and t == 'F.conv2d(input, self.weight, None, self.stride, self.padding, self.dilation, self.groups)':
                return 'acc', 'Q', 'true'
            if self.kind == 'conv' and self.backend == 'match' and t == 'F.conv2d(input, self.weight, self.bias, self.stride, self.padding, self.dilation, self.groups)':
                if not self.has_bias:
                    return 'acc', 'Q', 'true'                       # nn.Conv2d(bias=False): self.bias is None
                if 'self.bias' not in env.b:
                    raise Reject('forward convolves with self.bias, which __init__ did not set on this path')
                b, tb = env.b['self.bias']
                return '(acc + %s)' % to_Q(b, tb), 'Q', 'true'
            if self.kind == 'conv' and self.backend == 'maupiti' and t == "F.conv2d(input, self.weight, None, self.stride, 'valid', self.dilation, self.groups)":
                if not padded[0]:
                    raise Reject('MAUPITI convolution of an input that was not padded with the input offset')
                return 'acc', 'Q', 'true'
            if self.kind == 'linear' and t == 'F.linear(input, self.weight, None)':
                return 'acc', 'Q', 'true'
            if t.startswith('F.'):
                raise Reject('%s.forward: %s' % (self.cls.name, t))
            return ex(v, env)

        def go(stmts):
            for k, s in enumerate(stmts):
                if isinstance(s, ast.Assign) and len(s.targets) == 1 and isinstance(s.targets[0], ast.Name):
                    nm = s.targets[0].id
                    if nm == 'input':
                        if self.backend == 'maupiti' and self.kind == 'conv' and ast.unparse(s.value) == 'self.pad(input)' and not padded[0] and 'out' not in env.b:
                            padded[0] = True
                            continue
                        raise Reject('%s.forward re-binds its input: %s' % (self.cls.name, _d(s)))
                    tm, ty, o = rhs(s.value)
                    if isinstance(ty, tuple):
                        tm, ty = to_Q(tm, ty), 'Q'
                    self.oks.append(o)
                    env.b[nm] = (tm, ty)
                    continue
                if isinstance(s, ast.If):
                    r = go(_strip(s.body if self.test(s.test) else s.orelse))
                    if r is not None:
                        return r
                    continue
                if isinstance(s, ast.Return) and s.value is not None:
                    tm, ty, o = rhs(s.value)
                    self.oks.append(o)
                    return to_Q(tm, ty)
                raise Reject('%s.forward: statement %s' % (self.cls.name, _d(s)))
            return None
        r = go(_strip(fn.body))
        if r is None:
            raise Reject('%s.forward does not return on this path' % self.cls.name)
        return r


SUPER_INIT = {
    'conv': 'super({c}, self).__init__(conv.in_channels, conv.out_channels, conv.kernel_size, conv.stride, conv.padding, conv.dilation, conv.groups, conv.bias is not None, conv.padding_mode)',
    'linear': 'super({c}, self).__init__(linear.in_features, linear.out_features, linear.bias is not None)',
}
INIT_ARGS = {
    'match': "['self', '{m}', 'in_quantizer', 'out_quantizer', 'w_quantizer', 'b_quantizer', 'scale_bit', 'shift_pos'] / ['24', '24']",
    'maupiti': "['self', '{m}', 'in_quantizer', 'out_quantizer', 'w_quantizer', 'b_quantizer'] / []",
}
MATCH_DILATION_TAIL = '''maybe_pad_dil = self._check_dil_kernel_combination()
if maybe_pad_dil:
    pad_dim = 0 if self.dilation[0] != 1 else 1
    with torch.no_grad():
        padded_weights = self._pad_dilation_in_weight(self.dilation[pad_dim], self.kernel_size[pad_dim], pad_dim)
        self.weight.data = padded_weights
    self.kernel_size = (self.kernel_size[0] * self.dilation[0] - (self.dilation[0] - 1), self.kernel_size[1] * self.dilation[1] - (self.dilation[1] - 1))
    self.dilation = (1, 1)'''
MAUPITI_PAD_TAIL = '''if self.padding == 'same':
    raise NotImplementedError('Same padding is not supported yet')
if self.padding == 'valid':
    self.pad = nn.ConstantPad2d(0, 0)
else:
    self.pad = nn.ConstantPad2d((self.padding[1], self.padding[1], self.padding[0], self.padding[0]), <PADVALUE>)'''


def split_tail(cls_name, backend, kind, body):
    """the statements of __init__ after the arithmetic that are pinned as a block: MATCH Conv2d dilation-to-padding, MAUPITI Conv2d padding"""
    body = _strip(body)
    pad_value = None
    if kind == 'conv' and backend == 'match':
        tail = '\n'.join(ast.unparse(s) for s in body[-2:])
        if tail != MATCH_DILATION_TAIL:
            raise Reject('MATCHConv2d.__init__: the dilation-to-padding block at the end is not the recorded one')
        body = body[:-2]
    if kind == 'conv' and backend == 'maupiti':
        last = body[-1]
        try:
            call = last.orelse[0].value
            pad_value = call.args[1]
            call.args[1] = ast.Name(id='<PADVALUE>', ctx=ast.Load())
        except (AttributeError, IndexError):
            raise Reject('MAUPITIConv2d.__init__: the padding block at the end is not the recorded one')
        tail = '\n'.join(ast.unparse(s) for s in body[-2:])
        if tail != MAUPITI_PAD_TAIL:
            raise Reject('MAUPITIConv2d.__init__: the padding block at the end is not the recorded one (ConstantPad2d takes (left, right, top, bottom) = (padding[1], padding[1], padding[0], padding[0]))')
        body = body[:-2]
    return body, pad_value


def translate_layer(tree, cname, backend, kind):
    import copy
    cls = _find(tree, cname)
    base = 'nn.Conv2d' if kind == 'conv' else 'nn.Linear'
    if [ast.unparse(b) for b in cls.bases] != [base, 'MATCHModule' if backend == 'match' else 'MAUPITIModule'] or cls.keywords or cls.decorator_list:
        raise Reject('%s: bases %s' % (cname, [ast.unparse(b) for b in cls.bases]))
    init = _find_in(cls, '__init__')
    a = init.args
    sig = '%s / %s' % ([x.arg for x in a.args], [ast.unparse(d) for d in a.defaults])
    m = 'conv' if kind == 'conv' else 'linear'
    if sig != INIT_ARGS[backend].format(m=m) or a.vararg or a.kwarg or a.kwonlyargs or init.decorator_list:
        raise Reject('%s.__init__ signature: %s' % (cname, sig))
    ibody = _strip(init.body)
    if not ibody or ast.unparse(ibody[0]) != SUPER_INIT[kind].format(c=cname):
        raise Reject('%s.__init__ does not start with the recorded call of the parent constructor' % cname)
    fwd = _find_in(cls, 'forward')
    vals, attrs = {}, {}
    for hb in (True, False):
        for last in (True, False):
            L = Layer(copy.deepcopy(cls), backend, kind, hb, last)
            body, pad_value = split_tail(cname, backend, kind, copy.deepcopy(ibody[1:]))
            L.env.b['__sumw'] = ('sumw', 'Z')
            L.run_init(body)
            L.need('integer weights stored', 'scale/shift', 'self.in_quantizer', 'self.out_quantizer', 'self.w_quantizer', 'self.b_quantizer')
            if backend == 'match':
                L.need('self.scale_bit', 'self.shift_pos')
            if 'self.' + Layer.LAST_ATTR[cname] not in L.env.b:
                raise Reject('%s.__init__ does not set %s' % (cname, Layer.LAST_ATTR[cname]))
            at = {}
            for k in ('self.add_bias', 'self._zero_point'):
                if k in L.env.b:
                    at[k] = (to_Q(*L.env.b[k]), conj(*L.oks))
            if pad_value is not None:
                tm, ty, o = ex(pad_value, L.env)
                at['pad'] = (to_Q(tm, ty), o)
            attrs[(hb, last)] = at
            L.oks = list(L.oks)
            out = L.run_forward(copy.deepcopy(fwd))
            vals[(hb, last)] = (out, conj(*L.oks))
    PARAMS = '(has_bias last : bool) (p_in p_out : nat) (int_bias scale sumw : Z) (shift : nat)'

    def four(f):
        return ('  if has_bias then (if last then %s\n    else %s)\n  else (if last then %s\n    else %s)' % (f(True, True), f(True, False), f(False, True), f(False, False)))
    txt = '(* %s: __init__, the properties and forward, one output element of one channel, on each path *)\n' % cname
    txt += 'Definition layer_%s %s (acc : Q) : Q * bool :=\n%s.\n' % (cname, PARAMS, four(lambda h, l: '(%s, %s)' % vals[(h, l)]))
    for k, nm in (('self.add_bias', 'add_bias'), ('self._zero_point', 'zero_point')):
        if any(k in attrs[p] for p in attrs):
            txt += 'Definition %s_%s %s : option Q * bool :=\n%s.\n' % (nm, cname, PARAMS, four(lambda h, l: '(Some %s, %s)' % attrs[(h, l)][k] if k in attrs[(h, l)] else '(None, true)'))
    if any('pad' in attrs[p] for p in attrs):
        pv = {attrs[p]['pad'] for p in attrs}
        if len(pv) != 1:
            raise Reject('the padding value depends on the path')
        txt += 'Definition pad_%s (p_in : nat) : Q * bool :=\n  (%s, %s).\n' % ((cname,) + pv.pop())
    return txt


# every other definition of the files is pinned by its text (docstrings dropped): a change there is refused, not modelled
def normalized(node):
    import copy
    node = copy.deepcopy(node)
    for x in ast.walk(node):
        if isinstance(x, (ast.FunctionDef, ast.ClassDef, ast.Module)):
            x.body = _strip(x.body) or [ast.Pass()]
    return ast.unparse(node)


TRANSLATED = {'__init__', 'forward', '_integer_approximation', 'clip_inf', 'clip_sup', 'in_offset'}
FILES = [('match/nn/conv2d.py', 'MATCHConv2d', 'match', 'conv'), ('match/nn/linear.py', 'MATCHLinear', 'match', 'linear'),
         ('maupiti/nn/conv2d.py', 'MAUPITIConv2d', 'maupiti', 'conv'), ('maupiti/nn/linear.py', 'MAUPITILinear', 'maupiti', 'linear')]
MODULE_FILES = ['match/nn/module.py', 'maupiti/nn/module.py']


def _sha(text):
    import hashlib
    return hashlib.sha256(text.encode()).hexdigest()[:16]


def pins_of(tree, cname):
    """{what: digest} of everything in a layer file that is NOT translated: module-level statements, the other methods"""
    out = {}
    cls = None
    top = []
    for n in tree.body:
        if isinstance(n, ast.ClassDef) and n.name == cname:
            cls = n
        elif isinstance(n, ast.Expr) and isinstance(n.value, ast.Constant):
            continue
        else:
            top.append(normalized(n))
    if cls is None:
        raise Reject('class %s not found' % cname)
    out['<module level>'] = _sha('\n'.join(top))
    names = []
    for m in _strip(cls.body):
        if not isinstance(m, ast.FunctionDef):
            raise Reject('%s: class-level statement %s' % (cname, _d(m)))
        if m.name in names:
            raise Reject('%s.%s is defined twice' % (cname, m.name))
        names.append(m.name)
        if m.name not in TRANSLATED:
            out[m.name] = _sha(normalized(m))
    out['<methods>'] = _sha(' '.join(sorted(names)))
    return out


# digests recorded from the tree the proofs were written against (tools: python translator/intbackend2coq.py --pins <repo>)
PINS = {'match/nn/conv2d.py:<methods>': 'a411fe4fbf2af210',
 'match/nn/conv2d.py:<module level>': '0f00fdb7855416ec',
 'match/nn/conv2d.py:_check_dil_kernel_combination': '49579d46b628c338',
 'match/nn/conv2d.py:_pad_dilation_in_weight': '3e1d0489e1f300b9',
 'match/nn/conv2d.py:device': '2b83c1a7d16ff54b',
 'match/nn/conv2d.py:summary': '31d95571df2bd9d2',
 'match/nn/linear.py:<methods>': '0f8a0d49e58dac13',
 'match/nn/linear.py:<module level>': 'f20a684956050020',
 'match/nn/linear.py:device': '2b83c1a7d16ff54b',
 'match/nn/linear.py:summary': '31d95571df2bd9d2',
 'match/nn/module.py': 'c9717e000e353336',
 'maupiti/nn/conv2d.py:<methods>': '53ca72006f126953',
 'maupiti/nn/conv2d.py:<module level>': '480a53f480b2e1ab',
 'maupiti/nn/conv2d.py:device': '2b83c1a7d16ff54b',
 'maupiti/nn/conv2d.py:summary': '31d95571df2bd9d2',
 'maupiti/nn/linear.py:<methods>': '53ca72006f126953',
 'maupiti/nn/linear.py:<module level>': '8af3f2be8920cf9e',
 'maupiti/nn/linear.py:device': '2b83c1a7d16ff54b',
 'maupiti/nn/linear.py:summary': '31d95571df2bd9d2',
 'maupiti/nn/module.py': 'd63199a429d5a4e9'}


def check_pins(repo):
    d = os.path.join(repo, 'plinio', 'methods', 'mps', 'quant', 'backends')
    got = {}
    for f, c, _, _ in FILES:
        for k, v in pins_of(ast.parse(open(os.path.join(d, f)).read()), c).items():
            got['%s:%s' % (f, k)] = v
    for f in MODULE_FILES:
        got[f] = _sha(normalized(ast.parse(open(os.path.join(d, f)).read())))
    return got


HEADER = '''(* GENERATED by translator/intbackend2coq.py from plinio/methods/mps/quant/backends/{utils.py, match/nn/*.py, maupiti/nn/*.py} of the
   tree under test -- do not edit.  Integer quantities in Z, float quantities in Q (exact), loop indices / bit widths in nat;
   second components are definedness predicates (divisors non-zero, exponents non-negative, reads hit, recursion ends). *)
From Coq Require Import QArith Qround ZArith List Bool.
Import ListNotations.
Require Import Plinio.Base.Qx Plinio.Base.Round Plinio.Model.Quant Plinio.Model.IntBackend.
Local Open Scope Q_scope.

(* Python built-ins used by the code: insertion-ordered dict with natural-number keys, sum, float('inf'), a pair of tensors built
   from values that may be None (torch.tensor(None) raises: None) *)
Fixpoint dict_has {A} (d : list (nat * A)) (k : nat) : bool := match d with [] => false | (k', _) :: r => Nat.eqb k k' || dict_has r k end.
Fixpoint dict_get {A} (d : list (nat * A)) (k : nat) (dflt : A) : A := match d with [] => dflt | (k', v) :: r => if Nat.eqb k k' then v else dict_get r k dflt end.
Fixpoint dict_set {A} (d : list (nat * A)) (k : nat) (v : A) : list (nat * A) := match d with [] => [(k, v)] | (k', v') :: r => if Nat.eqb k k' then (k', v) :: r else (k', v') :: dict_set r k v end.
Definition psum (l : list Q) : Q := fold_left Qplus l 0.
Definition lt_inf (v : Q) (m : option Q) : bool := match m with None => true | Some m => qlt_bool v m end.
Definition opt_pair {A B} (a : option A) (b : option B) : option (A * B) := match a, b with Some x, Some y => Some (x, y) | _, _ => None end.

'''

FOOTER = '''
(* correspondence helpers: the cases of run_bs / run_approx / run_match / run_maupiti2 / run_zero_point2 / run_zero_point_last /
   run_maupiti_last / maupiti_pad_value of Model/IntBackend.v, evaluated with the generated functions (Conv2d and Linear copies) *)
Definition qz (r : Q * bool) : (Z * Z) * bool := (qpair (fst r), snd r).
Definition oqz (r : option Q * bool) : option (Z * Z) * bool := (option_map qpair (fst r), snd r).
Definition prec_of (z : Z) : nat := S (Z.to_nat (Z.log2 z)).          (* z = 2^(p-1) -> p *)
Definition run_bs_gen (sh : nat) (lo hi : Z) (x : Q) : Z * bool :=
  (binary_search_gen (inv_pow2 sh) lo hi x, binary_search_ok (inv_pow2 sh) lo hi x).
Definition run_approx_gen (sb sp : nat) (ts : list Q) (bias : list Z) : list (option (list Z * nat) * bool) :=
  [approx_MATCHConv2d sb sp ts 1 1 bias; approx_MATCHLinear sb sp ts 1 1 bias] ++
  (if (Nat.eqb sb 16 && Nat.eqb sp 32)%bool then [approx_MAUPITIConv2d ts 1 1 bias; approx_MAUPITILinear ts 1 1 bias] else []).
Definition hb_of (addb : Z) : bool := negb (addb =? 0)%Z.
Definition run_match_gen (p sh : nat) (chans : list (Z * Z * list Q)) : list (list (list ((Z * Z) * bool))) :=
  map (fun c => match c with (scale, addb, accs) =>
    map (fun a => [qz (layer_MATCHConv2d (hb_of addb) false 0 p (addb / scale)%Z scale 0%Z sh a);
                   qz (layer_MATCHLinear (hb_of addb) false 0 p (addb / scale)%Z scale 0%Z sh a)]) accs end) chans.
Definition run_maupiti2_gen (p_in p_out sh : nat) (chans : list (Z * Z * Z * list Q)) : list (list (list ((Z * Z) * bool))) :=
  map (fun c => match c with (scale, addb, sumw, accs) =>
    map (fun a => [qz (layer_MAUPITIConv2d (hb_of addb) false p_in p_out (addb / scale)%Z scale sumw sh a);
                   qz (layer_MAUPITILinear (hb_of addb) false p_in p_out (addb / scale)%Z scale sumw sh a)]) accs end) chans.
Definition run_maupiti_last_gen (z : Z) (sh : nat) (chans : list (Z * Z * Z * list Q)) : list (list (list ((Z * Z) * bool))) :=
  map (fun c => match c with (scale, addb, sumw, accs) =>
    map (fun a => [qz (layer_MAUPITIConv2d (hb_of addb) true (prec_of z) 0 (addb / scale)%Z scale sumw sh a);
                   qz (layer_MAUPITILinear (hb_of addb) true (prec_of z) 0 (addb / scale)%Z scale sumw sh a)]) accs end) chans.
Definition run_zero_point2_gen (z_in z_out : Z) (sh : nat) (chans : list (Z * Z * Z)) : list (list (option (Z * Z) * bool)) :=
  map (fun c => match c with (scale, addb, sumw) =>
    [oqz (zero_point_MAUPITIConv2d (hb_of addb) false (prec_of z_in) (prec_of z_out) (addb / scale)%Z scale sumw sh);
     oqz (zero_point_MAUPITILinear (hb_of addb) false (prec_of z_in) (prec_of z_out) (addb / scale)%Z scale sumw sh)] end) chans.
Definition run_zero_point_last_gen (z : Z) (chans : list (Z * Z * Z)) : list (list (option (Z * Z) * bool)) :=
  map (fun c => match c with (scale, addb, sumw) =>
    [oqz (zero_point_MAUPITIConv2d (hb_of addb) true (prec_of z) 0 (addb / scale)%Z scale sumw 0);
     oqz (zero_point_MAUPITILinear (hb_of addb) true (prec_of z) 0 (addb / scale)%Z scale sumw 0)] end) chans.
Definition run_pad_gen (p : nat) : (Z * Z) * bool := qz (pad_MAUPITIConv2d p).
'''


def translate_repo(repo):
    d = os.path.join(repo, 'plinio', 'methods', 'mps', 'quant', 'backends')
    got = check_pins(repo)
    bad = sorted(k for k in set(got) | set(PINS) if got.get(k) != PINS.get(k))
    if bad:
        raise Reject('definitions that are not translated differ from the recorded ones (wiring next to the arithmetic changed): %s' % ', '.join(bad))
    out = HEADER + translate_binary_search(open(os.path.join(d, 'utils.py')).read()) + '\n'
    for f, c, backend, kind in FILES:
        src = open(os.path.join(d, f)).read()
        tree = ast.parse(src)
        # binary_search must be the one of utils.py
        imps = [ast.unparse(n) for n in tree.body if isinstance(n, (ast.Import, ast.ImportFrom)) and 'binary_search' in ast.unparse(n)]
        if imps != ['from plinio.methods.mps.quant.backends.utils import binary_search']:
            raise Reject('%s: binary_search is not imported from backends/utils.py: %s' % (f, imps))
        for n in ast.walk(tree):
            if isinstance(n, (ast.Assign, ast.AugAssign, ast.FunctionDef, ast.ClassDef, ast.arg)) and 'binary_search' in \
                    ([getattr(n, 'name', None), getattr(n, 'arg', None)] + [getattr(t, 'id', None) for t in getattr(n, 'targets', [])]):
                raise Reject('%s re-binds binary_search' % f)
        out += translate_approx(_find(tree, c), 'approx_' + c, backend) + '\n'
        out += translate_layer(tree, c, backend, kind) + '\n'
    return out + FOOTER


if __name__ == '__main__':
    import sys
    if len(sys.argv) > 1 and sys.argv[1] == '--pins':
        import pprint
        pprint.pprint(check_pins(sys.argv[2] if len(sys.argv) > 2 else '/repo'))
    else:
        print(translate_repo(sys.argv[1] if len(sys.argv) > 1 else '/repo'))
