"""C11 — trainability controls under every sequence of calls (DESIGN.md §C11).
Theorems: coq/Props/C11.v over coq/Model/Train.v (state machine of the whole NAS model).

Correspondence: real PIT / MPS / SuperNet models with frozen maskers (input/output-connected features, strided
Conv1d) and shared components (residual add, depthwise chain, shared quantizers).  Breadth-first exploration of
ALL operation sequences up to length 4 on the abstract state (requires_grad of every tensor, the two parameter
groups, switches, per-layer discrete_cost, sampler function / temperature / hard of every quantizer / combiner),
each transition executed on the real object reset to the source state (generic snapshot / restore); the resulting abstract
state and the `.grad` pattern of forward + (loss+cost).backward() are compared with `step` evaluated in Coq along
the same path.  Oracle: the sentences of the property evaluated directly on the implementation.
"""
import json, time
from concurrent.futures import ProcessPoolExecutor
from .common import *
from . import c11_models as M
from . import c11_gen
from .c11_gen import regenerate      # setup.sh regenerates Gen/TrainGen.v through this name

MAXLEN = 4      # the property's sequence length; the exploration goes on until no new abstract state appears
CAP = 12        # safety cap on the exploration depth (closure is reached at depth 5..8 on every prototype)


# ----------------------------------------------------------------------------- the property, on the implementation
def want_init(S, a):
    """the sampling options the user asked for so far (per sampler): what an update must keep when not given"""
    out = []
    for k, (t, h, kind) in enumerate(a['samplers']):
        hg, hd = a['hidden'][k]
        out.append({'temperature': t, 'hard': h, 'gumbel': bool(hg) if hg is not None else kind == 1,
                    'disable_sampling': bool(hd) if hd is not None else kind == 2})
    return out


def want_after(S, want, op):
    if op[0] != 'update':
        return want
    out = []
    for k, w in enumerate(want):
        w = dict(w)
        st = S['samplers_static'][k]
        if st['used']:       # every quantizer / selector that takes part in the forward pass must follow the update
            for key, v in op[1].items():
                if st['comb'] and key in ('gumbel', 'disable_sampling'):
                    continue
                w[key] = Fraction(v) if key == 'temperature' else bool(v)
        out.append(w)
    return out


def oracle(S, proto, path, op, a0, a1, obs, want1, probe=None):
    """-> list of (key, what) failures of the property on this transition (a0 --op--> a1, observation obs)"""
    fails = []
    method = S['method']
    names = S['names']
    nas, net, par = a1['nas'], a1['net'], a1['par']
    # (1) the two groups partition the parameters, each exactly once
    if len(set(nas)) != len(nas) or len(set(net)) != len(net) or set(nas) & set(net) or set(nas) | set(net) != set(par) or -1 in nas or -1 in net or len(set(par)) != len(par):
        fails.append(('partition:%s' % method, 'nas_parameters() / net_parameters() do not partition parameters(): nas=%s net=%s all=%s' % (
            [names[i] if i >= 0 else '?' for i in nas], [names[i] if i >= 0 else '?' for i in net], [names[i] if i >= 0 else '?' for i in par])))
    if (a1['nas'], a1['net'], a1['par']) != (a0['nas'], a0['net'], a0['par']):
        fails.append(('groups-change:%s:%s' % (method, op[0]), 'the parameter groups changed under %s' % M.op_name(op)))
    # (2) frozen masks never trainable
    for k, cls in enumerate(S['frozen']):
        if cls is not None and a1['rg'][k] and (op == ['init'] or not a0['rg'][k]):
            fails.append(('frozen-trainable:%s:%s' % (cls, op[0]), '%s of a %s has requires_grad=True after %s' % (names[k], cls, M.op_name(op))))
    # (2b) independent of what the library built: the feature mask of every layer whose output features the network's
    #      dataflow ties to a network input / output (through unary ops, adds, depthwise convs and, transitively, concats;
    #      or to a layer excluded from the search) is never trainable and never receives a gradient
    for ln, k in S.get('tied', []):
        if k is None:
            fails.append(('io-tied-mask-missing', 'layer %s: its feature mask is not among the model\'s tensors' % ln))
            continue
        if a1['rg'][k] and (op == ['init'] or not a0['rg'][k]):
            fails.append(('io-tied-mask-trainable:%s' % op[0], 'layer %s has its output features tied to a network input/output by the dataflow, but its mask %s has requires_grad=True after %s' % (ln, names[k], M.op_name(op))))
        if obs is not None and obs[k] == 2:
            fails.append(('io-tied-mask-gets-grad', 'layer %s has its output features tied to a network input/output by the dataflow, but its mask %s has a non-zero .grad after forward + (loss+cost).backward()' % (ln, names[k])))
    # (2c) receptive-field / dilation masks of the Conv1d layers that the network's description gives a stride != 1:
    #      never among nas_parameters(), never trainable, never a gradient
    for ln, attr, k in S.get('strided', []):
        if k is None:
            fails.append(('strided-mask-missing', 'strided layer %s: its %s is not among the model\'s tensors' % (ln, attr)))
            continue
        if k in a1['nas']:
            fails.append(('strided-mask-in-nas:%s' % attr, 'layer %s is a strided Conv1d but its %s is listed by nas_parameters()' % (ln, names[k])))
        if a1['rg'][k] and (op == ['init'] or not a0['rg'][k]):
            fails.append(('strided-mask-trainable:%s:%s' % (attr, op[0]), 'layer %s is a strided Conv1d but its %s has requires_grad=True after %s' % (ln, names[k], M.op_name(op))))
        if obs is not None and obs[k] != 0:
            fails.append(('strided-mask-gets-grad:%s' % attr, 'layer %s is a strided Conv1d but its %s has a .grad after forward + (loss+cost).backward()' % (ln, names[k])))
    # (2d) trainable means trainable: after forward + (loss+cost).backward() every tensor with requires_grad=True that the
    #      network uses has a .grad (every PIT mask; weights / biases found in use on the prototype: a BatchNorm folded into its layer is not),
    #      and the cost and the output follow an update of every trainable PIT mask
    if obs is not None:
        for k, n in enumerate(names):
            attr = n.rsplit('.', 1)[1]
            used = (method == 'PIT' and attr in ('alpha', 'beta', 'gamma')) or (attr in ('weight', 'bias') and S['reads'][k])   # a BN folded into its layer keeps unused parameters
            if a1['rg'][k] and used and obs[k] == 0 and S['frozen'][k] != 'PITFrozenFeaturesMasker':
                fails.append(('trainable-no-grad:%s:%s' % (method, attr), '%s has requires_grad=True but no .grad after forward + (loss+cost).backward()' % n))
    for n, cchg, ychg in (probe or []):
        if not (cchg and ychg):
            fails.append(('mask-update-ignored:%s:%s' % (method, n.rsplit('.', 1)[1]), '%s is trainable but zeroing it changes %s' % (
                n, 'neither the cost nor the output' if not (cchg or ychg) else 'the cost but not the output' if cchg else 'the output but not the cost')))
    # (3) train_* make exactly the named group trainable
    if op[0] in ('train_nas_only', 'train_net_only', 'train_net_and_nas'):
        group = set(nas) if op[0] == 'train_nas_only' else set(net) if op[0] == 'train_net_only' else set(nas) | set(net)
        bad = [names[k] for k in range(len(names)) if S['frozen'][k] is None and a1['rg'][k] != (k in group)]
        if bad:
            fails.append(('train-exact:%s:%s' % (method, op[0]), 'after %s the trainable tensors are not exactly the named group: wrong %s' % (op[0], bad)))
    # (3b) a switch does what it says whatever preceded: after `train_<k> := b` every mask of kind k held by a
    #      non-frozen masker has requires_grad == b and the property reads back b; after `discrete_cost := b`
    #      every layer's discrete_cost is b
    if op[0] == 'set':
        fl, b = op[1], bool(op[2])
        fidx = ('train_features', 'train_rf', 'train_dilation', 'train_selection', 'discrete_cost').index(fl)
        if a1['flags'][fidx] is not None and a1['flags'][fidx] != b:
            fails.append(('switch-readback:%s:%s' % (method, fl), 'after %s the property %s reads %s' % (M.op_name(op), fl, a1['flags'][fidx])))
        if fl == 'discrete_cost':
            bad = [n for n, v in zip(S['disc_layers'], a1['ldisc']) if v != b]
            if bad:
                fails.append(('switch-ignored:%s:%s=%s' % (method, fl, b), 'after %s the layers %s still have discrete_cost = %s' % (M.op_name(op), bad, not b)))
        else:
            lk = {'train_features': 'feat', 'train_rf': 'rf', 'train_dilation': 'dil', 'train_selection': 'sel'}[fl]
            ids = sorted({l[lk] for l in S['layers'] if l[lk] is not None and S['frozen'][l[lk]] is None})
            bad = [names[k] for k in ids if a1['rg'][k] != b]
            if bad:
                fails.append(('switch-ignored:%s:%s=%s' % (method, fl, b), 'after %s the masks %s have requires_grad = %s' % (M.op_name(op), bad, not b)))
    # (4) frozen masks never receive a gradient
    if obs is not None:
        for k, cls in enumerate(S['frozen']):
            if cls is not None and obs[k] == 2:
                fails.append(('frozen-gets-grad:%s' % cls, '%s of a %s has a non-zero .grad after forward + (loss+cost).backward()' % (names[k], cls)))
    # (4b) forward + backward is an observer: trainability, groups, switches and sampling options are what the calls made them
    if op[0] in ('fb', 'fwd'):
        for what in ('rg', 'nas', 'net', 'flags', 'ldisc'):
            if a1[what] != a0[what]:
                d = [names[k] for k in range(len(names)) if a1['rg'][k] != a0['rg'][k]][:6] if what == 'rg' else ''
                fails.append(('%s-changes-state:%s:%s' % (op[0], method, {'rg': 'requires_grad', 'ldisc': 'discrete_cost'}.get(what, what)),
                              '%s changed %s %s' % ('a forward pass' if op[0] == 'fwd' else 'forward + (loss+cost).backward()', {'rg': 'requires_grad of'}.get(what, what), d)))
    # (5) a partial update of the sampling options leaves the unspecified ones as they were
    if op[0] == 'update':
        given = '+'.join(sorted(op[1]))
        for k, (t, h, kind) in enumerate(a1['samplers']):
            w = want1[k]
            wk = 2 if w['disable_sampling'] else 1 if w['gumbel'] else 0
            if S['samplers_static'][k]['comb']:
                wk = a0['samplers'][k][2]
            changed = [nm for nm, ok in (('temperature', t == w['temperature']), ('hard', h == w['hard']), ('sampler', kind == wk)) if not ok]
            for nm in changed:
                fails.append(('option-reset:%s:%s->%s' % (method, given, nm),
                              '%s: update_softmax_options(%s) left %s = %s, the options set so far require %s' % (
                                  S['sampler_names'][k], op[1], nm, {'temperature': t, 'hard': h, 'sampler': ['sm', 'gs', 'none'][kind]}[nm],
                                  {'temperature': w['temperature'], 'hard': w['hard'], 'sampler': ['sm', 'gs', 'none'][wk]}[nm])))
    else:
        if a1['samplers'] != a0['samplers']:
            fails.append(('option-changed-by:%s:%s' % (method, op[0]), 'sampling options changed under %s' % M.op_name(op)))
    return fails


# ----------------------------------------------------------------------------- exploration of one prototype
def explore(args):
    proto, thorough, maxlen, seed = args
    torch = setup_torch()
    E = M.env()
    method, model, x = M.build(proto, E, seed)
    S = M.describe(method, model, x)
    S['tied'] = M.tied_masks(proto, model, S)
    S['strided'] = M.strided_masks(proto, model, S)
    ops = M.alphabet(method, thorough)
    a_init = M.observe(model, S)
    # one real object per prototype; a state is re-entered by restoring the reset point taken when it was first reached
    snaps = {M.akey(a_init): (M.snapshot(model), [], want_init(S, a_init))}
    states = {M.akey(a_init): a_init}
    frontier = [M.akey(a_init)]
    trans = []     # dict(path, op, a0, a1, obs, exc)
    fails = []
    for f in oracle(S, proto, [], ['init'], a_init, a_init, None, None):
        fails.append((f[0], f[1], [], ['init']))
    depth_states = [1]
    for depth in range(1, maxlen + 1):
        nxt = []
        for key in frontier:
            snap, path, want = snaps[key]
            a0 = states[key]
            for op in ops:
                M.restore(snap)
                exc = None
                obs = None
                try:
                    obs = M.apply_op(model, x, S, op)
                    a1 = M.observe(model, S)
                    probe = M.mask_update_probe(model, x, S) if op[0] == 'fb' else None
                except Exception as ex:   # an exception is an observation
                    exc = 'EXC:%s:%s' % (type(ex).__name__, str(ex)[:120])
                    a1 = None
                if exc is not None:
                    trans.append({'path': path, 'op': op, 'a0': a0, 'a1': None, 'obs': None, 'exc': exc})
                    fails.append(('op-raises:%s:%s' % (method, op[0]), '%s raised %s' % (M.op_name(op), exc), path, op))
                    continue
                want1 = want_after(S, want, op)
                trans.append({'path': path, 'op': op, 'a0': a0, 'a1': a1, 'obs': obs, 'exc': None})
                for k, what in oracle(S, proto, path, op, a0, a1, obs, want1, probe):
                    fails.append((k, what, path, op))
                k1 = M.akey(a1)
                if k1 not in snaps:
                    snaps[k1] = (M.snapshot(model), path + [op], want1)
                    states[k1] = a1
                    nxt.append(k1)
        frontier = nxt
        depth_states.append(len(nxt))
        if not frontier:
            break
    closed = not frontier
    # strip objects before returning to the parent
    return {'proto': proto, 'method': method, 'S': S, 'init': a_init, 'trans': trans, 'fails': fails,
            'n_states': len(states), 'closed': closed, 'depth_states': depth_states, 'n_ops': len(ops)}


def run(ctx):
    gen_rejected = c11_gen.regenerate(ctx)
    built = ctx.build()
    ctx.extra['generated_model'] = c11_gen.status(gen_rejected, built)
    protos = M.PROTOS_QUICK if ctx.quick else M.PROTOS_THOROUGH
    ctx.rule = ('prototypes %s; breadth-first over ALL sequences of length <= %d (continued until no new abstract state appears: closure) of the op alphabet {train_nas_only, train_net_only, train_net_and_nas, '
                'train_features/rf/dilation/discrete_cost (PIT) / train_selection (SuperNet) := T/F, update_softmax_options with each single option '
                '(MPS: temperature 0.5/4, hard, gumbel, disable_sampling; SuperNet: temperature, hard), forward+backward of loss+cost}, deduplicated on the abstract state; '
                'every transition from every distinct abstract state is executed on the real object reset to that state; '
                'a case = one transition; non-trivial = the abstract state or the grad pattern is not the initial one; distinct = (prototype, source state, op)' % (protos, MAXLEN))
    t_ex = time.time()
    with ProcessPoolExecutor(min(len(protos), NPROC)) as ex:
        res = list(ex.map(explore, [(p, not ctx.quick, CAP, ctx.seed) for p in protos]))

    ctx.extra['wall_explore_s'] = round(time.time() - t_ex, 1)
    # ---- cases + oracle
    allfails = []
    for r in res:
        S = r['S']
        for t in r['trans']:
            nontriv = t['a1'] is not None and (M.akey(t['a1']) != M.akey(r['init']) or t['obs'] is not None)
            ctx.case((r['proto'], M.akey(t['a0']), json.dumps(t['op'], sort_keys=True)), nontrivial=nontriv, kind='%s:%s' % (r['method'], t['op'][0]),
                     sample={'prototype': r['proto'], 'path': [M.op_name(o) for o in t['path']], 'op': M.op_name(t['op']),
                             'trainable_after': None if t['a1'] is None else [n for n, g in zip(S['names'], t['a1']['rg']) if g][:8]})
        for f in r['fails']:
            allfails.append((r, f))
        ctx.extra.setdefault('exploration', {})[r['proto']] = {'abstract_states': r['n_states'], 'transitions': len(r['trans']), 'closed': r['closed'],
                                                               'new_states_per_depth': r['depth_states'], 'ops': r['n_ops'],
                                                               'frozen': [n for n, c in zip(S['names'], S['frozen']) if c], 'io_tied_layers_by_dataflow': [ln for ln, _ in S.get('tied', [])], 'strided_conv1d_by_dataflow': sorted({ln for ln, _, _ in S.get('strided', [])}), 'tensors': len(S['names']), 'samplers': len(S['sampler_names'])}
    ctx.exhaustive = True
    ctx.extra['exhaustive_part'] = 'all op sequences over the alphabet, per prototype, modulo the abstract state: every transition of every reachable abstract state (closed = no new state at the last depth; depth >= %d always)' % MAXLEN
    if not all(r['closed'] or len(r['depth_states']) > MAXLEN for r in res):
        ctx.exhaustive = False
    ctx.assumptions += ['the structural dependency bit p_reads of non-frozen tensors is measured once on the prototype (everything trainable); for frozen feature maskers it is false by construction',
                        'forward+backward in states with disabled sampling detaches the stale sampled coefficients first (sampling semantics are C10\'s subject)']
    for r, (key, what, path, op) in allfails:
        ctx.violation(key, {'prototype': r['proto'], 'path': path, 'op': op, 'seed': ctx.seed}, '%s [prototype %s, after %s]' % (what, r['proto'], [M.op_name(o) for o in path]))

    # ---- model evaluation in Coq
    mism = []
    model_ok = built
    t_coq = time.time()
    if built:
        try:
            defs = ''
            init_exprs, checks, meta = [], [], []
            for ri, r in enumerate(res):
                S = r['S']
                defs += 'Definition st_%d : tstate := %s.\n' % (ri, M.state_coq(S, r['init']))
                init_exprs.append('(wfb st_%d, view false st_%d)' % (ri, ri))
                for t in r['trans']:
                    if t['a1'] is None:
                        continue
                    a1 = t['a1']
                    e_flags = [bool(f) if f is not None else bool(i0) for f, i0 in zip(a1['flags'], r['init']['flags'])]
                    it = iter(a1['ldisc'])
                    e_disc = [next(it) if has else False for has in S['layer_has_disc']]
                    e_samp = [((sv[0].numerator, sv[0].denominator), sv[1], sv[2]) for sv in a1['samplers']]
                    e_obs = [] if t['obs'] is None else [c != 0 for c in t['obs']]
                    checks.append('check_step false st_%d [%s] %s %s %s %s %s %s' % (
                        ri, '; '.join(M.op_coq(o) for o in t['path']), M.op_coq(t['op']), coq(list(a1['rg'])), coq(e_flags), coq(e_disc), coq(e_samp), coq(e_obs)))
                    meta.append((ri, r, t))
            ivals = ctx.coq_eval('init', ['Plinio.Model.Train'], defs, init_exprs)
            for r, v in zip(res, ivals):
                ctx.corr += 1
                d = diff_view(r['S'], v[1], r['init'], r['init'])
                if v[0] is not True or d:
                    mism.append(('initial-state', r['proto'], [], ['init'], 'wfb=%r %s' % (v[0], d)))
            # one vm_compute per shard: the comparison is made inside Coq, only the failing indices come back
            SH = 300
            shards = [checks[i:i + SH] for i in range(0, len(checks), SH)]
            svals = ctx.coq_eval_sharded('cases', ['Plinio.Model.Train'], defs, ['bad_indices [%s]' % ';\n '.join(c) for c in shards], shard=1) if shards else []
            bad = []
            for si, (n, idx) in enumerate(svals):
                if n != len(shards[si]):
                    raise RuntimeError('shard %d: %d results for %d cases' % (si, n, len(shards[si])))
                ctx.corr += n
                bad += [si * SH + i for i in idx]
            ctx.corr += sum(1 for _, _, t in meta if t['obs'] is not None)     # the grad pattern is a second observable of a fb transition
            mism += c11_gen.correspond(ctx, defs, res, ivals, checks, meta, bad)      # the model GENERATED from the source on this run
            if bad:
                # details of the first disagreements: let the model print its view
                show = bad[:12]
                exprs = ['run_step false (run false [%s] st_%d) %s' % ('; '.join(M.op_coq(o) for o in meta[i][2]['path']), meta[i][0], M.op_coq(meta[i][2]['op'])) for i in show]
                vals = ctx.coq_eval('details', ['Plinio.Model.Train'], defs, exprs)
                for i, v in zip(show, vals):
                    ri, r, t = meta[i]
                    S = r['S']
                    view, obs = v[:4], v[4]
                    d = diff_view(S, view, t['a1'], r['init'])
                    if not d and t['obs'] is not None:
                        mo = [bool(b) for _, b in obs]
                        io = [c != 0 for c in t['obs']]
                        d = 'grad pattern: ' + str([(S['names'][k], 'impl grad, model none' if io[k] else 'impl no grad, model grad') for k in range(len(io)) if mo[k] != io[k]][:6])
                    mism.append(('transition', r['proto'], t['path'], t['op'], d or 'check_step = false'))
                for i in bad[12:]:
                    ri, r, t = meta[i]
                    mism.append(('transition', r['proto'], t['path'], t['op'], '(not expanded)'))
        except RuntimeError as ex:
            model_ok = False
            ctx.notes.append('model evaluation failed: ' + str(ex)[-800:])

    if not ctx.violations:   # a printed KNOWN-FINDING must not hide a broken proof / model / correspondence
        if c11_gen.report(ctx, gen_rejected, built):
            pass
        elif not built:
            ctx.violation('proof-broken', {'theorems': [o[0] for o in ctx.obligations if not o[1]], 'log': getattr(ctx, 'broken_log', '')[-3000:]}, 'Props/C11.v no longer checks', no_input=True)
        elif not model_ok:
            ctx.violation('model-eval-broken', {'notes': ctx.notes}, 'the model could not be evaluated', no_input=True)
        elif mism:
            what, proto, path, op, d = mism[0]
            ctx.violation('correspondence-broken', {'what': what, 'prototype': proto, 'path': path, 'op': op, 'seed': ctx.seed, 'difference': d, 'n_mismatches': len(mism),
                                                    'correspondence': 'Model/Train.v vs the real object'},
                          'model and implementation disagree on %d transitions (first: %s, prototype %s, after %s, op %s: %s) but the property oracle found no failing input'
                          % (len(mism), what, proto, [M.op_name(o) for o in path], M.op_name(op), d), no_input=True)
    ctx.extra['wall_coq_eval_s'] = round(time.time() - t_coq, 1)
    ctx.extra['model_impl_mismatches'] = len(mism)
    if mism:
        ctx.notes.append('first mismatches: %r' % (mism[:3],))


def diff_view(S, view, a, a_init):
    """model view vs implementation abstract state -> description of the first difference or ''"""
    rg, (nas, net), (flags, ldisc), samp = view
    mrg = tuple(bool(b) for _, b in rg)
    if mrg != a['rg']:
        return 'requires_grad: ' + str([(S['names'][k], 'model %s impl %s' % (mrg[k], a['rg'][k])) for k in range(len(mrg)) if mrg[k] != a['rg'][k]][:6])
    if tuple(nas) != a['nas'] or tuple(net) != a['net']:
        return 'groups: model nas %s net %s, impl nas %s net %s' % (nas, net, a['nas'], a['net'])
    for k, f in enumerate(a['flags']):
        if f is not None and bool(flags[k]) != f:
            return 'switch %d: model %s impl %s' % (k, flags[k], f)
    mld = tuple(bool(b) for b, has in zip(ldisc, S['layer_has_disc']) if has)
    if mld != a['ldisc']:
        return 'per-layer discrete_cost: model %s impl %s' % (mld, a['ldisc'])
    ms = tuple((Fraction(s[0], s[1]), bool(s[2]), int(s[3])) for s in samp)
    if ms != a['samplers']:
        return 'samplers: ' + str([(S['sampler_names'][k], 'model %s impl %s' % (ms[k], a['samplers'][k])) for k in range(len(ms)) if ms[k] != a['samplers'][k]][:4])
    return ''


def same_view(S, view, a, a_init):
    return diff_view(S, view, a, a_init) == ''


def replay(r):
    """re-executes the path + op of a replay file on a fresh real object and evaluates the property on the last transition"""
    print(json.dumps({k: r.get(k) for k in ('property', 'key', 'prototype', 'path', 'op', 'what')}, indent=1)[:3000])
    if 'prototype' not in r or r.get('no_failing_input_found') and 'op' not in r:
        print('no input to replay (proof / model-evaluation problem)')
        return 1
    setup_torch()
    E = M.env()
    method, model, x = M.build(r['prototype'], E, r.get('seed', 0))
    S = M.describe(method, model, x)
    S['tied'] = M.tied_masks(r['prototype'], model, S)
    S['strided'] = M.strided_masks(r['prototype'], model, S)
    a = M.observe(model, S)
    want = want_init(S, a)
    fails = []
    if r['op'] == ['init']:
        fails = oracle(S, r['prototype'], [], ['init'], a, a, None, None)
    for k, op in enumerate(list(r['path']) + [r['op']]):
        if op == ['init']:
            continue
        a0 = a
        try:
            obs = M.apply_op(model, x, S, op)
        except Exception as ex:
            print('%s raised %s: %s' % (M.op_name(op), type(ex).__name__, ex))
            return 1
        a = M.observe(model, S)
        want = want_after(S, want, op)
        if k == len(r['path']):
            probe = M.mask_update_probe(model, x, S) if op[0] == 'fb' else None
            fails = oracle(S, r['prototype'], r['path'], op, a0, a, obs, want, probe)
        print('after %-40s trainable: %s   samplers: %s' % (M.op_name(op), [n for n, g in zip(S['names'], a['rg']) if g and ('masker' in n or 'alpha' in n)],
                                                           [(n.split('.')[-2] + '.' + n.split('.')[-1], ['sm', 'gs', 'none'][s[2]], float(s[0]), s[1]) for n, s in zip(S['sampler_names'], a['samplers'])][:3]))
    print('property C11 requires: groups partition the parameters; train_* make exactly the named group trainable; a switch := b sets every non-frozen mask of its kind (every layer\'s discrete_cost) to b; frozen masks %s never trainable and never get a gradient; '
          'an update of one sampling option keeps the others' % [n for n, c in zip(S['names'], S['frozen']) if c])
    for k, what in fails:
        print('FAILS  %s: %s' % (k, what))
    if not fails:
        print('holds on this case')
    return 1 if fails else 0
